(* Invariants of the shape evaluator (Shapes/Eval.v). *)
From Coq Require Import List NArith ZArith Bool Arith Lia.
From Verif Require Import Base.SetList Base.Terms Base.Vocab Paths.Path Shapes.AST Shapes.Leaf Shapes.Eval.
Import ListNotations.

(* ---------------- monad plumbing ---------------- *)
Section WithTrig.
Variable trig : trig_t.
Variable W : world.

Lemma bind_ok {A B} (r:res A) (k:A -> res B) b : bind r k = Ok b -> exists a, r = Ok a /\ k a = Ok b.
Proof. destruct r; simpl; [eauto|discriminate]. Qed.

Lemma mapM_ext {A B} (f f':A -> res B) l : (forall x, In x l -> f x = f' x) -> mapM f l = mapM f' l.
Proof.
  induction l as [|x xs IH]; simpl; intros H; [reflexivity|].
  rewrite (H x (or_introl eq_refl)), IH; auto.
Qed.

Lemma mapM_in {A B} (f:A -> res B) l ys : mapM f l = Ok ys ->
  forall y, In y ys -> exists x, In x l /\ f x = Ok y.
Proof.
  intros H. apply mapM_ok in H. induction H as [|x y l ys Hxy _ IH]; intros z; simpl; [tauto|].
  intros [<-|Hz]; [eauto|]. destruct (IH z Hz) as (x' & Hx' & E). eauto.
Qed.

Lemma in_concat_iff {A} (ls:list (list A)) x : In x (concat ls) <-> exists l, In l ls /\ In x l.
Proof. apply in_concat. Qed.

Lemma for_values_ext {A} fvs (k k':term -> term -> res (list A)) :
  (forall f v, k f v = k' f v) -> for_values fvs k = for_values fvs k'.
Proof.
  intros H. unfold for_values. f_equal. apply mapM_ext. intros [f vs] _. simpl.
  f_equal. apply mapM_ext. intros v _. apply H.
Qed.

Lemma for_values_in {A} fvs (k:term -> term -> res (list A)) out : for_values fvs k = Ok out ->
  forall x, In x out -> exists f vs v l, In (f, vs) fvs /\ In v vs /\ k f v = Ok l /\ In x l.
Proof.
  unfold for_values. intros H x Hx.
  apply bind_ok in H as (ls & Hm & E). injection E as <-.
  apply in_concat_iff in Hx as (l & Hl & Hx).
  destruct (mapM_in _ _ _ Hm l Hl) as ([f vs] & Hfv & E). simpl in E.
  apply bind_ok in E as (ls2 & Hm2 & E2). injection E2 as <-.
  apply in_concat_iff in Hx as (l2 & Hl2 & Hx).
  destruct (mapM_in _ _ _ Hm2 l2 Hl2) as (v & Hv & E3).
  exists f, vs, v, l2. auto.
Qed.

Lemma concatM_map_ext {A B} (f f':A -> res (list B)) l :
  (forall x, In x l -> f x = f' x) -> concatM (map f l) = concatM (map f' l).
Proof.
  intros H. unfold concatM. f_equal. induction l as [|x xs IH]; simpl; [reflexivity|].
  rewrite (H x (or_introl eq_refl)). destruct (f' x); simpl; [|reflexivity].
  rewrite IH; auto. intros y Hy. apply H. right; auto.
Qed.

(* ---------------- conform <-> no results ---------------- *)
Definition good (cr:cres) : Prop := fst cr = true <-> snd cr = [].

Lemma reported_good rs : good (reported rs).
Proof. unfold good, reported; simpl. destruct rs; simpl; split; congruence. Qed.

Lemma trivially_good : good (true, []).
Proof. unfold good; simpl; tauto. Qed.

Lemma bind_reported (r:res (list vresult)) cr :
  bind r (fun rs => Ok (reported rs)) = Ok cr -> good cr.
Proof. intros H. apply bind_ok in H as (rs & _ & E). injection E as <-. apply reported_good. Qed.

Lemma bind_reported' {A} (r:res A) (F:A -> list vresult) cr :
  bind r (fun x => Ok (reported (F x))) = Ok cr -> good cr.
Proof. intros H. apply bind_ok in H as (x & _ & E). injection E as <-. apply reported_good. Qed.

Definition nested_good (nested:nested_t) : Prop := forall s v ep cr, nested s v ep = Ok cr -> good cr.

Lemma forall_good_flat crs : Forall good crs -> (forallb fst crs = true <-> flat_map snd crs = []).
Proof.
  induction 1 as [|x xs Hx _ IH]; simpl; [tauto|].
  rewrite andb_true_iff. red in Hx. split.
  - intros [a b]. apply Hx in a. rewrite a. simpl. tauto.
  - intros Happ. apply app_eq_nil in Happ as [a b]. split; [apply Hx; auto | tauto].
Qed.

Lemma evalc_good nested g E s fvs ep c cr :
  nested_good nested -> evalc trig W nested g E s fvs ep c = Ok cr -> good cr.
Proof.
  intros Hn. destruct c; cbn [evalc].
  - intros [= <-]. apply reported_good.
  - apply bind_reported.
  - apply bind_reported.
  - apply bind_reported.
  - apply bind_reported.
  - destruct (value_count fvs <? 1); [intros [= <-]; apply trivially_good|]. apply bind_reported.
  - destruct (value_count fvs <? 1); [intros [= <-]; apply trivially_good|].
    intros H. apply bind_ok in H as (crss & Hm & Eq). injection Eq as <-.
    unfold good; simpl. apply forall_good_flat. apply Forall_forall. intros cr Hcr.
    apply in_concat_iff in Hcr as (l & Hl & Hcr).
    destruct (mapM_in _ _ _ Hm l Hl) as (r & _ & Er).
    destruct (lookup E r) as [ps|]; [|discriminate].
    destruct (in_triggers _ ps); [injection Er as <-; destruct Hcr|].
    destruct (negb (is_property_shape ps)); [discriminate|].
    destruct (for_values_in _ _ _ Er cr Hcr) as (f & vs & v & l2 & _ & _ & Ek & Hin).
    apply bind_ok in Ek as (cr2 & En & E2). injection E2 as <-. destruct Hin as [<-|[]]. eapply Hn; eauto.
  - destruct (_ && _ && _); [intros [= <-]; apply trivially_good|]. apply bind_reported.
  - destruct (negb closed); [intros [= <-]; apply trivially_good|]. apply bind_reported'.
  - intros [= <-]. apply reported_good.
  - destruct (cc_val cc); [intros [= <-]; apply reported_good|apply bind_reported].
Qed.

(* the constraint loop of a nested evaluation keeps `non_conformant <-> some report` *)
Lemma loop_good o s ev : (forall c r, ev c = Ok r -> good r) ->
  forall cs nc nw acc r, (nc = false <-> acc = []) -> loop o false s ev cs nc nw acc = Ok r -> good r.
Proof.
  intros Hev. induction cs as [|c cs IH]; intros nc nw acc r Hinv; cbn [loop].
  - intros [= <-]. red; simpl. rewrite negb_true_iff. exact Hinv.
  - assert (Hstep : bind (ev c) (fun cr =>
        let nc' := nc || negb (fst cr) in
        let nw' := if fst cr then nw else nw || isnil (e_allowed o) || negb (all_waived o (snd cr)) in
        let acc' := acc ++ snd cr in
        if nw' && e_abort o then Ok (negb nc', acc') else loop o false s ev cs nc' nw' acc') = Ok r -> good r).
    { intros H. apply bind_ok in H as (cr & Ec & H). apply Hev in Ec. red in Ec.
      assert (Hinv' : nc || negb (fst cr) = false <-> acc ++ snd cr = []).
      { destruct (fst cr) eqn:Ef; simpl.
        - destruct Ec as [Ec _]. rewrite (Ec eq_refl), app_nil_r, orb_false_r. exact Hinv.
        - rewrite orb_true_r. split; [discriminate|].
          intros Happ. apply app_eq_nil in Happ as [_ b]. apply Ec in b. discriminate. }
      cbv zeta in H. destruct (_ && e_abort o).
      - injection H as <-. red; simpl. rewrite negb_true_iff. exact Hinv'.
      - eapply IH; eauto. }
    destruct c; try exact Hstep. destruct (spath s); [exact Hstep|]. apply IH; auto.
Qed.

Theorem vshape_good o g E : forall fuel ep s foci cr,
  vshape trig W fuel o g E false ep s foci = Ok cr -> good cr.
Proof.
  induction fuel as [|fuel IH]; intros ep s foci cr; cbn [vshape];
    (destruct (deact s); [intros [= <-]; apply trivially_good|]);
    (destruct (isnil foci); [intros [= <-]; apply trivially_good|]);
    (destruct (_ && _); [discriminate|]); [discriminate|].
  intros H. apply bind_ok in H as (fvs & _ & H).
  eapply loop_good; [|split; reflexivity|exact H].
  intros c r. apply evalc_good. intros s' v ep' cr'. apply IH.
Qed.

(* ---------------- the verdict of a directly validated shape (severity waivers) ---------------- *)
Lemma all_waived_app o a b : all_waived o (a ++ b) = all_waived o a && all_waived o b.
Proof. apply forallb_app. Qed.

Lemma all_waived_none o rs : e_allowed o = [] -> rs <> [] -> all_waived o rs = false.
Proof. intros Ha Hr. destruct rs as [|r rs]; [congruence|]. unfold all_waived, waived. simpl. rewrite Ha. reflexivity. Qed.

Lemma loop_top_verdict o s ev : (forall c r, ev c = Ok r -> good r) ->
  forall cs nc nw acc r, nw = negb (all_waived o acc) -> loop o true s ev cs nc nw acc = Ok r ->
  fst r = all_waived o (snd r).
Proof.
  intros Hev. induction cs as [|c cs IH]; intros nc nw acc r Hinv; cbn [loop].
  - intros [= <-]. simpl. rewrite Hinv, negb_involutive. reflexivity.
  - assert (Hstep : bind (ev c) (fun cr =>
        let nc' := nc || negb (fst cr) in
        let nw' := if fst cr then nw else nw || isnil (e_allowed o) || negb (all_waived o (snd cr)) in
        let acc' := acc ++ snd cr in
        if nw' && e_abort o then Ok (negb nw', acc') else loop o true s ev cs nc' nw' acc') = Ok r ->
        fst r = all_waived o (snd r)).
    { intros H. apply bind_ok in H as (cr & Ec & H). apply Hev in Ec. red in Ec. cbv zeta in H.
      assert (Hinv' : (if fst cr then nw else nw || isnil (e_allowed o) || negb (all_waived o (snd cr)))
                      = negb (all_waived o (acc ++ snd cr))).
      { rewrite all_waived_app. destruct (fst cr) eqn:Ef.
        - destruct Ec as [Ec _]. rewrite (Ec eq_refl). simpl. rewrite andb_true_r. exact Hinv.
        - assert (Hne : snd cr <> []) by (intros Hn; apply Ec in Hn; discriminate).
          rewrite Hinv. destruct (e_allowed o) eqn:Ea; simpl.
          + rewrite (all_waived_none o (snd cr) Ea Hne). rewrite orb_true_r, andb_false_r. reflexivity.
          + rewrite orb_false_r, negb_andb. reflexivity. }
      destruct (_ && e_abort o).
      - injection H as <-. simpl. rewrite Hinv', negb_involutive. reflexivity.
      - eapply IH; eauto. }
    destruct c; try exact Hstep. destruct (spath s); [exact Hstep|]. apply IH; auto.
Qed.

Theorem vshape_top_verdict o g E fuel s foci cr :
  vshape trig W fuel o g E true [] s foci = Ok cr -> fst cr = all_waived o (snd cr).
Proof.
  destruct fuel as [|fuel]; cbn [vshape];
    (destruct (deact s); [intros [= <-]; reflexivity|]);
    (destruct (isnil foci); [intros [= <-]; reflexivity|]);
    cbn [negb andb]; [discriminate|]. intros H. apply bind_ok in H as (fvs & _ & H).
  refine (loop_top_verdict o s _ _ (scomps s) false false [] cr eq_refl H).
  intros c r. apply evalc_good. intros s' v ep' cr'. apply vshape_good.
Qed.

Lemma validate_top_verdict o sg g E s explicit cr :
  validate_top trig W o sg g E s explicit = Ok cr -> fst cr = all_waived (eopts_of o) (snd cr).
Proof.
  unfold validate_top. destruct (deact s); [intros [= <-]; reflexivity|].
  destruct explicit as [foci|].
  - apply vshape_top_verdict.
  - destruct (isnil (focus_nodes sg g s)); [intros [= <-]; reflexivity|].
    destruct (focus_filter o); [apply vshape_top_verdict|].
    destruct (isnil _); [intros [= <-]; reflexivity|apply vshape_top_verdict].
Qed.

Lemma run_shapes_verdict o sg g E explicit : forall shapes nc acc cr,
  nc = negb (all_waived (eopts_of o) acc) ->
  run_shapes trig W o sg g E shapes explicit nc acc = Ok cr -> fst cr = all_waived (eopts_of o) (snd cr).
Proof.
  induction shapes as [|s rest IH]; intros nc acc cr Hinv; cbn [run_shapes].
  - intros [= <-]. simpl. rewrite Hinv, negb_involutive. reflexivity.
  - intros H. apply bind_ok in H as (cr1 & E1 & H). apply validate_top_verdict in E1. cbv zeta in H.
    assert (Hinv' : nc || negb (fst cr1) = negb (all_waived (eopts_of o) (acc ++ snd cr1))).
    { rewrite all_waived_app, E1, Hinv, negb_andb. reflexivity. }
    destruct (abort o && _).
    + injection H as <-. simpl. rewrite Hinv', negb_involutive. reflexivity.
    + eapply IH; eauto.
Qed.

(* The verdict is 'conforms' exactly when every reported top-level result has a waived
   severity; with no waiver: exactly when there is no result. Holds with and without abort_on_first. *)
Theorem validate_verdict o sg g E c rs :
  validate trig W o sg g E = Ok (c, rs) -> c = all_waived (eopts_of o) rs.
Proof. intros H. apply (run_shapes_verdict o sg g E None E false [] (c, rs) eq_refl H). Qed.

Corollary validate_verdict_default o sg g E c rs :
  allow_infos o = false -> allow_warnings o = false ->
  validate trig W o sg g E = Ok (c, rs) -> (c = true <-> rs = []).
Proof.
  intros Hi Hw H. apply validate_verdict in H. subst c.
  destruct rs as [|r rs]; [simpl; tauto|].
  rewrite all_waived_none; [split; discriminate| |discriminate].
  unfold eopts_of, allowed_severities. simpl. rewrite Hi, Hw. reflexivity.
Qed.

End WithTrig.
