(* C13: focus_nodes / use_shapes select a sub-report of the full validation. *)
From Coq Require Import List NArith ZArith Bool Arith Lia.
From Verif Require Import Base.SetList Base.Terms Base.Vocab Paths.Path
  Shapes.AST Shapes.Leaf Shapes.Eval Shapes.EvalProofs Shapes.EvalRel Shapes.DepthProofs Shapes.EvalExt
  Shapes.TargetProofs.
Import ListNotations.

(* ---------------- target declarations are invisible to the evaluator ---------------- *)
(* h rewrites target declarations only *)
Definition same_but_targets (h:shape -> shape) : Prop :=
  forall s, sid (h s) = sid s /\ spath (h s) = spath s /\ deact (h s) = deact s
            /\ ssev (h s) = ssev s /\ scomps (h s) = scomps s /\ smsgs (h s) = smsgs s.

Section Strip.
Variable trig : trig_t.
Variable W : world.
Variable h : shape -> shape.
Hypothesis Hh : same_but_targets h.

Lemma lookup_map E r : lookup (map h E) r = option_map h (lookup E r).
Proof.
  induction E as [|s E IH]; simpl; [reflexivity|].
  destruct (Hh s) as (-> & _). destruct (term_eqb (sid s) r); [reflexivity|exact IH].
Qed.

Lemma prop_refs_h s : prop_refs (h s) = prop_refs s.
Proof. unfold prop_refs. destruct (Hh s) as (_ & _ & _ & _ & -> & _). reflexivity. Qed.
Lemma qual_refs_h s : qual_refs (h s) = qual_refs s.
Proof. unfold qual_refs. destruct (Hh s) as (_ & _ & _ & _ & -> & _). reflexivity. Qed.
Lemma is_property_shape_h s : is_property_shape (h s) = is_property_shape s.
Proof. unfold is_property_shape. destruct (Hh s) as (_ & -> & _). reflexivity. Qed.
Lemma mk_h s c f v d : mk (h s) c f v d = mk s c f v d.
Proof. unfold mk, mkp, shape_rpath. destruct (Hh s) as (-> & -> & _ & -> & _ & ->). reflexivity. Qed.
Lemma shape_rpath_h s : shape_rpath (h s) = shape_rpath s.
Proof. unfold shape_rpath. destruct (Hh s) as (_ & -> & _). reflexivity. Qed.
Lemma mkm_h s c f v p m : mkm (h s) c f v p m = mkm s c f v p m.
Proof. unfold mkm. destruct (Hh s) as (-> & _ & _ & -> & _ & ->). reflexivity. Qed.
Lemma in_triggers_h pr s : in_triggers pr (h s) = in_triggers pr s.
Proof. unfold in_triggers. destruct (Hh s) as (-> & _). reflexivity. Qed.

Lemma flat_map_map {A B C} (f:A -> B) (k:B -> list C) l : flat_map k (map f l) = flat_map (fun x => k (f x)) l.
Proof. induction l; simpl; congruence. Qed.

Lemma filter_map_h (p:shape -> bool) E : (forall s, p (h s) = p s) -> filter p (map h E) = map h (filter p E).
Proof. intros Hp. induction E as [|s E IH]; simpl; [reflexivity|]. rewrite Hp. destruct (p s); simpl; congruence. Qed.

Lemma sibling_refs_map E self v : sibling_refs (map h E) self v = sibling_refs E self v.
Proof.
  unfold sibling_refs. f_equal. f_equal.
  rewrite filter_map_h by (intros s; rewrite prop_refs_h; reflexivity).
  rewrite flat_map_map. apply flat_map_ext. intros p. rewrite prop_refs_h.
  apply flat_map_ext. intros r. rewrite lookup_map. destruct (lookup E r); simpl; [apply qual_refs_h|reflexivity].
Qed.

Lemma lookup_all_map E refs : lookup_all (map h E) refs = match lookup_all E refs with Ok l => Ok (map h l) | Err e => Err e end.
Proof.
  unfold lookup_all. induction refs as [|r refs IH]; [reflexivity|].
  cbn [mapM]. rewrite IH, lookup_map. destruct (lookup E r) as [s|]; cbn [option_map bind]; [|reflexivity].
  destruct (mapM (fun r0 => match lookup E r0 with Some s0 => Ok s0 | None => Err Reportable end) refs); reflexivity.
Qed.

Lemma mapM_map {A B C} (f:B -> res C) (k:A -> B) l : mapM f (map k l) = mapM (fun x => f (k x)) l.
Proof. induction l as [|x xs IH]; simpl; [reflexivity|]. rewrite IH. reflexivity. Qed.

Lemma evalc_map (n n':nested_t) g E s fvs ep c :
  (forall s' v, n' (h s') v ep = n s' v ep) ->
  evalc trig W n' g (map h E) (h s) fvs ep c = evalc trig W n g E s fvs ep c.
Proof.
  intros Hn. destruct (Hh s) as (Hsid & _). destruct c; cbn [evalc]; rewrite ?Hsid.
  - f_equal. f_equal. apply flat_map_ext. intros fv. apply map_ext. intros b. apply mk_h.
  - f_equal. apply concatM_map_ext_in. intros r _. rewrite lookup_map.
    destruct (lookup E r) as [ns|]; simpl; [|reflexivity]. rewrite in_triggers_h.
    destruct (in_triggers _ ns); [reflexivity|]. apply for_values_ext'. intros f v. rewrite Hn.
    apply bind_ext. intros cr. rewrite mk_h. reflexivity.
  - f_equal. apply concatM_map_ext_in. intros members _. cbv zeta.
    destruct (isnil _); [reflexivity|]. rewrite lookup_all_map. destruct (lookup_all E _) as [shapes|]; simpl; [|reflexivity].
    apply for_values_ext'. intros f v. rewrite mapM_map.
    rewrite (mapM_ext_in (fun x => n' (h x) v ep) (fun ns => n ns v ep)) by (intros; apply Hn).
    apply bind_ext. intros crs. rewrite mk_h. reflexivity.
  - f_equal. apply concatM_map_ext_in. intros members _. cbv zeta.
    destruct (isnil _); [reflexivity|]. rewrite lookup_all_map. destruct (lookup_all E _) as [shapes|]; simpl; [|reflexivity].
    apply for_values_ext'. intros f v. rewrite mapM_map.
    rewrite (mapM_ext_in (fun x => n' (h x) v ep) (fun ns => n ns v ep)) by (intros; apply Hn).
    apply bind_ext. intros crs. rewrite mk_h. reflexivity.
  - f_equal. apply concatM_map_ext_in. intros members _.
    destruct (isnil _); [reflexivity|]. rewrite lookup_all_map. destruct (lookup_all E _) as [shapes|]; simpl; [|reflexivity].
    apply for_values_ext'. intros f v. rewrite mapM_map.
    rewrite (mapM_ext_in (fun x => n' (h x) v ep) (fun ns => n ns v ep)) by (intros; apply Hn).
    apply bind_ext. intros crs. rewrite mk_h. reflexivity.
  - destruct (value_count fvs <? 1); [reflexivity|].
    f_equal. apply concatM_map_ext_in. intros r _. rewrite lookup_map.
    destruct (lookup E r) as [ns|]; simpl; [|reflexivity]. rewrite in_triggers_h, is_property_shape_h.
    destruct (in_triggers _ ns); [reflexivity|]. destruct (is_property_shape ns); [reflexivity|].
    apply for_values_ext'. intros f v. rewrite Hn. apply bind_ext. intros cr. rewrite mk_h. reflexivity.
  - destruct (value_count fvs <? 1); [reflexivity|].
    f_equal. apply mapM_ext_in. intros r _. rewrite lookup_map.
    destruct (lookup E r) as [ns|]; simpl; [|reflexivity]. rewrite in_triggers_h, is_property_shape_h.
    destruct (in_triggers _ ns); [reflexivity|]. destruct (negb (is_property_shape ns)); [reflexivity|].
    apply for_values_ext'. intros f v. rewrite Hn. reflexivity.
  - destruct (_ && _ && _); [reflexivity|].
    f_equal. apply concatM_map_ext_in. intros r _. rewrite lookup_map.
    destruct (lookup E r) as [qs|]; simpl; [|reflexivity]. rewrite in_triggers_h.
    destruct (in_triggers _ qs); [reflexivity|].
    assert (Hrest : forall sibs,
      bind (mapM (fun fv =>
              bind (mapM (fun v => bind (n' (h qs) v ep) (fun cr => if fst cr
                      then bind (mapM (fun sib => n' sib v ep) (map h sibs)) (fun scrs => Ok (negb (existsb fst scrs))) else Ok false)) (snd fv))
                   (fun flags =>
                      let k := length (filter (fun b => b) flags) in
                      Ok ((if Zle_opt qmax k Z.ltb then [mk (h s) sh_QualifiedMaxCountConstraintComponent (fst fv) None []] else [])
                          ++ (if match qmin with Some m => (Z.of_nat k <? m)%Z | None => false end
                              then [mk (h s) sh_QualifiedMinCountConstraintComponent (fst fv) None []] else [])))) fvs)
           (fun ls => Ok (concat ls))
      = bind (mapM (fun fv =>
              bind (mapM (fun v => bind (n qs v ep) (fun cr => if fst cr
                      then bind (mapM (fun sib => n sib v ep) sibs) (fun scrs => Ok (negb (existsb fst scrs))) else Ok false)) (snd fv))
                   (fun flags =>
                      let k := length (filter (fun b => b) flags) in
                      Ok ((if Zle_opt qmax k Z.ltb then [mk s sh_QualifiedMaxCountConstraintComponent (fst fv) None []] else [])
                          ++ (if match qmin with Some m => (Z.of_nat k <? m)%Z | None => false end
                              then [mk s sh_QualifiedMinCountConstraintComponent (fst fv) None []] else [])))) fvs)
           (fun ls => Ok (concat ls))).
    { intros sibs. f_equal. apply mapM_ext_in. intros fv _.
      assert (Hm : mapM (fun v => bind (n' (h qs) v ep) (fun cr => if fst cr
                     then bind (mapM (fun sib => n' sib v ep) (map h sibs)) (fun scrs => Ok (negb (existsb fst scrs))) else Ok false)) (snd fv)
                 = mapM (fun v => bind (n qs v ep) (fun cr => if fst cr
                     then bind (mapM (fun sib => n sib v ep) sibs) (fun scrs => Ok (negb (existsb fst scrs))) else Ok false)) (snd fv)).
      { apply mapM_ext_in. intros v _. rewrite Hn. apply bind_ext. intros cr. destruct (fst cr); [|reflexivity].
        rewrite mapM_map. rewrite (mapM_ext_in (fun x => n' (h x) v ep) (fun sib => n sib v ep)) by (intros; apply Hn). reflexivity. }
      rewrite Hm. apply bind_ext. intros flags. cbv zeta. rewrite !mk_h. reflexivity. }
    destruct disjoint.
    + rewrite sibling_refs_map, lookup_all_map.
      destruct (lookup_all E (sibling_refs E (sid s) r)) as [sibs|]; cbn [bind]; [apply Hrest|reflexivity].
    + cbn [bind]. apply (Hrest []).
  - destruct (negb closed); [reflexivity|]. rewrite prop_refs_h.
    assert (Hm : mapM (fun r => match lookup (map h E) r with
                                | Some ps => if is_property_shape ps then Ok ps else Err Reportable
                                | None => Err Reportable end) (prop_refs s)
                 = match mapM (fun r => match lookup E r with
                                | Some ps => if is_property_shape ps then Ok ps else Err Reportable
                                | None => Err Reportable end) (prop_refs s) with Ok l => Ok (map h l) | Err e => Err e end).
    { set (F := fun r => match lookup E r with
                         | Some ps => if is_property_shape ps then Ok ps else Err Reportable
                         | None => Err Reportable end).
      induction (prop_refs s) as [|r refs IH]; [reflexivity|]. cbn [mapM]. rewrite IH, lookup_map. unfold F at 2.
      destruct (lookup E r) as [ps|]; cbn [option_map bind]; [|reflexivity]. rewrite is_property_shape_h.
      destruct (is_property_shape ps); cbn [bind]; [|reflexivity].
      destruct (mapM F refs); reflexivity. }
    rewrite Hm. clear Hm.
    destruct (mapM (fun r => match lookup E r with
                             | Some ps => if is_property_shape ps then Ok ps else Err Reportable
                             | None => Err Reportable end) (prop_refs s)) as [pss|]; cbn [bind]; [|reflexivity].
    f_equal. f_equal. rewrite flat_map_map.
    assert (Hw : flat_map (fun x => match spath (h x) with Some (PPred p) => [IRI p] | _ => [] end) pss
                 = flat_map (fun ps => match spath ps with Some (PPred p) => [IRI p] | _ => [] end) pss).
    { apply flat_map_ext. intros ps. destruct (Hh ps) as (_ & -> & _). reflexivity. }
    rewrite Hw. apply flat_map_ext. intros fv. apply flat_map_ext. intros v. apply flat_map_ext. intros t.
    destruct (_ || _ || _); [reflexivity|]. unfold mkp. destruct (Hh s) as (-> & _ & _ & -> & _ & ->). reflexivity.
  - f_equal. f_equal. apply flat_map_ext. intros sc. destruct (sc_deact sc); [reflexivity|].
    apply flat_map_ext. intros fv. rewrite is_property_shape_h, shape_rpath_h. apply map_ext. intros so.
    rewrite !mkm_h. reflexivity.
  - rewrite is_property_shape_h, shape_rpath_h. destruct (cc_val cc) as [answers|rows].
    + f_equal. f_equal. apply flat_map_ext. intros fv. apply flat_map_ext. intros v.
      destruct (ask_of answers (fst fv) v) as [[[] msgs]|]; try reflexivity. rewrite mkm_h. reflexivity.
    + f_equal. apply concatM_map_ext_in. intros fv _. apply concatM_map_ext_in. intros v _.
      apply concatM_map_ext_in. intros so _.
      destruct (sol_bound so); [rewrite mkm_h; reflexivity|reflexivity].
Qed.

Lemma loop_h o top s ev cs nc nw acc : loop o top (h s) ev cs nc nw acc = loop o top s ev cs nc nw acc.
Proof.
  revert nc nw acc. induction cs as [|c cs IH]; intros; cbn [loop]; [reflexivity|].
  destruct (Hh s) as (_ & -> & _). destruct c; try (apply bind_ext; intros; cbv zeta; rewrite IH; reflexivity).
  destruct (spath s); [apply bind_ext; intros; cbv zeta; rewrite IH; reflexivity|apply IH].
Qed.

Lemma shape_value_nodes_h g s foci : shape_value_nodes g (h s) foci = shape_value_nodes g s foci.
Proof. unfold shape_value_nodes. destruct (Hh s) as (_ & -> & _). reflexivity. Qed.

(* rewriting target declarations anywhere in the environment changes no evaluation *)
Theorem vshape_map o g E : forall fuel top ep s foci,
  vshape trig W fuel o g (map h E) top ep (h s) foci = vshape trig W fuel o g E top ep s foci.
Proof.
  induction fuel as [|fuel IH]; intros top ep s foci; cbn [vshape];
    destruct (Hh s) as (Hsid & Hpath & Hdeact & Hsev & Hcomps & Hmsgs); rewrite Hdeact; [reflexivity|].
  destruct (deact s); [reflexivity|]. destruct (isnil foci); [reflexivity|]. destruct (_ && _); [reflexivity|].
  rewrite shape_value_nodes_h. apply bind_ext. intros fvs. rewrite loop_h, Hcomps, Hsid.
  apply loop_ext_in. intros c _. apply evalc_map. intros s' v. apply IH.
Qed.

End Strip.

(* ---------------- the selection options ---------------- *)
Definition no_filter (o:opts) : opts :=
  {| abort := abort o; allow_infos := allow_infos o; allow_warnings := allow_warnings o;
     max_depth := max_depth o; focus_filter := [] |}.

Lemma dedup_NoDup l : NoDup l -> tdedup l = l.
Proof.
  intros H. unfold dedup. assert (G : forall acc, (forall x, In x l -> ~ In x acc) -> tunion acc l = acc ++ l).
  { induction H as [|x l Hx Hl IH]; intros acc Hacc; simpl; [rewrite app_nil_r; reflexivity|].
    unfold add. assert (Em : tmem x acc = false) by (apply (mem_false term_eqb_spec); apply Hacc; left; auto).
    rewrite Em. rewrite IH; [rewrite <- app_assoc; reflexivity|].
    intros y Hy Hin. apply in_app_iff in Hin as [Hin|[<-|[]]]; [apply (Hacc y); [right; auto|auto]|contradiction]. }
  rewrite G; [reflexivity|]. intros x _ [].
Qed.

Section Select.
Variable trig : trig_t.
Variable W : world.

(* focus_nodes = F: each shape is validated on the nodes of F among its own targets - and every
   check made on other nodes on their behalf is the unrestricted one (the evaluator does not
   receive the filter at all: see the type of vshape, which takes eopts) *)
Theorem focus_filter_narrows o sg g E s : focus_filter o <> [] ->
  validate_top trig W o sg g E s None =
  (let kept := filter (fun f => is_iri f && tmem f (focus_filter o)) (focus_nodes sg g s) in
   if isnil kept then Ok (true, []) else validate_top trig W (no_filter o) sg g E s (Some kept)).
Proof.
  intros Hf. cbv zeta. unfold validate_top. destruct (deact s); [destruct (isnil _); reflexivity|].
  destruct (focus_nodes_correct sg g s) as [Hn _].
  destruct (isnil (focus_nodes sg g s)) eqn:En.
  - destruct (focus_nodes sg g s); [reflexivity|discriminate].
  - destruct (focus_filter o) as [|x flt] eqn:Ef; [congruence|].
    destruct (isnil (filter _ _)); [reflexivity|].
    rewrite dedup_NoDup by (apply NoDup_filter; exact Hn). reflexivity.
Qed.

(* both options: each selected shape is applied to each node of F, irrespective of targets *)
Theorem both_options o sg g E use shapes : use <> [] -> focus_filter o <> [] ->
  lookup_selected E use = Ok shapes ->
  validate_sel trig W o sg g E use = run_shapes trig W (no_filter o) sg g E shapes (Some (focus_filter o)) false [].
Proof.
  intros Hu Hf Hl. unfold validate_sel. destruct use; [congruence|]. rewrite Hl. cbn [bind].
  destruct (focus_filter o); [congruence|reflexivity].
Qed.

(* a shape that validates nothing on its own account contributes nothing *)
Lemma run_shapes_skip o sg g E s rest nc acc :
  abort o && nc = false ->
  validate_top trig W o sg g E s None = Ok (true, []) ->
  run_shapes trig W o sg g E (s :: rest) None nc acc = run_shapes trig W o sg g E rest None nc acc.
Proof.
  intros Ha H. cbn [run_shapes]. rewrite H. cbn [bind fst snd negb]. cbv zeta.
  rewrite orb_false_r, app_nil_r, Ha. reflexivity.
Qed.

(* use_shapes = U is the run in which all other shapes have lost their target declarations *)
Definition strip (s:shape) : shape :=
  {| sid := sid s; spath := spath s; deact := deact s; ssev := ssev s; smsgs := smsgs s; stargets := no_targets; scomps := scomps s |}.
Definition keep_selected (U:list term) (s:shape) : shape := if tmem (sid s) U then s else strip s.

Lemma keep_selected_same U : same_but_targets (keep_selected U).
Proof. intros s. unfold keep_selected. destruct (tmem (sid s) U); simpl; repeat split; auto. Qed.

Lemma validate_top_selected o sg g E U s :
  tmem (sid s) U = true ->
  validate_top trig W o sg g (map (keep_selected U) E) s None = validate_top trig W o sg g E s None.
Proof.
  intros Hs. unfold validate_top.
  assert (Hv : forall oo foci, vshape trig W (fuel_of oo) oo g (map (keep_selected U) E) true [] s foci
                              = vshape trig W (fuel_of oo) oo g E true [] s foci).
  { intros oo foci. pose proof (vshape_map trig W (keep_selected U) (keep_selected_same U) oo g E (fuel_of oo) true [] s foci) as H.
    unfold keep_selected at 2 in H. rewrite Hs in H. exact H. }
  destruct (deact s); [reflexivity|]. destruct (isnil _); [reflexivity|].
  destruct (focus_filter o); [apply Hv|]. destruct (isnil _); [reflexivity|apply Hv].
Qed.

Lemma validate_top_stripped o sg g E s : implicit_class sg s = false ->
  validate_top trig W o sg g E (strip s) None = Ok (true, []).
Proof.
  intros Hi. unfold validate_top. destruct (deact (strip s)); [reflexivity|].
  rewrite (no_targets_no_focus sg g (strip s) eq_refl); [reflexivity|].
  unfold implicit_class in *. simpl. exact Hi.
Qed.

Theorem use_shapes_is_target_removal o sg g E U :
  (forall s, In s E -> tmem (sid s) U = false -> implicit_class sg s = false) ->
  forall L nc acc, incl L E -> abort o && nc = false ->
  run_shapes trig W o sg g (map (keep_selected U) E) (map (keep_selected U) L) None nc acc
  = run_shapes trig W o sg g E (filter (fun s => tmem (sid s) U) L) None nc acc.
Proof.
  intros Himp. induction L as [|s L IH]; intros nc acc Hi Ha; [reflexivity|].
  assert (Hs : In s E) by (apply Hi; left; auto).
  assert (Hi' : incl L E) by (intros x Hx; apply Hi; right; auto).
  cbn [map filter]. destruct (tmem (sid s) U) eqn:Esel.
  - unfold keep_selected at 2. rewrite Esel. cbn [run_shapes].
    rewrite (validate_top_selected o sg g E U s Esel).
    apply bind_ext. intros cr. cbv zeta. destruct (abort o && (nc || negb (fst cr))) eqn:Ea'; [reflexivity|].
    apply IH; auto.
  - unfold keep_selected at 2. rewrite Esel. rewrite run_shapes_skip; auto.
    apply validate_top_stripped. apply Himp; auto.
Qed.

End Select.
