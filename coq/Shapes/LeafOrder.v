(* C09: what a core component reports does not depend on the order in which the data graph lists its triples, nor on the
   order in which the value nodes were found.  A corollary of leaf_bad_spec: the textual definition of each component
   looks at the graph through membership, and at the value nodes through membership, their number and (sh:uniqueLang)
   the number of those carrying a language tag. *)
From Coq Require Import List NArith ZArith Bool Relations Permutation.
From Verif Require Import Base.SetList Base.Terms Paths.Path Paths.PathProofs Paths.PathOrder Shapes.AST Shapes.Leaf Shapes.LeafSpec Shapes.Eval Shapes.TargetProofs Shapes.TargetOrder Shapes.MemberOrder.
Import ListNotations.

Lemma count_lang_perm l vs vs' : Permutation vs vs' -> count_lang l vs = count_lang l vs'.
Proof. intros H. unfold count_lang. apply filter_length_perm. exact H. Qed.

Lemma leaf_spec_mono W g g' l f vs vs' b :
  same_triples g g' -> Permutation vs vs' -> leaf_spec W g l f vs b -> leaf_spec W g' l f vs' b.
Proof.
  intros Hg Hp.
  assert (Hin : forall v, In v vs -> In v vs') by (intros v; apply Permutation_in; exact Hp).
  assert (Hin' : forall v, In v vs' -> In v vs) by (intros v; apply Permutation_in; apply Permutation_sym; exact Hp).
  assert (Hlen : length vs = length vs') by (apply Permutation_length; exact Hp).
  assert (Hgi : forall t, In t g -> In t g') by (intros t; apply Hg).
  assert (Hgi' : forall t, In t g' -> In t g) by (intros t; apply Hg).
  destruct l; cbn [leaf_spec].
  - intros (v & c & -> & Hv & Hc & Hn). exists v, c. repeat split; auto. intros [Hl Hi]. apply Hn. split; auto.
    exact (shacl_instance_mono g' g Hgi' v c Hi).
  - intros (v & -> & Hv & H). exists v. auto.
  - intros (v & -> & Hv & H). exists v. auto.
  - rewrite <- Hlen. auto.
  - rewrite <- Hlen. auto.
  - intros (v & bd & -> & Hv & H). exists v, bd. intuition.
  - intros (v & bd & -> & Hv & H). exists v, bd. intuition.
  - intros (v & bd & -> & Hv & H). exists v, bd. intuition.
  - intros (v & bd & -> & Hv & H). exists v, bd. intuition.
  - intros (v & -> & Hv & H). exists v. auto.
  - intros (v & -> & Hv & H). exists v. auto.
  - intros (v & p & -> & Hv & H). exists v, p. intuition.
  - intros (v & -> & Hv & H). exists v. auto.
  - intros (-> & Hu & l & Hl & Hc). repeat split; auto. exists l. split; auto. rewrite <- (count_lang_perm l vs vs' Hp). exact Hc.
  - intros (x & p & -> & Hp' & [[Hx Hn]|[Hx Hn]]); exists x, p; repeat split; auto.
    + left. split; auto.
    + right. split; auto.
  - intros (x & p & -> & Hp' & Hx & Ht). exists x, p. auto.
  - intros (v & p & c & -> & Hp' & Hv & Ht & Ho). exists v, p, c. repeat split; auto.
  - intros (v & p & c & -> & Hp' & Hv & Ht & Ho). exists v, p, c. repeat split; auto.
  - intros (-> & h & Hh & Hn). split; auto. exists h. split; auto.
  - intros (v & -> & Hv & H). exists v. auto.
Qed.

Theorem leaf_bad_order_free W g g' l f vs vs' :
  same_triples g g' -> Permutation vs vs' ->
  forall b, In b (leaf_bad W g l f vs) <-> In b (leaf_bad W g' l f vs').
Proof.
  intros Hg Hp b. rewrite !leaf_bad_spec. split; apply leaf_spec_mono; auto.
  - apply same_triples_sym. exact Hg.
  - apply Permutation_sym. exact Hp.
Qed.
