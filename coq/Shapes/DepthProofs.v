(* Termination, depth limiting and the recursion back-out heuristic (C19). *)
From Coq Require Import List NArith ZArith Bool Arith Lia.
From Verif Require Import Base.SetList Base.Terms Base.Vocab Paths.Path Paths.PathProofs
  Shapes.AST Shapes.Leaf Shapes.Eval Shapes.EvalProofs Shapes.EvalRel.
Import ListNotations.

(* every error a computation can end in satisfies P *)
Definition errs_in {A} (P:exn -> Prop) (a:res A) : Prop := forall e, a = Err e -> P e.

Lemma errs_ok {A} (P:exn -> Prop) (x:A) : errs_in P (Ok x).
Proof. intros e; discriminate. Qed.
Lemma errs_err {A} (P:exn -> Prop) e : P e -> errs_in P (@Err A e).
Proof. intros H e' [= <-]; exact H. Qed.

Lemma bind_errs {A B} (P:exn -> Prop) (a:res A) (k:A -> res B) :
  errs_in P a -> (forall x, a = Ok x -> errs_in P (k x)) -> errs_in P (bind a k).
Proof.
  intros Ha Hk. destruct a as [x|e]; simpl; [apply Hk; auto|]. intros e' [= <-]. apply Ha; reflexivity.
Qed.

Lemma mapM_errs {A B} (P:exn -> Prop) (f:A -> res B) l : (forall x, In x l -> errs_in P (f x)) -> errs_in P (mapM f l).
Proof.
  induction l as [|x xs IH]; intros H; simpl; [apply errs_ok|].
  apply bind_errs; [apply H; left; auto|]. intros y _.
  apply bind_errs; [apply IH; intros z Hz; apply H; right; auto|]. intros ys _. apply errs_ok.
Qed.

Lemma for_values_errs {A} (P:exn -> Prop) fvs (k:term -> term -> res (list A)) :
  (forall f v, errs_in P (k f v)) -> errs_in P (for_values fvs k).
Proof.
  intros H. unfold for_values. apply bind_errs; [|intros; apply errs_ok].
  apply mapM_errs. intros [f vs] _. simpl. apply bind_errs; [|intros; apply errs_ok].
  apply mapM_errs. intros v _. apply H.
Qed.

Lemma concatM_map_errs {A B} (P:exn -> Prop) (f:A -> res (list B)) l :
  (forall x, In x l -> errs_in P (f x)) -> errs_in P (concatM (map f l)).
Proof.
  intros H. unfold concatM. apply bind_errs; [|intros; apply errs_ok].
  apply mapM_errs. intros r Hr. apply in_map_iff in Hr as (x & <- & Hx). apply H; auto.
Qed.

Lemma lookup_all_errs (P:exn -> Prop) E refs : P Reportable -> errs_in P (lookup_all E refs).
Proof.
  intros HP. unfold lookup_all. apply mapM_errs. intros r _. destruct (lookup E r); [apply errs_ok|apply errs_err; auto].
Qed.

Lemma lookup_all_in E refs shapes : lookup_all E refs = Ok shapes ->
  forall s', In s' shapes -> exists r, In r refs /\ lookup E r = Some s'.
Proof.
  intros H s' Hs. destruct (mapM_in _ _ _ H s' Hs) as (r & Hr & E1).
  exists r. split; auto. destruct (lookup E r); [injection E1 as ->; reflexivity|discriminate].
Qed.

(* the shape references a component may evaluate *)
Definition comp_shapes (E:env) (s:shape) (c:comp) : list term :=
  match c with
  | CLeaf _ => []
  | CNot refs | CNode refs | CProperty refs => refs
  | CAnd ls | COr ls | CXone ls => concat ls
  | CQualified refs _ _ disjoint => refs ++ (if disjoint then flat_map (sibling_refs E (sid s)) refs else [])
  | CClosed _ _ | CSparql _ | CCustom _ => []
  end.

Section WithTrig.
Variable trig : trig_t.
Variable W : world.

Lemma evalc_errs (P:exn -> Prop) nested g E s fvs ep c :
  P Reportable -> P ValFailure ->
  (forall r s' v, In r (comp_shapes E s c) -> lookup E r = Some s' -> errs_in P (nested s' v ep)) ->
  errs_in P (evalc trig W nested g E s fvs ep c).
Proof.
  intros HP HV Hn. destruct c; cbn [evalc comp_shapes] in *.
  - apply errs_ok.
  - apply bind_errs; [|intros; apply errs_ok]. apply concatM_map_errs. intros r Hr.
    destruct (lookup E r) as [ns|] eqn:El; [|apply errs_err; auto].
    destruct (in_triggers _ ns); [apply errs_ok|]. apply for_values_errs. intros f v.
    apply bind_errs; [eapply Hn; eauto|]. intros; apply errs_ok.
  - apply bind_errs; [|intros; apply errs_ok]. apply concatM_map_errs. intros members Hm.
    destruct (isnil _); [apply errs_err; auto|].
    apply bind_errs; [apply lookup_all_errs; auto|]. intros shapes Hl.
    apply for_values_errs. intros f v. apply bind_errs; [|intros; apply errs_ok].
    apply mapM_errs. intros ns Hns. destruct (lookup_all_in _ _ _ Hl ns Hns) as (r & Hr & El).
    eapply Hn; eauto. apply in_concat_iff. exists members. split; auto.
    rewrite (In_dedup term_eqb_spec) in Hr. exact Hr.
  - apply bind_errs; [|intros; apply errs_ok]. apply concatM_map_errs. intros members Hm.
    destruct (isnil _); [apply errs_err; auto|].
    apply bind_errs; [apply lookup_all_errs; auto|]. intros shapes Hl.
    apply for_values_errs. intros f v. apply bind_errs; [|intros; apply errs_ok].
    apply mapM_errs. intros ns Hns. destruct (lookup_all_in _ _ _ Hl ns Hns) as (r & Hr & El).
    eapply Hn; eauto. apply in_concat_iff. exists members. split; auto.
    rewrite (In_dedup term_eqb_spec) in Hr. exact Hr.
  - apply bind_errs; [|intros; apply errs_ok]. apply concatM_map_errs. intros members Hm.
    destruct (isnil _); [apply errs_err; auto|].
    apply bind_errs; [apply lookup_all_errs; auto|]. intros shapes Hl.
    apply for_values_errs. intros f v. apply bind_errs; [|intros; apply errs_ok].
    apply mapM_errs. intros ns Hns. destruct (lookup_all_in _ _ _ Hl ns Hns) as (r & Hr & El).
    eapply Hn; eauto. apply in_concat_iff. exists members. split; auto.
  - destruct (value_count fvs <? 1); [apply errs_ok|].
    apply bind_errs; [|intros; apply errs_ok]. apply concatM_map_errs. intros r Hr.
    destruct (lookup E r) as [ns|] eqn:El; [|apply errs_err; auto].
    destruct (in_triggers _ ns); [apply errs_ok|].
    destruct (is_property_shape ns); [apply errs_err; auto|].
    apply for_values_errs. intros f v. apply bind_errs; [eapply Hn; eauto|]. intros; apply errs_ok.
  - destruct (value_count fvs <? 1); [apply errs_ok|].
    apply bind_errs; [|intros; apply errs_ok]. apply mapM_errs. intros r Hr.
    destruct (lookup E r) as [ns|] eqn:El; [|apply errs_err; auto].
    destruct (in_triggers _ ns); [apply errs_ok|].
    destruct (negb (is_property_shape ns)); [apply errs_err; auto|].
    apply for_values_errs. intros f v. apply bind_errs; [eapply Hn; eauto|]. intros; apply errs_ok.
  - destruct (_ && _ && _); [apply errs_ok|].
    apply bind_errs; [|intros; apply errs_ok]. apply concatM_map_errs. intros r Hr.
    destruct (lookup E r) as [qs|] eqn:El; [|apply errs_err; auto].
    destruct (in_triggers _ qs); [apply errs_ok|].
    apply bind_errs.
    { destruct disjoint; [apply lookup_all_errs; auto|apply errs_ok]. }
    intros sibs Hsibs. apply bind_errs; [|intros; apply errs_ok].
    apply mapM_errs. intros fv _. apply bind_errs; [|intros; apply errs_ok].
    apply mapM_errs. intros v _.
    apply bind_errs; [eapply Hn; eauto; apply in_app_iff; left; auto|].
    intros cr _. destruct (fst cr); [|apply errs_ok].
    apply bind_errs; [|intros; apply errs_ok]. apply mapM_errs. intros sib Hsib.
    destruct disjoint; [|injection Hsibs as <-; destruct Hsib].
    destruct (lookup_all_in _ _ _ Hsibs sib Hsib) as (r2 & Hr2 & El2).
    eapply Hn; eauto. apply in_app_iff. right. apply in_flat_map. exists r. auto.
  - destruct (negb closed); [apply errs_ok|].
    apply bind_errs; [|intros; apply errs_ok]. apply mapM_errs. intros r _.
    destruct (lookup E r) as [ps|]; [|apply errs_err; auto].
    destruct (is_property_shape ps); [apply errs_ok|apply errs_err; auto].
  - apply errs_ok.
  - destruct (cc_val cc); [apply errs_ok|].
    apply bind_errs; [|intros; apply errs_ok]. apply concatM_map_errs. intros fv _.
    apply concatM_map_errs. intros v _. apply concatM_map_errs. intros so _.
    destruct (sol_bound so); [apply errs_ok|]. destruct (sol_failure so); [apply errs_err; auto|apply errs_ok].
Qed.

Lemma loop_errs (P:exn -> Prop) o top s ev : (forall c, In c (scomps s) -> errs_in P (ev c)) ->
  forall cs nc nw acc, incl cs (scomps s) -> errs_in P (loop o top s ev cs nc nw acc).
Proof.
  intros Hev. induction cs as [|c cs IH]; intros nc nw acc Hi; cbn [loop]; [apply errs_ok|].
  assert (Hc : In c (scomps s)) by (apply Hi; left; auto).
  assert (Hi' : incl cs (scomps s)) by (intros x Hx; apply Hi; right; auto).
  assert (Hstep : errs_in P
    (bind (ev c) (fun cr =>
        let nc' := nc || negb (fst cr) in
        let nw' := if fst cr then nw else nw || isnil (e_allowed o) || negb (all_waived o (snd cr)) in
        let acc' := acc ++ snd cr in
        if nw' && e_abort o then Ok (negb (if top then nw' else nc'), acc') else loop o top s ev cs nc' nw' acc'))).
  { apply bind_errs; [apply Hev; auto|]. intros cr _. cbv zeta. destruct (_ && e_abort o); [apply errs_ok|apply IH; auto]. }
  destruct c; try exact Hstep. destruct (spath s); [exact Hstep|apply IH; auto].
Qed.

Lemma shape_value_nodes_errs (P:exn -> Prop) g s foci :
  (forall p f, spath s = Some p -> errs_in P (value_nodes g p f)) -> errs_in P (shape_value_nodes g s foci).
Proof.
  intros H. unfold shape_value_nodes. destruct (spath s) as [p|]; [|apply errs_ok].
  apply mapM_errs. intros f _. apply bind_errs; [apply H; reflexivity|]. intros; apply errs_ok.
Qed.

(* ---- termination: fuel = max_validation_depth + 1 is always enough, for ANY environment
        (cyclic shape references allowed) and any data graph ---- *)
Definition not_oof_exn (e:exn) : Prop := e <> OutOfFuel.

Lemma value_nodes_not_oof g p f : errs_in not_oof_exn (value_nodes g p f).
Proof. intros e H Heq. subst e. exact (eval_path_never_oof g p false 0 f H). Qed.

Lemma vshape_not_oof o g E : forall fuel top ep s foci,
  e_max_depth o < fuel + length ep -> (top = true -> 0 < fuel) ->
  errs_in not_oof_exn (vshape trig W fuel o g E top ep s foci).
Proof.
  induction fuel as [|fuel IH]; intros top ep s foci Hf Ht; cbn [vshape];
    (destruct (deact s); [apply errs_ok|]); (destruct (isnil foci); [apply errs_ok|]);
    (destruct (negb top && (e_max_depth o <=? length ep)) eqn:Ed; [apply errs_err; discriminate|]).
  - (* no fuel left: impossible, the depth test would have fired *)
    destruct top; [specialize (Ht eq_refl); lia|]. simpl in Ed. apply Nat.leb_gt in Ed. simpl in Hf. lia.
  - apply bind_errs.
    + apply shape_value_nodes_errs. intros p f _. apply value_nodes_not_oof.
    + intros fvs _. apply loop_errs; [|apply incl_refl]. intros c _.
      apply evalc_errs; [discriminate|discriminate|]. intros r s' v _ _.
      apply IH; [|discriminate]. rewrite app_length. simpl.
      destruct top; simpl in Ed; [lia|]. apply Nat.leb_gt in Ed. lia.
Qed.

(* C19: validation of a shape always returns a report or a documented failure -
   never runs out of the model's fuel - for arbitrary cyclic shape references and data. *)
Theorem validate_top_total o sg g E s explicit :
  errs_in not_oof_exn (validate_top trig W o sg g E s explicit).
Proof.
  assert (H : forall foci, errs_in not_oof_exn
             (vshape trig W (fuel_of (eopts_of o)) (eopts_of o) g E true [] s foci)).
  { intros foci. apply vshape_not_oof; unfold fuel_of; simpl; lia. }
  unfold validate_top. destruct (deact s); [apply errs_ok|].
  destruct explicit; [apply H|]. destruct (isnil _); [apply errs_ok|].
  destruct (focus_filter o); [apply H|]. destruct (isnil _); [apply errs_ok|apply H].
Qed.

Lemma run_shapes_total o sg g E explicit : forall shapes nc acc,
  errs_in not_oof_exn (run_shapes trig W o sg g E shapes explicit nc acc).
Proof.
  induction shapes as [|s rest IH]; intros nc acc; cbn [run_shapes]; [apply errs_ok|].
  apply bind_errs; [apply validate_top_total|]. intros cr _. cbv zeta.
  destruct (abort o && _); [apply errs_ok|apply IH].
Qed.

Theorem validate_total o sg g E : errs_in not_oof_exn (validate trig W o sg g E).
Proof. unfold validate. apply run_shapes_total. Qed.

(* ---- loud failure: a nested evaluation entered at or beyond the limit fails ---- *)
Theorem vshape_too_deep o g E fuel ep s foci :
  deact s = false -> foci <> [] -> e_max_depth o <= length ep ->
  vshape trig W fuel o g E false ep s foci = Err TooDeep.
Proof.
  intros Hd Hf Hl. destruct fuel; cbn [vshape]; rewrite Hd;
    (destruct foci; [congruence|]); cbn [isnil negb andb];
    (destruct (Nat.leb_spec (e_max_depth o) (length ep)); [reflexivity|lia]).
Qed.

(* ---- below the limit: shapes graphs whose references strictly decrease a rank
        (non-recursive shapes graphs) never hit the depth limit ---- *)
Definition ranked (E:env) (rank:term -> nat) : Prop :=
  forall s c r s', In s E -> In c (scomps s) -> In r (comp_shapes E s c) -> lookup E r = Some s' ->
                   In s' E /\ rank (sid s') < rank (sid s).

Definition not_too_deep (e:exn) : Prop := e <> TooDeep.

Lemma eval_path_errs (P:exn -> Prop) wfuel g :
  P Reportable -> P ShapeLoad -> P OutOfFuel ->
  forall p inv r x, errs_in P (eval_path wfuel g p inv r x).
Proof.
  intros HR HS HO.
  assert (Hum : forall (f:term -> res (list term)) xs, (forall x, errs_in P (f x)) -> errs_in P (union_map f xs)).
  { intros f xs Hf. unfold union_map. generalize (@Ok (list term) []) (errs_ok P (@nil term)).
    induction xs as [|x xs IH]; simpl; intros acc Ha; [exact Ha|].
    apply IH. apply bind_errs; auto. intros a _. apply bind_errs; [apply Hf|]. intros; apply errs_ok. }
  assert (Hw : forall step, (forall x, errs_in P (step x)) -> forall fuel seen todo, errs_in P (work fuel step seen todo)).
  { intros step Hs. induction fuel as [|f IH]; intros seen todo; simpl.
    - destruct todo; [apply errs_ok|apply errs_err; auto].
    - destruct todo as [|a rest]; [apply errs_ok|]. destruct (tmem a seen); [apply IH|].
      pose proof (Hs a) as Ha. destruct (step a); [apply IH|]. apply errs_err. apply Ha; reflexivity. }
  induction p as [pr|q IH|qs IH|qs IH|q IH|q IH|q IH] using path_ind'; intros inv r x.
  - apply errs_ok.
  - cbn [eval_path]. destruct (MAX_PATH_RECURSION <=? r); [apply errs_err; auto|apply IH].
  - rewrite eval_path_seq. revert inv r x.
    induction IH as [|q rest Hq Hrest IHr]; intros inv r x; cbn [seq_eval].
    + destruct (MAX_PATH_RECURSION <=? r); apply errs_err; auto.
    + destruct (MAX_PATH_RECURSION <=? r); [apply errs_err; auto|].
      destruct rest as [|q2 rest2].
      * destruct (r =? 0); [apply errs_err; auto|apply Hq].
      * destruct inv.
        -- apply bind_errs; [apply IHr|]. intros mid _. apply Hum. intros z. apply Hq.
        -- apply bind_errs; [apply Hq|]. intros mid _. apply Hum. intros z. apply IHr.
  - rewrite eval_path_alt. destruct (MAX_PATH_RECURSION <=? r); [apply errs_err; auto|].
    apply bind_errs.
    + generalize (@nil term). induction IH as [|q rest Hq Hrest IHr]; intros acc; cbn [alt_eval]; [apply errs_ok|].
      apply bind_errs; [apply Hq|]. intros ys _. apply IHr.
    + intros all _. destruct (length qs <? 2); [apply errs_err; auto|apply errs_ok].
  - cbn [eval_path]. destruct (MAX_PATH_RECURSION <=? r); [apply errs_err; auto|].
    apply bind_errs; [apply IH|]. intros found _. apply Hw. intros y. apply IH.
  - cbn [eval_path]. destruct (MAX_PATH_RECURSION <=? r); [apply errs_err; auto|].
    apply bind_errs; [apply IH|]. intros found _. apply Hw. intros y. apply IH.
  - cbn [eval_path]. destruct (MAX_PATH_RECURSION <=? r); [apply errs_err; auto|].
    apply bind_errs; [apply IH|]. intros; apply errs_ok.
Qed.

Lemma vshape_not_too_deep o g E rank : ranked E rank ->
  forall fuel top ep s foci, In s E ->
  length ep + rank (sid s) < e_max_depth o ->
  errs_in not_too_deep (vshape trig W fuel o g E top ep s foci).
Proof.
  intros Hr. induction fuel as [|fuel IH]; intros top ep s foci Hs Hd; cbn [vshape];
    (destruct (deact s); [apply errs_ok|]); (destruct (isnil foci); [apply errs_ok|]);
    (destruct (negb top && (e_max_depth o <=? length ep)) eqn:Ed;
      [destruct top; simpl in Ed; [discriminate|]; apply Nat.leb_le in Ed; lia|]).
  - apply errs_err; discriminate.
  - apply bind_errs.
    + apply shape_value_nodes_errs. intros p f _. unfold value_nodes.
      apply eval_path_errs; discriminate.
    + intros fvs _. apply loop_errs; [|apply incl_refl]. intros c Hc.
      apply evalc_errs; [discriminate|discriminate|]. intros r s' v Hin El.
      destruct (Hr s c r s' Hs Hc Hin El) as [Hs' Hlt].
      apply IH; auto. rewrite app_length. simpl. lia.
Qed.

(* C19: for a non-recursive shapes graph nested to a depth below max_validation_depth,
   validating a shape never raises 'validation path too deep'. *)
Theorem validate_top_below_limit o sg g E rank s explicit :
  ranked E rank -> In s E -> rank (sid s) < max_depth o ->
  errs_in not_too_deep (validate_top trig W o sg g E s explicit).
Proof.
  intros Hr Hs Hd.
  assert (H : forall foci, errs_in not_too_deep
             (vshape trig W (fuel_of (eopts_of o)) (eopts_of o) g E true [] s foci)).
  { intros foci. eapply vshape_not_too_deep; eauto. }
  unfold validate_top. destruct (deact s); [apply errs_ok|].
  destruct explicit; [apply H|]. destruct (isnil _); [apply errs_ok|].
  destruct (focus_filter o); [apply H|]. destruct (isnil _); [apply errs_ok|apply H].
Qed.

End WithTrig.

(* ---------------- the back-out heuristic never fires on non-recursive shapes graphs ---------------- *)
Lemma collect_next_absent self k : forall ep,
  ~ In self (map fst (removelast ep)) -> collect_next self k ep = [].
Proof.
  induction ep as [|a rest IH]; intros H; [reflexivity|].
  cbn [collect_next]. destruct rest as [|b rest']; [reflexivity|].
  cbn [removelast map] in H. fold (removelast (b :: rest')) in H.
  destruct (term_eqb_spec (fst a) self) as [Heq|Hne].
  - exfalso. apply H. left. exact Heq.
  - simpl. apply IH. intros Hin. apply H. right. exact Hin.
Qed.

Lemma recursion_triggers_silent ep s k :
  ~ In (sid s) (map fst ep) ->
  recursion_triggers (ep ++ [(sid s, k)]) (sid s) k = None
  \/ recursion_triggers (ep ++ [(sid s, k)]) (sid s) k = Some [].
Proof.
  intros H. unfold recursion_triggers.
  destruct (_ <? 2); [left; reflexivity|]. destruct (_ <? _); [left; reflexivity|].
  right. f_equal. apply collect_next_absent. rewrite removelast_last. exact H.
Qed.
