(* The validation report graph built from a verdict and a list of results: model of
   Validator.create_validation_report (validator.py) and ConstraintComponent.make_v_result
   (constraint_component.py). Result nodes are fresh blank nodes, numbered from `base`. *)
From Coq Require Import List NArith ZArith Bool Arith Lia.
From Verif Require Import Base.SetList Base.Terms Base.Vocab Paths.Path Shapes.AST.
Import ListNotations.

Definition p_type := IRI rdf_type.
Definition p_result := IRI sh_result.
Definition p_focus := IRI sh_focusNode.
Definition p_value := IRI sh_value.
Definition p_path := IRI sh_resultPath.
Definition p_shape := IRI sh_sourceShape.
Definition p_comp := IRI sh_sourceConstraintComponent.
Definition p_sev := IRI sh_resultSeverity.
Definition p_msg := IRI sh_resultMessage.
Definition p_detail := IRI sh_detail.
Definition p_conforms := IRI sh_conforms.
Definition c_report := IRI sh_ValidationReport.
Definition c_result := IRI sh_ValidationResult.

(* a result with the number of its node and of its parent (None: linked from the report by sh:result) *)
Definition labelled := (N * option N * vresult)%type.

(* pre-order numbering of a result and its nested details, starting at n; returns the next free number *)
Fixpoint label (parent:option N) (r:vresult) (n:N) {struct r} : N * list labelled :=
  match r with
  | VR f v p c s sev msgs details =>
    let '(n', sub) :=
      (fix go (ds:list vresult) (k:N) : N * list labelled :=
         match ds with
         | [] => (k, [])
         | d :: ds' => let '(k1, l1) := label (Some n) d k in
                       let '(k2, l2) := go ds' k1 in (k2, l1 ++ l2)
         end) details (N.succ n) in
    (n', (n, parent, r) :: sub)
  end.

Fixpoint label_all (rs:list vresult) (n:N) : N * list labelled :=
  match rs with
  | [] => (n, [])
  | r :: rs' => let '(k1, l1) := label None r n in let '(k2, l2) := label_all rs' k1 in (k2, l1 ++ l2)
  end.

Definition opt_triple (s p:term) (o:option term) : list triple :=
  match o with Some x => [(s, p, x)] | None => [] end.

(* make_v_result: the triples of one result node *)
Definition node_triples (report:term) (x:labelled) : list triple :=
  let '(n, parent, r) := x in
  let node := BN n in
  [(match parent with None => report | Some k => BN k end,
    match parent with None => p_result | Some _ => p_detail end, node);
   (node, p_type, c_result);
   (node, p_comp, IRI (rcomp r));
   (node, p_shape, rsrc r);
   (node, p_sev, rsev r);
   (node, p_focus, rfocus r)]
  ++ opt_triple node p_value (rvalue r)
  ++ opt_triple node p_path (rpath r)
  ++ map (fun m => (node, p_msg, m)) (rmsgs r).

Definition bool_lit (b:bool) : term := LIT (if b then 1 else 2) 1 0.   (* "true"/"false"^^xsd:boolean *)

Definition report_graph (report:term) (base:N) (conforms:bool) (rs:list vresult) : list triple :=
  (report, p_type, c_report) :: (report, p_conforms, bool_lit conforms)
  :: flat_map (node_triples report) (snd (label_all rs base)).

(* the human-readable text states the verdict and, when there are results, their number *)
Definition report_text_summary (conforms:bool) (rs:list vresult) : bool * option nat :=
  (conforms, match rs with [] => None | _ => Some (length rs) end).

(* ---------------- well-formedness ---------------- *)
Definition count_sp (T:list triple) (s p:term) : nat :=
  length (filter (fun t => term_eqb (tsubj t) s && term_eqb (tpred t) p) T).

Definition labels (L:list labelled) : list N := map (fun x => fst (fst x)) L.

Lemma label_range : forall r parent n n' L, label parent r n = (n', L) ->
  (n < n')%N /\ (forall k, In k (labels L) -> (n <= k < n')%N) /\ NoDup (labels L).
Proof.
  fix IH 1. intros [f v p c s sev msgs details] parent n n' L. cbn [label].
  set (go := fix go (ds:list vresult) (k:N) : N * list labelled :=
         match ds with
         | [] => (k, [])
         | d :: ds' => let '(k1, l1) := label (Some n) d k in
                       let '(k2, l2) := go ds' k1 in (k2, l1 ++ l2)
         end).
  assert (Hgo : forall ds k k' Ls, go ds k = (k', Ls) ->
            (k <= k')%N /\ (forall x, In x (labels Ls) -> (k <= x < k')%N) /\ NoDup (labels Ls)).
  { induction ds as [|d ds IHds]; intros k k' Ls; cbn [go].
    - intros [= <- <-]. split; [lia|]. split; [intros x []|constructor].
    - destruct (label (Some n) d k) as [k1 l1] eqn:E1. destruct (go ds k1) as [k2 l2] eqn:E2.
      intros [= <- <-]. apply IH in E1 as (H1 & H2 & H3). apply IHds in E2 as (H4 & H5 & H6).
      split; [lia|]. unfold labels in *. rewrite map_app. split.
      + intros x Hx. apply in_app_iff in Hx as [Hx|Hx]; [specialize (H2 x Hx)|specialize (H5 x Hx)]; lia.
      + apply NoDup_app_disjoint; auto. intros x Hx1 Hx2. specialize (H2 x Hx1). specialize (H5 x Hx2). lia. }
  destruct (go details (N.succ n)) as [k' sub] eqn:Eg. intros [= <- <-].
  apply Hgo in Eg as (H1 & H2 & H3). split; [lia|]. unfold labels in *. cbn [map fst]. split.
  - intros k [<-|Hk]; [lia|]. specialize (H2 k Hk). lia.
  - constructor; auto. intros Hin. specialize (H2 n Hin). lia.
Qed.
