(* The validation report graph built from a verdict and a list of results: model of
   Validator.create_validation_report (validator.py) and ConstraintComponent.make_v_result
   (constraint_component.py). Result nodes are fresh blank nodes, numbered from `base`. *)
From Coq Require Import List NArith ZArith Bool Arith Lia.
From Verif Require Import Base.SetList Base.Terms Base.Vocab Paths.Path Shapes.AST.
Import ListNotations.

Definition p_type := IRI rdf_type.
Definition p_result := IRI sh_result.
Definition p_focus := IRI sh_focusNode.
Definition p_value := IRI sh_value.
Definition p_path := IRI sh_resultPath.
Definition p_shape := IRI sh_sourceShape.
Definition p_comp := IRI sh_sourceConstraintComponent.
Definition p_sev := IRI sh_resultSeverity.
Definition p_msg := IRI sh_resultMessage.
Definition p_detail := IRI sh_detail.
Definition p_conforms := IRI sh_conforms.
Definition c_report := IRI sh_ValidationReport.
Definition c_result := IRI sh_ValidationResult.

(* a result with the number of its node and of its parent (None: linked from the report by sh:result) *)
Definition labelled := (N * option N * vresult)%type.

(* pre-order numbering of a result and its nested details, starting at n; returns the next free number *)
Fixpoint label (parent:option N) (r:vresult) (n:N) {struct r} : N * list labelled :=
  match r with
  | VR f v p c s sev msgs details =>
    let '(n', sub) :=
      (fix go (ds:list vresult) (k:N) : N * list labelled :=
         match ds with
         | [] => (k, [])
         | d :: ds' => let '(k1, l1) := label (Some n) d k in
                       let '(k2, l2) := go ds' k1 in (k2, l1 ++ l2)
         end) details (N.succ n) in
    (n', (n, parent, r) :: sub)
  end.

Fixpoint label_all (rs:list vresult) (n:N) : N * list labelled :=
  match rs with
  | [] => (n, [])
  | r :: rs' => let '(k1, l1) := label None r n in let '(k2, l2) := label_all rs' k1 in (k2, l1 ++ l2)
  end.

Definition opt_triple (s p:term) (o:option term) : list triple :=
  match o with Some x => [(s, p, x)] | None => [] end.

(* make_v_result: the triples of one result node *)
Definition node_triples (report:term) (x:labelled) : list triple :=
  let '(n, parent, r) := x in
  let node := BN n in
  [(match parent with None => report | Some k => BN k end,
    match parent with None => p_result | Some _ => p_detail end, node);
   (node, p_type, c_result);
   (node, p_comp, IRI (rcomp r));
   (node, p_shape, rsrc r);
   (node, p_sev, rsev r);
   (node, p_focus, rfocus r)]
  ++ opt_triple node p_value (rvalue r)
  ++ opt_triple node p_path (rpath r)
  ++ map (fun m => (node, p_msg, m)) (rmsgs r).

Definition bool_lit (b:bool) : term := LIT (if b then 1 else 2) 1 0.   (* "true"/"false"^^xsd:boolean *)

Definition report_graph (report:term) (base:N) (conforms:bool) (rs:list vresult) : list triple :=
  (report, p_type, c_report) :: (report, p_conforms, bool_lit conforms)
  :: flat_map (node_triples report) (snd (label_all rs base)).

(* the human-readable text states the verdict and, when there are results, their number *)
Definition report_text_summary (conforms:bool) (rs:list vresult) : bool * option nat :=
  (conforms, match rs with [] => None | _ => Some (length rs) end).

(* ---------------- well-formedness ---------------- *)
Definition count_sp (T:list triple) (s p:term) : nat :=
  length (filter (fun t => term_eqb (tsubj t) s && term_eqb (tpred t) p) T).

Definition labels (L:list labelled) : list N := map (fun x => fst (fst x)) L.

Lemma label_range : forall r parent n n' L, label parent r n = (n', L) ->
  (n < n')%N /\ (forall k, In k (labels L) -> (n <= k < n')%N) /\ NoDup (labels L).
Proof.
  fix IH 1. intros [f v p c s sev msgs details] parent n n' L. cbn [label].
  set (go := fix go (ds:list vresult) (k:N) : N * list labelled :=
         match ds with
         | [] => (k, [])
         | d :: ds' => let '(k1, l1) := label (Some n) d k in
                       let '(k2, l2) := go ds' k1 in (k2, l1 ++ l2)
         end).
  assert (Hgo : forall ds k k' Ls, go ds k = (k', Ls) ->
            (k <= k')%N /\ (forall x, In x (labels Ls) -> (k <= x < k')%N) /\ NoDup (labels Ls)).
  { induction ds as [|d ds IHds]; intros k k' Ls; cbn [go].
    - intros [= <- <-]. split; [lia|]. split; [intros x []|constructor].
    - destruct (label (Some n) d k) as [k1 l1] eqn:E1. destruct (go ds k1) as [k2 l2] eqn:E2.
      intros [= <- <-]. apply IH in E1 as (H1 & H2 & H3). apply IHds in E2 as (H4 & H5 & H6).
      split; [lia|]. unfold labels in *. rewrite map_app. split.
      + intros x Hx. apply in_app_iff in Hx as [Hx|Hx]; [specialize (H2 x Hx)|specialize (H5 x Hx)]; lia.
      + apply NoDup_app_disjoint; auto. intros x Hx1 Hx2. specialize (H2 x Hx1). specialize (H5 x Hx2). lia. }
  destruct (go details (N.succ n)) as [k' sub] eqn:Eg. intros [= <- <-].
  apply Hgo in Eg as (H1 & H2 & H3). split; [lia|]. unfold labels in *. cbn [map fst]. split.
  - intros k [<-|Hk]; [lia|]. specialize (H2 k Hk). lia.
  - constructor; auto. intros Hin. specialize (H2 n Hin). lia.
Qed.

Lemma label_all_range : forall rs n n' L, label_all rs n = (n', L) ->
  (n <= n')%N /\ (forall k, In k (labels L) -> (n <= k < n')%N) /\ NoDup (labels L).
Proof.
  induction rs as [|r rs IH]; intros n n' L; cbn [label_all].
  - intros [= <- <-]. split; [lia|]. split; [intros k []|constructor].
  - destruct (label None r n) as [k1 l1] eqn:E1. destruct (label_all rs k1) as [k2 l2] eqn:E2.
    intros [= <- <-]. apply label_range in E1 as (H1 & H2 & H3). apply IH in E2 as (H4 & H5 & H6).
    split; [lia|]. unfold labels in *. rewrite map_app. split.
    + intros x Hx. apply in_app_iff in Hx as [Hx|Hx]; [specialize (H2 x Hx)|specialize (H5 x Hx)]; lia.
    + apply NoDup_app_disjoint; auto. intros x Hx1 Hx2. specialize (H2 x Hx1). specialize (H5 x Hx2). lia.
Qed.

(* top-level results are exactly the nodes without parent, one per result *)
Definition toplevel (L:list labelled) : list labelled :=
  filter (fun x => match snd (fst x) with None => true | Some _ => false end) L.

Lemma toplevel_app a b : toplevel (a ++ b) = toplevel a ++ toplevel b.
Proof. unfold toplevel. apply filter_app. Qed.

Lemma label_toplevel : forall r parent n, 
  toplevel (snd (label parent r n)) = match parent with None => [(n, None, r)] | Some _ => [] end.
Proof.
  fix IH 1. intros [f v p c s sev msgs details] parent n. cbn [label].
  set (go := fix go (ds:list vresult) (k:N) : N * list labelled :=
         match ds with
         | [] => (k, [])
         | d :: ds' => let '(k1, l1) := label (Some n) d k in
                       let '(k2, l2) := go ds' k1 in (k2, l1 ++ l2)
         end).
  assert (Hgo : forall ds k, toplevel (snd (go ds k)) = []).
  { induction ds as [|d ds IHds]; intros k; cbn [go]; [reflexivity|].
    pose proof (IH d (Some n) k) as Hd. destruct (label (Some n) d k) as [k1 l1]. simpl in Hd.
    pose proof (IHds k1) as Hr. destruct (go ds k1) as [k2 l2]. simpl in *.
    rewrite toplevel_app, Hd, Hr. reflexivity. }
  pose proof (Hgo details (N.succ n)) as H. destruct (go details (N.succ n)) as [k' sub]. simpl in *.
  change (toplevel ((n, parent, VR f v p c s sev msgs details) :: sub)) with
    ((if match parent with None => true | Some _ => false end then [(n, parent, VR f v p c s sev msgs details)] else []) ++ toplevel sub).
  rewrite H. destruct parent; reflexivity.
Qed.

Lemma label_all_toplevel : forall rs n, length (toplevel (snd (label_all rs n))) = length rs.
Proof.
  induction rs as [|r rs IH]; intros n; cbn [label_all]; [reflexivity|].
  pose proof (label_toplevel r None n) as Hr. destruct (label None r n) as [k1 l1]. simpl in Hr.
  pose proof (IH k1) as Hs. destruct (label_all rs k1) as [k2 l2]. simpl in *.
  rewrite toplevel_app, app_length, Hr, Hs. reflexivity.
Qed.

(* ---- counting triples ---- *)
Lemma count_sp_app T1 T2 s p : count_sp (T1 ++ T2) s p = count_sp T1 s p + count_sp T2 s p.
Proof. unfold count_sp. rewrite filter_app, app_length. reflexivity. Qed.

Lemma count_sp_flat_map {A} (f:A -> list triple) L s p :
  count_sp (flat_map f L) s p = fold_right (fun x acc => count_sp (f x) s p + acc) 0 L.
Proof. induction L as [|x L IH]; simpl; [reflexivity|]. rewrite count_sp_app, IH. reflexivity. Qed.

Definition is_link (p:term) : bool := term_eqb p p_result || term_eqb p p_detail.

(* a result node's own description: predicates other than the sh:result / sh:detail links *)
Lemma node_triples_other report x s p : is_link p = false -> s <> BN (fst (fst x)) ->
  count_sp (node_triples report x) s p = 0.
Proof.
  destruct x as [[n parent] r]. intros Hl Hs. simpl in Hs. unfold node_triples. cbn [fst].
  assert (Hne : term_eqb (BN n) s = false) by (destruct (term_eqb_spec (BN n) s); congruence).
  unfold count_sp. cbn [filter tsubj tpred fst snd app].
  assert (H1 : term_eqb (match parent with None => p_result | Some _ => p_detail end) p = false).
  { unfold is_link in Hl. apply orb_false_iff in Hl as [Ha Hb].
    destruct parent; [destruct (term_eqb_spec p_detail p); [subst; rewrite term_eqb_refl in Hb; discriminate|reflexivity]
                     |destruct (term_eqb_spec p_result p); [subst; rewrite term_eqb_refl in Ha; discriminate|reflexivity]]. }
  rewrite H1, andb_false_r. rewrite Hne. simpl.
  rewrite !filter_app. 
  assert (Hf : forall l, (forall t, In t l -> tsubj t = BN n) ->
            filter (fun t => term_eqb (tsubj t) s && term_eqb (tpred t) p) l = []).
  { induction l as [|t l IHl]; intros Hall; simpl; [reflexivity|].
    rewrite (Hall t (or_introl eq_refl)), Hne. simpl. apply IHl. intros t' Ht'. apply Hall. right; auto. }
  rewrite !Hf; [reflexivity| | |].
  - intros t Ht. apply in_map_iff in Ht as (m & <- & _). reflexivity.
  - intros t Ht. unfold opt_triple in Ht. destruct (rpath r); [destruct Ht as [<-|[]]; reflexivity|destruct Ht].
  - intros t Ht. unfold opt_triple in Ht. destruct (rvalue r); [destruct Ht as [<-|[]]; reflexivity|destruct Ht].
Qed.

Lemma msgs_count n (ms:list term) q : term_eqb p_msg q = false ->
  length (filter (fun t => term_eqb (tsubj t) (BN n) && term_eqb (tpred t) q) (map (fun m => (BN n, p_msg, m)) ms)) = 0.
Proof. intros H. induction ms as [|m ms IH]; simpl; [reflexivity|]. rewrite N.eqb_refl. simpl. unfold p_msg in H. simpl in H. rewrite H. exact IH. Qed.

Ltac own_count :=
  intros; unfold node_triples, count_sp, opt_triple;
  match goal with |- context [rvalue ?r] => destruct (rvalue r) end;
  match goal with |- context [rpath ?r] => destruct (rpath r) end;
  match goal with parent : option N |- _ => destruct parent end;
  rewrite ?filter_app, ?app_length, ?msgs_count by reflexivity;
  simpl; rewrite ?andb_false_r, ?N.eqb_refl; simpl; rewrite ?andb_false_r; simpl; reflexivity.

(* every result node has exactly one rdf:type, sh:sourceConstraintComponent, sh:sourceShape,
   sh:resultSeverity and sh:focusNode, and at most one sh:value and sh:resultPath *)
Lemma own_type report n parent r : count_sp (node_triples report (n, parent, r)) (BN n) p_type = 1.
Proof. own_count. Qed.
Lemma own_comp report n parent r : count_sp (node_triples report (n, parent, r)) (BN n) p_comp = 1.
Proof. own_count. Qed.
Lemma own_shape report n parent r : count_sp (node_triples report (n, parent, r)) (BN n) p_shape = 1.
Proof. own_count. Qed.
Lemma own_sev report n parent r : count_sp (node_triples report (n, parent, r)) (BN n) p_sev = 1.
Proof. own_count. Qed.
Lemma own_focus report n parent r : count_sp (node_triples report (n, parent, r)) (BN n) p_focus = 1.
Proof. own_count. Qed.
Lemma own_value report n parent r :
  count_sp (node_triples report (n, parent, r)) (BN n) p_value = match rvalue r with Some _ => 1 | None => 0 end.
Proof. own_count. Qed.
Lemma own_path report n parent r :
  count_sp (node_triples report (n, parent, r)) (BN n) p_path = match rpath r with Some _ => 1 | None => 0 end.
Proof. own_count. Qed.

(* ---- the whole report graph ---- *)
Lemma fold_zero {A} (g:A -> nat) (L:list A) : (forall y, In y L -> g y = 0) ->
  fold_right (fun y acc => g y + acc) 0 L = 0.
Proof. induction L as [|a L IH]; simpl; intros H; [reflexivity|]. rewrite (H a), IH; auto. Qed.

Lemma fold_single {A} (g:A -> nat) (key:A -> N) (L:list A) x :
  NoDup (map key L) -> In x L -> (forall y, In y L -> key y <> key x -> g y = 0) ->
  fold_right (fun y acc => g y + acc) 0 L = g x.
Proof.
  induction L as [|a L IH]; simpl; intros Hn Hx Hz; [destruct Hx|].
  inversion Hn as [|? ? Ha Hl]; subst. destruct Hx as [->|Hx].
  - rewrite fold_zero; [lia|]. intros y Hy. apply Hz; [right; auto|].
    intros Hk. apply Ha. rewrite <- Hk. apply in_map. exact Hy.
  - rewrite (Hz a (or_introl eq_refl)).
    + simpl. apply IH; auto.
    + intros Hk. apply Ha. rewrite Hk. apply in_map. exact Hx.
Qed.

Section Wf.
Variable report : term.
Hypothesis report_not_bnode : forall k, report <> BN k.   (* the report node is a fresh node of its own *)
Variables (base:N) (conforms:bool) (rs:list vresult).
Let L := snd (label_all rs base).
Let T := report_graph report base conforms rs.

Lemma labels_nodup : NoDup (labels L).
Proof.
  unfold L. destruct (label_all rs base) as [n' L0] eqn:E. apply label_all_range in E as (_ & _ & H). exact H.
Qed.

(* the description of a result node in the whole report is its own description *)
Theorem result_node_description n parent r p :
  In (n, parent, r) L -> is_link p = false ->
  count_sp T (BN n) p = count_sp (node_triples report (n, parent, r)) (BN n) p.
Proof.
  intros Hin Hl. unfold T, report_graph. fold L.
  change ((report, p_type, c_report) :: (report, p_conforms, bool_lit conforms) :: flat_map (node_triples report) L)
    with ([(report, p_type, c_report); (report, p_conforms, bool_lit conforms)] ++ flat_map (node_triples report) L).
  rewrite count_sp_app.
  assert (Hhead : count_sp [(report, p_type, c_report); (report, p_conforms, bool_lit conforms)] (BN n) p = 0).
  { unfold count_sp. cbn [filter tsubj tpred fst snd].
    destruct (term_eqb_spec report (BN n)) as [E|_]; [exfalso; exact (report_not_bnode n E)|reflexivity]. }
  rewrite Hhead, count_sp_flat_map. simpl.
  apply (fold_single (fun x => count_sp (node_triples report x) (BN n) p) (fun x => fst (fst x)) L (n, parent, r)).
  - exact labels_nodup.
  - exact Hin.
  - intros y Hy Hk. apply node_triples_other; auto. simpl in Hk. intros [= E]. apply Hk. symmetry. exact E.
Qed.

(* C06: every result node is a sh:ValidationResult with exactly one sh:focusNode,
   sh:resultSeverity, sh:sourceConstraintComponent, sh:sourceShape and at most one sh:value, sh:resultPath *)
Theorem result_node_wf n parent r : In (n, parent, r) L ->
  count_sp T (BN n) p_type = 1 /\ count_sp T (BN n) p_focus = 1 /\ count_sp T (BN n) p_sev = 1
  /\ count_sp T (BN n) p_comp = 1 /\ count_sp T (BN n) p_shape = 1
  /\ count_sp T (BN n) p_value <= 1 /\ count_sp T (BN n) p_path <= 1.
Proof.
  intros Hin. rewrite !(result_node_description n parent r) by (auto; reflexivity).
  rewrite own_type, own_focus, own_sev, own_comp, own_shape, own_value, own_path.
  repeat split; auto; [destruct (rvalue r)|destruct (rpath r)]; lia.
Qed.

(* one sh:ValidationReport node with one sh:conforms literal equal to the verdict, and as many
   sh:result links as top-level results *)
Theorem report_node_wf :
  count_sp T report p_type = 1 /\ In (report, p_conforms, bool_lit conforms) T
  /\ count_sp T report p_conforms = 1 /\ count_sp T report p_result = length rs.
Proof.
  unfold T, report_graph. fold L.
  change ((report, p_type, c_report) :: (report, p_conforms, bool_lit conforms) :: flat_map (node_triples report) L)
    with ([(report, p_type, c_report); (report, p_conforms, bool_lit conforms)] ++ flat_map (node_triples report) L).
  assert (Hcnt0 : forall l n q, (forall t, In t l -> tsubj t = BN n) -> count_sp l report q = 0).
  { intros l n q. unfold count_sp. induction l as [|t l IHl]; intros Hall; simpl; [reflexivity|].
    rewrite (Hall t (or_introl eq_refl)).
    destruct (term_eqb_spec (BN n) report) as [E|_]; [exfalso; exact (report_not_bnode n (eq_sym E))|].
    simpl. apply IHl. intros t' Ht'. apply Hall. right; auto. }
  assert (Hnode : forall x q, count_sp (node_triples report x) report q =
             if term_eqb q p_result then match snd (fst x) with None => 1 | Some _ => 0 end else 0).
  { intros [[n parent] r] q. unfold node_triples. cbn [fst snd]. rewrite !count_sp_app.
    rewrite (Hcnt0 (opt_triple (BN n) p_value (rvalue r)) n), (Hcnt0 (opt_triple (BN n) p_path (rpath r)) n),
            (Hcnt0 (map (fun m => (BN n, p_msg, m)) (rmsgs r)) n).
    - unfold count_sp. cbn [filter tsubj tpred fst snd].
      assert (Hrn : term_eqb (BN n) report = false).
      { destruct (term_eqb_spec (BN n) report) as [E|_]; [exfalso; exact (report_not_bnode n (eq_sym E))|reflexivity]. }
      rewrite !Hrn. cbn [andb]. destruct parent as [k|].
      + destruct (term_eqb_spec (BN k) report) as [E|_]; [exfalso; exact (report_not_bnode k (eq_sym E))|].
        cbn [andb length]. destruct (term_eqb q p_result); reflexivity.
      + rewrite term_eqb_refl. cbn [andb].
        destruct (term_eqb_spec p_result q) as [<-|Hne]; [rewrite term_eqb_refl; reflexivity|].
        destruct (term_eqb_spec q p_result); [congruence|reflexivity].
    - intros t Ht. apply in_map_iff in Ht as (m & <- & _). reflexivity.
    - intros t Ht. unfold opt_triple in Ht. destruct (rpath r); [destruct Ht as [<-|[]]; reflexivity|destruct Ht].
    - intros t Ht. unfold opt_triple in Ht. destruct (rvalue r); [destruct Ht as [<-|[]]; reflexivity|destruct Ht]. }
  assert (Hsum : forall q, count_sp (flat_map (node_triples report) L) report q =
            if term_eqb q p_result then length (toplevel L) else 0).
  { intros q. rewrite count_sp_flat_map. induction L as [|x L0 IH]; simpl; [destruct (term_eqb q p_result); reflexivity|].
    rewrite IH, Hnode. unfold toplevel. simpl. destruct (term_eqb q p_result); [|reflexivity].
    destruct (snd (fst x)); simpl; lia. }
  rewrite !count_sp_app, !Hsum.
  assert (Htop : length (toplevel L) = length rs) by (unfold L; apply label_all_toplevel).
  repeat split.
  - unfold count_sp. cbn [filter tsubj tpred fst snd]. rewrite !term_eqb_refl. simpl. reflexivity.
  - apply in_or_app. left. right. left. reflexivity.
  - unfold count_sp. cbn [filter tsubj tpred fst snd]. rewrite !term_eqb_refl. simpl. reflexivity.
  - unfold count_sp. cbn [filter tsubj tpred fst snd]. rewrite !term_eqb_refl. simpl. exact Htop.
Qed.

End Wf.
