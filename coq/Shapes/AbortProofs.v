(* C12: abort_on_first changes how much is reported, never what is decided. *)
From Coq Require Import List NArith ZArith Bool Arith Lia.
From Verif Require Import Base.SetList Base.Terms Base.Vocab Paths.Path
  Shapes.AST Shapes.Leaf Shapes.Eval Shapes.EvalProofs Shapes.EvalRel Shapes.DepthProofs.
Import ListNotations.

(* r1 is r2 with possibly fewer nested details; l1 is a sub-list of l2 in that sense *)
Inductive le_res : vresult -> vresult -> Prop :=
| le_vr f v p c s sev m d1 d2 : le_list d1 d2 -> le_res (VR f v p c s sev m d1) (VR f v p c s sev m d2)
with le_list : list vresult -> list vresult -> Prop :=
| le_nil l : le_list [] l
| le_cons a b l1 l2 : le_res a b -> le_list l1 l2 -> le_list (a :: l1) (b :: l2)
| le_skip b l1 l2 : le_list l1 l2 -> le_list l1 (b :: l2).

Fixpoint le_res_refl (r:vresult) : le_res r r :=
  match r with
  | VR f v p c s sev m d =>
    le_vr f v p c s sev m d d
      ((fix go (l:list vresult) : le_list l l :=
          match l with [] => le_nil [] | a :: l' => le_cons a a l' l' (le_res_refl a) (go l') end) d)
  end.

Lemma le_list_refl l : le_list l l.
Proof. induction l; constructor; auto. apply le_res_refl. Qed.

Lemma le_list_skip_app l x : forall l1, le_list l1 l -> le_list l1 (x ++ l).
Proof. induction x as [|b x IH]; simpl; intros; auto. apply le_skip. auto. Qed.

Lemma le_list_app a b c d : le_list a b -> le_list c d -> le_list (a ++ c) (b ++ d).
Proof.
  intros H. revert c d. induction H as [l|x y l1 l2 Hxy Hl IH|y l1 l2 Hl IH]; intros c d Hcd; simpl.
  - apply le_list_skip_app. exact Hcd.
  - apply le_cons; auto.
  - apply le_skip. apply IH. exact Hcd.
Qed.

Lemma le_list_app_r a b x : le_list a b -> le_list a (b ++ x).
Proof. intros H. rewrite <- (app_nil_r a). apply le_list_app; auto. constructor. Qed.

Lemma le_list_concat ls1 ls2 : Forall2 le_list ls1 ls2 -> le_list (concat ls1) (concat ls2).
Proof. induction 1; simpl; [constructor|apply le_list_app; auto]. Qed.

Lemma le_list_nil_r l : le_list l [] -> l = [].
Proof. inversion 1; reflexivity. Qed.

Section WithTrig.
Variable trig : trig_t.
Variable W : world.
Variable o : eopts.   (* the complete run: e_abort o = false; the aborted run uses oa *)
Definition oa : eopts := {| e_abort := true; e_allowed := e_allowed o; e_max_depth := e_max_depth o |}.

Lemma all_waived_oa rs : all_waived oa rs = all_waived o rs.
Proof. reflexivity. Qed.

(* what the aborted run may return, given the complete run's answer *)
Definition rel (r1 r2:list vresult) : Prop :=
  le_list r1 r2 /\ all_waived o r1 = all_waived o r2 /\ isnil r1 = isnil r2.

Lemma rel_refl r : rel r r.
Proof. split; [apply le_list_refl|split; reflexivity]. Qed.

Lemma isnil_app {A} (a b:list A) : isnil (a ++ b) = isnil a && isnil b.
Proof. destruct a; reflexivity. Qed.

Lemma rel_app a b c d : rel a b -> rel c d -> rel (a ++ c) (b ++ d).
Proof.
  intros (H1 & H2 & H3) (H4 & H5 & H6). split; [apply le_list_app; auto|].
  rewrite !all_waived_app, !isnil_app. split; congruence.
Qed.

Lemma rel_concat ls1 ls2 : Forall2 rel ls1 ls2 -> rel (concat ls1) (concat ls2).
Proof. induction 1; simpl; [apply rel_refl|apply rel_app; auto]. Qed.

Definition AR (n1 n2:nested_t) : Prop :=
  forall s v ep c2 r2, n2 s v ep = Ok (c2, r2) -> exists r1, n1 s v ep = Ok (c2, r1) /\ rel r1 r2.

(* components whose result is a function of the members' conformance *)
Lemma bind_fst {A} (a1 a2:res cres) (k:cres -> res A) x :
  (forall c2 r2, a2 = Ok (c2, r2) -> exists r1, a1 = Ok (c2, r1)) ->
  (forall cr cr', fst cr = fst cr' -> k cr = k cr') ->
  bind a2 k = Ok x -> bind a1 k = Ok x.
Proof.
  intros Ha Hk H. apply bind_ok in H as ([c2 r2] & E2 & Ek). destruct (Ha c2 r2 E2) as [r1 E1].
  rewrite E1. simpl. rewrite <- Ek. apply Hk. reflexivity.
Qed.

Lemma mapM_fst {A} (f1 f2:A -> res cres) l crs2 :
  (forall x c2 r2, f2 x = Ok (c2, r2) -> exists r1, f1 x = Ok (c2, r1)) ->
  mapM f2 l = Ok crs2 -> exists crs1, mapM f1 l = Ok crs1 /\ map fst crs1 = map fst crs2.
Proof.
  intros Hf. revert crs2. induction l as [|x xs IH]; simpl; intros crs2 H.
  - injection H as <-. exists []. auto.
  - apply bind_ok in H as ([c2 r2] & E2 & H). apply bind_ok in H as (ys & Em & H). injection H as <-.
    destruct (Hf x c2 r2 E2) as [r1 E1]. destruct (IH ys Em) as (crs1 & Em1 & Hm).
    exists ((c2, r1) :: crs1). rewrite E1, Em1. simpl. rewrite Hm. auto.
Qed.

Lemma forallb_fst (crs:list cres) : forallb fst crs = forallb (fun b => b) (map fst crs).
Proof. induction crs; simpl; congruence. Qed.
Lemma existsb_fst (crs:list cres) : existsb fst crs = existsb (fun b => b) (map fst crs).
Proof. induction crs; simpl; congruence. Qed.
Lemma count_fst (crs:list cres) : length (filter fst crs) = length (filter (fun b => b) (map fst crs)).
Proof. induction crs as [|a crs IH]; simpl; [reflexivity|]. destruct (fst a); simpl; congruence. Qed.

Lemma mapM_transfer {A B} (f1 f2:A -> res B) l ys :
  (forall x y, In x l -> f2 x = Ok y -> f1 x = Ok y) -> mapM f2 l = Ok ys -> mapM f1 l = Ok ys.
Proof.
  revert ys. induction l as [|x xs IH]; simpl; intros ys Hf H; [exact H|].
  apply bind_ok in H as (y & E2 & H). apply bind_ok in H as (ys' & Em & H). injection H as <-.
  rewrite (Hf x y (or_introl eq_refl) E2). simpl.
  assert (Hxs : mapM f1 xs = Ok ys') by (apply IH; auto; intros z w Hz; apply Hf; right; auto).
  rewrite Hxs. reflexivity.
Qed.

Lemma for_values_transfer {A} fvs (k1 k2:term -> term -> res (list A)) out :
  (forall f v l, k2 f v = Ok l -> k1 f v = Ok l) -> for_values fvs k2 = Ok out -> for_values fvs k1 = Ok out.
Proof.
  intros Hk H. unfold for_values in *. apply bind_ok in H as (ls & Hm & E). injection E as <-.
  erewrite mapM_transfer; [reflexivity| |exact Hm].
  intros [f vs] y _ H. simpl in *. apply bind_ok in H as (ls2 & Hm2 & E2). injection E2 as <-.
  erewrite mapM_transfer; [reflexivity| |exact Hm2]. intros v l _. apply Hk.
Qed.

Lemma concatM_map_transfer {A B} (f1 f2:A -> res (list B)) l out :
  (forall x y, In x l -> f2 x = Ok y -> f1 x = Ok y) -> concatM (map f2 l) = Ok out -> concatM (map f1 l) = Ok out.
Proof.
  intros Hf H. unfold concatM in *. apply bind_ok in H as (ls & Hm & E). injection E as <-.
  assert (Hm1 : mapM (fun x => x) (map f1 l) = Ok ls).
  { revert ls Hm. induction l as [|x xs IH]; simpl; intros ls Hm; [exact Hm|].
    apply bind_ok in Hm as (y & E2 & H). apply bind_ok in H as (ys' & Em & H). injection H as <-.
    rewrite (Hf x y (or_introl eq_refl) E2). simpl. rewrite (IH (fun z w Hz => Hf z w (or_intror Hz)) ys' Em). reflexivity. }
  rewrite Hm1. reflexivity.
Qed.

Definition fst_agree (n1 n2:nested_t) : Prop :=
  forall s v ep c2 r2, n2 s v ep = Ok (c2, r2) -> exists r1, n1 s v ep = Ok (c2, r1).

(* C04: sh:not, sh:and, sh:or, sh:xone and sh:qualifiedValueShape produce their results from
   the members' conformance alone *)
Lemma evalc_conformance_only n1 n2 g E s fvs ep c cr :
  fst_agree n1 n2 ->
  match c with CNode _ | CProperty _ => False | _ => True end ->
  evalc trig W n2 g E s fvs ep c = Ok cr -> evalc trig W n1 g E s fvs ep c = Ok cr.
Proof.
  intros Hn Hc. destruct c; try destruct Hc; cbn [evalc].
  - auto.
  - intros H. apply bind_ok in H as (rs & Hm & Eq). injection Eq as <-.
    erewrite concatM_map_transfer; [reflexivity| |exact Hm].
    intros r y _. cbv beta. destruct (lookup E r) as [ns|]; auto. destruct (in_triggers _ ns); auto.
    apply for_values_transfer. intros f v l. apply bind_fst; [apply Hn|]. intros cr cr' Hf. rewrite Hf. reflexivity.
  - intros H. apply bind_ok in H as (rs & Hm & Eq). injection Eq as <-.
    erewrite concatM_map_transfer; [reflexivity| |exact Hm].
    intros members y _. cbv beta zeta. destruct (isnil _); auto. intros H.
    apply bind_ok in H as (shapes & El & H). rewrite El. simpl.
    revert H. apply for_values_transfer. intros f v l H.
    apply bind_ok in H as (crs2 & Em & H). destruct (mapM_fst (fun ns => n1 ns v ep) _ _ _ (fun x => Hn x v ep) Em) as (crs1 & Em1 & Hf).
    rewrite Em1. simpl. rewrite forallb_fst, Hf, <- forallb_fst. exact H.
  - intros H. apply bind_ok in H as (rs & Hm & Eq). injection Eq as <-.
    erewrite concatM_map_transfer; [reflexivity| |exact Hm].
    intros members y _. cbv beta zeta. destruct (isnil _); auto. intros H.
    apply bind_ok in H as (shapes & El & H). rewrite El. simpl.
    revert H. apply for_values_transfer. intros f v l H.
    apply bind_ok in H as (crs2 & Em & H). destruct (mapM_fst (fun ns => n1 ns v ep) _ _ _ (fun x => Hn x v ep) Em) as (crs1 & Em1 & Hf).
    rewrite Em1. simpl. rewrite existsb_fst, Hf, <- existsb_fst. exact H.
  - intros H. apply bind_ok in H as (rs & Hm & Eq). injection Eq as <-.
    erewrite concatM_map_transfer; [reflexivity| |exact Hm].
    intros members y _. cbv beta. destruct (isnil _); auto. intros H.
    apply bind_ok in H as (shapes & El & H). rewrite El. simpl.
    revert H. apply for_values_transfer. intros f v l H.
    apply bind_ok in H as (crs2 & Em & H). destruct (mapM_fst (fun ns => n1 ns v ep) _ _ _ (fun x => Hn x v ep) Em) as (crs1 & Em1 & Hf).
    rewrite Em1. simpl. rewrite count_fst, Hf, <- count_fst. exact H.
  - destruct (_ && _ && _); auto.
    intros H. apply bind_ok in H as (rs & Hm & Eq). injection Eq as <-.
    erewrite concatM_map_transfer; [reflexivity| |exact Hm].
    intros r y _. cbv beta. destruct (lookup E r) as [qs|]; auto. destruct (in_triggers _ qs); auto.
    intros H. apply bind_ok in H as (sibs & Es & H). rewrite Es. simpl.
    apply bind_ok in H as (ls & Hm2 & E2). injection E2 as <-.
    erewrite mapM_transfer; [reflexivity| |exact Hm2].
    intros fv l _ H. cbv beta in H. apply bind_ok in H as (flags & Hf & H).
    erewrite mapM_transfer; [exact H| |exact Hf].
    intros v b _ Hb. cbv beta in Hb. apply bind_ok in Hb as ([c2 r2] & E2 & Hb). destruct (Hn qs v ep c2 r2 E2) as [r1 E1].
    rewrite E1. simpl in *. destruct c2; [|exact Hb].
    apply bind_ok in Hb as (scrs2 & Em & Hb).
    destruct (mapM_fst (fun sib => n1 sib v ep) _ _ _ (fun x => Hn x v ep) Em) as (scrs1 & Em1 & Hfs).
    rewrite Em1. simpl. rewrite existsb_fst, Hfs, <- existsb_fst. exact Hb.
  - auto.
  - auto.
  - auto.
Qed.

(* ---------------- element-wise transfer of relations through the plumbing ---------------- *)
Lemma mapM_rel {A B} (R:B -> B -> Prop) (f1 f2:A -> res B) l ys2 :
  (forall x y2, In x l -> f2 x = Ok y2 -> exists y1, f1 x = Ok y1 /\ R y1 y2) ->
  mapM f2 l = Ok ys2 -> exists ys1, mapM f1 l = Ok ys1 /\ Forall2 R ys1 ys2.
Proof.
  revert ys2. induction l as [|x xs IH]; simpl; intros ys2 Hf H.
  - injection H as <-. exists []. split; [reflexivity|constructor].
  - apply bind_ok in H as (y2 & E2 & H). apply bind_ok in H as (ys' & Em & H). injection H as <-.
    destruct (Hf x y2 (or_introl eq_refl) E2) as (y1 & E1 & Hr).
    destruct (IH ys' (fun z w Hz => Hf z w (or_intror Hz)) Em) as (ys1 & Em1 & HF).
    exists (y1 :: ys1). rewrite E1, Em1. split; [reflexivity|constructor; auto].
Qed.

Lemma Forall2_concat {A} (R:A -> A -> Prop) ls1 ls2 :
  Forall2 (Forall2 R) ls1 ls2 -> Forall2 R (concat ls1) (concat ls2).
Proof. induction 1; simpl; [constructor|apply Forall2_app; auto]. Qed.

Lemma for_values_rel {A} (R:A -> A -> Prop) fvs (k1 k2:term -> term -> res (list A)) out2 :
  (forall f v l2, k2 f v = Ok l2 -> exists l1, k1 f v = Ok l1 /\ Forall2 R l1 l2) ->
  for_values fvs k2 = Ok out2 -> exists out1, for_values fvs k1 = Ok out1 /\ Forall2 R out1 out2.
Proof.
  intros Hk H. unfold for_values in *. apply bind_ok in H as (ls2 & Hm & E). injection E as <-.
  edestruct (mapM_rel (Forall2 R) (fun fv => bind (mapM (k1 (fst fv)) (snd fv)) (fun ls => Ok (concat ls))))
    as (ls1 & Hm1 & HF); [|exact Hm|].
  - intros fv y2 _ H. cbv beta in H. apply bind_ok in H as (l2 & Hm2 & E2). injection E2 as <-.
    edestruct (mapM_rel (Forall2 R) (k1 (fst fv))) as (l1 & Hm1 & HF); [|exact Hm2|].
    + intros v l2' _ Hv. apply Hk. exact Hv.
    + exists (concat l1). cbv beta. rewrite Hm1. split; [reflexivity|apply Forall2_concat; auto].
  - exists (concat ls1). rewrite Hm1. split; [reflexivity|apply Forall2_concat; auto].
Qed.

Lemma concatM_map_rel {A B} (R:B -> B -> Prop) (f1 f2:A -> res (list B)) l out2 :
  (forall x y2, In x l -> f2 x = Ok y2 -> exists y1, f1 x = Ok y1 /\ Forall2 R y1 y2) ->
  concatM (map f2 l) = Ok out2 -> exists out1, concatM (map f1 l) = Ok out1 /\ Forall2 R out1 out2.
Proof.
  intros Hf H. unfold concatM in *. apply bind_ok in H as (ls2 & Hm & E). injection E as <-.
  assert (G : exists ls1, mapM (fun x => x) (map f1 l) = Ok ls1 /\ Forall2 (Forall2 R) ls1 ls2).
  { revert ls2 Hm. induction l as [|x xs IH]; simpl; intros ls2 Hm.
    - injection Hm as <-. exists []. split; [reflexivity|constructor].
    - apply bind_ok in Hm as (y2 & E2 & H). apply bind_ok in H as (ys' & Em & H). injection H as <-.
      destruct (Hf x y2 (or_introl eq_refl) E2) as (y1 & E1 & Hr).
      destruct (IH (fun z w Hz => Hf z w (or_intror Hz)) ys' Em) as (ys1 & Em1 & HF).
      exists (y1 :: ys1). rewrite E1, Em1. split; [reflexivity|constructor; auto]. }
  destruct G as (ls1 & Hm1 & HF). exists (concat ls1). rewrite Hm1. split; [reflexivity|apply Forall2_concat; auto].
Qed.

(* same result up to fewer details *)
Definition vr_rel (a b:vresult) : Prop := le_res a b /\ rsev a = rsev b.

Lemma vr_rel_list l1 l2 : Forall2 vr_rel l1 l2 -> rel l1 l2.
Proof.
  induction 1 as [|a b l1 l2 [Hle Hs] _ IH]; [apply rel_refl|].
  destruct IH as (H1 & H2 & H3). split; [apply le_cons; auto|]. split; [|reflexivity].
  unfold all_waived in *. simpl. unfold waived at 1 3. rewrite Hs, H2. reflexivity.
Qed.

Lemma Forall2_refl {A} (R:A -> A -> Prop) l : (forall x, R x x) -> Forall2 R l l.
Proof. intros H. induction l; constructor; auto. Qed.

Definition cr_rel (a b:cres) : Prop := fst a = fst b /\ rel (snd a) (snd b).

Lemma cr_rel_list l1 l2 : Forall2 cr_rel l1 l2 ->
  forallb fst l1 = forallb fst l2 /\ rel (flat_map snd l1) (flat_map snd l2).
Proof.
  induction 1 as [|a b l1 l2 [Hf Hr] _ [IH1 IH2]]; simpl; [split; [reflexivity|apply rel_refl]|].
  split; [congruence|apply rel_app; auto].
Qed.

Lemma AR_fst n1 n2 : AR n1 n2 -> fst_agree n1 n2.
Proof. intros H s v ep c2 r2 E. destruct (H s v ep c2 r2 E) as (r1 & E1 & _). eauto. Qed.

Lemma evalc_AR n1 n2 g E s fvs ep c cr2 :
  AR n1 n2 -> nested_good n1 -> nested_good n2 ->
  evalc trig W n2 g E s fvs ep c = Ok cr2 ->
  exists r1, evalc trig W n1 g E s fvs ep c = Ok (fst cr2, r1) /\ rel r1 (snd cr2).
Proof.
  intros Hn Hg1 Hg2 H.
  assert (Hco : match c with CNode _ | CProperty _ => False | _ => True end ->
                exists r1, evalc trig W n1 g E s fvs ep c = Ok (fst cr2, r1) /\ rel r1 (snd cr2)).
  { intros Hc. exists (snd cr2). split; [|apply rel_refl].
    rewrite (evalc_conformance_only n1 n2 g E s fvs ep c cr2 (AR_fst _ _ Hn) Hc H). destruct cr2; reflexivity. }
  destruct c; try (apply Hco; exact I); clear Hco; cbn [evalc] in *.
  - (* sh:node: same results, details possibly fewer *)
    destruct (value_count fvs <? 1); [injection H as <-; exists []; split; [reflexivity|apply rel_refl]|].
    apply bind_ok in H as (rs2 & Hm & Eq). injection Eq as <-.
    edestruct (concatM_map_rel vr_rel (fun r =>
      match lookup E r with
      | None => Err Reportable
      | Some ns =>
        if in_triggers (trig ep (sid s) KNode) ns then Ok []
        else if is_property_shape ns then Err Reportable
        else for_values fvs (fun f v => bind (n1 ns v ep) (fun cr =>
               Ok (if negb (fst cr) || negb (isnil (snd cr)) then [mk s sh_NodeConstraintComponent f (Some v) (snd cr)] else [])))
      end)) as (rs1 & Hm1 & HF); [|exact Hm|].
    2:{ exists rs1. rewrite Hm1. simpl. apply vr_rel_list in HF. destruct HF as (H1 & H2 & H3).
        unfold reported. rewrite H3. split; [reflexivity|]. split; auto. }
    intros r y2 _ Hr.
    cbv beta in Hr. destruct (lookup E r) as [ns|]; [|discriminate].
    destruct (in_triggers _ ns); [injection Hr as <-; exists []; split; [reflexivity|constructor]|].
    destruct (is_property_shape ns); [discriminate|].
    revert Hr. apply for_values_rel. intros f v l2 Hk.
    apply bind_ok in Hk as ([c2 r2] & E2 & Hk). destruct (Hn ns v ep c2 r2 E2) as (r1 & E1 & Hr1).
    rewrite E1. simpl in *. injection Hk as <-.
    pose proof (Hg1 _ _ _ _ E1) as G1. pose proof (Hg2 _ _ _ _ E2) as G2. red in G1, G2. simpl in G1, G2.
    destruct Hr1 as (Hle & Hw & Hnil). rewrite Hnil.
    destruct (negb c2 || negb (isnil r2)); eexists; (split; [reflexivity|]); repeat constructor; auto.
  - (* sh:property: nested results forwarded *)
    destruct (value_count fvs <? 1); [injection H as <-; exists []; split; [reflexivity|apply rel_refl]|].
    apply bind_ok in H as (crss2 & Hm & Eq). injection Eq as <-.
    edestruct (mapM_rel (Forall2 cr_rel) (fun r =>
      match lookup E r with
      | None => Err Reportable
      | Some ps =>
        if in_triggers (trig ep (sid s) KProperty) ps then Ok []
        else if negb (is_property_shape ps) then Err Reportable
        else for_values fvs (fun f v => bind (n1 ps v ep) (fun cr => Ok [cr]))
      end)) as (crss1 & Hm1 & HF); [|exact Hm|].
    2:{ apply Forall2_concat in HF. apply cr_rel_list in HF as [Hf Hr].
        exists (flat_map snd (concat crss1)). rewrite Hm1. simpl. rewrite Hf. split; [reflexivity|exact Hr]. }
    intros r y2 _ Hr.
    cbv beta in Hr. destruct (lookup E r) as [ps|]; [|discriminate].
    destruct (in_triggers _ ps); [injection Hr as <-; exists []; split; [reflexivity|constructor]|].
    destruct (negb (is_property_shape ps)); [discriminate|].
    revert Hr. apply for_values_rel. intros f v l2 Hk.
    apply bind_ok in Hk as ([c2 r2] & E2 & Hk). destruct (Hn ps v ep c2 r2 E2) as (r1 & E1 & Hr1).
    rewrite E1. simpl. injection Hk as <-. eexists; split; [reflexivity|].
    constructor; [|constructor]. split; [reflexivity|exact Hr1].
Qed.

(* ---------------- the constraint loop ---------------- *)
Lemma loop_extends oo top s ev : forall cs nc nw acc c r,
  loop oo top s ev cs nc nw acc = Ok (c, r) ->
  (exists more, r = acc ++ more) /\ ((if top then nw else nc) = true -> c = false).
Proof.
  induction cs as [|c0 cs IH]; intros nc nw acc c r; cbn [loop].
  - intros [= <- <-]. split; [exists []; rewrite app_nil_r; reflexivity|]. intros ->. reflexivity.
  - assert (Hstep : bind (ev c0) (fun cr =>
        let nc' := nc || negb (fst cr) in
        let nw' := if fst cr then nw else nw || isnil (e_allowed oo) || negb (all_waived oo (snd cr)) in
        let acc' := acc ++ snd cr in
        if nw' && e_abort oo then Ok (negb (if top then nw' else nc'), acc') else loop oo top s ev cs nc' nw' acc') = Ok (c, r) ->
        (exists more, r = acc ++ more) /\ ((if top then nw else nc) = true -> c = false)).
    { intros H. apply bind_ok in H as (cr & _ & H). cbv zeta in H.
      assert (Hmono : (if top then nw else nc) = true ->
                (if top then (if fst cr then nw else nw || isnil (e_allowed oo) || negb (all_waived oo (snd cr)))
                 else nc || negb (fst cr)) = true).
      { destruct top; intros ->; [destruct (fst cr)|]; reflexivity. }
      destruct (_ && e_abort oo).
      - injection H as <- <-. split; [eauto|]. intros Hf. rewrite (Hmono Hf). reflexivity.
      - apply IH in H as ((more & ->) & Hc). split; [exists (snd cr ++ more); rewrite app_assoc; reflexivity|].
        intros Hf. apply Hc. apply Hmono. exact Hf. }
    destruct c0; try exact Hstep. destruct (spath s); [exact Hstep|apply IH].
Qed.

Hypothesis Hfull : e_abort o = false.

Lemma all_waived_false_nonempty rs : all_waived o rs = false -> rs <> [].
Proof. intros H ->. discriminate. Qed.

Lemma loop_AR top s ev1 ev2 :
  (forall c cr2, ev2 c = Ok cr2 -> exists r1, ev1 c = Ok (fst cr2, r1) /\ rel r1 (snd cr2)) ->
  (forall c r, ev2 c = Ok r -> good r) ->
  forall cs nc nw acc1 acc2 c2 r2,
  rel acc1 acc2 -> nw = negb (all_waived o acc2) -> (nw = true -> nc = true) ->
  loop o top s ev2 cs nc nw acc2 = Ok (c2, r2) ->
  exists r1, loop oa top s ev1 cs nc nw acc1 = Ok (c2, r1) /\ rel r1 r2.
Proof.
  intros Hev Hgood. induction cs as [|c0 cs IH]; intros nc nw acc1 acc2 c2 r2 Hrel Hnw Hnc; cbn [loop].
  - intros [= <- <-]. eauto.
  - assert (Hstep : bind (ev2 c0) (fun cr =>
        let nc' := nc || negb (fst cr) in
        let nw' := if fst cr then nw else nw || isnil (e_allowed o) || negb (all_waived o (snd cr)) in
        let acc' := acc2 ++ snd cr in
        if nw' && e_abort o then Ok (negb (if top then nw' else nc'), acc') else loop o top s ev2 cs nc' nw' acc') = Ok (c2, r2) ->
      exists r1, bind (ev1 c0) (fun cr =>
        let nc' := nc || negb (fst cr) in
        let nw' := if fst cr then nw else nw || isnil (e_allowed oa) || negb (all_waived oa (snd cr)) in
        let acc' := acc1 ++ snd cr in
        if nw' && e_abort oa then Ok (negb (if top then nw' else nc'), acc') else loop oa top s ev1 cs nc' nw' acc') = Ok (c2, r1)
        /\ rel r1 r2).
    { intros H. apply bind_ok in H as (cr2 & E2 & H). pose proof (Hgood _ _ E2) as G2. red in G2.
      destruct (Hev _ _ E2) as (r1c & E1 & Hrc). rewrite E1. cbn [bind fst snd]. cbv zeta in H |- *.
      rewrite Hfull, andb_false_r in H.
      change (e_allowed oa) with (e_allowed o). change (e_abort oa) with true. rewrite all_waived_oa, andb_true_r.
      destruct Hrc as (Hle & Hw & Hnil). rewrite Hw.
      set (nc' := nc || negb (fst cr2)) in *.
      set (nw' := if fst cr2 then nw else nw || isnil (e_allowed o) || negb (all_waived o (snd cr2))) in *.
      assert (Hrel' : rel (acc1 ++ r1c) (acc2 ++ snd cr2)) by (apply rel_app; auto; split; auto).
      assert (Hnw' : nw' = negb (all_waived o (acc2 ++ snd cr2))).
      { subst nw'. rewrite all_waived_app. destruct (fst cr2) eqn:Ef.
        - destruct G2 as [G2 _]. rewrite (G2 eq_refl). simpl. rewrite andb_true_r. exact Hnw.
        - assert (Hne : snd cr2 <> []) by (intros Hn; apply G2 in Hn; discriminate).
          rewrite Hnw. destruct (e_allowed o) eqn:Ea; simpl.
          + rewrite (all_waived_none o (snd cr2) Ea Hne). rewrite orb_true_r, andb_false_r. reflexivity.
          + rewrite orb_false_r, negb_andb. reflexivity. }
      assert (Hnc' : nw' = true -> nc' = true).
      { subst nw' nc'. destruct (fst cr2); simpl; [rewrite orb_false_r; exact Hnc|]. intros _. apply orb_true_r. }
      destruct nw' eqn:Enw.
      - (* the aborted run stops here; the complete run goes on but its verdict is already decided *)
        apply loop_extends in H as ((more & ->) & Hc).
        assert (Hflag : (if top then true else nc') = true) by (destruct top; auto).
        rewrite (Hc Hflag). rewrite Hflag. simpl. eexists. split; [reflexivity|].
        destruct Hrel' as (L1 & L2 & L3).
        assert (Haw : all_waived o (acc2 ++ snd cr2) = false) by (destruct (all_waived o (acc2 ++ snd cr2)); [discriminate|reflexivity]).
        split; [apply le_list_app_r; exact L1|]. rewrite L2, L3.
        rewrite (all_waived_app o (acc2 ++ snd cr2) more), (isnil_app (acc2 ++ snd cr2) more), Haw.
        apply all_waived_false_nonempty in Haw. destruct (acc2 ++ snd cr2); [congruence|]. split; reflexivity.
      - eapply IH; eauto. }
    destruct c0; try exact Hstep. destruct (spath s); [exact Hstep|]. intros H. eapply IH; eauto.
Qed.

Theorem vshape_AR g E : forall fuel top ep s foci c2 r2,
  vshape trig W fuel o g E top ep s foci = Ok (c2, r2) ->
  exists r1, vshape trig W fuel oa g E top ep s foci = Ok (c2, r1) /\ rel r1 r2.
Proof.
  induction fuel as [|fuel IH]; intros top ep s foci c2 r2; cbn [vshape];
    change (e_max_depth oa) with (e_max_depth o);
    (destruct (deact s); [intros [= <- <-]; exists []; split; [reflexivity|apply rel_refl]|]);
    (destruct (isnil foci); [intros [= <- <-]; exists []; split; [reflexivity|apply rel_refl]|]);
    (destruct (_ && _); [discriminate|]); [discriminate|].
  intros H. apply bind_ok in H as (fvs & Ef & H). rewrite Ef. cbn [bind].
  eapply loop_AR; [| |apply rel_refl|reflexivity|discriminate|exact H].
  - intros c cr2 Hc. eapply evalc_AR; [| | |exact Hc].
    + intros s' v ep' c2' r2' Hn. apply IH. exact Hn.
    + intros s' v ep' cr. apply vshape_good.
    + intros s' v ep' cr. apply vshape_good.
  - intros c r. apply evalc_good. intros s' v ep' cr. apply vshape_good.
Qed.

End WithTrig.

(* ---------------- the validator loop ---------------- *)
Section Validate.
Variable trig : trig_t.
Variable W : world.
Variable o : opts.               (* the complete run *)
Hypothesis Hfull : abort o = false.
Definition with_abort : opts :=
  {| abort := true; allow_infos := allow_infos o; allow_warnings := allow_warnings o;
     max_depth := max_depth o; focus_filter := focus_filter o |}.
Notation eo := (eopts_of o).
Notation relo := (rel eo).

Lemma eopts_with_abort : eopts_of with_abort = oa eo.
Proof. reflexivity. Qed.

Lemma validate_top_AR sg g E s explicit c2 r2 :
  validate_top trig W o sg g E s explicit = Ok (c2, r2) ->
  exists r1, validate_top trig W with_abort sg g E s explicit = Ok (c2, r1) /\ relo r1 r2.
Proof.
  assert (Hv : forall foci, vshape trig W (fuel_of eo) eo g E true [] s foci = Ok (c2, r2) ->
     exists r1, vshape trig W (fuel_of (eopts_of with_abort)) (eopts_of with_abort) g E true [] s foci = Ok (c2, r1) /\ relo r1 r2).
  { intros foci H. rewrite eopts_with_abort. apply (vshape_AR trig W eo Hfull); exact H. }
  assert (Ht : @Ok cres (true, @nil vresult) = Ok (c2, r2) -> exists r1, @Ok cres (true, @nil vresult) = Ok (c2, r1) /\ relo r1 r2).
  { intros [= <- <-]. exists []. split; [reflexivity|apply rel_refl]. }
  unfold validate_top. change (focus_filter with_abort) with (focus_filter o).
  destruct (deact s); [exact Ht|].
  destruct explicit; [apply Hv|]. destruct (isnil _); [exact Ht|].
  destruct (focus_filter o); [apply Hv|]. destruct (isnil _); [exact Ht|apply Hv].
Qed.

Lemma run_shapes_extends oo sg g E explicit : forall shapes nc acc c r,
  run_shapes trig W oo sg g E shapes explicit nc acc = Ok (c, r) ->
  (exists more, r = acc ++ more) /\ (nc = true -> c = false).
Proof.
  induction shapes as [|s rest IH]; intros nc acc c r; cbn [run_shapes].
  - intros [= <- <-]. split; [exists []; rewrite app_nil_r; reflexivity|]. intros ->; reflexivity.
  - intros H. apply bind_ok in H as (cr & _ & H). cbv zeta in H. destruct (abort oo && _).
    + injection H as <- <-. split; [eauto|]. intros ->. reflexivity.
    + apply IH in H as ((more & ->) & Hc). split; [exists (snd cr ++ more); rewrite app_assoc; reflexivity|].
      intros ->. apply Hc. reflexivity.
Qed.

Lemma run_shapes_AR sg g E explicit : forall shapes nc acc1 acc2 c2 r2,
  relo acc1 acc2 -> nc = negb (all_waived eo acc2) ->
  run_shapes trig W o sg g E shapes explicit nc acc2 = Ok (c2, r2) ->
  exists r1, run_shapes trig W with_abort sg g E shapes explicit nc acc1 = Ok (c2, r1) /\ relo r1 r2.
Proof.
  induction shapes as [|s rest IH]; intros nc acc1 acc2 c2 r2 Hrel Hnc; cbn [run_shapes].
  - intros [= <- <-]. eauto.
  - intros H. apply bind_ok in H as ([c r] & E2 & H). pose proof (validate_top_verdict trig W _ _ _ _ _ _ _ E2) as Hv.
    destruct (validate_top_AR _ _ _ _ _ _ _ E2) as (r1c & E1 & Hrc). rewrite E1. cbn [bind fst snd] in *. cbv zeta in H |- *.
    rewrite Hfull in H. cbn [andb] in H. change (abort with_abort) with true. cbn [andb].
    assert (Hrel' : relo (acc1 ++ r1c) (acc2 ++ r)) by (apply rel_app; auto).
    assert (Hnc' : nc || negb c = negb (all_waived eo (acc2 ++ r))).
    { rewrite all_waived_app, Hv, Hnc, negb_andb. reflexivity. }
    destruct (nc || negb c) eqn:En.
    + apply run_shapes_extends in H as ((more & ->) & Hc). rewrite (Hc eq_refl). eexists. split; [reflexivity|].
      destruct Hrel' as (L1 & L2 & L3).
      assert (Haw : all_waived eo (acc2 ++ r) = false) by (destruct (all_waived eo (acc2 ++ r)); [discriminate|reflexivity]).
      split; [apply le_list_app_r; exact L1|]. rewrite L2, L3.
      rewrite (all_waived_app eo (acc2 ++ r) more), (isnil_app (acc2 ++ r) more), Haw.
      destruct (acc2 ++ r); [discriminate|]. split; reflexivity.
    + eapply IH; eauto.
Qed.

(* C12: against the complete run, the abort_on_first run decides the same verdict, reports a
   sub-list of its results (possibly with fewer nested details), and a non-conforming verdict
   always comes with at least one result. *)
Theorem validate_abort sg g E c rs :
  validate trig W o sg g E = Ok (c, rs) ->
  exists rs', validate trig W with_abort sg g E = Ok (c, rs') /\ le_list rs' rs /\ (c = false -> rs' <> []).
Proof.
  intros H. unfold validate in *.
  destruct (run_shapes_AR sg g E None E false [] [] c rs (rel_refl eo []) eq_refl H) as (rs' & H' & (L1 & L2 & L3)).
  exists rs'. split; [exact H'|]. split; [exact L1|].
  intros ->. apply validate_verdict in H. intros ->. simpl in L3. destruct rs; [discriminate H|discriminate L3].
Qed.

End Validate.

(* a non-conforming report always has a result, with or without abort_on_first *)
Theorem nonconforming_has_result trig W o sg g E rs : validate trig W o sg g E = Ok (false, rs) -> rs <> [].
Proof. intros H ->. apply validate_verdict in H. discriminate H. Qed.
