(* Executable comparisons used by the correspondence runs of the evaluator-level properties. *)
From Coq Require Import List NArith ZArith Bool Arith.
From Verif Require Import Base.SetList Base.Terms Base.Vocab Paths.Path Paths.PathCheck Shapes.AST Shapes.Leaf Shapes.Eval.
Import ListNotations.

Definition opt_term_eqb (a b:option term) : bool :=
  match a, b with Some x, Some y => term_eqb x y | None, None => true | _, _ => false end.

Fixpoint remove_first {A} (eqb:A->A->bool) (x:A) (l:list A) : option (list A) :=
  match l with
  | [] => None
  | y :: r => if eqb x y then Some r else match remove_first eqb x r with Some r' => Some (y :: r') | None => None end
  end.

(* multiset equality / inclusion w.r.t. a boolean relation *)
Fixpoint ms_eqb {A} (eqb:A->A->bool) (l1 l2:list A) : bool :=
  match l1 with
  | [] => isnil l2
  | x :: r => match remove_first eqb x l2 with Some l2' => ms_eqb eqb r l2' | None => false end
  end.
Fixpoint ms_subb {A} (leb:A->A->bool) (l1 l2:list A) : bool :=
  match l1 with
  | [] => true
  | x :: r => match remove_first leb x l2 with Some l2' => ms_subb leb r l2' | None => false end
  end.

Definition key_eqb (a b:vresult) : bool :=
  term_eqb (rfocus a) (rfocus b) && opt_term_eqb (rvalue a) (rvalue b) && opt_term_eqb (rpath a) (rpath b) && N.eqb (rcomp a) (rcomp b)
  && term_eqb (rsrc a) (rsrc b) && term_eqb (rsev a) (rsev b) && tset_eqb (rmsgs a) (rmsgs b).

(* fuel bounds the sh:detail nesting depth (never more than max_validation_depth) *)
Fixpoint vr_eqb (n:nat) (a b:vresult) : bool :=
  match n with
  | O => false
  | S n' => key_eqb a b && ms_eqb (vr_eqb n') (rdetails a) (rdetails b)
  end.
(* a is b with possibly fewer nested details *)
Fixpoint vr_leb (n:nat) (a b:vresult) : bool :=
  match n with
  | O => false
  | S n' => key_eqb a b && ms_subb (vr_leb n') (rdetails a) (rdetails b)
  end.

Definition DEPTH := 40.

Definition cres_eqb (a b:res cres) : bool :=
  match a, b with
  | Ok (c1, r1), Ok (c2, r2) => Bool.eqb c1 c2 && ms_eqb (vr_eqb DEPTH) r1 r2
  | Err e1, Err e2 => exn_eqb e1 e2
  | _, _ => false
  end.

(* observed outcome of an abort_on_first run against the model's complete run *)
Definition cres_abort_ok (observed full:res cres) : bool :=
  match observed, full with
  | Ok (c1, r1), Ok (c2, r2) => Bool.eqb c1 c2 && ms_subb (vr_leb DEPTH) r1 r2 && (c1 || negb (isnil r1))
  | Err e1, Err e2 => exn_eqb e1 e2
  | Ok (c1, r1), Err _ => negb c1 && negb (isnil r1)   (* stopped before reaching the failing part *)
  | _, _ => false
  end.

Definition check_validate (W:world) (o:opts) (sg g:graph) (E:env) (observed:res cres) : bool :=
  if abort o then
    cres_abort_ok observed (validate_impl W {| abort := false; allow_infos := allow_infos o; allow_warnings := allow_warnings o;
                                        max_depth := max_depth o; focus_filter := focus_filter o |} sg g E)
  else cres_eqb (validate_impl W o sg g E) observed.

Definition check_validate_sel (use:list term) (W:world) (o:opts) (sg g:graph) (E:env) (observed:res cres) : bool :=
  cres_eqb (validate_sel_impl W o sg g E use) observed.

Definition check_focus (sg g:graph) (s:shape) (observed:list term) : bool :=
  tset_eqb (focus_nodes sg g s) observed.

(* C06: the report graph the model builds from its results has the same number of triples per
   result-describing predicate as the observed report graph *)
From Verif Require Import Shapes.Report.
Definition count_pred (T:list triple) (p:N) : nat := length (filter (fun t => term_eqb (tpred t) (IRI p)) T).
Definition REPORT_PREDS : list N :=
  [sh_result; sh_detail; sh_focusNode; sh_value; sh_resultPath; sh_sourceShape; sh_sourceConstraintComponent;
   sh_resultSeverity; sh_conforms].
(* one row per result node, at every sh:detail depth: focus, value, source shape, component, severity *)
Definition rrow : Type := (term * option term * term * N * term)%type.
Definition rrow_eqb (a b:rrow) : bool :=
  let '(f1, v1, s1, c1, x1) := a in let '(f2, v2, s2, c2, x2) := b in
  term_eqb f1 f2 && opt_term_eqb v1 v2 && term_eqb s1 s2 && N.eqb c1 c2 && term_eqb x1 x2.
Definition model_rows (rs:list vresult) : list rrow :=
  map (fun x => let r := snd x in (rfocus r, rvalue r, rsrc r, rcomp r, rsev r)) (snd (label_all rs 1)).
Definition check_report_rows (W:world) (o:opts) (sg g:graph) (E:env) (rows:list rrow) : bool :=
  match validate_impl W o sg g E with
  | Ok (c, rs) => ms_eqb rrow_eqb (model_rows rs) rows
  | Err _ => false
  end.

Definition check_report (W:world) (o:opts) (sg g:graph) (E:env) (verdict:bool) (hist:list nat) : bool :=
  match validate_impl W o sg g E with
  | Ok (c, rs) =>
      Bool.eqb c verdict
      && (let T := report_graph (BN 0) 1 c rs in
          forallb (fun pn => Nat.eqb (count_pred T (fst pn)) (snd pn)) (combine REPORT_PREDS hist))
      && (if abort o then true else true)
  | Err _ => false
  end.
