(* C17: SHACL-AF features of advanced mode - custom targets, SPARQL functions, expression
   constraints. SPARQL evaluation itself is rdflib's: the solutions of a target's SELECT and the
   result of a function's query for given arguments enter the model as data (oracle tables built
   by the harness by running the declared queries directly). *)
From Coq Require Import List NArith ZArith Bool Arith String.
From Verif Require Import Base.SetList Base.Terms Paths.Path.
Import ListNotations.

(* ---- parameter order of a function (SHACLFunction.get_params_in_order) ---- *)
Record param := { p_name : string; p_order : option Z; p_optional : bool }.

Fixpoint insert_by_order (x:param * Z) (l:list (param * Z)) : list (param * Z) :=
  match l with [] => [x] | y :: r => if (snd y <=? snd x)%Z then y :: insert_by_order x r else x :: l end.
Fixpoint string_leb (a b:string) : bool :=
  match a, b with
  | EmptyString, _ => true
  | String _ _, EmptyString => false
  | String c a', String d b' =>
      let x := Ascii.nat_of_ascii c in let y := Ascii.nat_of_ascii d in
      if Nat.ltb x y then true else if Nat.ltb y x then false else string_leb a' b'
  end.
Fixpoint insert_by_name (x:param) (l:list param) : list param :=
  match l with [] => [x] | y :: r => if string_leb (p_name y) (p_name x) then y :: insert_by_name x r else x :: l end.

Definition all_ordered (ps:list param) : option (list (param * Z)) :=
  fold_right (fun p acc => match acc, p_order p with Some l, Some o => Some ((p, o) :: l) | _, _ => None end) (Some []) ps.

(* by sh:order when every parameter has one, otherwise by the local name of the parameter's path *)
Definition params_in_order (ps:list param) : list param :=
  match all_ordered ps with
  | Some l => map fst (fold_left (fun acc x => insert_by_order x acc) l [])
  | None => fold_left (fun acc x => insert_by_name x acc) ps []
  end.

(* the call's arguments are bound to the parameters in that order *)
Definition bind_args {V} (ps:list param) (args:list V) : option (list (string * V)) :=
  let ordered := params_in_order ps in
  if Nat.eqb (List.length ordered) (List.length args) then Some (combine (map p_name ordered) args) else None.

(* ---- node expressions with function calls ---- *)
Inductive nexpr :=
| NThis | NConst (t:term) | NPath (p:path)
| NFunc (f:N) (args:list nexpr)
| NUnion (es:list nexpr) | NInter (es:list nexpr)
| NFilter (shape:N) (e:nexpr).     (* sh:filterShape / sh:nodes; conformance to the shape is an oracle row of the table *)

(* oracle: function f applied to the argument list -> its result (None: no solution) *)
Definition fn_table := list (N * list term * option term).
Fixpoint terms_eqb (a b:list term) : bool :=
  match a, b with [], [] => true | x :: a', y :: b' => term_eqb x y && terms_eqb a' b' | _, _ => false end.
Fixpoint fn_lookup (T:fn_table) (f:N) (args:list term) : option (option term) :=
  match T with
  | [] => None
  | (f', a', r) :: rest => if N.eqb f f' && terms_eqb args a' then Some r else fn_lookup rest f args
  end.

Fixpoint product (ls:list (list term)) : list (list term) :=
  match ls with
  | [] => [[]]
  | l :: rest => flat_map (fun x => map (fun tl => x :: tl) (product rest)) l
  end.

Fixpoint eval_nexpr (fuel:nat) (T:fn_table) (g:graph) (e:nexpr) (a:term) : res (list term) :=
  match fuel with
  | O => Err OutOfFuel
  | S fuel' =>
    match e with
    | NThis => Ok [a]
    | NConst t => Ok [t]
    | NPath p => value_nodes g p a
    | NFunc f args =>
        bind (mapM (fun x => eval_nexpr fuel' T g x a) args) (fun sets =>
          (* a required argument without values: no result at all *)
          if existsb (fun s => match s with [] => true | _ => false end) sets then Ok []
          else Ok (tdedup (flat_map (fun tuple => match fn_lookup T f tuple with Some (Some r) => [r] | _ => [] end) (product sets))))
    | NUnion es =>
        bind (mapM (fun x => eval_nexpr fuel' T g x a) es) (fun sets => Ok (tdedup (List.concat sets)))
    | NInter es =>
        bind (mapM (fun x => eval_nexpr fuel' T g x a) es) (fun sets =>
          match sets with
          | [] => Ok []
          | s0 :: rest => Ok (tdedup (filter (fun x => forallb (fun s => tmem x s) rest) s0))
          end)
    | NFilter k e' =>
        bind (eval_nexpr fuel' T g e' a) (fun vals =>
          Ok (tdedup (filter (fun n => match fn_lookup T k [n] with Some (Some _) => true | _ => false end) vals)))
    end
  end.

(* ---- sh:expression: a value node is reported unless the expression evaluates to exactly {true} ---- *)
Definition is_true_set (true_lit:term) (vals:list term) : bool :=
  match tdedup vals with [v] => term_eqb v true_lit | _ => false end.
Definition expression_bad (fuel:nat) (T:fn_table) (g:graph) (true_lit:term) (e:nexpr) (vs:list term) : res (list term) :=
  bind (mapM (fun v => bind (eval_nexpr fuel T g e v) (fun vals => Ok (v, is_true_set true_lit vals))) vs)
       (fun l => Ok (map fst (filter (fun x => negb (snd x)) l))).

(* ---- focus nodes in advanced mode: the core targets plus the ?this solutions of every custom target ---- *)
Definition advanced_focus (core:list term) (target_sols:list (list term)) (advanced:bool) : list term :=
  if advanced then tdedup (core ++ List.concat target_sols) else core.

(* first projected value of the first solution *)
Definition function_result (rows:list (list (option term))) : option term :=
  match rows with [] => None | r :: _ => match r with [] => None | v :: _ => v end end.
