(* C01: the leaf components report exactly what the W3C textual definitions prescribe. *)
From Coq Require Import List NArith ZArith QArith Bool Lia Relations.
From Verif Require Import Base.SetList Base.Terms Base.Vocab Paths.Path Shapes.AST Shapes.Leaf Shapes.Eval
  Shapes.EvalProofs Shapes.TargetProofs.
Import ListNotations.
Local Close Scope Q_scope.

(* ---------------- SPARQL 1.1 operator mapping for < and <= on literal values ---------------- *)
(* code-point order of two strings *)
Fixpoint str_lt (a b:list N) : bool :=
  match a, b with
  | _, [] => false
  | [], _ :: _ => true
  | x :: a', y :: b' => if (x <? y)%N then true else if (x =? y)%N then str_lt a' b' else false
  end.
Fixpoint str_eq (a b:list N) : bool :=
  match a, b with
  | [], [] => true
  | x :: a', y :: b' => (x =? y)%N && str_eq a' b'
  | _, _ => false
  end.

(* None = type error *)
Definition sparql_lt (a b:lkind) : option bool :=
  match a, b with
  | KNum p, KNum q => Some (if Qlt_le_dec p q then true else false)
  | KNum _, KSpecial SPInf => Some true | KNum _, KSpecial SNInf => Some false
  | KSpecial SPInf, KNum _ => Some false | KSpecial SNInf, KNum _ => Some true
  | KSpecial SNaN, KSpecial _ | KSpecial _, KSpecial SNaN => None
  | KSpecial SNInf, KSpecial SPInf => Some true
  | KSpecial _, KSpecial _ => Some false
  | KBool x, KBool y => Some (negb x && y)
  | KStr c1 s1, KStr c2 s2 => if N.eqb c1 c2 then Some (str_lt s1 s2) else None
  | KDateTime a1 m1, KDateTime a2 m2 => if Bool.eqb a1 a2 then Some (m1 <? m2)%Z else None
  | KDate d1, KDate d2 => Some (d1 <? d2)%Z
  | _, _ => None
  end.
Definition sparql_eq (a b:lkind) : option bool :=
  match a, b with
  | KNum p, KNum q => Some (Qeq_bool p q)
  | KNum _, KSpecial SNaN | KSpecial SNaN, KNum _ => None
  | KNum _, KSpecial _ | KSpecial _, KNum _ => Some false
  | KSpecial SNaN, KSpecial _ | KSpecial _, KSpecial SNaN => None
  | KSpecial SPInf, KSpecial SPInf | KSpecial SNInf, KSpecial SNInf => Some true
  | KSpecial _, KSpecial _ => Some false
  | KBool x, KBool y => Some (Bool.eqb x y)
  | KStr c1 s1, KStr c2 s2 => if N.eqb c1 c2 then Some (str_eq s1 s2) else None
  | KDateTime a1 m1, KDateTime a2 m2 => if Bool.eqb a1 a2 then Some (m1 =? m2)%Z else None
  | KDate d1, KDate d2 => Some (d1 =? d2)%Z
  | _, _ => None
  end.
Definition sparql_le (a b:lkind) : option bool :=
  match sparql_lt a b, sparql_eq a b with
  | Some x, Some y => Some (x || y)
  | _, _ => None
  end.

Lemma cps_compare_lt a : forall b, cps_compare a b = Lt <-> str_lt a b = true.
Proof.
  induction a as [|x a IH]; intros [|y b]; simpl; try (split; congruence).
  destruct (N.compare_spec x y) as [->|H|H].
  - rewrite N.ltb_irrefl, N.eqb_refl. apply IH.
  - apply N.ltb_lt in H. rewrite H. split; reflexivity.
  - assert (H1 : (x <? y)%N = false) by (apply N.ltb_ge; lia).
    assert (H2 : (x =? y)%N = false) by (apply N.eqb_neq; lia). rewrite H1, H2. split; discriminate.
Qed.
Lemma cps_compare_eq a : forall b, cps_compare a b = Eq <-> str_eq a b = true.
Proof.
  induction a as [|x a IH]; intros [|y b]; simpl; try (split; congruence).
  destruct (N.compare_spec x y) as [->|H|H].
  - rewrite N.eqb_refl. simpl. apply IH.
  - assert (H2 : (x =? y)%N = false) by (apply N.eqb_neq; lia). rewrite H2. split; discriminate.
  - assert (H2 : (x =? y)%N = false) by (apply N.eqb_neq; lia). rewrite H2. split; discriminate.
Qed.

(* compare_literal is the three-way form of the operator mapping *)
Lemma lcompare_lt a b : (lcompare a b = Some Lt) <-> (sparql_lt a b = Some true).
Proof.
  destruct a as [|p|s|x|c1 s1|a1 m1|d1], b as [|q|t|y|c2 s2|a2 m2|d2]; simpl;
    try (split; discriminate); try (destruct s; split; congruence); try (destruct t; split; congruence).
  - destruct (Qlt_le_dec p q) as [H|H].
    + rewrite (proj1 (Qlt_alt p q) H). split; reflexivity.
    + split; [|discriminate]. intros [= E]. apply Qlt_alt in E. exfalso. exact (Qlt_not_le _ _ E H).
  - destruct s, t; simpl; split; congruence.
  - destruct x, y; simpl; split; congruence.
  - destruct (N.eqb c1 c2); [|split; discriminate].
    split; intros [= E]; f_equal; [apply cps_compare_lt|f_equal; apply cps_compare_lt]; auto.
  - destruct (Bool.eqb a1 a2); [|split; discriminate].
    split; intros [= E]; f_equal; [apply Z.ltb_lt, Z.compare_lt_iff|f_equal; apply Z.compare_lt_iff, Z.ltb_lt]; auto.
  - split; intros [= E]; f_equal; [apply Z.ltb_lt, Z.compare_lt_iff|f_equal; apply Z.compare_lt_iff, Z.ltb_lt]; auto.
Qed.

Lemma lcompare_eq a b : (lcompare a b = Some Eq) <-> (sparql_eq a b = Some true).
Proof.
  destruct a as [|p|s|x|c1 s1|a1 m1|d1], b as [|q|t|y|c2 s2|a2 m2|d2]; simpl;
    try (split; discriminate); try (destruct s; split; congruence); try (destruct t; split; congruence).
  - split; intros [= E]; f_equal.
    + apply Qeq_bool_iff. apply Qeq_alt. exact E.
    + f_equal. apply Qeq_alt. apply Qeq_bool_iff. exact E.
  - destruct s, t; simpl; split; congruence.
  - destruct x, y; simpl; split; congruence.
  - destruct (N.eqb c1 c2); [|split; discriminate].
    split; intros [= E]; f_equal; [apply cps_compare_eq|f_equal; apply cps_compare_eq]; auto.
  - destruct (Bool.eqb a1 a2); [|split; discriminate].
    split; intros [= E]; f_equal; [apply Z.eqb_eq, Z.compare_eq_iff|f_equal; apply Z.compare_eq_iff, Z.eqb_eq]; auto.
  - split; intros [= E]; f_equal; [apply Z.eqb_eq, Z.compare_eq_iff|f_equal; apply Z.compare_eq_iff, Z.eqb_eq]; auto.
Qed.

Lemma lcompare_defined a b : lcompare a b = None <-> sparql_lt a b = None.
Proof.
  destruct a as [|p|s|x|c1 s1|a1 m1|d1], b as [|q|t|y|c2 s2|a2 m2|d2]; simpl;
    try (split; congruence); try (destruct s; split; congruence); try (destruct t; split; congruence).
  - destruct s, t; simpl; split; congruence.
  - destruct (N.eqb c1 c2); split; congruence.
  - destruct (Bool.eqb a1 a2); split; congruence.
Qed.

Lemma sparql_lt_eq_defined a b : sparql_lt a b = None <-> sparql_eq a b = None.
Proof.
  destruct a as [|p|s|x|c1 s1|a1 m1|d1], b as [|q|t|y|c2 s2|a2 m2|d2]; simpl;
    try (split; congruence); try (destruct s; split; congruence); try (destruct t; split; congruence).
  - destruct s, t; simpl; split; congruence.
  - destruct (N.eqb c1 c2); split; congruence.
  - destruct (Bool.eqb a1 a2); split; congruence.
Qed.

Lemma lcompare_le a b : (lcompare a b = Some Lt \/ lcompare a b = Some Eq) <-> sparql_le a b = Some true.
Proof.
  unfold sparql_le. rewrite lcompare_lt, lcompare_eq.
  destruct (sparql_lt a b) as [x|] eqn:El; destruct (sparql_eq a b) as [y|] eqn:Ee.
  - split.
    + intros [[= ->]|[= ->]]; simpl; [reflexivity|rewrite orb_true_r; reflexivity].
    + intros [= H]. apply orb_true_iff in H as [->| ->]; auto.
  - apply sparql_lt_eq_defined in Ee. congruence.
  - apply sparql_lt_eq_defined in El. congruence.
  - split; [intros [H|H]; discriminate|discriminate].
Qed.

(* antisymmetry of the three-way comparison: v > b is b < v *)
Lemma lcompare_gt a b : lcompare a b = Some Gt <-> lcompare b a = Some Lt.
Proof.
  destruct a as [|p|s|x|c1 s1|a1 m1|d1], b as [|q|t|y|c2 s2|a2 m2|d2]; simpl;
    try (split; discriminate); try (destruct s; split; congruence); try (destruct t; split; congruence).
  - rewrite <- (Qcompare_antisym q p). destruct (Qcompare q p); simpl; split; congruence.
  - destruct s, t; simpl; split; congruence.
  - destruct x, y; simpl; split; congruence.
  - rewrite (N.eqb_sym c2 c1). destruct (N.eqb c1 c2); [|split; discriminate].
    assert (H : forall a b, cps_compare a b = CompOpp (cps_compare b a)).
    { induction a as [|u a IH]; intros [|v b]; simpl; try reflexivity.
      rewrite (N.compare_antisym v u). destruct (v ?= u)%N; simpl; auto. }
    rewrite (H s1 s2). destruct (cps_compare s2 s1); simpl; split; congruence.
  - replace (Bool.eqb a2 a1) with (Bool.eqb a1 a2) by (destruct a1, a2; reflexivity). destruct (Bool.eqb a1 a2); [|split; discriminate].
    rewrite (Z.compare_antisym m2 m1). destruct (m2 ?= m1)%Z; simpl; split; congruence.
  - rewrite (Z.compare_antisym d2 d1). destruct (d2 ?= d1)%Z; simpl; split; congruence.
Qed.
Lemma lcompare_eq_sym a b : lcompare a b = Some Eq <-> lcompare b a = Some Eq.
Proof.
  destruct a as [|p|s|x|c1 s1|a1 m1|d1], b as [|q|t|y|c2 s2|a2 m2|d2]; simpl;
    try (split; discriminate); try (destruct s; split; congruence); try (destruct t; split; congruence).
  - rewrite <- (Qcompare_antisym q p). destruct (Qcompare q p); simpl; split; congruence.
  - destruct s, t; simpl; split; congruence.
  - destruct x, y; simpl; split; congruence.
  - rewrite (N.eqb_sym c2 c1). destruct (N.eqb c1 c2); [|split; discriminate].
    assert (H : forall a b, cps_compare a b = CompOpp (cps_compare b a)).
    { induction a as [|u a IH]; intros [|v b]; simpl; try reflexivity.
      rewrite (N.compare_antisym v u). destruct (v ?= u)%N; simpl; auto. }
    rewrite (H s1 s2). destruct (cps_compare s2 s1); simpl; split; congruence.
  - replace (Bool.eqb a2 a1) with (Bool.eqb a1 a2) by (destruct a1, a2; reflexivity). destruct (Bool.eqb a1 a2); [|split; discriminate].
    rewrite (Z.compare_antisym m2 m1). destruct (m2 ?= m1)%Z; simpl; split; congruence.
  - rewrite (Z.compare_antisym d2 d1). destruct (d2 ?= d1)%Z; simpl; split; congruence.
Qed.

(* the SPARQL expression each range component evaluates ("$minExclusive < v" etc.) *)
Definition range_spec (W:world) (op:rangeop) (b v:term) : Prop :=
  is_lit v = true /\
  match op with
  | MinExcl => sparql_lt (kind_of W b) (kind_of W v) = Some true
  | MinIncl => sparql_le (kind_of W b) (kind_of W v) = Some true
  | MaxExcl => sparql_lt (kind_of W v) (kind_of W b) = Some true
  | MaxIncl => sparql_le (kind_of W v) (kind_of W b) = Some true
  end.

Theorem range_ok_spec W op b v : range_ok W op b v = true <-> range_spec W op b v.
Proof.
  unfold range_ok, range_spec. destruct (is_lit v); simpl; [|split; [discriminate|intros [H _]; discriminate]].
  set (kv := kind_of W v). set (kb := kind_of W b).
  destruct op.
  - rewrite <- lcompare_lt, <- lcompare_gt. destruct (lcompare kv kb) as [[]|]; split; intros H; try discriminate; try tauto; destruct H; congruence.
  - rewrite <- lcompare_le, <- lcompare_gt, (lcompare_eq_sym kb kv).
    destruct (lcompare kv kb) as [[]|]; split; intros H; try discriminate; try tauto;
      try (destruct H as [_ [H|H]]; discriminate).
  - rewrite <- lcompare_lt. destruct (lcompare kv kb) as [[]|]; split; intros H; try discriminate; try tauto; destruct H; congruence.
  - rewrite <- lcompare_le. destruct (lcompare kv kb) as [[]|]; split; intros H; try discriminate; try tauto;
      try (destruct H as [_ [H|H]]; discriminate).
Qed.

(* ---------------- languageIn: RFC 4647 basic filtering ---------------- *)
Fixpoint is_prefix (r t:list N) : bool :=
  match r, t with
  | [], _ => true
  | x :: r', y :: t' => (x =? y)%N && is_prefix r' t'
  | _ :: _, [] => false
  end.

(* langMatches(tag, range): "*" matches any non-empty tag; otherwise the range equals the tag or is
   a prefix of it ending at a subtag boundary (tags and ranges as lists of lower-cased subtags) *)
Definition lang_matches (range tag:list N) : bool :=
  match tag with
  | [] => false
  | _ => list_N_eqb WILDCARD range || (negb (isnil range) && is_prefix range tag)
  end.

Lemma list_N_eqb_eq a b : list_N_eqb a b = true <-> a = b.
Proof.
  unfold list_N_eqb. revert b. induction a as [|x a IH]; intros [|y b]; simpl; try (split; congruence).
  destruct (N.compare_spec x y) as [->|H|H].
  - rewrite IH. split; congruence.
  - split; [discriminate|]. intros [= -> _]. lia.
  - split; [discriminate|]. intros [= -> _]. lia.
Qed.

Lemma in_prefixes (p t:list N) : In p (prefixes t) <-> (p <> [] /\ is_prefix p t = true).
Proof.
  revert p. induction t as [|y t IH]; intros p; simpl.
  - split; [tauto|]. intros [Hn H]. destruct p; [congruence|discriminate].
  - split.
    + intros [<-|H].
      * split; [discriminate|]. simpl. rewrite N.eqb_refl. reflexivity.
      * apply in_map_iff in H as (q & <- & Hq). apply IH in Hq as [_ Hq]. split; [discriminate|].
        simpl. rewrite N.eqb_refl. exact Hq.
    + intros [Hn H]. destruct p as [|x p]; [congruence|]. simpl in H. apply andb_true_iff in H as [Hx Hp].
      apply N.eqb_eq in Hx. subst y. destruct p as [|x2 p]; [left; reflexivity|].
      right. apply in_map_iff. exists (x2 :: p). split; auto. apply IH. split; [discriminate|exact Hp].
Qed.

Theorem language_in_spec W ranges v :
  language_in W ranges v = true <-> exists r, In r ranges /\ lang_matches r (lang_of W v) = true.
Proof.
  unfold language_in, lang_matches. destruct (lang_of W v) as [|t0 tag] eqn:Et.
  - split; [discriminate|]. intros (r & _ & H). discriminate.
  - rewrite orb_true_iff, !existsb_exists. split.
    + intros [(r & Hr & Hw)|(p & Hp & Hex)].
      * exists r. split; auto. rewrite Hw. reflexivity.
      * apply existsb_exists in Hex as (r & Hr & He). apply list_N_eqb_eq in He. subst r. apply in_prefixes in Hp as [Hn Hp].
        exists p. split; auto. rewrite Hp. destruct p; [congruence|]. simpl. apply orb_true_r.
    + intros (r & Hr & H). apply orb_true_iff in H as [H|H].
      * left. eauto.
      * apply andb_true_iff in H as [Hn Hp]. right. exists r. split.
        -- apply in_prefixes. split; auto. destruct r; [discriminate|discriminate].
        -- apply existsb_exists. exists r. split; auto. apply list_N_eqb_eq. reflexivity.
Qed.

(* ---------------- uniqueLang ---------------- *)
Definition count_lang (l:N) (vs:list term) : nat := length (filter (fun v => N.eqb (lit_lang v) l) vs).

Lemma dup_langs_spec : forall vs seen dups l,
  NoDup dups -> (forall x, In x dups -> In x seen) ->
  In l (dup_langs seen dups vs) <->
  In l dups \/ (l <> 0%N /\ ((In l seen /\ 1 <= count_lang l vs) \/ 2 <= count_lang l vs)).
Proof.
  induction vs as [|v vs IH]; intros seen dups l Hnd Hsub; simpl.
  - unfold count_lang. simpl. split; [auto|]. intros [H|(_ & [[_ H]|H])]; auto; lia.
  - unfold count_lang in *. simpl. destruct (N.eqb_spec (lit_lang v) 0) as [E0|E0].
    + rewrite IH; auto. destruct (N.eqb_spec (lit_lang v) l) as [El|El]; simpl; [|tauto].
      split; [|intros [H|(Hl & _)]; [auto|congruence]]. intros [H|(Hl & _)]; [auto|congruence].
    + destruct (existsb (N.eqb (lit_lang v)) seen) eqn:Es.
      * apply existsb_exists in Es as (x & Hx & Ex). apply N.eqb_eq in Ex. subst x.
        destruct (existsb (N.eqb (lit_lang v)) dups) eqn:Ed.
        -- apply existsb_exists in Ed as (x & Hxd & Exd). apply N.eqb_eq in Exd. subst x.
           rewrite IH; auto. destruct (N.eqb_spec (lit_lang v) l) as [El|El]; simpl; [subst l|tauto].
           split; [auto|]. intros _. left. exact Hxd.
        -- assert (Hnin : ~ In (lit_lang v) dups).
           { intros Hin. assert (existsb (N.eqb (lit_lang v)) dups = true); [|congruence].
             apply existsb_exists. exists (lit_lang v). split; auto. apply N.eqb_refl. }
           rewrite IH; [| apply NoDup_app_single; auto |].
           2:{ intros x Hx'. apply in_app_iff in Hx' as [Hx'|[<-|[]]]; auto. }
           rewrite in_app_iff. simpl.
           destruct (N.eqb_spec (lit_lang v) l) as [El|El]; simpl.
           ++ subst l. split; [intros _|auto]. right. split; auto. left. split; auto. lia.
           ++ split; [intros [[H|[H|[]]]|H]; [auto|congruence|auto]|intros [H|H]; auto].
      * assert (Hnin : ~ In (lit_lang v) seen).
        { intros Hin. assert (existsb (N.eqb (lit_lang v)) seen = true); [|congruence].
          apply existsb_exists. exists (lit_lang v). split; auto. apply N.eqb_refl. }
        rewrite IH; auto; [|intros x Hx; right; auto]. simpl.
        destruct (N.eqb_spec (lit_lang v) l) as [El|El]; simpl.
        -- subst l. split.
           ++ intros [H|(Hl & [[_ H]|H])]; [exfalso; auto|right; split; auto; right; lia|right; split; auto; right; lia].
           ++ intros [H|(Hl & [[H _]|H])]; [auto|contradiction|]. right. split; auto. left. split; [left; reflexivity|lia].
        -- split.
           ++ intros [H|(Hl & [[[H|H] Hc]|H])]; [auto|congruence|right; split; auto|right; split; auto].
           ++ intros [H|(Hl & [[H Hc]|H])]; [auto|right; split; auto|right; split; auto].
Qed.

(* one result per non-empty language tag used by at least two value nodes *)
Theorem unique_lang_spec vs l :
  In l (dup_langs [] [] vs) <-> (l <> 0%N /\ 2 <= count_lang l vs).
Proof.
  rewrite dup_langs_spec; [|constructor|intros x []]. simpl. split.
  - intros [[]|(Hl & [[[] _]|H])]. auto.
  - intros [Hl H]. right. auto.
Qed.

Lemma dup_langs_nodup : forall vs seen dups, NoDup dups -> NoDup (dup_langs seen dups vs).
Proof.
  induction vs as [|v vs IH]; intros seen dups Hn; simpl; auto.
  destruct (N.eqb (lit_lang v) 0); auto. destruct (existsb _ seen); auto.
  destruct (existsb (N.eqb (lit_lang v)) dups) eqn:Ed; auto.
  apply IH. apply NoDup_app_single; auto. intros Hin.
  assert (existsb (N.eqb (lit_lang v)) dups = true); [|congruence].
  apply existsb_exists. exists (lit_lang v). split; auto. apply N.eqb_refl.
Qed.

(* ---------------- the specification of each component ---------------- *)
(* "there is a validation result with value b (None: without sh:value) for focus f with value nodes vs" *)
Definition leaf_spec (W:world) (g:graph) (l:leaf) (f:term) (vs:list term) (b:option term) : Prop :=
  match l with
  | LClass cs => exists v c, b = Some v /\ In v vs /\ In c cs /\ ~ (is_lit v = false /\ shacl_instance g v c)
  | LDatatype d => exists v, b = Some v /\ In v vs /\ datatype_matches W d v = false
  | LNodeKind k => exists v, b = Some v /\ In v vs /\ nodekind_matches k v = false
  | LMinCount n => b = None /\ (Z.of_nat (length vs) < n)%Z
  | LMaxCount n => b = None /\ (n < Z.of_nat (length vs))%Z
  | LMinExcl bs => exists v bd, b = Some v /\ In v vs /\ In bd bs /\ ~ range_spec W MinExcl bd v
  | LMinIncl bs => exists v bd, b = Some v /\ In v vs /\ In bd bs /\ ~ range_spec W MinIncl bd v
  | LMaxExcl bs => exists v bd, b = Some v /\ In v vs /\ In bd bs /\ ~ range_spec W MaxExcl bd v
  | LMaxIncl bs => exists v bd, b = Some v /\ In v vs /\ In bd bs /\ ~ range_spec W MaxIncl bd v
  | LMinLength n => exists v, b = Some v /\ In v vs /\ n <> 0%Z /\ (is_bnode v = true \/ (len_of W v < n)%Z)
  | LMaxLength n => exists v, b = Some v /\ In v vs /\ (is_bnode v = true \/ (n < len_of W v)%Z)
  | LPattern ps => exists v p, b = Some v /\ In v vs /\ In p ps /\ (is_bnode v = true \/ regex_of W p v = false)
  | LLanguageIn ranges => exists v, b = Some v /\ In v vs /\ ~ exists r, In r ranges /\ lang_matches r (lang_of W v) = true
  | LUniqueLang u => b = None /\ u = true /\ exists l, l <> 0%N /\ 2 <= count_lang l vs
  | LEquals ps => exists x p, b = Some x /\ In p ps /\
                   ((In x vs /\ ~ In (f, p, x) g) \/ (In (f, p, x) g /\ ~ In x vs))
  | LDisjoint ps => exists x p, b = Some x /\ In p ps /\ In x vs /\ In (f, p, x) g
  | LLessThan ps => exists v p c, b = Some v /\ In p ps /\ In v vs /\ In (f, p, c) g /\ in_order W false v c = false
  | LLessThanEq ps => exists v p c, b = Some v /\ In p ps /\ In v vs /\ In (f, p, c) g /\ in_order W true v c = false
  | LHasValue hs => b = None /\ exists h, In h hs /\ ~ In h vs
  | LIn allowed => exists v, b = Some v /\ In v vs /\ ~ In v allowed
  end.

Lemma in_per_value p vs b : In b (per_value p vs) <-> exists v, b = Some v /\ In v vs /\ p v = false.
Proof.
  unfold per_value. rewrite in_map_iff. split.
  - intros (v & <- & H). apply filter_In in H as [H1 H2]. apply negb_true_iff in H2. eauto.
  - intros (v & -> & H1 & H2). exists v. split; auto. apply filter_In. split; auto. apply negb_true_iff; auto.
Qed.

Lemma tmem_false x l : tmem x l = false <-> ~ In x l.
Proof. apply (mem_false term_eqb_spec). Qed.
Lemma tmem_true x l : tmem x l = true <-> In x l.
Proof. apply (mem_In term_eqb_spec). Qed.

Lemma range_bad W op bs vs b :
  In b (flat_map (fun bd => per_value (range_ok W op bd) vs) bs)
  <-> exists v bd, b = Some v /\ In v vs /\ In bd bs /\ ~ range_spec W op bd v.
Proof.
  rewrite in_flat_map. split.
  - intros (bd & Hbd & H). apply in_per_value in H as (v & -> & Hv & Hr). exists v, bd. repeat split; auto.
    rewrite <- range_ok_spec. congruence.
  - intros (v & bd & -> & Hv & Hbd & Hr). exists bd. split; auto. apply in_per_value. exists v. repeat split; auto.
    rewrite <- range_ok_spec in Hr. destruct (range_ok W op bd v); congruence.
Qed.

(* C01: every leaf component reports exactly the results its textual definition prescribes *)
Theorem leaf_bad_spec W g l f vs b : In b (leaf_bad W g l f vs) <-> leaf_spec W g l f vs b.
Proof.
  destruct l; cbn [leaf_bad leaf_spec].
  - rewrite in_flat_map. split.
    + intros (c & Hc & H). apply in_per_value in H as (v & -> & Hv & Hr). exists v, c. repeat split; auto.
      intros [Hl Hi]. apply (has_class_spec g v c Hl) in Hi. congruence.
    + intros (v & c & -> & Hv & Hc & Hn). exists c. split; auto. apply in_per_value. exists v. repeat split; auto.
      destruct (has_class g v c) eqn:E; auto. exfalso. apply Hn.
      unfold has_class in E. destruct (is_lit v) eqn:El; [discriminate|]. split; auto.
      apply (has_class_spec g v c El). unfold has_class. rewrite El. exact E.
  - apply in_per_value.
  - apply in_per_value.
  - destruct (Z.eqb_spec n 0) as [->|Hn0].
    + split; [intros []|]. intros [_ H]. lia.
    + destruct (Z.ltb_spec (Z.of_nat (length vs)) n); simpl; split; try tauto.
      * intros [<-|[]]. auto.
      * intros [-> _]. auto.
      * intros [_ H']. lia.
  - destruct (Z.ltb_spec n (Z.of_nat (length vs))); simpl; split; try tauto.
    + intros [<-|[]]. auto.
    + intros [-> _]. auto.
    + intros [_ H']. lia.
  - apply range_bad.
  - apply range_bad.
  - apply range_bad.
  - apply range_bad.
  - rewrite in_per_value. split.
    + intros (v & -> & Hv & H). exists v. apply orb_false_iff in H as [H0 H1]. apply Z.eqb_neq in H0.
      repeat split; auto. apply andb_false_iff in H1 as [H1|H1]; [left; apply negb_false_iff; auto|right; apply Z.leb_gt; auto].
    + intros (v & -> & Hv & H0 & H). exists v. repeat split; auto. apply orb_false_iff. split; [apply Z.eqb_neq; auto|].
      apply andb_false_iff. destruct H as [H|H]; [left; rewrite H; reflexivity|right; apply Z.leb_gt; auto].
  - rewrite in_per_value. split.
    + intros (v & -> & Hv & H). exists v. repeat split; auto.
      apply andb_false_iff in H as [H|H]; [left; apply negb_false_iff; auto|right; apply Z.leb_gt; auto].
    + intros (v & -> & Hv & H). exists v. repeat split; auto.
      apply andb_false_iff. destruct H as [H|H]; [left; rewrite H; reflexivity|right; apply Z.leb_gt; auto].
  - rewrite in_flat_map. split.
    + intros (p & Hp & H). apply in_per_value in H as (v & -> & Hv & H). exists v, p. repeat split; auto.
      apply andb_false_iff in H as [H|H]; [left; apply negb_false_iff; auto|right; auto].
    + intros (v & p & -> & Hv & Hp & H). exists p. split; auto. apply in_per_value. exists v. repeat split; auto.
      apply andb_false_iff. destruct H as [H|H]; [left; rewrite H; reflexivity|right; auto].
  - rewrite in_per_value. split.
    + intros (v & -> & Hv & H). exists v. repeat split; auto. rewrite <- language_in_spec. congruence.
    + intros (v & -> & Hv & H). exists v. repeat split; auto. rewrite <- language_in_spec in H.
      destruct (language_in W ranges v); congruence.
  - destruct b0.
    + rewrite in_map_iff. split.
      * intros (l & <- & Hl). apply unique_lang_spec in Hl. repeat split; eauto.
      * intros (-> & _ & l & Hl). exists l. split; auto. apply unique_lang_spec. auto.
    + split; [intros []|]. intros (_ & H & _). discriminate.
  - rewrite in_flat_map. split.
    + intros (p & Hp & H). apply in_app_iff in H as [H|H]; apply in_map_iff in H as (x & <- & Hx);
        apply filter_In in Hx as [Hx Hm]; apply negb_true_iff, tmem_false in Hm; exists x, p; repeat split; auto.
      * left. split; auto. rewrite <- In_objects. auto.
      * right. split; auto. apply In_objects. auto.
    + intros (x & p & -> & Hp & H). exists p. split; auto. apply in_app_iff.
      destruct H as [[Hx Hn]|[Hx Hn]]; [left|right]; apply in_map_iff; exists x; split; auto; apply filter_In; split; auto.
      * apply negb_true_iff, tmem_false. rewrite In_objects. auto.
      * apply In_objects. auto.
      * apply negb_true_iff, tmem_false. auto.
  - rewrite in_flat_map. split.
    + intros (p & Hp & H). apply in_map_iff in H as (x & <- & Hx). apply filter_In in Hx as [Hx Hm].
      apply tmem_true, In_objects in Hm. exists x, p. auto.
    + intros (x & p & -> & Hp & Hx & Hg). exists p. split; auto. apply in_map_iff. exists x. split; auto.
      apply filter_In. split; auto. apply tmem_true, In_objects. auto.
  - rewrite in_flat_map. split.
    + intros (p & Hp & H). apply in_flat_map in H as (v & Hv & H). apply in_flat_map in H as (c & Hc & H).
      apply In_objects in Hc. destruct (in_order W false v c) eqn:E; [destruct H|]. destruct H as [<-|[]].
      exists v, p, c. auto.
    + intros (v & p & c & -> & Hp & Hv & Hc & E). exists p. split; auto. apply in_flat_map. exists v. split; auto.
      apply in_flat_map. exists c. split; [apply In_objects; auto|]. rewrite E. left; reflexivity.
  - rewrite in_flat_map. split.
    + intros (p & Hp & H). apply in_flat_map in H as (v & Hv & H). apply in_flat_map in H as (c & Hc & H).
      apply In_objects in Hc. destruct (in_order W true v c) eqn:E; [destruct H|]. destruct H as [<-|[]].
      exists v, p, c. auto.
    + intros (v & p & c & -> & Hp & Hv & Hc & E). exists p. split; auto. apply in_flat_map. exists v. split; auto.
      apply in_flat_map. exists c. split; [apply In_objects; auto|]. rewrite E. left; reflexivity.
  - rewrite in_flat_map. split.
    + intros (h & Hh & H). destruct (tmem h vs) eqn:E; [destruct H|]. destruct H as [<-|[]]. split; auto.
      exists h. split; auto. apply tmem_false. auto.
    + intros (-> & h & Hh & Hn). exists h. split; auto. apply tmem_false in Hn. rewrite Hn. left; reflexivity.
  - rewrite in_per_value. split.
    + intros (v & -> & Hv & H). exists v. repeat split; auto. apply tmem_false. auto.
    + intros (v & -> & Hv & H). exists v. repeat split; auto. apply tmem_false. auto.
Qed.

(* the order used by sh:lessThan(OrEquals) on literals is SPARQL's < (<=); anything else is incomparable *)
Theorem in_order_spec W eq v c : is_lit v = true -> is_lit c = true ->
  (in_order W eq v c = true <->
   (if eq then sparql_le (kind_of W v) (kind_of W c) = Some true else sparql_lt (kind_of W v) (kind_of W c) = Some true)).
Proof.
  intros Hv Hc. destruct v; try discriminate. destruct c; try discriminate. unfold in_order.
  destruct eq.
  - rewrite <- lcompare_le. destruct (lcompare _ _) as [[]|]; split; intros H; try discriminate; auto; destruct H; discriminate.
  - rewrite <- lcompare_lt. destruct (lcompare _ _) as [[]|]; split; intros H; try discriminate; auto.
Qed.
Theorem in_order_wrong_kind W eq v c : is_bnode v = true \/ is_bnode c = true \/ is_lit v <> is_lit c ->
  in_order W eq v c = false.
Proof. destruct v, c; simpl; intros [H|[H|H]]; try discriminate; try reflexivity; congruence. Qed.

(* ---------------- sh:closed ---------------- *)
Definition working_paths (E:env) (s:shape) : list term :=
  flat_map (fun r => match lookup E r with
                     | Some ps => match spath ps with Some (PPred p) => [IRI p] | _ => [] end
                     | None => [] end) (prop_refs s).

(* ---------------- lifting to shapes: without abort_on_first the results of a shape are
                    exactly the results of its components ---------------- *)
Section Lift.
Variable trig : trig_t.
Variable W : world.

Definition skipped (s:shape) (c:comp) : bool :=
  match c, spath s with CQualified _ _ _ _, None => true | _, _ => false end.

Lemma loop_results o top s ev : e_abort o = false ->
  forall cs nc nw acc cr, loop o top s ev cs nc nw acc = Ok cr ->
  forall r, In r (snd cr) <-> In r acc \/ exists c cr0, In c cs /\ skipped s c = false /\ ev c = Ok cr0 /\ In r (snd cr0).
Proof.
  intros Ha. induction cs as [|c cs IH]; intros nc nw acc cr; cbn [loop].
  - intros [= <-] r. simpl. split; [auto|]. intros [H|(c & cr0 & [] & _)]; auto.
  - assert (Hstep : skipped s c = false ->
      bind (ev c) (fun cr0 =>
        let nc' := nc || negb (fst cr0) in
        let nw' := if fst cr0 then nw else nw || isnil (e_allowed o) || negb (all_waived o (snd cr0)) in
        let acc' := acc ++ snd cr0 in
        if nw' && e_abort o then Ok (negb (if top then nw' else nc'), acc') else loop o top s ev cs nc' nw' acc') = Ok cr ->
      forall r, In r (snd cr) <-> In r acc \/ exists c1 cr0, In c1 (c :: cs) /\ skipped s c1 = false /\ ev c1 = Ok cr0 /\ In r (snd cr0)).
    { intros Hsk H r. apply bind_ok in H as (cr0 & E0 & H). cbv zeta in H. rewrite Ha, andb_false_r in H.
      rewrite (IH _ _ _ _ H r), in_app_iff. split.
      - intros [[H1|H1]|(c1 & cr1 & Hc1 & Hs1 & E1 & H1)]; auto.
        + right. exists c, cr0. repeat split; auto. left; auto.
        + right. exists c1, cr1. repeat split; auto. right; auto.
      - intros [H1|(c1 & cr1 & [<-|Hc1] & Hs1 & E1 & H1)]; auto.
        + rewrite E0 in E1. injection E1 as <-. auto.
        + right. exists c1, cr1. auto. }
    assert (Hskip : skipped s c = true -> loop o top s ev cs nc nw acc = Ok cr ->
      forall r, In r (snd cr) <-> In r acc \/ exists c1 cr0, In c1 (c :: cs) /\ skipped s c1 = false /\ ev c1 = Ok cr0 /\ In r (snd cr0)).
    { intros Hsk H r. rewrite (IH _ _ _ _ H r). split.
      - intros [H1|(c1 & cr1 & Hc1 & Hs1 & E1 & H1)]; auto. right. exists c1, cr1. repeat split; auto. right; auto.
      - intros [H1|(c1 & cr1 & [<-|Hc1] & Hs1 & E1 & H1)]; auto; [congruence|]. right. exists c1, cr1. auto. }
    unfold skipped in *. destruct c; try (apply Hstep; reflexivity).
    destruct (spath s); [apply Hstep; reflexivity|apply Hskip; reflexivity].
Qed.

(* a shape built from leaf components only: the reported results are exactly the results the
   components' textual definitions prescribe, for each focus node and its value nodes *)
Theorem leaf_shape_results o g E fuel top ep s foci cr fvs :
  e_abort o = false ->
  (forall c, In c (scomps s) -> exists l, c = CLeaf l) ->
  shape_value_nodes g s foci = Ok fvs ->
  vshape trig W (S fuel) o g E top ep s foci = Ok cr ->
  deact s = false -> foci <> [] ->
  forall r, In r (snd cr) <->
    exists l f vs b, In (CLeaf l) (scomps s) /\ In (f, vs) fvs /\ leaf_spec W g l f vs b
                     /\ r = mk s (leaf_comp l) f b [].
Proof.
  intros Ha Hleaf Hfv H Hd Hf r. cbn [vshape] in H. rewrite Hd in H.
  destruct foci as [|f0 foci]; [congruence|]. cbn [isnil] in H.
  destruct (negb top && _); [discriminate|]. rewrite Hfv in H. cbn [bind] in H.
  rewrite (loop_results o top s _ Ha _ _ _ _ _ H r). split.
  - intros [[]|(c & cr0 & Hc & _ & Ec & Hr)]. destruct (Hleaf c Hc) as [l ->]. cbn [evalc] in Ec.
    injection Ec as <-. simpl in Hr. apply in_flat_map in Hr as ([f vs] & Hfvs & Hr).
    apply in_map_iff in Hr as (b & <- & Hb). simpl in *. exists l, f, vs, b. repeat split; auto.
    apply leaf_bad_spec. exact Hb.
  - intros (l & f & vs & b & Hc & Hfvs & Hsp & ->). right.
    exists (CLeaf l), (reported (flat_map (fun fv => map (fun b => mk s (leaf_comp l) (fst fv) b []) (leaf_bad W g l (fst fv) (snd fv))) fvs)).
    repeat split; auto. simpl. apply in_flat_map. exists (f, vs). split; auto. apply in_map_iff. exists b. split; auto.
    apply leaf_bad_spec. exact Hsp.
Qed.

End Lift.
