(* C17: comparisons used by the correspondence run. *)
From Coq Require Import List NArith ZArith Bool Arith String.
From Verif Require Import Base.SetList Base.Terms Paths.Path Shapes.Advanced.
Import ListNotations.

Fixpoint strings_eqb (a b:list string) : bool :=
  match a, b with [], [] => true | x :: a', y :: b' => String.eqb x y && strings_eqb a' b' | _, _ => false end.

Definition check_param_order (ps:list param) (observed:list string) : bool :=
  strings_eqb (map p_name (params_in_order ps)) observed.

Definition check_adv_focus (core:list term) (tsols:list (list term)) (observed:list term) : bool :=
  tset_eqb (advanced_focus core tsols true) observed.

Definition check_expression (T:fn_table) (g:graph) (true_lit:term) (e:nexpr) (vs observed:list term) : bool :=
  match expression_bad 12 T g true_lit e vs with
  | Ok bad => tset_eqb bad observed
  | Err _ => false
  end.

Definition check_nexpr (T:fn_table) (g:graph) (e:nexpr) (a:term) (observed:list term) : bool :=
  match eval_nexpr 12 T g e a with Ok vals => tset_eqb vals observed | Err _ => false end.
