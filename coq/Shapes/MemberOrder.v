(* C09: the members of sh:and / sh:or / sh:xone are consulted as a collection - the order in which
   they are taken changes nothing in what the component reports. *)
From Coq Require Import List NArith Bool Arith Permutation.
From Verif Require Import Base.SetList Base.Terms Paths.Path Shapes.AST Shapes.Leaf Shapes.Eval Shapes.OrderProofs.
Import ListNotations.

Lemma union_nodup_id (l:list term) : forall acc, NoDup (acc ++ l) -> union term_eqb acc l = acc ++ l.
Proof.
  induction l as [|x r IH]; intros acc H; cbn [union]; [rewrite app_nil_r; reflexivity|].
  assert (Hx : mem term_eqb x acc = false).
  { apply (mem_false term_eqb_spec). intros Hin. apply NoDup_remove_2 in H. apply H. apply in_or_app. left. exact Hin. }
  unfold add. rewrite Hx. rewrite IH; [rewrite <- app_assoc; reflexivity|]. rewrite <- app_assoc. exact H.
Qed.
Lemma tdedup_nodup_id (l:list term) : NoDup l -> tdedup l = l.
Proof. intros H. unfold dedup. apply (union_nodup_id l []). exact H. Qed.

Lemma forallb_perm {A} (p:A -> bool) l l' : Permutation l l' -> forallb p l = forallb p l'.
Proof.
  induction 1 as [|x l l' _ IH|x y l|l1 l2 l3 _ IH1 _ IH2]; cbn [forallb]; [reflexivity|rewrite IH; reflexivity| |congruence].
  destruct (p x), (p y); reflexivity.
Qed.
Lemma filter_length_perm {A} (p:A -> bool) l l' : Permutation l l' -> length (filter p l) = length (filter p l').
Proof.
  induction 1 as [|x l l' _ IH|x y l|l1 l2 l3 _ IH1 _ IH2]; cbn [filter]; [reflexivity| | |congruence].
  - destruct (p x); cbn [length]; rewrite IH; reflexivity.
  - destruct (p x), (p y); reflexivity.
Qed.

Lemma mapM_transfer {A B} (f g:A -> res B) l ys :
  (forall x y, In x l -> f x = Ok y -> g x = Ok y) -> mapM f l = Ok ys -> mapM g l = Ok ys.
Proof.
  revert ys. induction l as [|a l IH]; intros ys H E; [exact E|].
  cbn [mapM] in *. destruct (f a) as [b|e] eqn:Ea; cbn [bind] in E; [|discriminate E].
  rewrite (H a b (or_introl eq_refl) Ea). cbn [bind].
  destruct (mapM f l) as [bs|e] eqn:El; cbn [bind] in E; [|discriminate E].
  rewrite (IH bs); [exact E| |reflexivity]. intros x y Hx. apply H. right. exact Hx.
Qed.

Lemma for_values_transfer {A} (fvs:fvs_t) (k k':term -> term -> res (list A)) out :
  (forall f v y, k f v = Ok y -> k' f v = Ok y) -> for_values fvs k = Ok out -> for_values fvs k' = Ok out.
Proof.
  intros H. unfold for_values.
  destruct (mapM (fun fv => bind (mapM (k (fst fv)) (snd fv)) (fun ls => Ok (concat ls))) fvs) as [ls|e] eqn:E; cbn [bind]; [|intros HX; discriminate HX].
  intros E'. erewrite mapM_transfer; [cbn [bind]; exact E'| |exact E].
  intros fv y _ Hy. cbn beta in Hy. destruct (mapM (k (fst fv)) (snd fv)) as [l2|e] eqn:E2; cbn [bind] in Hy; [|discriminate Hy].
  erewrite mapM_transfer; [cbn [bind]; exact Hy| |exact E2]. intros v z _. apply H.
Qed.

(* the decision a logical component takes for one value node does not depend on the order of its members *)
Section Members.
Variable nested : nested_t.
Variable ep : list pentry.

Definition decide (agg:list cres -> bool) (r:vresult) (shapes:list shape) (v:term) : res (list vresult) :=
  bind (mapM (fun ns => nested ns v ep) shapes) (fun crs => Ok (if agg crs then [] else [r])).

Lemma decide_perm agg r shapes shapes' v out :
  (forall l l', Permutation l l' -> agg l = agg l') -> Permutation shapes shapes' ->
  decide agg r shapes v = Ok out -> decide agg r shapes' v = Ok out.
Proof.
  intros Hagg Hp. unfold decide.
  destruct (mapM (fun ns => nested ns v ep) shapes) as [crs|e] eqn:E; cbn [bind]; [|intros HX; discriminate HX].
  destruct (mapM_perm _ _ _ _ Hp E) as (crs' & E' & Pc). rewrite E'. cbn [bind]. rewrite (Hagg _ _ Pc). auto.
Qed.
End Members.

Section MemberOrder.
Variable trig : trig_t.
Variable W : world.

Lemma lookup_all_perm E members members' shapes :
  Permutation members members' -> lookup_all E members = Ok shapes ->
  exists shapes', lookup_all E members' = Ok shapes' /\ Permutation shapes shapes'.
Proof. intros Hp H. unfold lookup_all in *. exact (mapM_perm _ _ _ _ Hp H). Qed.

Lemma isnil_perm {A} (l l':list A) : Permutation l l' -> isnil l = isnil l'.
Proof. intros H. destruct l, l'; try reflexivity; [apply Permutation_nil in H; discriminate|symmetry in H; apply Permutation_nil in H; discriminate]. Qed.

Theorem or_member_order nested g E s fvs ep members members' r :
  NoDup members -> Permutation members members' ->
  evalc trig W nested g E s fvs ep (COr [members]) = Ok r -> evalc trig W nested g E s fvs ep (COr [members']) = Ok r.
Proof.
  intros Hn Hp. assert (Hn' : NoDup members') by (eapply Permutation_NoDup; eauto).
  cbn [evalc map]. rewrite !tdedup_nodup_id by assumption. rewrite <- (isnil_perm _ _ Hp).
  destruct (isnil members); [auto|]. unfold concatM. cbn [mapM].
  destruct (lookup_all E members) as [shapes|e] eqn:El; cbn [bind]; [|intros HX; discriminate HX].
  destruct (lookup_all_perm E _ _ _ Hp El) as (shapes' & El' & Ps). rewrite El'. cbn [bind].
  match goal with |- context [for_values fvs ?K] => destruct (for_values fvs K) as [out|e] eqn:Ev end; cbn [bind]; [|intros HX; discriminate HX].
  intros H. erewrite for_values_transfer; [cbn [bind]; exact H| |exact Ev].
  intros f v y. apply (decide_perm nested ep (existsb fst) _ shapes shapes' v y); [intros; apply existsb_perm; assumption|exact Ps].
Qed.

Theorem and_member_order nested g E s fvs ep members members' r :
  NoDup members -> Permutation members members' ->
  evalc trig W nested g E s fvs ep (CAnd [members]) = Ok r -> evalc trig W nested g E s fvs ep (CAnd [members']) = Ok r.
Proof.
  intros Hn Hp. assert (Hn' : NoDup members') by (eapply Permutation_NoDup; eauto).
  cbn [evalc map]. rewrite !tdedup_nodup_id by assumption. rewrite <- (isnil_perm _ _ Hp).
  destruct (isnil members); [auto|]. unfold concatM. cbn [mapM].
  destruct (lookup_all E members) as [shapes|e] eqn:El; cbn [bind]; [|intros HX; discriminate HX].
  destruct (lookup_all_perm E _ _ _ Hp El) as (shapes' & El' & Ps). rewrite El'. cbn [bind].
  match goal with |- context [for_values fvs ?K] => destruct (for_values fvs K) as [out|e] eqn:Ev end; cbn [bind]; [|intros HX; discriminate HX].
  intros H. erewrite for_values_transfer; [cbn [bind]; exact H| |exact Ev].
  intros f v y. apply (decide_perm nested ep (forallb fst) _ shapes shapes' v y); [intros; apply forallb_perm; assumption|exact Ps].
Qed.

Theorem xone_member_order nested g E s fvs ep members members' r :
  Permutation members members' ->
  evalc trig W nested g E s fvs ep (CXone [members]) = Ok r -> evalc trig W nested g E s fvs ep (CXone [members']) = Ok r.
Proof.
  intros Hp. cbn [evalc map]. rewrite <- (isnil_perm _ _ Hp).
  destruct (isnil members); [auto|]. unfold concatM. cbn [mapM].
  destruct (lookup_all E members) as [shapes|e] eqn:El; cbn [bind]; [|intros HX; discriminate HX].
  destruct (lookup_all_perm E _ _ _ Hp El) as (shapes' & El' & Ps). rewrite El'. cbn [bind].
  match goal with |- context [for_values fvs ?K] => destruct (for_values fvs K) as [out|e] eqn:Ev end; cbn [bind]; [|intros HX; discriminate HX].
  intros H. erewrite for_values_transfer; [cbn [bind]; exact H| |exact Ev].
  intros f v y. apply (decide_perm nested ep (fun crs => length (filter fst crs) =? 1) _ shapes shapes' v y); [|exact Ps].
  intros l l' Pl. rewrite (filter_length_perm fst l l' Pl). reflexivity.
Qed.
End MemberOrder.
