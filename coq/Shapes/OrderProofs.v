(* C09: the order in which the shapes of a shapes graph are validated (the iteration order of a
   Python set) decides the ORDER of the results and nothing else. *)
From Coq Require Import List NArith Bool Permutation.
From Verif Require Import Base.SetList Base.Terms Paths.Path Shapes.AST Shapes.Leaf Shapes.Eval.
Import ListNotations.

Section Order.
Variable trig : trig_t.
Variable W : world.
Notation run_shapes := (run_shapes trig W).
Notation validate_top := (validate_top trig W).

(* without abort_on_first the loop over the shapes is: every shape's outcome, results concatenated,
   verdict = no shape non-conforming *)
Lemma run_shapes_spec o sg g E explicit : abort o = false ->
  forall shapes nc acc c rs, run_shapes o sg g E shapes explicit nc acc = Ok (c, rs) <->
  exists crs, mapM (fun s => validate_top o sg g E s explicit) shapes = Ok crs
              /\ c = negb (nc || existsb (fun cr => negb (fst cr)) crs) /\ rs = acc ++ concat (map snd crs).
Proof.
  intros Ha. induction shapes as [|s rest IH]; intros nc acc c rs; cbn [Eval.run_shapes mapM].
  - split.
    + intros [= <- <-]. exists []. cbn. rewrite orb_false_r, app_nil_r. auto.
    + intros (crs & [= <-] & -> & ->). cbn. rewrite orb_false_r, app_nil_r. reflexivity.
  - destruct (validate_top o sg g E s explicit) as [cr|e]; cbn [bind].
    + rewrite Ha. cbn [andb]. rewrite IH. split.
      * intros (crs & Hm & -> & ->). exists (cr :: crs). rewrite Hm. cbn [bind existsb map concat].
        split; [reflexivity|]. split; [rewrite orb_assoc; reflexivity|rewrite app_assoc; reflexivity].
      * intros (crs & Hm & -> & ->). destruct (mapM _ rest) as [crs'|e] eqn:Em; cbn [bind] in Hm; [|discriminate].
        injection Hm as <-. exists crs'. split; [reflexivity|]. cbn [existsb map concat].
        split; [rewrite orb_assoc; reflexivity|rewrite app_assoc; reflexivity].
    + split; [discriminate|]. intros (crs & Hm & _). discriminate.
Qed.

Lemma mapM_perm {A B} (f:A -> res B) l l' ys : Permutation l l' -> mapM f l = Ok ys ->
  exists ys', mapM f l' = Ok ys' /\ Permutation ys ys'.
Proof.
  intros Hp. revert ys. induction Hp as [|x l l' _ IH|x y l|l1 l2 l3 _ IH1 _ IH2]; intros ys H.
  - exists ys. split; [exact H|reflexivity].
  - cbn [mapM] in *. destruct (f x) as [b|e]; cbn [bind] in *; [|discriminate].
    destruct (mapM f l) as [bs|e] eqn:E; cbn [bind] in H; [|discriminate]. injection H as <-.
    destruct (IH bs eq_refl) as (bs' & H1 & H2). exists (b :: bs'). rewrite H1. cbn [bind]. split; [reflexivity|constructor; exact H2].
  - cbn [mapM] in *. destruct (f y) as [b|e]; cbn [bind] in *; [|discriminate].
    destruct (f x) as [a|e]; cbn [bind] in *; [|discriminate].
    destruct (mapM f l) as [bs|e]; cbn [bind] in *; [|discriminate]. injection H as <-.
    exists (a :: b :: bs). split; [reflexivity|apply perm_swap].
  - destruct (IH1 ys H) as (ys1 & H1 & P1). destruct (IH2 ys1 H1) as (ys2 & H2 & P2).
    exists ys2. split; [exact H2|eapply perm_trans; eauto].
Qed.

Lemma existsb_perm {A} (p:A -> bool) l l' : Permutation l l' -> existsb p l = existsb p l'.
Proof.
  induction 1 as [|x l l' _ IH|x y l|l1 l2 l3 _ IH1 _ IH2]; cbn [existsb]; [reflexivity|rewrite IH; reflexivity| |congruence].
  destruct (p x), (p y); reflexivity.
Qed.
Lemma concat_perm {A} (l l':list (list A)) : Permutation l l' -> Permutation (concat l) (concat l').
Proof.
  induction 1 as [|x l l' _ IH|x y l|l1 l2 l3 _ IH1 _ IH2]; cbn [concat]; [reflexivity|apply Permutation_app_head; exact IH| |eapply perm_trans; eauto].
  rewrite !app_assoc. apply Permutation_app_tail. apply Permutation_app_comm.
Qed.

(* Validating the shapes in another order: same verdict, the same results in another order. *)
Theorem shape_order_irrelevant o sg g E explicit shapes shapes' c rs : abort o = false ->
  Permutation shapes shapes' ->
  run_shapes o sg g E shapes explicit false [] = Ok (c, rs) ->
  exists rs', run_shapes o sg g E shapes' explicit false [] = Ok (c, rs') /\ Permutation rs rs'.
Proof.
  intros Ha Hp H. apply (run_shapes_spec o sg g E explicit Ha) in H as (crs & Hm & -> & ->).
  destruct (mapM_perm _ _ _ _ Hp Hm) as (crs' & Hm' & Pc).
  exists ([] ++ concat (map snd crs')). split.
  - apply (run_shapes_spec o sg g E explicit Ha). exists crs'. split; [exact Hm'|]. split; [|reflexivity].
    rewrite (existsb_perm _ _ _ Pc). reflexivity.
  - cbn [app]. apply concat_perm. apply Permutation_map. exact Pc.
Qed.
End Order.

(* the environment is only a look-up table: with pairwise distinct shape identifiers its order is immaterial *)
Lemma lookup_perm E E' t : NoDup (map sid E) -> Permutation E E' -> lookup E t = lookup E' t.
Proof.
  intros Hnd Hp. revert Hnd. induction Hp as [|x l l' _ IH|x y l|l1 l2 l3 Hp1 IH1 Hp2 IH2]; intros Hnd.
  - reflexivity.
  - cbn [lookup]. inversion Hnd; subst. rewrite IH by assumption. reflexivity.
  - cbn [lookup]. cbn [map] in Hnd. inversion Hnd as [|? ? Hni Hnd']; subst.
    destruct (term_eqb_spec (sid y) t) as [Ey|], (term_eqb_spec (sid x) t) as [Ex|]; try reflexivity.
    exfalso. apply Hni. left. congruence.
  - rewrite IH1 by exact Hnd. apply IH2. eapply Permutation_NoDup; [|exact Hnd]. apply Permutation_map. exact Hp1.
Qed.

(* the arbitrary-element picks (next(iter(set)) for severity, flags, validator, parameter value) cannot matter
   when the set has one element - what well-formed input guarantees *)
Lemma pick_singleton {A} (pick pick':list A -> option A) (l:list A) x :
  (forall l y, pick l = Some y -> In y l) -> (forall l y, pick' l = Some y -> In y l) ->
  (forall y, In y l -> y = x) -> forall a b, pick l = Some a -> pick' l = Some b -> a = b.
Proof. intros H1 H2 Hs a b Ha Hb. rewrite (Hs a (H1 l a Ha)), (Hs b (H2 l b Hb)). reflexivity. Qed.
