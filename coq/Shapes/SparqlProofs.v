(* C05: SPARQL-based constraints report exactly their query's distinct solutions, one result
   each, with the messages instantiated from that solution's own bindings. *)
From Coq Require Import List NArith ZArith Bool Arith Lia.
From Verif Require Import Base.SetList Base.Terms Base.Vocab Paths.Path Shapes.AST Shapes.Leaf Shapes.Eval
  Shapes.EvalProofs.
Import ListNotations.

Lemma opt_eqb_refl a : opt_eqb a a = true.
Proof. destruct a; simpl; auto. apply term_eqb_refl. Qed.
Lemma opt_eqb_eq a b : opt_eqb a b = true <-> a = b.
Proof.
  destruct a, b; simpl; try (split; congruence).
  destruct (term_eqb_spec t t0); split; congruence.
Qed.

(* two rows are the same solution: same ?this, ?path, ?value and same remaining bindings *)
Definition same_sol (a b:sol) : Prop :=
  sol_this a = sol_this b /\ sol_path a = sol_path b /\ sol_value a = sol_value b /\ sol_rest a = sol_rest b.

Lemma sol_eqb_spec a b : sol_eqb a b = true <-> same_sol a b.
Proof.
  unfold sol_eqb, same_sol. rewrite !andb_true_iff, !opt_eqb_eq, N.eqb_eq. tauto.
Qed.

Lemma same_sol_refl a : same_sol a a.
Proof. repeat split. Qed.
Lemma same_sol_sym a b : same_sol a b -> same_sol b a.
Proof. intros (H1 & H2 & H3 & H4). repeat split; congruence. Qed.
Lemma same_sol_trans a b c : same_sol a b -> same_sol b c -> same_sol a c.
Proof. intros (H1 & H2 & H3 & H4) (H5 & H6 & H7 & H8). repeat split; congruence. Qed.

(* invariants of _validate_sparql_query's accumulation *)
Definition violation_row (x:sol) : Prop := sol_failure x = false /\ sol_bound x = true.

Lemma dedup_sols_acc_spec : forall l seen acc,
  (seen = true <-> exists y, In y acc /\ sol_failure y = true) ->
  (* sound: everything kept is an input row or was already kept *)
  (forall x, In x (dedup_sols_acc seen acc l) -> In x acc \/ In x l)
  /\ (* complete: every violating input row is represented *)
  (forall x, In x l -> violation_row x ->
     exists y, In y (dedup_sols_acc seen acc l) /\ sol_failure y = false /\ same_sol x y)
  /\ (forall x, In x acc -> In x (dedup_sols_acc seen acc l))
  /\ (* a failure row is reported iff the input (or the accumulator) has one *)
  ((exists y, In y (dedup_sols_acc seen acc l) /\ sol_failure y = true)
    <-> (seen = true \/ exists x, In x l /\ sol_failure x = true)).
Proof.
  induction l as [|so l IH]; intros seen acc Hseen; cbn [dedup_sols_acc].
  - split; [|split; [|split; [|split]]].
    + auto.
    + intros x [].
    + auto.
    + intros (y & Hy & Hf). left. apply Hseen. eauto.
    + intros [H|(x & [] & _)]. apply Hseen. exact H.
  - destruct (sol_failure so) eqn:Ef.
    + destruct seen.
      * destruct (IH true acc Hseen) as (S1 & C1 & K1 & F1). split; [|split; [|split; [|split]]].
        -- intros x Hx. destruct (S1 x Hx); auto. right; right; auto.
        -- intros x [<-|Hx] [Hv Hb]; [congruence|]. apply C1; auto. split; auto.
        -- exact K1.
        -- intros H. left; reflexivity.
        -- intros _. apply F1. left; reflexivity.
      * assert (Hseen' : true = true <-> exists y, In y (acc ++ [so]) /\ sol_failure y = true).
        { split; auto. intros _. exists so. split; auto. apply in_or_app. right; left; auto. }
        destruct (IH true (acc ++ [so]) Hseen') as (S1 & C1 & K1 & F1). split; [|split; [|split; [|split]]].
        -- intros x Hx. destruct (S1 x Hx) as [H|H]; [|right; right; auto].
           apply in_app_iff in H as [H|[<-|[]]]; auto. right; left; auto.
        -- intros x [<-|Hx] [Hv Hb]; [congruence|]. apply C1; auto. split; auto.
        -- intros x Hx. apply K1. apply in_or_app; auto.
        -- intros _. right. exists so. split; auto. left; auto.
        -- intros _. apply F1. left; reflexivity.
    + destruct (sol_bound so) eqn:Eb.
      * destruct (existsb (fun x => negb (sol_failure x) && sol_eqb so x) acc) eqn:Ex.
        -- destruct (IH seen acc Hseen) as (S1 & C1 & K1 & F1). split; [|split; [|split; [|split]]].
           ++ intros x Hx. destruct (S1 x Hx); auto. right; right; auto.
           ++ intros x [<-|Hx] Hv; [|apply C1; auto].
              apply existsb_exists in Ex as (y & Hy & Hc). apply andb_true_iff in Hc as [Hf He].
              exists y. split; [apply K1; auto|]. split; [apply negb_true_iff; auto|apply sol_eqb_spec; auto].
           ++ exact K1.
           ++ intros H. apply F1 in H as [H|(x & Hx & Hf)]; auto. right. exists x. split; auto. right; auto.
           ++ intros [H|(x & [<-|Hx] & Hf)]; [apply F1; auto|congruence|apply F1; right; eauto].
        -- assert (Hseen' : seen = true <-> exists y, In y (acc ++ [so]) /\ sol_failure y = true).
           { rewrite Hseen. split; intros (y & Hy & Hf); exists y; split; auto.
             - apply in_or_app; auto.
             - apply in_app_iff in Hy as [Hy|[<-|[]]]; auto. congruence. }
           destruct (IH seen (acc ++ [so]) Hseen') as (S1 & C1 & K1 & F1). split; [|split; [|split; [|split]]].
           ++ intros x Hx. destruct (S1 x Hx) as [H|H]; [|right; right; auto].
              apply in_app_iff in H as [H|[<-|[]]]; auto. right; left; auto.
           ++ intros x [<-|Hx] Hv; [|apply C1; auto].
              exists so. split; [apply K1, in_or_app; right; left; auto|]. split; [apply Hv|apply same_sol_refl].
           ++ intros x Hx. apply K1, in_or_app; auto.
           ++ intros H. apply F1 in H as [H|(x & Hx & Hf)]; auto. right. exists x. split; auto. right; auto.
           ++ intros [H|(x & [<-|Hx] & Hf)]; [apply F1; auto|congruence|apply F1; right; eauto].
      * destruct (IH seen acc Hseen) as (S1 & C1 & K1 & F1). split; [|split; [|split; [|split]]].
        -- intros x Hx. destruct (S1 x Hx); auto. right; right; auto.
        -- intros x [<-|Hx] [Hv Hb]; [congruence|]. apply C1; auto. split; auto.
        -- exact K1.
        -- intros H. apply F1 in H as [H|(x & Hx & Hf)]; auto. right. exists x. split; auto. right; auto.
        -- intros [H|(x & [<-|Hx] & Hf)]; [apply F1; auto|congruence|apply F1; right; eauto].
Qed.

(* exactly the distinct solutions: every reported row is a row of the query; every violating row
   is reported (up to equality of its bindings); ?failure is reported iff some row binds it *)
Theorem dedup_sols_spec l :
  (forall x, In x (dedup_sols l) -> In x l)
  /\ (forall x, In x l -> violation_row x -> exists y, In y (dedup_sols l) /\ sol_failure y = false /\ same_sol x y)
  /\ ((exists y, In y (dedup_sols l) /\ sol_failure y = true) <-> (exists x, In x l /\ sol_failure x = true)).
Proof.
  assert (H0 : false = true <-> exists y, In y (@nil sol) /\ sol_failure y = true).
  { split; [discriminate|]. intros (y & [] & _). }
  destruct (dedup_sols_acc_spec l false [] H0) as (S1 & C1 & _ & F1). unfold dedup_sols. split; [|split; [|split]].
  - intros x Hx. destruct (S1 x Hx) as [[]|H]; auto.
  - exact C1.
  - intros H. apply F1 in H as [H|H]; [discriminate|auto].
  - intros H. apply F1. auto.
Qed.

(* one result each: no two reported violation rows are the same solution, at most one failure row *)
Lemma dedup_sols_acc_distinct : forall l seen acc,
  (seen = true <-> exists y, In y acc /\ sol_failure y = true) ->
  ForallOrdPairs (fun a b => (sol_failure a = true /\ sol_failure b = true) \/
                             (sol_failure a = false /\ sol_failure b = false /\ same_sol a b) -> False) acc ->
  ForallOrdPairs (fun a b => (sol_failure a = true /\ sol_failure b = true) \/
                             (sol_failure a = false /\ sol_failure b = false /\ same_sol a b) -> False)
                 (dedup_sols_acc seen acc l).
Proof.
  assert (Happ : forall (R:sol -> sol -> Prop) acc so, ForallOrdPairs R acc -> (forall a, In a acc -> R a so) ->
                 ForallOrdPairs R (acc ++ [so])).
  { intros R acc so H. induction H as [|a l Ha Hl IHl]; intros Hso; simpl.
    - constructor; constructor.
    - constructor.
      + apply Forall_app. split; [exact Ha|]. constructor; [apply Hso; left; auto|constructor].
      + apply IHl. intros b Hb. apply Hso. right; auto. }
  induction l as [|so l IH]; intros seen acc Hseen Hacc; cbn [dedup_sols_acc]; [exact Hacc|].
  destruct (sol_failure so) eqn:Ef.
  - destruct seen eqn:Es; [apply IH; auto|].
    apply IH.
    + split; auto. intros _. exists so. split; auto. apply in_or_app. right; left; auto.
    + apply Happ; auto. intros a Ha [[Hfa _]|(_ & Hfs & _)]; [|congruence].
      assert (false = true); [|discriminate]. apply Hseen. eauto.
  - destruct (sol_bound so); [|apply IH; auto].
    destruct (existsb (fun x => negb (sol_failure x) && sol_eqb so x) acc) eqn:Ex; [apply IH; auto|].
    apply IH.
    + rewrite Hseen. split; intros (y & Hy & Hf); exists y; split; auto.
      * apply in_or_app; auto.
      * apply in_app_iff in Hy as [Hy|[<-|[]]]; auto. congruence.
    + apply Happ; auto. intros a Ha [[_ Hfs]|(Hfa & _ & Hs)]; [congruence|].
      assert (existsb (fun x => negb (sol_failure x) && sol_eqb so x) acc = true); [|congruence].
      apply existsb_exists. exists a. split; auto. rewrite Hfa. simpl. apply sol_eqb_spec. apply same_sol_sym. exact Hs.
Qed.

Theorem dedup_sols_distinct l :
  ForallOrdPairs (fun a b => (sol_failure a = true /\ sol_failure b = true) \/
                             (sol_failure a = false /\ sol_failure b = false /\ same_sol a b) -> False)
                 (dedup_sols l).
Proof.
  apply dedup_sols_acc_distinct; [|constructor].
  split; [discriminate|]. intros (y & [] & _).
Qed.

(* the result built from one solution: focus, value and path come from ?this/?value/?path
   (defaulting to the focus node, to the focus node for node shapes, and to the shape's path),
   and the messages are those of this solution's own bindings followed by the shape's own *)
Definition sparql_result (s:shape) (f:term) (so:sol) : vresult :=
  let result_val := if is_property_shape s then None else Some f in
  if sol_failure so then mkm s sh_SPARQLConstraintComponent f result_val (shape_rpath s) (sol_msgs so)
  else mkm s sh_SPARQLConstraintComponent
           (match sol_this so with Some t => t | None => f end)
           (match sol_value so with Some v => Some v | None => result_val end)
           (match sol_path so with Some p => Some p | None => shape_rpath s end)
           (sol_msgs so).

Section WithTrig.
Variable trig : trig_t.
Variable W : world.

Theorem sparql_constraint_results nested g E s fvs ep cs cr :
  evalc trig W nested g E s fvs ep (CSparql cs) = Ok cr ->
  forall r, In r (snd cr) <->
    exists sc f vs so, In sc cs /\ sc_deact sc = false /\ In (f, vs) fvs
                       /\ In so (dedup_sols (sols_of (sc_sols sc) f)) /\ r = sparql_result s f so.
Proof.
  cbn [evalc]. intros [= <-] r. simpl. rewrite in_flat_map. split.
  - intros (sc & Hsc & Hr). destruct (sc_deact sc) eqn:Ed; [destruct Hr|].
    apply in_flat_map in Hr as ([f vs] & Hfv & Hr). apply in_map_iff in Hr as (so & <- & Hso).
    exists sc, f, vs, so. repeat split; auto.
  - intros (sc & f & vs & so & Hsc & Hd & Hfv & Hso & ->). exists sc. split; auto. rewrite Hd.
    apply in_flat_map. exists (f, vs). split; auto. apply in_map_iff. exists so. split; auto.
Qed.

Theorem sparql_messages_own s f so :
  rmsgs (sparql_result s f so) = sol_msgs so ++ smsgs s.
Proof. unfold sparql_result. destruct (sol_failure so); reflexivity. Qed.

(* ASK validators: one result per value node for which the query answers false *)
Theorem ask_component_results nested g E s fvs ep cc answers cr :
  cc_val cc = VAsk answers ->
  evalc trig W nested g E s fvs ep (CCustom cc) = Ok cr ->
  forall r, In r (snd cr) <->
    exists f vs v msgs, In (f, vs) fvs /\ In v vs /\ ask_of answers f v = Some (false, msgs)
      /\ r = mkm s (cc_node cc) f (if is_property_shape s then None else Some v) (shape_rpath s) msgs.
Proof.
  intros Hv. cbn [evalc]. rewrite Hv. intros [= <-] r. simpl. rewrite in_flat_map. split.
  - intros ([f vs] & Hfv & Hr). apply in_flat_map in Hr as (v & Hvs & Hr). simpl in *.
    destruct (ask_of answers f v) as [[[] msgs]|] eqn:Ea; [destruct Hr| |destruct Hr]. destruct Hr as [<-|[]].
    exists f, vs, v, msgs. auto.
  - intros (f & vs & v & msgs & Hfv & Hvs & Ea & ->). exists (f, vs). split; auto.
    apply in_flat_map. exists v. split; auto. simpl. rewrite Ea. left; reflexivity.
Qed.

End WithTrig.
