(* Abstract syntax of a loaded shapes graph, validation results and options. *)
From Coq Require Import List NArith ZArith Bool.
From Verif Require Import Base.SetList Base.Terms Base.Vocab Paths.Path.
Import ListNotations.

(* ---- leaf (non shape-expecting) core components; semantics in Shapes/Leaf.v ---- *)
Inductive nodekind := NKIRI | NKBlankNode | NKLiteral | NKBlankNodeOrIRI | NKBlankNodeOrLiteral | NKIRIOrLiteral.

Inductive leaf :=
| LClass (cs:list term)
| LDatatype (d:term)
| LNodeKind (k:nodekind)
| LMinCount (n:Z)
| LMaxCount (n:Z)
| LMinExcl (bs:list term) | LMinIncl (bs:list term) | LMaxExcl (bs:list term) | LMaxIncl (bs:list term)
| LMinLength (n:Z) | LMaxLength (n:Z)
| LPattern (ps:list N)             (* pattern+flags, interned; matching is an oracle *)
| LLanguageIn (ranges:list (list N)) (* each language range as its list of (interned, lower-cased) subtags *)
| LUniqueLang (b:bool)
| LEquals (ps:list term) | LDisjoint (ps:list term)
| LLessThan (ps:list term) | LLessThanEq (ps:list term)
| LHasValue (vs:list term)
| LIn (vs:list term).

(* component classes, as compared by recursion_triggers (p.__class__ == self.__class__) *)
Inductive ckind := KNot | KAnd | KOr | KXone | KNode | KProperty | KQualified | KLeaf.

Definition ckind_eqb (a b:ckind) : bool :=
  match a, b with
  | KNot, KNot | KAnd, KAnd | KOr, KOr | KXone, KXone | KNode, KNode
  | KProperty, KProperty | KQualified, KQualified | KLeaf, KLeaf => true
  | _, _ => false
  end.

(* ---- SPARQL-based constraints: query evaluation is outside the model; a constraint carries the
        solutions of its query for each focus node (value node), obtained by running the declared
        query directly through rdflib with the prescribed pre-bindings ---- *)
Record sol := {
  sol_failure : bool;           (* ?failure is bound *)
  sol_this : option term;
  sol_path : option term;
  sol_value : option term;
  sol_rest : N;                 (* identity of the remaining bindings of the row *)
  sol_msgs : list term          (* the declared sh:message templates instantiated with THIS row's bindings *)
}.
Record sconstraint := {
  sc_deact : bool;
  sc_sols : list (term * list sol)     (* focus node -> rows *)
}.
Inductive cvalidator :=
| VAsk (answers : list (term * term * bool * list term))   (* (focus, value) -> askAnswer, bound messages *)
| VSelect (rows : list (term * term * list sol)).          (* (focus, value) -> rows *)
Record custom := { cc_node : N; cc_val : cvalidator }.

(* one constraint component instance per component class per shape; shape
   references are terms looked up in the environment *)
Inductive comp :=
| CLeaf (l:leaf)
| CNot (refs:list term)
| CAnd (lists:list (list term))
| COr (lists:list (list term))
| CXone (lists:list (list term))
| CNode (refs:list term)
| CProperty (refs:list term)
| CQualified (refs:list term) (qmin qmax:option Z) (disjoint:bool)
| CClosed (closed:bool) (ignored:list term)
| CSparql (cs:list sconstraint)
| CCustom (cc:custom).

Definition comp_kind (c:comp) : ckind :=
  match c with
  | CLeaf _ => KLeaf | CNot _ => KNot | CAnd _ => KAnd | COr _ => KOr | CXone _ => KXone
  | CNode _ => KNode | CProperty _ => KProperty | CQualified _ _ _ _ => KQualified | CClosed _ _ => KLeaf | CSparql _ => KLeaf | CCustom _ => KLeaf
  end.

Record targets := {
  t_nodes : list term;        (* sh:targetNode *)
  t_classes : list term;      (* sh:targetClass *)
  t_implicit : bool;          (* the shape is also a class (implicit class target) *)
  t_subjects_of : list term;  (* sh:targetSubjectsOf *)
  t_objects_of : list term    (* sh:targetObjectsOf *)
}.
Definition no_targets : targets :=
  {| t_nodes := []; t_classes := []; t_implicit := false; t_subjects_of := []; t_objects_of := [] |}.

Record shape := {
  sid : term;
  spath : option path;        (* Some p: property shape *)
  deact : bool;
  ssev : term;
  smsgs : list term;          (* declared sh:message values *)
  stargets : targets;
  scomps : list comp
}.
Definition is_property_shape (s:shape) : bool := match spath s with Some _ => true | None => false end.

Definition env := list shape.
Fixpoint lookup (E:env) (t:term) : option shape :=
  match E with
  | [] => None
  | s :: r => if term_eqb (sid s) t then Some s else lookup r t
  end.

(* ---- results ---- *)
Inductive vresult :=
  VR (focus:term) (value:option term) (path:option term) (comp:N) (src:term) (sev:term) (msgs:list term) (details:list vresult).

Definition rfocus (r:vresult) := match r with VR f _ _ _ _ _ _ _ => f end.
Definition rvalue (r:vresult) := match r with VR _ v _ _ _ _ _ _ => v end.
Definition rpath (r:vresult) := match r with VR _ _ p _ _ _ _ _ => p end.
Definition rcomp (r:vresult) := match r with VR _ _ _ c _ _ _ _ => c end.
Definition rsrc (r:vresult) := match r with VR _ _ _ _ s _ _ _ => s end.
Definition rsev (r:vresult) := match r with VR _ _ _ _ _ s _ _ => s end.
Definition rmsgs (r:vresult) := match r with VR _ _ _ _ _ _ m _ => m end.
Definition rdetails (r:vresult) := match r with VR _ _ _ _ _ _ _ d => d end.

Definition cres := (bool * list vresult)%type.

(* ---- options of the executor ---- *)
Record opts := {
  abort : bool;              (* abort_on_first *)
  allow_infos : bool;
  allow_warnings : bool;
  max_depth : nat;           (* max_validation_depth *)
  focus_filter : list term   (* focus_nodes option, expanded; [] = absent *)
}.
Definition default_opts : opts :=
  {| abort := false; allow_infos := false; allow_warnings := false; max_depth := 15; focus_filter := [] |}.

Definition allowed_severities (o:opts) : list term :=
  (if allow_infos o then [t_Info] else []) ++ (if allow_warnings o then [t_Info; t_Warning] else []).

(* what Shape.validate reads from the executor once the focus nodes are fixed:
   the focus_nodes option is not among them *)
Record eopts := {
  e_abort : bool;
  e_allowed : list term;     (* waived severities *)
  e_max_depth : nat
}.
Definition eopts_of (o:opts) : eopts :=
  {| e_abort := abort o; e_allowed := allowed_severities o; e_max_depth := max_depth o |}.
