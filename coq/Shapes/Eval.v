(* Executable model of Shape.validate (pyshacl/shape.py), the shape-expecting
   constraint components (logical_constraints.py, shape_based_constraints.py),
   recursion_triggers (constraint_component.py), Shape.focus_nodes and the shape
   loop of Validator.run (validator.py). *)
From Coq Require Import List NArith ZArith Bool Arith.
From Verif Require Import Base.SetList Base.Terms Base.Vocab Paths.Path Shapes.AST Shapes.Leaf.
Import ListNotations.

Definition isnil {A} (l:list A) : bool := match l with [] => true | _ => false end.

(* ---------------- targets: Shape.focus_nodes ---------------- *)
Definition instances_of (g:graph) (c:term) : list term :=
  flat_map (fun sc => subjects g t_rdf_type sc) (subclasses g c).

(* Shape.implicit_class_targets: the shape node is a SHACL instance of rdfs:Class in the shapes graph *)
Definition implicit_class (sg:graph) (s:shape) : bool :=
  existsb (fun t => tmem t (subclasses sg t_rdfs_Class)) (objects sg (sid s) t_rdf_type).

Definition focus_nodes (sg g:graph) (s:shape) : list term :=
  let t := stargets s in
  let classes := tdedup (t_classes t ++ (if implicit_class sg s then [sid s] else [])) in
  tdedup (t_nodes t
          ++ flat_map (instances_of g) classes
          ++ flat_map (subjects_of g) (t_subjects_of t)
          ++ flat_map (objects_of g) (t_objects_of t)).

(* ---------------- evaluation path and recursion_triggers ---------------- *)
(* the path [S0; C0; S1; C1; ...] is kept as pairs (shape id, class of the component) *)
Definition pentry := (term * ckind)%type.

Fixpoint collect_next (self:term) (k:ckind) (ep:list pentry) : list term :=
  match ep with
  | a :: rest =>
    match rest with
    | b :: _ => (if term_eqb (fst a) self && ckind_eqb (snd a) k then [fst b] else []) ++ collect_next self k rest
    | [] => []
    end
  | [] => []
  end.

Definition node_property_pair (k prev:ckind) : bool :=
  match k, prev with KProperty, KNode | KNode, KProperty => true | _, _ => false end.

(* ep ends with the pair of the calling component *)
Definition recursion_triggers (ep:list pentry) (self:term) (k:ckind) : option (list term) :=
  let n := length ep in
  if n <? 2 then None else
  let prevk := match nth_error ep (n - 2) with Some p => snd p | None => KLeaf end in
  let lookback := if node_property_pair k prevk then 6 else 3 in
  if n <? lookback then None else Some (collect_next self k ep).

Definition in_triggers (pr:option (list term)) (s:shape) : bool :=
  match pr with Some l => tmem (sid s) l | None => false end.

(* ---------------- components ---------------- *)
Definition nested_t := shape -> term -> list pentry -> res cres.
Definition fvs_t := list (term * list term).

Definition for_values {A} (fvs:fvs_t) (k : term -> term -> res (list A)) : res (list A) :=
  bind (mapM (fun fv => bind (mapM (k (fst fv)) (snd fv)) (fun ls => Ok (concat ls))) fvs)
       (fun ls => Ok (concat ls)).

Definition concatM {A} (l:list (res (list A))) : res (list A) :=
  bind (mapM (fun x => x) l) (fun ls => Ok (concat ls)).

Definition value_count (fvs:fvs_t) : nat := fold_right (fun fv n => length (snd fv) + n) 0 fvs.

Definition reported (rs:list vresult) : cres := (isnil rs, rs).

(* sh:resultPath of an ordinary result: the property shape's path (an IRI, or a copied blank
   node structure, abstracted to BN 0) *)
Definition shape_rpath (s:shape) : option term :=
  match spath s with
  | None => None
  | Some (PPred p) => Some (IRI p)
  | Some _ => Some (BN 0)
  end.

Definition mkp (s:shape) (c:N) (f:term) (v:option term) (p:option term) (details:list vresult) : vresult :=
  VR f v p c (sid s) (ssev s) (smsgs s) details.
Definition mk (s:shape) (c:N) (f:term) (v:option term) (details:list vresult) : vresult :=
  mkp s c f v (shape_rpath s) details.
(* a result of a SPARQL-based constraint: its messages are the instantiated templates, then the shape's own *)
Definition mkm (s:shape) (c:N) (f:term) (v:option term) (p:option term) (msgs:list term) : vresult :=
  VR f v p c (sid s) (ssev s) (msgs ++ smsgs s) [].

Definition opt_eqb (a b:option term) : bool :=
  match a, b with Some x, Some y => term_eqb x y | None, None => true | _, _ => false end.
Definition sol_bound (so:sol) : bool :=
  match sol_this so, sol_path so, sol_value so with None, None, None => false | _, _, _ => true end.
Definition sol_eqb (a b:sol) : bool :=
  opt_eqb (sol_this a) (sol_this b) && opt_eqb (sol_path a) (sol_path b) && opt_eqb (sol_value a) (sol_value b)
  && N.eqb (sol_rest a) (sol_rest b).
Definition row_eqb (a b:sol) : bool :=
  opt_eqb (sol_this a) (sol_this b) && opt_eqb (sol_path a) (sol_path b) && opt_eqb (sol_value a) (sol_value b).

(* _validate_sparql_query: the first ?failure row once; rows binding this/path/value once each (up to
   equality of the whole row); other rows are not violations *)
Fixpoint dedup_sols_acc (seen_failure:bool) (acc:list sol) (l:list sol) : list sol :=
  match l with
  | [] => acc
  | so :: r =>
    if sol_failure so then
      if seen_failure then dedup_sols_acc true acc r else dedup_sols_acc true (acc ++ [so]) r
    else if sol_bound so then
      if existsb (fun x => negb (sol_failure x) && sol_eqb so x) acc then dedup_sols_acc seen_failure acc r
      else dedup_sols_acc seen_failure (acc ++ [so]) r
    else dedup_sols_acc seen_failure acc r
  end.
Definition dedup_sols := dedup_sols_acc false [].

(* SelectConstraintValidator.validate collects (value, (this, path, value2)) in a set *)
Fixpoint dedup_rows_acc (acc:list sol) (l:list sol) : list sol :=
  match l with
  | [] => acc
  | so :: r =>
    if sol_bound so then
      if existsb (fun x => sol_bound x && row_eqb so x) acc then dedup_rows_acc acc r else dedup_rows_acc (acc ++ [so]) r
    else if sol_failure so then
      if existsb (fun x => negb (sol_bound x)) acc then dedup_rows_acc acc r else dedup_rows_acc (acc ++ [so]) r
    else dedup_rows_acc acc r
  end.
Definition dedup_rows := dedup_rows_acc [].

Fixpoint sols_of (tbl:list (term * list sol)) (f:term) : list sol :=
  match tbl with [] => [] | (k, v) :: r => if term_eqb k f then v else sols_of r f end.
Fixpoint rows_of (tbl:list (term * term * list sol)) (f v:term) : list sol :=
  match tbl with [] => [] | (k1, k2, x) :: r => if term_eqb k1 f && term_eqb k2 v then x else rows_of r f v end.
Fixpoint ask_of (tbl:list (term * term * bool * list term)) (f v:term) : option (bool * list term) :=
  match tbl with
  | [] => None
  | (k1, k2, a, m) :: r => if term_eqb k1 f && term_eqb k2 v then Some (a, m) else ask_of r f v
  end.

Definition lookup_all (E:env) (refs:list term) : res (list shape) :=
  mapM (fun r => match lookup E r with Some s => Ok s | None => Err Reportable end) refs.

Definition prop_refs (s:shape) : list term :=
  flat_map (fun c => match c with CProperty r => r | _ => [] end) (scomps s).
Definition qual_refs (s:shape) : list term :=
  flat_map (fun c => match c with CQualified r _ _ _ => r | _ => [] end) (scomps s).

(* sibling shapes of a qualified value shape (SHACL 4.7.3), from the environment *)
Definition sibling_refs (E:env) (self vshape:term) : list term :=
  let parents := filter (fun p => tmem self (prop_refs p)) E in
  tdedup (filter (fun t => negb (term_eqb t vshape))
    (flat_map (fun p => flat_map (fun r => match lookup E r with Some ps => qual_refs ps | None => [] end)
                                 (prop_refs p)) parents)).

Definition Zle_opt (a:option Z) (n:nat) (cmp : Z -> Z -> bool) : bool :=
  match a with Some z => cmp z (Z.of_nat n) | None => false end.

(* The recursion back-out heuristic is a parameter, so that every invariant below is
   proved for any such heuristic and the real one can be compared with "never back out". *)
Definition trig_t := list pentry -> term -> ckind -> option (list term).

Section WithTriggers.
Variable trig : trig_t.
Variable W : world.   (* literal values, string lengths, regex matches: computed outside the model *)

Definition evalc (nested:nested_t) (g:graph) (E:env) (s:shape) (fvs:fvs_t) (ep:list pentry) (c:comp)
  : res cres :=
  match c with
  | CLeaf l =>
      Ok (reported (flat_map (fun fv => map (fun b => mk s (leaf_comp l) (fst fv) b []) (leaf_bad W g l (fst fv) (snd fv))) fvs))
  | CNot refs =>
      let pr := trig ep (sid s) KNot in
      bind (concatM (map (fun r =>
              match lookup E r with
              | None => Err Reportable
              | Some ns =>
                if in_triggers pr ns then Ok []
                else for_values fvs (fun f v =>
                       bind (nested ns v ep) (fun cr =>
                         Ok (if fst cr then [mk s sh_NotConstraintComponent f (Some v) []] else [])))
              end) refs))
           (fun rs => Ok (reported rs))
  | CAnd lists =>
      bind (concatM (map (fun members =>
              let members := tdedup members in
              if isnil members then Err Reportable else
              bind (lookup_all E members) (fun shapes =>
                for_values fvs (fun f v =>
                  bind (mapM (fun ns => nested ns v ep) shapes) (fun crs =>
                    Ok (if forallb fst crs then [] else [mk s sh_AndConstraintComponent f (Some v) []]))))) lists))
           (fun rs => Ok (reported rs))
  | COr lists =>
      bind (concatM (map (fun members =>
              let members := tdedup members in
              if isnil members then Err Reportable else
              bind (lookup_all E members) (fun shapes =>
                for_values fvs (fun f v =>
                  bind (mapM (fun ns => nested ns v ep) shapes) (fun crs =>
                    Ok (if existsb fst crs then [] else [mk s sh_OrConstraintComponent f (Some v) []]))))) lists))
           (fun rs => Ok (reported rs))
  | CXone lists =>
      bind (concatM (map (fun members =>
              if isnil members then Err Reportable else
              bind (lookup_all E members) (fun shapes =>
                for_values fvs (fun f v =>
                  bind (mapM (fun ns => nested ns v ep) shapes) (fun crs =>
                    Ok (if length (filter fst crs) =? 1 then [] else [mk s sh_XoneConstraintComponent f (Some v) []]))))) lists))
           (fun rs => Ok (reported rs))
  | CNode refs =>
      if value_count fvs <? 1 then Ok (true, []) else
      let pr := trig ep (sid s) KNode in
      bind (concatM (map (fun r =>
              match lookup E r with
              | None => Err Reportable
              | Some ns =>
                if in_triggers pr ns then Ok []
                else if is_property_shape ns then Err Reportable
                else for_values fvs (fun f v =>
                       bind (nested ns v ep) (fun cr =>
                         Ok (if negb (fst cr) || negb (isnil (snd cr))
                             then [mk s sh_NodeConstraintComponent f (Some v) (snd cr)] else [])))
              end) refs))
           (fun rs => Ok (reported rs))
  | CProperty refs =>
      if value_count fvs <? 1 then Ok (true, []) else
      let pr := trig ep (sid s) KProperty in
      bind (mapM (fun r =>
              match lookup E r with
              | None => Err Reportable
              | Some ps =>
                if in_triggers pr ps then Ok []
                else if negb (is_property_shape ps) then Err Reportable
                else for_values fvs (fun f v => bind (nested ps v ep) (fun cr => Ok [cr]))
              end) refs)
           (fun crss => let crs := concat crss in Ok (forallb fst crs, flat_map snd crs))
  | CQualified refs qmin qmax disjoint =>
      if negb disjoint && (value_count fvs <? 1)
         && match qmin with None => true | Some m => (m <? 1)%Z end then Ok (true, []) else
      let pr := trig ep (sid s) KQualified in
      bind (concatM (map (fun r =>
              match lookup E r with
              | None => Err Reportable
              | Some qs =>
                if in_triggers pr qs then Ok []
                else
                bind (if disjoint then lookup_all E (sibling_refs E (sid s) r) else Ok []) (fun sibs =>
                bind (mapM (fun fv =>
                        bind (mapM (fun v =>
                                bind (nested qs v ep) (fun cr =>
                                  if fst cr then
                                    bind (mapM (fun sib => nested sib v ep) sibs) (fun scrs =>
                                      Ok (negb (existsb fst scrs)))
                                  else Ok false)) (snd fv)) (fun flags =>
                          let n := length (filter (fun b => b) flags) in
                          Ok ((if Zle_opt qmax n Z.ltb
                               then [mk s sh_QualifiedMaxCountConstraintComponent (fst fv) None []] else [])
                              ++ (if match qmin with Some m => (Z.of_nat n <? m)%Z | None => false end
                                  then [mk s sh_QualifiedMinCountConstraintComponent (fst fv) None []] else []))))
                      fvs) (fun ls => Ok (concat ls)))
              end) refs))
           (fun rs => Ok (reported rs))
  | CClosed closed ignored =>
      if negb closed then Ok (true, []) else
      bind (mapM (fun r => match lookup E r with
                           | Some ps => if is_property_shape ps then Ok ps else Err Reportable
                           | None => Err Reportable
                           end) (prop_refs s))
           (fun pss =>
              let working := flat_map (fun ps => match spath ps with Some (PPred p) => [IRI p] | _ => [] end) pss in
              Ok (reported (flat_map (fun fv => flat_map (fun v => flat_map (fun t =>
                    if (term_eqb (tpred t) t_rdf_type && term_eqb (tobj t) t_rdfs_Resource)   (* ALWAYS_IGNORE *)
                       || tmem (tpred t) ignored || tmem (tpred t) working then []
                    else [mkp s sh_ClosedConstraintComponent (fst fv) (Some (tobj t)) (Some (tpred t)) []])
                  (filter (fun t => term_eqb (tsubj t) v) g)) (snd fv)) fvs)))
  | CSparql cs =>
      (* SPARQLBasedConstraint.evaluate: one result per distinct solution of the focus node *)
      Ok (reported (flat_map (fun sc =>
            if sc_deact sc then [] else
            flat_map (fun fv =>
              let f := fst fv in
              let result_val := if is_property_shape s then None else Some f in
              map (fun so =>
                     if sol_failure so then mkm s sh_SPARQLConstraintComponent f result_val (shape_rpath s) (sol_msgs so)
                     else mkm s sh_SPARQLConstraintComponent
                              (match sol_this so with Some t => t | None => f end)
                              (match sol_value so with Some v => Some v | None => result_val end)
                              (match sol_path so with Some p => Some p | None => shape_rpath s end)
                              (sol_msgs so))
                  (dedup_sols (sols_of (sc_sols sc) f))) fvs) cs))
  | CCustom cc =>
      (* BoundShapeValidatorComponent.evaluate with an ASK or a SELECT validator *)
      match cc_val cc with
      | VAsk answers =>
          Ok (reported (flat_map (fun fv => flat_map (fun v =>
                match ask_of answers (fst fv) v with
                | Some (false, msgs) =>
                    [mkm s (cc_node cc) (fst fv) (if is_property_shape s then None else Some v) (shape_rpath s) msgs]
                | _ => []
                end) (snd fv)) fvs))
      | VSelect rows =>
          bind (concatM (map (fun fv => concatM (map (fun v =>
                  let report_val := if is_property_shape s then None else Some v in
                  concatM (map (fun so =>
                      if sol_bound so then
                        Ok [mkm s (cc_node cc)
                              (match sol_this so with Some t => t | None => fst fv end)
                              (match sol_value so with Some x => Some x | None => report_val end)
                              (match sol_path so with Some p => Some p | None => shape_rpath s end)
                              (sol_msgs so)]
                      else if sol_failure so then Err ValFailure else Ok [])
                    (dedup_rows (rows_of rows (fst fv) v)))) (snd fv))) fvs))
               (fun rs => Ok (reported rs))
      end
  end.

(* ---------------- the constraint loop of Shape.validate ---------------- *)
Definition waived (o:eopts) (r:vresult) : bool := tmem (rsev r) (e_allowed o).
Definition all_waived (o:eopts) (rs:list vresult) : bool := forallb (waived o) rs.

(* nc: non_conformant; nw: not_waived *)
Fixpoint loop (o:eopts) (top:bool) (s:shape) (ev : comp -> res cres) (cs:list comp) (nc nw:bool) (acc:list vresult)
  : res cres :=
  match cs with
  | [] => Ok (negb (if top then nw else nc), acc)
  | c :: cs' =>
    match c, spath s with
    | CQualified _ _ _ _, None => loop o top s ev cs' nc nw acc    (* ConstraintLoadWarning: ignored on node shapes *)
    | _, _ =>
      bind (ev c) (fun cr =>
        let nc' := nc || negb (fst cr) in
        let nw' := if fst cr then nw
                   else nw || isnil (e_allowed o) || negb (all_waived o (snd cr)) in
        let acc' := acc ++ snd cr in
        if nw' && e_abort o then Ok (negb (if top then nw' else nc'), acc')
        else loop o top s ev cs' nc' nw' acc')
    end
  end.

Definition shape_value_nodes (g:graph) (s:shape) (foci:list term) : res fvs_t :=
  match spath s with
  | None => Ok (map (fun f => (f, [f])) foci)
  | Some p => mapM (fun f => bind (value_nodes g p f) (fun vs => Ok (f, vs))) foci
  end.

(* Shape.validate after focus resolution. top = called by the validator (no evaluation path). *)
Fixpoint vshape (fuel:nat) (o:eopts) (g:graph) (E:env) (top:bool) (ep:list pentry) (s:shape) (foci:list term)
  {struct fuel} : res cres :=
  if deact s then Ok (true, []) else
  if isnil foci then Ok (true, []) else
  if negb top && (e_max_depth o <=? length ep) then Err TooDeep else
  match fuel with
  | O => Err OutOfFuel
  | S fuel' =>
    bind (shape_value_nodes g s foci) (fun fvs =>
      loop o top s
        (fun c => evalc (fun s' v ep' => vshape fuel' o g E false ep' s' [v]) g E s fvs
                        (ep ++ [(sid s, comp_kind c)]) c)
        (scomps s) false false [])
  end.

Definition fuel_of (o:eopts) : nat := S (e_max_depth o).

(* Shape.validate as called by Validator.run: focus=None (own targets, focus_nodes filter) or an explicit list *)
Definition validate_top (o:opts) (sg g:graph) (E:env) (s:shape) (explicit:option (list term)) : res cres :=
  if deact s then Ok (true, []) else
  match explicit with
  | Some foci => vshape (fuel_of (eopts_of o)) (eopts_of o) g E true [] s (tdedup foci)
  | None =>
    let foci := focus_nodes sg g s in
    if isnil foci then Ok (true, []) else
    match focus_filter o with
    | [] => vshape (fuel_of (eopts_of o)) (eopts_of o) g E true [] s foci
    | flt =>
      let kept := filter (fun f => is_iri f && tmem f flt) foci in
      if isnil kept then Ok (true, []) else vshape (fuel_of (eopts_of o)) (eopts_of o) g E true [] s kept
    end
  end.

(* the `for s in shapes` loop of Validator.run *)
Fixpoint run_shapes (o:opts) (sg g:graph) (E:env) (shapes:list shape) (explicit:option (list term))
  (nc:bool) (acc:list vresult) : res cres :=
  match shapes with
  | [] => Ok (negb nc, acc)
  | s :: rest =>
    bind (validate_top o sg g E s explicit) (fun cr =>
      let nc' := nc || negb (fst cr) in
      let acc' := acc ++ snd cr in
      if abort o && nc' then Ok (negb nc', acc') else run_shapes o sg g E rest explicit nc' acc')
  end.

Definition validate (o:opts) (sg g:graph) (E:env) : res cres := run_shapes o sg g E E None false [].

(* shape and focus selection of Validator.run (use_shapes / focus_nodes options):
   use = expanded use_shapes ([] = absent). With both options the focus nodes are
   handed to the selected shapes directly and the executor's filter is switched off. *)
Definition lookup_selected (E:env) (use:list term) : res (list shape) :=
  mapM (fun r => match lookup E r with Some s => Ok s | None => Err ShapeLoad end) use.

Definition validate_sel (o:opts) (sg g:graph) (E:env) (use:list term) : res cres :=
  match use with
  | [] => validate o sg g E
  | _ =>
    bind (lookup_selected E use) (fun shapes =>
      match focus_filter o with
      | [] => run_shapes o sg g E shapes None false []
      | flt =>
        run_shapes {| abort := abort o; allow_infos := allow_infos o; allow_warnings := allow_warnings o;
                      max_depth := max_depth o; focus_filter := [] |} sg g E shapes (Some flt) false []
      end)
  end.

End WithTriggers.

(* the implementation: back-out by ConstraintComponent.recursion_triggers *)
Definition validate_impl := validate recursion_triggers.
Definition validate_sel_impl := validate_sel recursion_triggers.
Definition validate_impl0 := validate recursion_triggers empty_world.
(* the reference: never back out *)
Definition no_triggers : trig_t := fun _ _ _ => None.
