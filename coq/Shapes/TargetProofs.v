(* Shape.focus_nodes selects exactly what the SHACL target declarations prescribe. *)
From Coq Require Import List NArith ZArith Bool Arith Relations Lia.
From Verif Require Import Base.SetList Base.Terms Base.Vocab Paths.Path Paths.PathProofs
  Shapes.AST Shapes.Leaf Shapes.Eval.
Import ListNotations.

Definition subclass_step (g:graph) (a b:term) : Prop := In (a, t_subClassOf, b) g.

(* SHACL instance: rdf:type followed by zero or more rdfs:subClassOf *)
Definition shacl_instance (g:graph) (x c:term) : Prop :=
  exists t, In (x, t_rdf_type, t) g /\ clos_refl_trans term (subclass_step g) t c.

Lemma star_sub_ok g inv c : exists vs,
  eval_path (fuel_for g) g (PStar (PPred rdfs_subClassOf)) inv 0 c = Ok vs.
Proof. apply eval_path_total; reflexivity. Qed.

Lemma subclasses_spec g c y : In y (subclasses g c) <-> clos_refl_trans term (subclass_step g) y c.
Proof.
  unfold subclasses. destruct (star_sub_ok g true c) as [vs E]. rewrite E.
  destruct (eval_path_sound _ _ _ _ _ _ _ E) as [_ H]. rewrite H. unfold rel. simpl. tauto.
Qed.

Lemma superclasses_spec g t y : In y (superclasses g t) <-> clos_refl_trans term (subclass_step g) t y.
Proof.
  unfold superclasses. destruct (star_sub_ok g false t) as [vs E]. rewrite E.
  destruct (eval_path_sound _ _ _ _ _ _ _ E) as [_ H]. rewrite H. unfold rel. simpl. tauto.
Qed.

Lemma instances_of_spec g c x : In x (instances_of g c) <-> shacl_instance g x c.
Proof.
  unfold instances_of, shacl_instance. rewrite in_flat_map. split.
  - intros (sc & Hsc & Hx). apply subclasses_spec in Hsc. apply In_subjects in Hx. eauto.
  - intros (t & Ht & Hc). exists t. split; [apply subclasses_spec; auto|apply In_subjects; auto].
Qed.

Lemma implicit_class_spec sg s : implicit_class sg s = true <-> shacl_instance sg (sid s) t_rdfs_Class.
Proof.
  unfold implicit_class, shacl_instance. rewrite existsb_exists. split.
  - intros (t & Ht & Hm). apply In_objects in Ht. apply (mem_In term_eqb_spec) in Hm.
    apply subclasses_spec in Hm. eauto.
  - intros (t & Ht & Hc). exists t. split; [apply In_objects; auto|].
    apply (mem_In term_eqb_spec). apply subclasses_spec. auto.
Qed.

(* the specification of SHACL 2.1.3: targets *)
Definition focus_spec (sg g:graph) (s:shape) (x:term) : Prop :=
  In x (t_nodes (stargets s))
  \/ (exists c, In c (t_classes (stargets s)) /\ shacl_instance g x c)
  \/ (shacl_instance sg (sid s) t_rdfs_Class /\ shacl_instance g x (sid s))
  \/ (exists p, In p (t_subjects_of (stargets s)) /\ exists o, In (x, p, o) g)
  \/ (exists p, In p (t_objects_of (stargets s)) /\ exists s', In (s', p, x) g).

Theorem focus_nodes_correct sg g s :
  NoDup (focus_nodes sg g s) /\ forall x, In x (focus_nodes sg g s) <-> focus_spec sg g s x.
Proof.
  split; [apply NoDup_dedup, term_eqb_spec|].
  intros x. unfold focus_nodes, focus_spec.
  rewrite (In_dedup term_eqb_spec), !in_app_iff, !in_flat_map.
  assert (Hcls : (exists c, In c (tdedup (t_classes (stargets s) ++ (if implicit_class sg s then [sid s] else [])))
                            /\ In x (instances_of g c))
                 <-> ((exists c, In c (t_classes (stargets s)) /\ shacl_instance g x c)
                      \/ (shacl_instance sg (sid s) t_rdfs_Class /\ shacl_instance g x (sid s)))).
  { split.
    - intros (c & Hc & Hx). rewrite (In_dedup term_eqb_spec) in Hc. apply instances_of_spec in Hx.
      apply in_app_iff in Hc as [Hc|Hc]; [left; eauto|].
      destruct (implicit_class sg s) eqn:Ei; [|destruct Hc].
      destruct Hc as [<-|[]]. right. split; auto. apply implicit_class_spec; auto.
    - intros [(c & Hc & Hx)|[Hi Hx]].
      + exists c. split; [apply (In_dedup term_eqb_spec), in_app_iff; auto|apply instances_of_spec; auto].
      + exists (sid s). split; [|apply instances_of_spec; auto].
        apply (In_dedup term_eqb_spec), in_app_iff. right.
        apply implicit_class_spec in Hi. rewrite Hi. left; reflexivity. }
  rewrite Hcls.
  assert (Hs : (exists p, In p (t_subjects_of (stargets s)) /\ In x (subjects_of g p))
               <-> (exists p, In p (t_subjects_of (stargets s)) /\ exists o, In (x, p, o) g)).
  { split; intros (p & Hp & H); exists p; (split; [auto|]); apply In_subjects_of; auto. }
  assert (Ho : (exists p, In p (t_objects_of (stargets s)) /\ In x (objects_of g p))
               <-> (exists p, In p (t_objects_of (stargets s)) /\ exists s', In (s', p, x) g)).
  { split; intros (p & Hp & H); exists p; (split; [auto|]); apply In_objects_of; auto. }
  rewrite Hs, Ho. tauto.
Qed.

(* a shape without targets validates nothing by itself *)
Corollary no_targets_no_focus sg g s :
  stargets s = no_targets -> implicit_class sg s = false -> focus_nodes sg g s = [].
Proof.
  intros Ht Hi. unfold focus_nodes. rewrite Ht, Hi. reflexivity.
Qed.

(* sh:class agrees with the same notion of SHACL instance *)
Lemma has_class_spec g v c : is_lit v = false -> (has_class g v c = true <-> shacl_instance g v c).
Proof.
  intros Hl. unfold has_class, shacl_instance. rewrite Hl, existsb_exists. split.
  - intros (t & Ht & Hm). apply In_objects in Ht. exists t. split; auto.
    apply orb_true_iff in Hm as [Hm|Hm].
    + destruct (term_eqb_spec t c); [subst; apply rt_refl|discriminate].
    + apply (mem_In term_eqb_spec) in Hm. apply superclasses_spec in Hm. auto.
  - intros (t & Ht & Hc). exists t. split; [apply In_objects; auto|].
    apply orb_true_iff. right. apply (mem_In term_eqb_spec). apply superclasses_spec. auto.
Qed.
