(* Relational lemmas about the evaluator: extensionality in the nested evaluator,
   refinement (an Ok answer stays the same with more fuel / a larger depth limit),
   and dependence on conformance only. *)
From Coq Require Import List NArith ZArith Bool Arith Lia.
From Verif Require Import Base.SetList Base.Terms Base.Vocab Paths.Path Shapes.AST Shapes.Leaf Shapes.Eval
  Shapes.EvalProofs.
Import ListNotations.

(* ---------------- refinement ---------------- *)
Section WithTrig.
Variable trig : trig_t.
Variable W : world.

Definition refines {A} (a b:res A) : Prop := forall r, a = Ok r -> b = Ok r.

Lemma refines_refl {A} (a:res A) : refines a a.
Proof. intros r H; exact H. Qed.

Lemma bind_refines {A B} (a a':res A) (k k':A -> res B) :
  refines a a' -> (forall x, refines (k x) (k' x)) -> refines (bind a k) (bind a' k').
Proof.
  intros Ha Hk r H. apply bind_ok in H as (x & Ex & Ek). rewrite (Ha x Ex). simpl. apply Hk; auto.
Qed.

Lemma mapM_refines {A B} (f f':A -> res B) l :
  (forall x, In x l -> refines (f x) (f' x)) -> refines (mapM f l) (mapM f' l).
Proof.
  induction l as [|x xs IH]; intros H; simpl; [apply refines_refl|].
  apply bind_refines; [apply H; left; auto|]. intros y.
  apply bind_refines; [apply IH; intros z Hz; apply H; right; auto|]. intros ys. apply refines_refl.
Qed.

Lemma for_values_refines {A} fvs (k k':term -> term -> res (list A)) :
  (forall f v, refines (k f v) (k' f v)) -> refines (for_values fvs k) (for_values fvs k').
Proof.
  intros H. unfold for_values. apply bind_refines; [|intros; apply refines_refl].
  apply mapM_refines. intros [f vs] _. simpl.
  apply bind_refines; [|intros; apply refines_refl]. apply mapM_refines. intros v _. apply H.
Qed.

Lemma concatM_map_refines {A B} (f f':A -> res (list B)) l :
  (forall x, In x l -> refines (f x) (f' x)) -> refines (concatM (map f l)) (concatM (map f' l)).
Proof.
  intros H. unfold concatM. apply bind_refines; [|intros; apply refines_refl].
  induction l as [|x xs IH]; simpl; [apply refines_refl|].
  apply bind_refines; [apply H; left; auto|]. intros y.
  apply bind_refines; [apply IH; intros z Hz; apply H; right; auto|]. intros ys. apply refines_refl.
Qed.

Definition nested_refines (n n':nested_t) : Prop := forall s v ep, refines (n s v ep) (n' s v ep).

Ltac ref_step :=
  match goal with
  | |- refines (bind _ _) (bind _ _) => apply bind_refines; [|intros]
  | |- refines (mapM _ _) (mapM _ _) => apply mapM_refines; intros
  | |- refines (for_values _ _) (for_values _ _) => apply for_values_refines; intros
  | |- refines (concatM (map _ _)) (concatM (map _ _)) => apply concatM_map_refines; intros
  | |- refines (match ?x with _ => _ end) (match ?x with _ => _ end) => destruct x
  | |- refines (if ?x then _ else _) (if ?x then _ else _) => destruct x
  | |- refines ?a ?a => apply refines_refl
  | H : nested_refines ?n ?n' |- refines (?n _ _ _) (?n' _ _ _) => apply H
  end.

Lemma evalc_refines n n' g E s fvs ep c :
  nested_refines n n' -> refines (evalc trig W n g E s fvs ep c) (evalc trig W n' g E s fvs ep c).
Proof.
  intros Hn. destruct c; cbn [evalc]; repeat ref_step.
Qed.

Lemma loop_refines o top s ev ev' : (forall c, refines (ev c) (ev' c)) ->
  forall cs nc nw acc, refines (loop o top s ev cs nc nw acc) (loop o top s ev' cs nc nw acc).
Proof.
  intros Hev. induction cs as [|c cs IH]; intros nc nw acc; cbn [loop]; [apply refines_refl|].
  assert (Hstep : refines
    (bind (ev c) (fun cr =>
        let nc' := nc || negb (fst cr) in
        let nw' := if fst cr then nw else nw || isnil (e_allowed o) || negb (all_waived o (snd cr)) in
        let acc' := acc ++ snd cr in
        if nw' && e_abort o then Ok (negb (if top then nw' else nc'), acc') else loop o top s ev cs nc' nw' acc'))
    (bind (ev' c) (fun cr =>
        let nc' := nc || negb (fst cr) in
        let nw' := if fst cr then nw else nw || isnil (e_allowed o) || negb (all_waived o (snd cr)) in
        let acc' := acc ++ snd cr in
        if nw' && e_abort o then Ok (negb (if top then nw' else nc'), acc') else loop o top s ev' cs nc' nw' acc'))).
  { apply bind_refines; [apply Hev|]. intros cr. cbv zeta. destruct (_ && e_abort o); [apply refines_refl|apply IH]. }
  destruct c; try exact Hstep. destruct (spath s); [exact Hstep|apply IH].
Qed.

Lemma bind_ext {A B} (a:res A) (k k':A -> res B) : (forall x, k x = k' x) -> bind a k = bind a k'.
Proof. intros H. destruct a; simpl; auto. Qed.

(* the loop reads only the abort flag and the waived severities of the options *)
Lemma loop_eopts o o' top s ev : e_abort o = e_abort o' -> e_allowed o = e_allowed o' ->
  forall cs nc nw acc, loop o top s ev cs nc nw acc = loop o' top s ev cs nc nw acc.
Proof.
  intros Ha Hw. induction cs as [|c cs IH]; intros nc nw acc; cbn [loop]; [reflexivity|].
  assert (Hstep :
    bind (ev c) (fun cr =>
        let nc' := nc || negb (fst cr) in
        let nw' := if fst cr then nw else nw || isnil (e_allowed o) || negb (all_waived o (snd cr)) in
        let acc' := acc ++ snd cr in
        if nw' && e_abort o then Ok (negb (if top then nw' else nc'), acc') else loop o top s ev cs nc' nw' acc')
    = bind (ev c) (fun cr =>
        let nc' := nc || negb (fst cr) in
        let nw' := if fst cr then nw else nw || isnil (e_allowed o') || negb (all_waived o' (snd cr)) in
        let acc' := acc ++ snd cr in
        if nw' && e_abort o' then Ok (negb (if top then nw' else nc'), acc') else loop o' top s ev cs nc' nw' acc')).
  { apply bind_ext. intros cr. cbv zeta. unfold all_waived, waived. rewrite Ha, Hw, IH. reflexivity. }
  destruct c; try exact Hstep. destruct (spath s); [exact Hstep|apply IH].
Qed.

(* An Ok answer does not change when the evaluator is given more fuel and a larger
   max_validation_depth: the depth limit never truncates silently. *)
Theorem vshape_mono o o' g E : e_abort o = e_abort o' -> e_allowed o = e_allowed o' ->
  e_max_depth o <= e_max_depth o' ->
  forall fuel fuel' top ep s foci, fuel <= fuel' ->
  refines (vshape trig W fuel o g E top ep s foci) (vshape trig W fuel' o' g E top ep s foci).
Proof.
  intros Ha Hw Hd. induction fuel as [|fuel IH]; intros fuel' top ep s foci Hf.
  - cbn [vshape]. destruct fuel'; cbn [vshape];
      (destruct (deact s); [apply refines_refl|]);
      (destruct (isnil foci); [apply refines_refl|]);
      (destruct (negb top && (e_max_depth o <=? length ep)); intros r; discriminate).
  - destruct fuel' as [|fuel']; [lia|]. cbn [vshape].
    destruct (deact s); [apply refines_refl|].
    destruct (isnil foci); [apply refines_refl|].
    destruct (negb top && (e_max_depth o <=? length ep)) eqn:Ed; [intros r; discriminate|].
    assert (Ed' : negb top && (e_max_depth o' <=? length ep) = false).
    { destruct top; simpl in *; [reflexivity|]. apply Nat.leb_gt in Ed. apply Nat.leb_gt. lia. }
    rewrite Ed'. apply bind_refines; [apply refines_refl|]. intros fvs.
    rewrite (loop_eopts o o' top s _ Ha Hw).
    apply loop_refines. intros c. apply evalc_refines. intros s' v ep'. apply IH. lia.
Qed.

End WithTrig.
