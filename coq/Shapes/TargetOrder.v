(* C09: the focus nodes of a shape do not depend on the order (or multiplicity) in which the triples of the data graph and
   of the shapes graph are listed.  A corollary of focus_nodes_correct: the target semantics looks at both graphs through
   membership only. *)
From Coq Require Import List NArith Bool Relations Permutation.
From Verif Require Import Base.SetList Base.Terms Paths.Path Paths.PathProofs Paths.PathOrder Shapes.AST Shapes.Eval Shapes.TargetProofs.
Import ListNotations.

Lemma shacl_instance_mono g g' : (forall t, In t g -> In t g') -> forall x c, shacl_instance g x c -> shacl_instance g' x c.
Proof.
  intros Hsub x c (t & Ht & Hc). exists t. split; [apply Hsub; exact Ht|].
  revert Hc. apply clos_rt_ext. intros a b. unfold subclass_step. apply Hsub.
Qed.

Lemma focus_spec_mono sg sg' g g' s : (forall t, In t sg -> In t sg') -> (forall t, In t g -> In t g') ->
  forall x, focus_spec sg g s x -> focus_spec sg' g' s x.
Proof.
  intros Hsg Hg x. unfold focus_spec.
  intros [H|[(c & Hc & Hi)|[(Hcl & Hi)|[(p & Hp & o & Ho)|(p & Hp & s' & Hs)]]]].
  - left. exact H.
  - right. left. exists c. split; [exact Hc|]. exact (shacl_instance_mono g g' Hg x c Hi).
  - right. right. left. split; [exact (shacl_instance_mono sg sg' Hsg _ _ Hcl)|exact (shacl_instance_mono g g' Hg _ _ Hi)].
  - right. right. right. left. exists p. split; [exact Hp|]. exists o. apply Hg. exact Ho.
  - right. right. right. right. exists p. split; [exact Hp|]. exists s'. apply Hg. exact Hs.
Qed.

Theorem focus_nodes_order_free sg sg' g g' s :
  same_triples sg sg' -> same_triples g g' ->
  NoDup (focus_nodes sg g s) /\ NoDup (focus_nodes sg' g' s)
  /\ forall x, In x (focus_nodes sg g s) <-> In x (focus_nodes sg' g' s).
Proof.
  intros Hsg Hg. destruct (focus_nodes_correct sg g s) as [Hn Hv]. destruct (focus_nodes_correct sg' g' s) as [Hn' Hv'].
  repeat split; auto.
  - intros H. apply Hv'. apply (focus_spec_mono sg sg' g g' s); [intros t; apply Hsg|intros t; apply Hg|]. apply Hv. exact H.
  - intros H. apply Hv. apply (focus_spec_mono sg' sg g' g s); [intros t; apply Hsg|intros t; apply Hg|]. apply Hv'. exact H.
Qed.

Corollary focus_nodes_perm sg sg' g g' s :
  Permutation sg sg' -> Permutation g g' -> Permutation (focus_nodes sg g s) (focus_nodes sg' g' s).
Proof.
  intros Psg Pg. destruct (focus_nodes_order_free sg sg' g g' s (perm_same_triples _ _ Psg) (perm_same_triples _ _ Pg)) as (Hn & Hn' & Hv).
  apply NoDup_Permutation; assumption.
Qed.
