From Coq Require Import List NArith ZArith Bool Arith String Permutation Sorted Lia.
From Verif Require Import Base.SetList Base.Terms Paths.Path Shapes.Advanced.
Import ListNotations.

(* ---- custom targets ---- *)
Theorem advanced_focus_spec core ts x :
  In x (advanced_focus core ts true) <-> In x core \/ exists sols, In sols ts /\ In x sols.
Proof.
  unfold advanced_focus. rewrite (In_dedup term_eqb_spec), in_app_iff, in_concat. reflexivity.
Qed.
Theorem advanced_focus_nodup core ts : NoDup (advanced_focus core ts true).
Proof. apply (NoDup_dedup term_eqb_spec). Qed.
Theorem advanced_off_ignores_targets core ts : advanced_focus core ts false = core.
Proof. reflexivity. Qed.

(* ---- parameter order ---- *)
Lemma insert_by_order_perm x l : Permutation (insert_by_order x l) (x :: l).
Proof.
  induction l as [|y r IH]; simpl; [reflexivity|]. destruct (snd y <=? snd x)%Z; [|reflexivity].
  rewrite IH. apply perm_swap.
Qed.
Lemma insert_by_name_perm x l : Permutation (insert_by_name x l) (x :: l).
Proof.
  induction l as [|y r IH]; simpl; [reflexivity|]. destruct (string_leb (p_name y) (p_name x)); [|reflexivity].
  rewrite IH. apply perm_swap.
Qed.
Lemma fold_insert_perm {X} (ins:X -> list X -> list X) (Hins:forall x l, Permutation (ins x l) (x :: l)) l :
  forall acc, Permutation (fold_left (fun a x => ins x a) l acc) (acc ++ l).
Proof.
  induction l as [|x l IH]; intros acc; cbn [fold_left]; [rewrite app_nil_r; reflexivity|].
  rewrite IH, Hins. cbn [app]. apply Permutation_middle.
Qed.

Lemma all_ordered_map ps l : all_ordered ps = Some l -> map fst l = ps /\ forall p o, In (p, o) l -> p_order p = Some o.
Proof.
  revert l. induction ps as [|p ps IH]; intros l H; cbn [all_ordered fold_right] in H.
  - injection H as <-. split; [reflexivity|intros ? ? []].
  - fold (all_ordered ps) in H. destruct (all_ordered ps) as [l'|]; [|discriminate].
    destruct (p_order p) as [o|] eqn:Eo; [|discriminate]. injection H as <-.
    destruct (IH l' eq_refl) as [I1 I2]. split; [cbn [map fst]; rewrite I1; reflexivity|].
    intros q o' [E|Hin]; [injection E as <- <-; exact Eo|apply I2; exact Hin].
Qed.

(* every parameter occurs exactly once in the call order *)
Theorem params_in_order_perm ps : Permutation (params_in_order ps) ps.
Proof.
  unfold params_in_order. destruct (all_ordered ps) as [l|] eqn:E.
  - destruct (all_ordered_map ps l E) as [Hm _].
    apply (perm_trans (l' := map fst l)); [|rewrite Hm; reflexivity]. apply Permutation_map.
    rewrite (fold_insert_perm insert_by_order insert_by_order_perm l []). reflexivity.
  - rewrite (fold_insert_perm insert_by_name insert_by_name_perm ps []). reflexivity.
Qed.

Lemma insert_by_order_sorted x l : StronglySorted (fun a b => (snd a <= snd b)%Z) l ->
  StronglySorted (fun a b => (snd a <= snd b)%Z) (insert_by_order x l).
Proof.
  induction 1 as [|y l Hs IH Hall]; simpl; [constructor; constructor|].
  destruct (Z.leb_spec (snd y) (snd x)) as [Hle|Hgt].
  - constructor; [exact IH|]. rewrite Forall_forall in *. intros z Hz.
    apply (Permutation_in _ (insert_by_order_perm x l)) in Hz as [<-|Hz]; [exact Hle|apply Hall; exact Hz].
  - constructor; [constructor; assumption|]. constructor; [lia|]. rewrite Forall_forall in *. intros z Hz. specialize (Hall z Hz). lia.
Qed.

(* when every parameter has a sh:order the call order is ascending in it *)
Theorem params_sorted_by_order ps l : all_ordered ps = Some l ->
  exists l', params_in_order ps = map fst l' /\ StronglySorted (fun a b => (snd a <= snd b)%Z) l'
             /\ forall p o, In (p, o) l' -> p_order p = Some o.
Proof.
  intros E. unfold params_in_order. rewrite E. exists (fold_left (fun acc x => insert_by_order x acc) l []).
  split; [reflexivity|]. split.
  - assert (G : forall acc, StronglySorted (fun a b => (snd a <= snd b)%Z) acc ->
                StronglySorted (fun a b => (snd a <= snd b)%Z) (fold_left (fun a x => insert_by_order x a) l acc)).
    { clear E. induction l as [|x l IH]; intros acc Ha; cbn [fold_left]; [exact Ha|]. apply IH. apply insert_by_order_sorted. exact Ha. }
    apply G. constructor.
  - intros p o Hin. destruct (all_ordered_map ps l E) as [_ H]. apply H.
    apply (Permutation_in _ (fold_insert_perm insert_by_order insert_by_order_perm l [])) in Hin. exact Hin.
Qed.

(* the i-th argument of a call is bound to the i-th parameter of that order *)
Theorem bind_args_spec {V} ps (args:list V) l : bind_args ps args = Some l ->
  map fst l = map p_name (params_in_order ps) /\ map snd l = args.
Proof.
  unfold bind_args. destruct (Nat.eqb_spec (List.length (params_in_order ps)) (List.length args)) as [E|]; [|discriminate].
  intros [= <-]. assert (El : List.length (map p_name (params_in_order ps)) = List.length args) by (rewrite map_length; exact E).
  revert El. generalize (map p_name (params_in_order ps)) as names. clear E. intros names. revert args.
  induction names as [|n names IH]; intros [|a args] El; simpl in *; try discriminate; [split; reflexivity|].
  injection El as El. destruct (IH args El) as [I1 I2]. rewrite I1, I2. split; reflexivity.
Qed.

(* ---- sh:expression ---- *)
Lemma is_true_set_spec t vals : is_true_set t vals = true <-> (vals <> [] /\ forall x, In x vals -> x = t).
Proof.
  unfold is_true_set. pose proof (In_dedup term_eqb_spec vals) as Hd. pose proof (NoDup_dedup term_eqb_spec vals) as Hn.
  destruct (tdedup vals) as [|v [|w r]] eqn:E.
  - split; [discriminate|]. intros [Hne _]. destruct vals as [|x vals]; [congruence|]. destruct (proj2 (Hd x) (or_introl eq_refl)).
  - split.
    + intros H. destruct (term_eqb_spec v t) as [->|]; [|discriminate]. split.
      * intros ->. specialize (Hd t). simpl in Hd. apply Hd. left. reflexivity.
      * intros x Hx. apply Hd in Hx. destruct Hx as [<-|[]]. reflexivity.
    + intros [_ Hall]. assert (v = t) by (apply Hall, Hd; left; reflexivity). subst. destruct (term_eqb_spec t t); congruence.
  - split; [discriminate|]. intros [_ Hall]. exfalso.
    assert (Hv : v = t) by (apply Hall, Hd; left; reflexivity). assert (Hw : w = t) by (apply Hall, Hd; right; left; reflexivity).
    subst. inversion Hn as [|? ? Hni _]. apply Hni. left. reflexivity.
Qed.

Lemma mapM_In_res {A B} (f:A -> res B) l ys : mapM f l = Ok ys -> forall y, In y ys -> exists x, In x l /\ f x = Ok y.
Proof.
  intros H. apply mapM_ok in H. induction H as [|x y l ys Hxy _ IH]; intros z Hz; [contradiction|].
  destruct Hz as [<-|Hz]; [exists x; split; [left; reflexivity|exact Hxy]|].
  destruct (IH z Hz) as (x' & Hx' & Hf). exists x'. split; [right; exact Hx'|exact Hf].
Qed.
Lemma mapM_In_res' {A B} (f:A -> res B) l ys : mapM f l = Ok ys -> forall x, In x l -> exists y, In y ys /\ f x = Ok y.
Proof.
  intros H. apply mapM_ok in H. induction H as [|x y l ys Hxy _ IH]; intros z Hz; [contradiction|].
  destruct Hz as [<-|Hz]; [exists y; split; [left; reflexivity|exact Hxy]|].
  destruct (IH z Hz) as (y' & Hy' & Hf). exists y'. split; [right; exact Hy'|exact Hf].
Qed.

(* a value node is reported exactly when its expression does not evaluate to the single value true *)
Theorem expression_bad_spec fuel T g t e vs bad : expression_bad fuel T g t e vs = Ok bad ->
  forall v, In v bad <-> In v vs /\ exists vals, eval_nexpr fuel T g e v = Ok vals /\ ~ (vals <> [] /\ forall x, In x vals -> x = t).
Proof.
  unfold expression_bad. intros H v. destruct (mapM _ vs) as [l|err] eqn:E; cbn [bind] in H; [|discriminate]. injection H as <-.
  rewrite in_map_iff. split.
  - intros ([v' b] & <- & Hf). apply filter_In in Hf as [Hin Hb]. cbn [fst snd] in *.
    destruct (mapM_In_res _ _ _ E _ Hin) as (x & Hx & Hfx).
    destruct (eval_nexpr fuel T g e x) as [vals|er] eqn:Ev; cbn [bind] in Hfx; [|discriminate]. injection Hfx as -> <-.
    split; [exact Hx|]. exists vals. split; [exact Ev|]. intros Hc. apply is_true_set_spec in Hc. rewrite Hc in Hb. discriminate.
  - intros (Hin & vals & Ev & Hn). destruct (mapM_In_res' _ _ _ E _ Hin) as ([v' b] & Hy & Hfx).
    rewrite Ev in Hfx. cbn [bind] in Hfx. injection Hfx as <- <-. exists (v, is_true_set t vals). split; [reflexivity|].
    apply filter_In. split; [exact Hy|]. cbn [snd]. destruct (is_true_set t vals) eqn:Eb; [|reflexivity].
    exfalso. apply Hn. apply is_true_set_spec. exact Eb.
Qed.

(* a function's result is the first projected value of the first solution of its query *)
Theorem function_result_first r rows v : function_result ((v :: r) :: rows) = v.
Proof. reflexivity. Qed.
Theorem function_result_none : function_result [] = None.
Proof. reflexivity. Qed.

(* ---- sh:union / sh:intersection / sh:filterShape node expressions ---- *)
Lemma Forall2_in_l {A B} (R:A -> B -> Prop) l l' x : Forall2 R l l' -> In x l -> exists y, In y l' /\ R x y.
Proof.
  intros F. induction F as [|a b l l' Hab _ IH]; intros Hx; [destruct Hx|].
  destruct Hx as [<-|Hx]; [exists b; split; [left; reflexivity|exact Hab]|].
  destruct (IH Hx) as (y & Hy & Hr). exists y. split; [right; exact Hy|exact Hr].
Qed.
Lemma Forall2_in_r {A B} (R:A -> B -> Prop) l l' y : Forall2 R l l' -> In y l' -> exists x, In x l /\ R x y.
Proof.
  intros F. induction F as [|a b l l' Hab _ IH]; intros Hy; [destruct Hy|].
  destruct Hy as [<-|Hy]; [exists a; split; [left; reflexivity|exact Hab]|].
  destruct (IH Hy) as (x & Hx & Hr). exists x. split; [right; exact Hx|exact Hr].
Qed.

(* a union has a value exactly when one of its members has it *)
Theorem eval_union_spec fuel T g es a vals :
  eval_nexpr (S fuel) T g (NUnion es) a = Ok vals ->
  NoDup vals /\ forall x, In x vals <-> exists e vs, In e es /\ eval_nexpr fuel T g e a = Ok vs /\ In x vs.
Proof.
  cbn [eval_nexpr]. destruct (mapM (fun x => eval_nexpr fuel T g x a) es) as [sets|er] eqn:E; cbn [bind]; [|discriminate].
  intros [= <-]. split; [apply (NoDup_dedup term_eqb_spec)|]. intros x.
  rewrite (In_dedup term_eqb_spec), in_concat. apply mapM_ok in E. split.
  - intros (s & Hs & Hx). destruct (Forall2_in_r _ _ _ _ E Hs) as (e & He & Hev). exists e, s. auto.
  - intros (e & vs & He & Hev & Hx). destruct (Forall2_in_l _ _ _ _ E He) as (s & Hs & Hev'). rewrite Hev in Hev'.
    injection Hev' as <-. exists vs. auto.
Qed.

(* an intersection (of at least one member) has a value exactly when every member has it *)
Theorem eval_inter_spec fuel T g e0 es a vals :
  eval_nexpr (S fuel) T g (NInter (e0 :: es)) a = Ok vals ->
  NoDup vals /\ forall x, In x vals <-> forall e, In e (e0 :: es) -> exists vs, eval_nexpr fuel T g e a = Ok vs /\ In x vs.
Proof.
  cbn [eval_nexpr]. destruct (mapM (fun x => eval_nexpr fuel T g x a) (e0 :: es)) as [sets|er] eqn:E; cbn [bind]; [|discriminate].
  apply mapM_ok in E. inversion E as [|? s0 ? rest H0 Hrest]; subst. intros [= <-].
  split; [apply (NoDup_dedup term_eqb_spec)|]. intros x.
  rewrite (In_dedup term_eqb_spec), filter_In, forallb_forall. split.
  - intros (Hx0 & Hall) e [<-|He]; [exists s0; auto|].
    destruct (Forall2_in_l _ _ _ _ Hrest He) as (s & Hs & Hev). exists s. split; [exact Hev|].
    apply (mem_In term_eqb_spec). apply Hall. exact Hs.
  - intros H. split.
    + destruct (H e0 (or_introl eq_refl)) as (vs & Hev & Hx). rewrite H0 in Hev. injection Hev as <-. exact Hx.
    + intros s Hs. destruct (Forall2_in_r _ _ _ _ Hrest Hs) as (e & He & Hev).
      destruct (H e (or_intror He)) as (vs & Hev' & Hx). rewrite Hev in Hev'. injection Hev' as <-.
      apply (mem_In term_eqb_spec). exact Hx.
Qed.
Theorem eval_inter_empty fuel T g a : eval_nexpr (S fuel) T g (NInter []) a = Ok [].
Proof. reflexivity. Qed.

(* sh:filterShape keeps exactly the values of sh:nodes that conform to the shape (conformance: oracle row k [n]) *)
Theorem eval_filter_spec fuel T g k e a vals :
  eval_nexpr (S fuel) T g (NFilter k e) a = Ok vals ->
  exists vs, eval_nexpr fuel T g e a = Ok vs /\ NoDup vals /\
    forall x, In x vals <-> In x vs /\ exists r, fn_lookup T k [x] = Some (Some r).
Proof.
  cbn [eval_nexpr]. destruct (eval_nexpr fuel T g e a) as [vs|er]; cbn [bind]; [|discriminate].
  intros [= <-]. exists vs. split; [reflexivity|]. split; [apply (NoDup_dedup term_eqb_spec)|]. intros x.
  rewrite (In_dedup term_eqb_spec), filter_In. split; intros (Hx & Hc); (split; [exact Hx|]).
  - destruct (fn_lookup T k [x]) as [[r|]|]; try discriminate. exists r. reflexivity.
  - destruct Hc as (r & ->). reflexivity.
Qed.
