(* C04: results of shapes consulted only for conformance never surface; every result is
   owned by the validated shape or by a property shape reached through sh:property links. *)
From Coq Require Import List NArith ZArith Bool Arith Lia.
From Verif Require Import Base.SetList Base.Terms Base.Vocab Paths.Path
  Shapes.AST Shapes.Leaf Shapes.Eval Shapes.EvalProofs.
Import ListNotations.

Inductive prop_reach (E:env) : shape -> shape -> Prop :=
| pr_refl s : prop_reach E s s
| pr_step s r ps t : In r (prop_refs s) -> lookup E r = Some ps -> prop_reach E ps t -> prop_reach E s t.

(* r was produced by a constraint of shape t: it carries t's identity and severity; nested
   details appear only under sh:node results *)
Definition owned_by (E:env) (s:shape) (r:vresult) : Prop :=
  exists t, prop_reach E s t /\ rsrc r = sid t /\ rsev r = ssev t
            /\ (rdetails r <> [] -> rcomp r = sh_NodeConstraintComponent).

Lemma concatM_map_in {A B} (f:A -> res (list B)) l out : concatM (map f l) = Ok out ->
  forall x, In x out -> exists a la, In a l /\ f a = Ok la /\ In x la.
Proof.
  unfold concatM. intros H x Hx. apply bind_ok in H as (ls & Hm & E). injection E as <-.
  apply in_concat_iff in Hx as (la & Hla & Hx).
  destruct (mapM_in _ _ _ Hm la Hla) as (r & Hr & Er). apply in_map_iff in Hr as (a & <- & Ha). eauto.
Qed.

Lemma own_mk E s c f v d : (d <> [] -> c = sh_NodeConstraintComponent) -> owned_by E s (mk s c f v d).
Proof. intros H. exists s. split; [constructor|]. simpl. auto. Qed.

Lemma own_mkp E s c f v p : owned_by E s (mkp s c f v p []).
Proof. exists s. split; [constructor|]. simpl. repeat split; auto. intros H; exfalso; apply H; reflexivity. Qed.

Lemma own_mkm E s c f v p m : owned_by E s (mkm s c f v p m).
Proof. exists s. split; [constructor|]. simpl. repeat split; auto. intros H; exfalso; apply H; reflexivity. Qed.

Ltac own_nil := apply own_mk; intros Hd; exfalso; apply Hd; reflexivity.

Section WithTrig.
Variable trig : trig_t.
Variable W : world.

Definition nested_owned (E:env) (nested:nested_t) : Prop :=
  forall s' v ep cr, nested s' v ep = Ok cr -> Forall (owned_by E s') (snd cr).

Lemma evalc_owned nested g E s fvs ep c cr :
  In c (scomps s) -> nested_owned E nested ->
  evalc trig W nested g E s fvs ep c = Ok cr -> Forall (owned_by E s) (snd cr).
Proof.
  intros Hc Hn H. apply Forall_forall. intros x Hx. revert H Hx. destruct c; cbn [evalc].
  - intros [= <-] Hx. simpl in Hx. apply in_flat_map in Hx as (fv & _ & Hx).
    apply in_map_iff in Hx as (b & <- & _). own_nil.
  - intros H Hx. apply bind_ok in H as (rs & Hm & Eq). injection Eq as <-. simpl in Hx.
    destruct (concatM_map_in _ _ _ Hm x Hx) as (r & la & _ & Er & Hin).
    destruct (lookup E r) as [ns|]; [|discriminate].
    destruct (in_triggers _ ns); [injection Er as <-; destruct Hin|].
    destruct (for_values_in _ _ _ Er x Hin) as (f & vs & v & l & _ & _ & Ek & Hl).
    apply bind_ok in Ek as (cr2 & _ & Ek). injection Ek as <-.
    destruct (fst cr2); [destruct Hl as [<-|[]]; own_nil|destruct Hl].
  - intros H Hx. apply bind_ok in H as (rs & Hm & Eq). injection Eq as <-. simpl in Hx.
    destruct (concatM_map_in _ _ _ Hm x Hx) as (members & la & _ & Er & Hin). cbv zeta in Er.
    destruct (isnil _); [discriminate|]. apply bind_ok in Er as (shapes & _ & Er).
    destruct (for_values_in _ _ _ Er x Hin) as (f & vs & v & l & _ & _ & Ek & Hl).
    apply bind_ok in Ek as (crs & _ & Ek). injection Ek as <-.
    destruct (forallb fst crs); [destruct Hl|destruct Hl as [<-|[]]; own_nil].
  - intros H Hx. apply bind_ok in H as (rs & Hm & Eq). injection Eq as <-. simpl in Hx.
    destruct (concatM_map_in _ _ _ Hm x Hx) as (members & la & _ & Er & Hin). cbv zeta in Er.
    destruct (isnil _); [discriminate|]. apply bind_ok in Er as (shapes & _ & Er).
    destruct (for_values_in _ _ _ Er x Hin) as (f & vs & v & l & _ & _ & Ek & Hl).
    apply bind_ok in Ek as (crs & _ & Ek). injection Ek as <-.
    destruct (existsb fst crs); [destruct Hl|destruct Hl as [<-|[]]; own_nil].
  - intros H Hx. apply bind_ok in H as (rs & Hm & Eq). injection Eq as <-. simpl in Hx.
    destruct (concatM_map_in _ _ _ Hm x Hx) as (members & la & _ & Er & Hin).
    destruct (isnil _); [discriminate|]. apply bind_ok in Er as (shapes & _ & Er).
    destruct (for_values_in _ _ _ Er x Hin) as (f & vs & v & l & _ & _ & Ek & Hl).
    apply bind_ok in Ek as (crs & _ & Ek). injection Ek as <-.
    destruct (_ =? 1); [destruct Hl|destruct Hl as [<-|[]]; own_nil].
  - destruct (value_count fvs <? 1); [intros [= <-] []|].
    intros H Hx. apply bind_ok in H as (rs & Hm & Eq). injection Eq as <-. simpl in Hx.
    destruct (concatM_map_in _ _ _ Hm x Hx) as (r & la & _ & Er & Hin).
    destruct (lookup E r) as [ns|]; [|discriminate].
    destruct (in_triggers _ ns); [injection Er as <-; destruct Hin|].
    destruct (is_property_shape ns); [discriminate|].
    destruct (for_values_in _ _ _ Er x Hin) as (f & vs & v & l & _ & _ & Ek & Hl).
    apply bind_ok in Ek as (cr2 & _ & Ek). injection Ek as <-.
    destruct (_ || _); [destruct Hl as [<-|[]]; apply own_mk; reflexivity|destruct Hl].
  - destruct (value_count fvs <? 1); [intros [= <-] []|].
    intros H Hx. apply bind_ok in H as (crss & Hm & Eq). injection Eq as <-. simpl in Hx.
    apply in_flat_map in Hx as (cr2 & Hcr & Hx). apply in_concat_iff in Hcr as (l & Hl & Hcr).
    destruct (mapM_in _ _ _ Hm l Hl) as (r & Hr & Er).
    destruct (lookup E r) as [ps|] eqn:El; [|discriminate].
    destruct (in_triggers _ ps); [injection Er as <-; destruct Hcr|].
    destruct (negb (is_property_shape ps)); [discriminate|].
    destruct (for_values_in _ _ _ Er cr2 Hcr) as (f & vs & v & l2 & _ & _ & Ek & Hin).
    apply bind_ok in Ek as (cr3 & En & Ek). injection Ek as <-. destruct Hin as [<-|[]].
    pose proof (Hn _ _ _ _ En) as Ho. rewrite Forall_forall in Ho.
    destruct (Ho x Hx) as (t & Hreach & Hrest). exists t. split; [|exact Hrest].
    eapply pr_step; eauto. unfold prop_refs. apply in_flat_map. exists (CProperty refs). split; auto.
  - destruct (_ && _ && _); [intros [= <-] []|].
    intros H Hx. apply bind_ok in H as (rs & Hm & Eq). injection Eq as <-. simpl in Hx.
    destruct (concatM_map_in _ _ _ Hm x Hx) as (r & la & _ & Er & Hin).
    destruct (lookup E r) as [qs|]; [|discriminate].
    destruct (in_triggers _ qs); [injection Er as <-; destruct Hin|].
    apply bind_ok in Er as (sibs & _ & Er). apply bind_ok in Er as (ls & Hm2 & Eq). injection Eq as <-.
    apply in_concat_iff in Hin as (l & Hl & Hin).
    destruct (mapM_in _ _ _ Hm2 l Hl) as (fv & _ & Efv). apply bind_ok in Efv as (flags & _ & Efv).
    cbv zeta in Efv. injection Efv as <-. apply in_app_iff in Hin as [Hin|Hin].
    + destruct (Zle_opt _ _ _); [destruct Hin as [<-|[]]; own_nil|destruct Hin].
    + destruct qmin as [m|]; [|destruct Hin]. destruct (_ <? _)%Z; [destruct Hin as [<-|[]]; own_nil|destruct Hin].
  - destruct (negb closed); [intros [= <-] []|].
    intros H Hx. apply bind_ok in H as (pss & _ & Eq). injection Eq as <-. simpl in Hx.
    apply in_flat_map in Hx as (fv & _ & Hx). apply in_flat_map in Hx as (v & _ & Hx).
    apply in_flat_map in Hx as (t & _ & Hx).
    destruct (_ || _ || _); [destruct Hx|destruct Hx as [<-|[]]; apply own_mkp].
  - intros [= <-] Hx. simpl in Hx. apply in_flat_map in Hx as (sc & _ & Hx).
    destruct (sc_deact sc); [destruct Hx|]. apply in_flat_map in Hx as (fv & _ & Hx).
    apply in_map_iff in Hx as (so & <- & _). destruct (sol_failure so); apply own_mkm.
  - destruct (cc_val cc) as [answers|rows].
    + intros [= <-] Hx. simpl in Hx. apply in_flat_map in Hx as (fv & _ & Hx). apply in_flat_map in Hx as (v & _ & Hx).
      destruct (ask_of answers (fst fv) v) as [[[] msgs]|]; [destruct Hx| |destruct Hx]. destruct Hx as [<-|[]]. apply own_mkm.
    + intros H Hx. apply bind_ok in H as (rs & Hm & Eq). injection Eq as <-. simpl in Hx.
      destruct (concatM_map_in _ _ _ Hm x Hx) as (fv & l1 & _ & E1 & H1).
      destruct (concatM_map_in _ _ _ E1 x H1) as (v & l2 & _ & E2 & H2).
      destruct (concatM_map_in _ _ _ E2 x H2) as (so & l3 & _ & E3 & H3).
      destruct (sol_bound so); [injection E3 as <-; destruct H3 as [<-|[]]; apply own_mkm|].
      destruct (sol_failure so); [discriminate|injection E3 as <-; destruct H3].
Qed.

Lemma loop_owned o top E s ev : (forall c cr, In c (scomps s) -> ev c = Ok cr -> Forall (owned_by E s) (snd cr)) ->
  forall cs nc nw acc cr, incl cs (scomps s) -> Forall (owned_by E s) acc ->
  loop o top s ev cs nc nw acc = Ok cr -> Forall (owned_by E s) (snd cr).
Proof.
  intros Hev. induction cs as [|c cs IH]; intros nc nw acc cr Hi Hacc; cbn [loop].
  - intros [= <-]. exact Hacc.
  - assert (Hc : In c (scomps s)) by (apply Hi; left; auto).
    assert (Hi' : incl cs (scomps s)) by (intros x Hx; apply Hi; right; auto).
    assert (Hstep : bind (ev c) (fun cr0 =>
        let nc' := nc || negb (fst cr0) in
        let nw' := if fst cr0 then nw else nw || isnil (e_allowed o) || negb (all_waived o (snd cr0)) in
        let acc' := acc ++ snd cr0 in
        if nw' && e_abort o then Ok (negb (if top then nw' else nc'), acc') else loop o top s ev cs nc' nw' acc') = Ok cr ->
        Forall (owned_by E s) (snd cr)).
    { intros H. apply bind_ok in H as (cr0 & E0 & H). cbv zeta in H.
      assert (Hacc' : Forall (owned_by E s) (acc ++ snd cr0)) by (apply Forall_app; split; eauto).
      destruct (_ && e_abort o); [injection H as <-; exact Hacc'|eapply IH; eauto]. }
    destruct c; try exact Hstep. destruct (spath s); [exact Hstep|apply IH; auto].
Qed.

Theorem vshape_owned o g E : forall fuel top ep s foci cr,
  vshape trig W fuel o g E top ep s foci = Ok cr -> Forall (owned_by E s) (snd cr).
Proof.
  induction fuel as [|fuel IH]; intros top ep s foci cr; cbn [vshape];
    (destruct (deact s); [intros [= <-]; constructor|]); (destruct (isnil foci); [intros [= <-]; constructor|]);
    (destruct (_ && _); [discriminate|]); [discriminate|].
  intros H. apply bind_ok in H as (fvs & _ & H).
  eapply loop_owned; [|apply incl_refl|constructor|exact H].
  intros c cr0 Hc. apply evalc_owned; auto. intros s' v ep' cr'. apply IH.
Qed.

(* a deactivated shape: every node conforms, nothing is reported *)
Theorem vshape_deactivated o g E fuel top ep s foci :
  deact s = true -> vshape trig W fuel o g E top ep s foci = Ok (true, []).
Proof. intros H. destruct fuel; cbn [vshape]; rewrite H; reflexivity. Qed.

End WithTrig.
