(* A shape may carry SEVERAL sh:and / sh:or / sh:xone lists: each list is a constraint of its own.
   The component's answer over l :: ls is the answer over [l] together with the answer over ls:
   it conforms iff both do, and reports the results of both - a satisfied list never hides a later one. *)
From Coq Require Import List NArith Bool Arith.
From Verif Require Import Base.SetList Base.Terms Paths.Path Shapes.AST Shapes.Leaf Shapes.Eval Shapes.EvalProofs.
Import ListNotations.

Lemma concatM_cons_ok {A} (x:res (list A)) xs a b :
  x = Ok a -> concatM xs = Ok b -> concatM (x :: xs) = Ok (a ++ b).
Proof.
  unfold concatM. intros -> H. apply bind_ok in H as (ls & Hm & E). injection E as <-.
  cbn [mapM bind]. rewrite Hm. reflexivity.
Qed.

Lemma concatM_single {A} (x:res (list A)) a : concatM [x] = Ok a -> x = Ok a.
Proof.
  unfold concatM. cbn [mapM]. destruct x as [v|e]; cbn [bind]; [|discriminate].
  intros E. injection E as <-. rewrite app_nil_r. reflexivity.
Qed.

Lemma isnil_app {A} (a b:list A) : isnil (a ++ b) = isnil a && isnil b.
Proof. destruct a; reflexivity. Qed.

Lemma listwise_split {X} (F:X -> res (list vresult)) (l:X) (ls:list X) r1 r2 :
  bind (concatM (map F [l])) (fun rs => Ok (reported rs)) = Ok r1 ->
  bind (concatM (map F ls)) (fun rs => Ok (reported rs)) = Ok r2 ->
  bind (concatM (map F (l :: ls))) (fun rs => Ok (reported rs)) = Ok (fst r1 && fst r2, snd r1 ++ snd r2).
Proof.
  intros H1 H2.
  apply bind_ok in H1 as (a & Ha & E1). injection E1 as <-.
  apply bind_ok in H2 as (b & Hb & E2). injection E2 as <-.
  cbn [map] in Ha. apply concatM_single in Ha.
  cbn [map]. rewrite (concatM_cons_ok (F l) (map F ls) a b Ha Hb). cbn [bind].
  unfold reported. cbn [fst snd]. rewrite isnil_app. reflexivity.
Qed.

Section Lists.
Variable trig : trig_t.
Variable W : world.

Theorem or_lists_split nested g E s fvs ep l ls r1 r2 :
  evalc trig W nested g E s fvs ep (COr [l]) = Ok r1 -> evalc trig W nested g E s fvs ep (COr ls) = Ok r2 ->
  evalc trig W nested g E s fvs ep (COr (l :: ls)) = Ok (fst r1 && fst r2, snd r1 ++ snd r2).
Proof. unfold evalc. apply listwise_split. Qed.

Theorem and_lists_split nested g E s fvs ep l ls r1 r2 :
  evalc trig W nested g E s fvs ep (CAnd [l]) = Ok r1 -> evalc trig W nested g E s fvs ep (CAnd ls) = Ok r2 ->
  evalc trig W nested g E s fvs ep (CAnd (l :: ls)) = Ok (fst r1 && fst r2, snd r1 ++ snd r2).
Proof. unfold evalc. apply listwise_split. Qed.

Theorem xone_lists_split nested g E s fvs ep l ls r1 r2 :
  evalc trig W nested g E s fvs ep (CXone [l]) = Ok r1 -> evalc trig W nested g E s fvs ep (CXone ls) = Ok r2 ->
  evalc trig W nested g E s fvs ep (CXone (l :: ls)) = Ok (fst r1 && fst r2, snd r1 ++ snd r2).
Proof. unfold evalc. apply listwise_split. Qed.

(* consequence: one unsatisfied list makes the component non-conforming, wherever it stands *)
Corollary or_lists_all_must_hold nested g E s fvs ep l ls r1 r2 r :
  evalc trig W nested g E s fvs ep (COr [l]) = Ok r1 -> evalc trig W nested g E s fvs ep (COr ls) = Ok r2 ->
  evalc trig W nested g E s fvs ep (COr (l :: ls)) = Ok r -> fst r = true -> fst r1 = true /\ fst r2 = true.
Proof.
  intros H1 H2 H Hr. rewrite (or_lists_split _ _ _ _ _ _ _ _ _ _ H1 H2) in H. injection H as <-.
  cbn [fst] in Hr. apply andb_true_iff in Hr. exact Hr.
Qed.
End Lists.
