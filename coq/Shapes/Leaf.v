(* Semantics of the leaf core components, as the list of offending values per focus node
   (None = a result without sh:value). Mirrors the evaluate() methods of
   pyshacl/constraints/core/{value,cardinality,value_range,string_based,property_pair,other}_constraints.py
   and pyshacl/rdfutil/compare.py compare_literal. *)
From Coq Require Import List NArith ZArith QArith Bool.
From Verif Require Import Base.SetList Base.Terms Base.Vocab Paths.Path Shapes.AST.
Import ListNotations.

(* ---------------- literal values (computed by rdflib from the lexical form: trusted) ---------------- *)
Inductive special := SPInf | SNInf | SNaN.
Inductive lkind :=
| KNone                               (* ill-typed, or a datatype without an orderable Python value *)
| KNum (q:Q)                          (* int / Decimal / finite float, exactly *)
| KSpecial (s:special)                (* float inf, -inf, nan *)
| KBool (b:bool)
| KStr (cls:N) (cps:list N)           (* str value; cls = class of (language, non-xsd:string datatype), 0 = simple/xsd:string *)
| KDateTime (aware:bool) (micros:Z)   (* aware: UTC microseconds; naive: wall-clock microseconds *)
| KDate (days:Z).

(* per-literal facts the datatype component needs *)
Record dinfo := { d_datatype : option term;   (* datatype IRI; None for simple and language-tagged literals *)
                  d_has_lang : bool;
                  d_ill_typed : bool;          (* rdflib ill_typed is True *)
                  d_pytype_ok : bool }.        (* the Python value has the type pySHACL expects for the datatype *)

Record world := {
  w_kind : list (term * lkind);
  w_dinfo : list (term * dinfo);
  w_len : list (term * Z);             (* length of the string form of IRIs and literals *)
  w_regex : list (N * term * bool);    (* (pattern, value node) -> re.search found a match *)
  w_lang : list (term * list N)        (* subtags of the literal's language tag *)
}.
Definition empty_world : world := {| w_kind := []; w_dinfo := []; w_len := []; w_regex := []; w_lang := [] |}.

Fixpoint assoc {B} (l:list (term * B)) (t:term) : option B :=
  match l with [] => None | (k, v) :: r => if term_eqb k t then Some v else assoc r t end.

Definition kind_of (W:world) (t:term) : lkind := match assoc (w_kind W) t with Some k => k | None => KNone end.
Definition len_of (W:world) (t:term) : Z := match assoc (w_len W) t with Some n => n | None => 0%Z end.
Definition lang_of (W:world) (t:term) : list N := match assoc (w_lang W) t with Some l => l | None => [] end.
Definition regex_of (W:world) (p:N) (t:term) : bool :=
  existsb (fun e => N.eqb (fst (fst e)) p && term_eqb (snd (fst e)) t && snd e) (w_regex W).

(* ---------------- compare_literal ---------------- *)
Fixpoint cps_compare (a b:list N) : comparison :=
  match a, b with
  | [], [] => Eq | [], _ => Lt | _, [] => Gt
  | x :: a', y :: b' => match N.compare x y with Eq => cps_compare a' b' | c => c end
  end.

Definition special_compare (a b:special) : option comparison :=
  match a, b with
  | SNaN, _ | _, SNaN => None
  | SPInf, SPInf | SNInf, SNInf => Some Eq
  | SPInf, _ => Some Gt | SNInf, _ => Some Lt
  end.

(* None = TypeError (the two literals cannot be ordered) *)
Definition lcompare (a b:lkind) : option comparison :=
  match a, b with
  | KNum p, KNum q => Some (Qcompare p q)
  | KNum _, KSpecial SPInf => Some Lt | KNum _, KSpecial SNInf => Some Gt
  | KSpecial SPInf, KNum _ => Some Gt | KSpecial SNInf, KNum _ => Some Lt
  | KSpecial s, KSpecial t => special_compare s t
  | KBool x, KBool y => Some (match x, y with false, true => Lt | true, false => Gt | _, _ => Eq end)
  | KStr c1 s1, KStr c2 s2 => if N.eqb c1 c2 then Some (cps_compare s1 s2) else None
  | KDateTime a1 m1, KDateTime a2 m2 => if Bool.eqb a1 a2 then Some (Z.compare m1 m2) else None
  | KDate d1, KDate d2 => Some (Z.compare d1 d2)
  | _, _ => None
  end.

Inductive rangeop := MinExcl | MinIncl | MaxExcl | MaxIncl.
(* the value v passes the bound b *)
Definition range_ok (W:world) (op:rangeop) (b v:term) : bool :=
  if negb (is_lit v) then false else
  match lcompare (kind_of W v) (kind_of W b) with
  | None => false
  | Some c => match op, c with
              | MinExcl, Gt => true | MinIncl, (Gt | Eq) => true
              | MaxExcl, Lt => true | MaxIncl, (Lt | Eq) => true
              | _, _ => false
              end
  end.

(* _in_sparql_order of property_pair_constraints.py; IRIs are outside SPARQL's order: an oracle decides *)
Definition in_order (W:world) (allow_equal:bool) (v c:term) : bool :=
  match v, c with
  | LIT _ _ _, LIT _ _ _ =>
      match lcompare (kind_of W v) (kind_of W c) with
      | Some Lt => true | Some Eq => allow_equal | _ => false
      end
  | IRI _, IRI _ =>   (* string order of the two IRIs, via the same oracle as literals *)
      match lcompare (kind_of W v) (kind_of W c) with
      | Some Lt => true | Some Eq => allow_equal | _ => false
      end
  | _, _ => false
  end.

(* ---------------- the components ---------------- *)
Definition superclasses (g:graph) (t:term) : list term :=
  match eval_path (fuel_for g) g (PStar (PPred rdfs_subClassOf)) false 0 t with Ok l => l | Err _ => [] end.
Definition subclasses (g:graph) (c:term) : list term :=
  match eval_path (fuel_for g) g (PStar (PPred rdfs_subClassOf)) true 0 c with Ok l => l | Err _ => [] end.

Definition has_class (g:graph) (v c:term) : bool :=
  if is_lit v then false
  else existsb (fun t => term_eqb t c || tmem c (superclasses g t)) (objects g v t_rdf_type).

Definition nodekind_matches (k:nodekind) (v:term) : bool :=
  match v with
  | BN _ => match k with NKBlankNode | NKBlankNodeOrLiteral | NKBlankNodeOrIRI => true | _ => false end
  | LIT _ _ _ => match k with NKLiteral | NKBlankNodeOrLiteral | NKIRIOrLiteral => true | _ => false end
  | IRI _ => match k with NKIRI | NKIRIOrLiteral | NKBlankNodeOrIRI => true | _ => false end
  end.

Definition t_xsd_string := IRI xsd_string.
Definition t_rdf_langString := IRI rdf_langString.

(* DatatypeConstraintComponent.evaluate (without the rdfs:Literal / rdfs:Datatype extensions, see known findings) *)
Definition datatype_matches (W:world) (rule v:term) : bool :=
  if negb (is_lit v) then false else
  match assoc (w_dinfo W) v with
  | None => false
  | Some d =>
    match d_datatype d with
    | Some dt => term_eqb dt rule && negb (d_ill_typed d) && d_pytype_ok d
    | None =>
      if d_has_lang d then term_eqb rule t_rdf_langString && d_pytype_ok d
      else term_eqb rule t_xsd_string && d_pytype_ok d
    end
  end.

Fixpoint prefixes {A} (l:list A) : list (list A) :=   (* non-empty prefixes *)
  match l with [] => [] | x :: r => [x] :: map (cons x) (prefixes r) end.

Definition list_N_eqb (a b:list N) : bool := match cps_compare a b with Eq => true | _ => false end.
Definition WILDCARD : list N := [1%N].   (* the range "*" *)

Definition language_in (W:world) (ranges:list (list N)) (v:term) : bool :=
  match lang_of W v with
  | [] => false
  | tag => existsb (list_N_eqb WILDCARD) ranges
           || existsb (fun p => existsb (list_N_eqb p) ranges) (prefixes tag)
  end.

Definition lit_lang (v:term) : N := match v with LIT _ _ l => l | _ => 0%N end.

Fixpoint dup_langs (seen dups:list N) (vs:list term) : list N :=
  match vs with
  | [] => dups
  | v :: r =>
    let l := lit_lang v in
    if N.eqb l 0 then dup_langs seen dups r
    else if existsb (N.eqb l) seen
         then dup_langs seen (if existsb (N.eqb l) dups then dups else dups ++ [l]) r
         else dup_langs (l :: seen) dups r
  end.

Definition leaf_comp (l:leaf) : N :=
  match l with
  | LClass _ => sh_ClassConstraintComponent
  | LDatatype _ => sh_DatatypeConstraintComponent
  | LNodeKind _ => sh_NodeKindConstraintComponent
  | LMinCount _ => sh_MinCountConstraintComponent
  | LMaxCount _ => sh_MaxCountConstraintComponent
  | LMinExcl _ => sh_MinExclusiveConstraintComponent
  | LMinIncl _ => sh_MinInclusiveConstraintComponent
  | LMaxExcl _ => sh_MaxExclusiveConstraintComponent
  | LMaxIncl _ => sh_MaxInclusiveConstraintComponent
  | LMinLength _ => sh_MinLengthConstraintComponent
  | LMaxLength _ => sh_MaxLengthConstraintComponent
  | LPattern _ => sh_PatternConstraintComponent
  | LLanguageIn _ => sh_LanguageInConstraintComponent
  | LUniqueLang _ => sh_UniqueLangConstraintComponent
  | LEquals _ => sh_EqualsConstraintComponent
  | LDisjoint _ => sh_DisjointConstraintComponent
  | LLessThan _ => sh_LessThanConstraintComponent
  | LLessThanEq _ => sh_LessThanOrEqualsConstraintComponent
  | LHasValue _ => sh_HasValueConstraintComponent
  | LIn _ => sh_InConstraintComponent
  end.

Definition per_value (p:term -> bool) (vs:list term) : list (option term) :=
  map Some (filter (fun v => negb (p v)) vs).

(* offending values of one focus node f with value nodes vs *)
Definition leaf_bad (W:world) (g:graph) (l:leaf) (f:term) (vs:list term) : list (option term) :=
  match l with
  | LClass cs => flat_map (fun c => per_value (fun v => has_class g v c) vs) cs
  | LDatatype d => per_value (datatype_matches W d) vs
  | LNodeKind k => per_value (nodekind_matches k) vs
  | LMinCount n => if (n =? 0)%Z then [] else if (Z.of_nat (length vs) <? n)%Z then [None] else []
  | LMaxCount n => if (n <? Z.of_nat (length vs))%Z then [None] else []
  | LMinExcl bs => flat_map (fun b => per_value (range_ok W MinExcl b) vs) bs
  | LMinIncl bs => flat_map (fun b => per_value (range_ok W MinIncl b) vs) bs
  | LMaxExcl bs => flat_map (fun b => per_value (range_ok W MaxExcl b) vs) bs
  | LMaxIncl bs => flat_map (fun b => per_value (range_ok W MaxIncl b) vs) bs
  | LMinLength n => per_value (fun v => (n =? 0)%Z || (negb (is_bnode v) && (n <=? len_of W v)%Z)) vs
  | LMaxLength n => per_value (fun v => negb (is_bnode v) && (len_of W v <=? n)%Z) vs
  | LPattern ps => flat_map (fun p => per_value (fun v => negb (is_bnode v) && regex_of W p v) vs) ps
  | LLanguageIn ranges => per_value (language_in W ranges) vs
  | LUniqueLang b => if b then map (fun _ => None) (dup_langs [] [] vs) else []
  | LEquals ps => flat_map (fun p =>
        let cs := objects g f p in
        map Some (filter (fun v => negb (tmem v cs)) vs) ++ map Some (filter (fun c => negb (tmem c vs)) cs)) ps
  | LDisjoint ps => flat_map (fun p => let cs := objects g f p in map Some (filter (fun v => tmem v cs) vs)) ps
  | LLessThan ps => flat_map (fun p =>
        flat_map (fun v => flat_map (fun c => if in_order W false v c then [] else [Some v]) (objects g f p)) vs) ps
  | LLessThanEq ps => flat_map (fun p =>
        flat_map (fun v => flat_map (fun c => if in_order W true v c then [] else [Some v]) (objects g f p)) vs) ps
  | LHasValue hs => flat_map (fun h => if tmem h vs then [] else [None]) hs
  | LIn allowed => per_value (fun v => tmem v allowed) vs
  end.
