(* Semantics of the leaf core components, as the list of offending values per
   focus node (None = a result without sh:value). Mirrors the evaluate()
   methods of pyshacl/constraints/core/{value,cardinality,other}_constraints.py. *)
From Coq Require Import List NArith ZArith Bool.
From Verif Require Import Base.SetList Base.Terms Base.Vocab Paths.Path Shapes.AST.
Import ListNotations.

(* rdflib Graph.transitive_objects(t, rdfs:subClassOf): reflexive-transitive closure *)
Definition superclasses (g:graph) (t:term) : list term :=
  match eval_path (fuel_for g) g (PStar (PPred rdfs_subClassOf)) false 0 t with
  | Ok l => l
  | Err _ => []
  end.

(* rdflib Graph.transitive_subjects(rdfs:subClassOf, c) *)
Definition subclasses (g:graph) (c:term) : list term :=
  match eval_path (fuel_for g) g (PStar (PPred rdfs_subClassOf)) true 0 c with
  | Ok l => l
  | Err _ => []
  end.

(* ClassConstraintComponent._evaluate_class_rules_rdflib *)
Definition has_class (g:graph) (v c:term) : bool :=
  if is_lit v then false
  else existsb (fun t => term_eqb t c || tmem c (superclasses g t)) (objects g v t_rdf_type).

Definition nodekind_matches (k:nodekind) (v:term) : bool :=
  match v with
  | BN _ => match k with NKBlankNode | NKBlankNodeOrLiteral | NKBlankNodeOrIRI => true | _ => false end
  | LIT _ _ _ => match k with NKLiteral | NKBlankNodeOrLiteral | NKIRIOrLiteral => true | _ => false end
  | IRI _ => match k with NKIRI | NKIRIOrLiteral | NKBlankNodeOrIRI => true | _ => false end
  end.

Definition leaf_comp (l:leaf) : N :=
  match l with
  | LClass _ => sh_ClassConstraintComponent
  | LNodeKind _ => sh_NodeKindConstraintComponent
  | LMinCount _ => sh_MinCountConstraintComponent
  | LMaxCount _ => sh_MaxCountConstraintComponent
  | LHasValue _ => sh_HasValueConstraintComponent
  | LIn _ => sh_InConstraintComponent
  end.

Definition per_value (p:term -> bool) (vs:list term) : list (option term) :=
  map Some (filter (fun v => negb (p v)) vs).

(* offending values of one focus node with value nodes vs *)
Definition leaf_bad (g:graph) (l:leaf) (f:term) (vs:list term) : list (option term) :=
  match l with
  | LClass cs => flat_map (fun c => per_value (fun v => has_class g v c) vs) cs
  | LNodeKind k => per_value (nodekind_matches k) vs
  | LMinCount n => if (Z.of_nat (length vs) <? n)%Z then [None] else []
  | LMaxCount n => if (n <? Z.of_nat (length vs))%Z then [None] else []
  | LHasValue hs => flat_map (fun h => if tmem h vs then [] else [None]) hs
  | LIn allowed => per_value (fun v => tmem v allowed) vs
  end.
