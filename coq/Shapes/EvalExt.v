(* Extensionality of the evaluator in its nested evaluator and back-out heuristic, and
   what follows: severity waivers do not change the reported results (C11), the back-out
   heuristic is inert on non-recursive shapes graphs (C19). *)
From Coq Require Import List NArith ZArith Bool Arith Lia.
From Verif Require Import Base.SetList Base.Terms Base.Vocab Paths.Path Paths.PathProofs
  Shapes.AST Shapes.Leaf Shapes.Eval Shapes.EvalProofs Shapes.EvalRel Shapes.DepthProofs.
Import ListNotations.

Lemma bind_ext_ok {A B} (a:res A) (k k':A -> res B) : (forall x, a = Ok x -> k x = k' x) -> bind a k = bind a k'.
Proof. intros H. destruct a; simpl; auto. Qed.

Lemma mapM_ext_in {A B} (f f':A -> res B) l : (forall x, In x l -> f x = f' x) -> mapM f l = mapM f' l.
Proof.
  induction l as [|x xs IH]; simpl; intros H; [reflexivity|].
  rewrite (H x (or_introl eq_refl)), IH; auto.
Qed.

Lemma concatM_map_ext_in {A B} (f f':A -> res (list B)) l :
  (forall x, In x l -> f x = f' x) -> concatM (map f l) = concatM (map f' l).
Proof.
  intros H. unfold concatM. f_equal. induction l as [|x xs IH]; simpl; [reflexivity|].
  rewrite (H x (or_introl eq_refl)). destruct (f' x); simpl; [|reflexivity].
  rewrite IH; auto. intros y Hy. apply H. right; auto.
Qed.

Lemma for_values_ext' {A} fvs (k k':term -> term -> res (list A)) :
  (forall f v, k f v = k' f v) -> for_values fvs k = for_values fvs k'.
Proof.
  intros H. unfold for_values. f_equal. apply mapM_ext_in. intros [f vs] _. simpl.
  f_equal. apply mapM_ext_in. intros v _. apply H.
Qed.

Lemma evalc_ext2 (t1 t2:trig_t) W (n1 n2:nested_t) g E s fvs ep c :
  (forall k ns, in_triggers (t1 ep (sid s) k) ns = in_triggers (t2 ep (sid s) k) ns) ->
  (forall r s' v, In r (comp_shapes E s c) -> lookup E r = Some s' -> n1 s' v ep = n2 s' v ep) ->
  evalc t1 W n1 g E s fvs ep c = evalc t2 W n2 g E s fvs ep c.
Proof.
  intros Ht Hn. destruct c; cbn [evalc comp_shapes] in *.
  - reflexivity.
  - f_equal. apply concatM_map_ext_in. intros r Hr.
    destruct (lookup E r) as [ns|] eqn:El; [|reflexivity]. rewrite Ht.
    destruct (in_triggers _ ns); [reflexivity|]. apply for_values_ext'. intros f v.
    rewrite (Hn r ns v Hr El). reflexivity.
  - f_equal. apply concatM_map_ext_in. intros members Hm.
    destruct (isnil _); [reflexivity|]. apply bind_ext_ok. intros shapes Hl.
    apply for_values_ext'. intros f v. f_equal. apply mapM_ext_in. intros ns Hns.
    destruct (lookup_all_in _ _ _ Hl ns Hns) as (r & Hr & El).
    eapply Hn; eauto. apply in_concat_iff. exists members. split; auto.
    rewrite (In_dedup term_eqb_spec) in Hr. exact Hr.
  - f_equal. apply concatM_map_ext_in. intros members Hm.
    destruct (isnil _); [reflexivity|]. apply bind_ext_ok. intros shapes Hl.
    apply for_values_ext'. intros f v. f_equal. apply mapM_ext_in. intros ns Hns.
    destruct (lookup_all_in _ _ _ Hl ns Hns) as (r & Hr & El).
    eapply Hn; eauto. apply in_concat_iff. exists members. split; auto.
    rewrite (In_dedup term_eqb_spec) in Hr. exact Hr.
  - f_equal. apply concatM_map_ext_in. intros members Hm.
    destruct (isnil _); [reflexivity|]. apply bind_ext_ok. intros shapes Hl.
    apply for_values_ext'. intros f v. f_equal. apply mapM_ext_in. intros ns Hns.
    destruct (lookup_all_in _ _ _ Hl ns Hns) as (r & Hr & El).
    eapply Hn; eauto. apply in_concat_iff. exists members. split; auto.
  - destruct (value_count fvs <? 1); [reflexivity|].
    f_equal. apply concatM_map_ext_in. intros r Hr.
    destruct (lookup E r) as [ns|] eqn:El; [|reflexivity]. rewrite Ht.
    destruct (in_triggers _ ns); [reflexivity|].
    destruct (is_property_shape ns); [reflexivity|].
    apply for_values_ext'. intros f v. rewrite (Hn r ns v Hr El). reflexivity.
  - destruct (value_count fvs <? 1); [reflexivity|].
    f_equal. apply mapM_ext_in. intros r Hr.
    destruct (lookup E r) as [ns|] eqn:El; [|reflexivity]. rewrite Ht.
    destruct (in_triggers _ ns); [reflexivity|].
    destruct (negb (is_property_shape ns)); [reflexivity|].
    apply for_values_ext'. intros f v. rewrite (Hn r ns v Hr El). reflexivity.
  - destruct (_ && _ && _); [reflexivity|].
    f_equal. apply concatM_map_ext_in. intros r Hr.
    destruct (lookup E r) as [qs|] eqn:El; [|reflexivity]. rewrite Ht.
    destruct (in_triggers _ qs); [reflexivity|].
    apply bind_ext_ok. intros sibs Hsibs. f_equal.
    apply mapM_ext_in. intros fv _. f_equal.
    apply mapM_ext_in. intros v _.
    rewrite (Hn r qs v (in_or_app _ _ _ (or_introl Hr)) El).
    apply bind_ext_ok. intros cr _. destruct (fst cr); [|reflexivity].
    f_equal. apply mapM_ext_in. intros sib Hsib.
    destruct disjoint; [|injection Hsibs as <-; destruct Hsib].
    destruct (lookup_all_in _ _ _ Hsibs sib Hsib) as (r2 & Hr2 & El2).
    eapply Hn; eauto. apply in_app_iff. right. apply in_flat_map. exists r. auto.
  - reflexivity.
  - reflexivity.
  - reflexivity.
Qed.

Lemma loop_ext_in o top s ev ev' :
  forall cs nc nw acc, (forall c, In c cs -> ev c = ev' c) ->
  loop o top s ev cs nc nw acc = loop o top s ev' cs nc nw acc.
Proof.
  induction cs as [|c cs IH]; intros nc nw acc Hev; cbn [loop]; [reflexivity|].
  assert (Hstep :
    bind (ev c) (fun cr =>
        let nc' := nc || negb (fst cr) in
        let nw' := if fst cr then nw else nw || isnil (e_allowed o) || negb (all_waived o (snd cr)) in
        let acc' := acc ++ snd cr in
        if nw' && e_abort o then Ok (negb (if top then nw' else nc'), acc') else loop o top s ev cs nc' nw' acc')
    = bind (ev' c) (fun cr =>
        let nc' := nc || negb (fst cr) in
        let nw' := if fst cr then nw else nw || isnil (e_allowed o) || negb (all_waived o (snd cr)) in
        let acc' := acc ++ snd cr in
        if nw' && e_abort o then Ok (negb (if top then nw' else nc'), acc') else loop o top s ev' cs nc' nw' acc')).
  { rewrite (Hev c (or_introl eq_refl)). apply bind_ext. intros cr. cbv zeta.
    rewrite IH; [reflexivity|]. intros c' Hc'. apply Hev. right; auto. }
  destruct c; try exact Hstep. destruct (spath s); [exact Hstep|].
  apply IH. intros c' Hc'. apply Hev. right; auto.
Qed.

(* ---------------- C19: the back-out heuristic is inert on non-recursive shapes graphs ---------------- *)
Theorem vshape_no_backout W o g E rank : ranked E rank ->
  forall fuel top ep s foci, In s E ->
  (forall e, In e ep -> rank (sid s) < rank (fst e)) ->
  vshape recursion_triggers W fuel o g E top ep s foci = vshape no_triggers W fuel o g E top ep s foci.
Proof.
  intros Hr. induction fuel as [|fuel IH]; intros top ep s foci Hs Hep; cbn [vshape]; [reflexivity|].
  destruct (deact s); [reflexivity|]. destruct (isnil foci); [reflexivity|].
  destruct (_ && _); [reflexivity|]. apply bind_ext. intros fvs.
  apply loop_ext_in. intros c Hc. apply evalc_ext2.
  - intros k ns. unfold no_triggers.
    assert (Hne : ~ In (sid s) (map fst ep)).
    { intros Hin. apply in_map_iff in Hin as (e & He & Hin). specialize (Hep e Hin). rewrite He in Hep. lia. }
    (* the path handed to the component ends with (sid s, comp_kind c); triggers ask about kind k *)
    unfold recursion_triggers.
    destruct (_ <? 2); [reflexivity|]. destruct (_ <? _); [reflexivity|].
    rewrite collect_next_absent; [reflexivity|]. rewrite removelast_last. exact Hne.
  - intros r s' v Hin El. destruct (Hr s c r s' Hs Hc Hin El) as [Hs' Hlt].
    apply IH; auto. intros e He. apply in_app_iff in He as [He|[<-|[]]]; simpl; [|exact Hlt].
    specialize (Hep e He). lia.
Qed.

(* ---------------- C11: waivers never change which results are reported ---------------- *)
Section WithTrig.
Variable trig : trig_t.
Variable W : world.

Definition res_snd (a:res cres) : res (list vresult) := match a with Ok cr => Ok (snd cr) | Err e => Err e end.

(* without abort_on_first the loop's report list and (nested) conformance do not depend on the waiver *)
Lemma loop_waiver_irrelevant o o' s ev : e_abort o = false -> e_abort o' = false ->
  forall cs nc nw nw' acc,
  loop o false s ev cs nc nw acc = loop o' false s ev cs nc nw' acc
  /\ res_snd (loop o true s ev cs nc nw acc) = res_snd (loop o' true s ev cs nc nw' acc).
Proof.
  intros Ha Ha'. induction cs as [|c cs IH]; intros nc nw nw' acc; cbn [loop]; [split; reflexivity|].
  assert (Hstep :
    bind (ev c) (fun cr =>
        let nc' := nc || negb (fst cr) in
        let nw1 := if fst cr then nw else nw || isnil (e_allowed o) || negb (all_waived o (snd cr)) in
        let acc' := acc ++ snd cr in
        if nw1 && e_abort o then Ok (negb nc', acc') else loop o false s ev cs nc' nw1 acc')
    = bind (ev c) (fun cr =>
        let nc' := nc || negb (fst cr) in
        let nw1 := if fst cr then nw' else nw' || isnil (e_allowed o') || negb (all_waived o' (snd cr)) in
        let acc' := acc ++ snd cr in
        if nw1 && e_abort o' then Ok (negb nc', acc') else loop o' false s ev cs nc' nw1 acc')
    /\ res_snd (bind (ev c) (fun cr =>
        let nc' := nc || negb (fst cr) in
        let nw1 := if fst cr then nw else nw || isnil (e_allowed o) || negb (all_waived o (snd cr)) in
        let acc' := acc ++ snd cr in
        if nw1 && e_abort o then Ok (negb nw1, acc') else loop o true s ev cs nc' nw1 acc'))
    = res_snd (bind (ev c) (fun cr =>
        let nc' := nc || negb (fst cr) in
        let nw1 := if fst cr then nw' else nw' || isnil (e_allowed o') || negb (all_waived o' (snd cr)) in
        let acc' := acc ++ snd cr in
        if nw1 && e_abort o' then Ok (negb nw1, acc') else loop o' true s ev cs nc' nw1 acc'))).
  { destruct (ev c) as [cr|e]; [|split; reflexivity]. cbn [bind]. cbv zeta.
    rewrite Ha, Ha', !andb_false_r. apply IH. }
  destruct c; try exact Hstep. destruct (spath s); [exact Hstep|apply IH].
Qed.

Theorem vshape_waiver_irrelevant o o' g E : e_abort o = false -> e_abort o' = false ->
  e_max_depth o = e_max_depth o' ->
  forall fuel ep s foci,
  vshape trig W fuel o g E false ep s foci = vshape trig W fuel o' g E false ep s foci
  /\ res_snd (vshape trig W fuel o g E true ep s foci) = res_snd (vshape trig W fuel o' g E true ep s foci).
Proof.
  intros Ha Ha' Hd. induction fuel as [|fuel IH]; intros ep s foci; cbn [vshape]; rewrite Hd;
    (destruct (deact s); [split; reflexivity|]); (destruct (isnil foci); [split; reflexivity|]);
    cbn [negb andb]; [split; reflexivity|].
  assert (Hev : forall fvs c,
     evalc trig W (fun s' v ep' => vshape trig W fuel o g E false ep' s' [v]) g E s fvs (ep ++ [(sid s, comp_kind c)]) c
     = evalc trig W (fun s' v ep' => vshape trig W fuel o' g E false ep' s' [v]) g E s fvs (ep ++ [(sid s, comp_kind c)]) c).
  { intros fvs c. apply evalc_ext2; [reflexivity|]. intros r s' v _ _. apply IH. }
  split.
  - destruct (e_max_depth o' <=? length ep); [reflexivity|]. apply bind_ext. intros fvs.
    rewrite (loop_ext_in o false s _ _ (scomps s) false false [] (fun c _ => Hev fvs c)).
    apply loop_waiver_irrelevant; auto.
  - destruct (shape_value_nodes g s foci) as [fvs|e]; [|reflexivity]. cbn [bind].
    rewrite (loop_ext_in o true s _ _ (scomps s) false false [] (fun c _ => Hev fvs c)).
    apply loop_waiver_irrelevant; auto.
Qed.

Definition same_but_waivers (o o':opts) : Prop :=
  abort o = false /\ abort o' = false /\ max_depth o = max_depth o' /\ focus_filter o = focus_filter o'.

Lemma validate_top_waiver o o' sg g E s explicit : same_but_waivers o o' ->
  res_snd (validate_top trig W o sg g E s explicit) = res_snd (validate_top trig W o' sg g E s explicit).
Proof.
  intros (Ha & Ha' & Hd & Hf).
  assert (H : forall foci,
     res_snd (vshape trig W (fuel_of (eopts_of o)) (eopts_of o) g E true [] s foci)
     = res_snd (vshape trig W (fuel_of (eopts_of o')) (eopts_of o') g E true [] s foci)).
  { intros foci. unfold fuel_of. cbn [eopts_of e_max_depth]. rewrite <- Hd.
    apply vshape_waiver_irrelevant; simpl; auto. }
  unfold validate_top. destruct (deact s); [reflexivity|].
  destruct explicit; [apply H|]. destruct (isnil _); [reflexivity|]. rewrite <- Hf.
  destruct (focus_filter o); [apply H|]. destruct (isnil _); [reflexivity|apply H].
Qed.

Lemma run_shapes_waiver o o' sg g E explicit : same_but_waivers o o' ->
  forall shapes nc nc' acc,
  res_snd (run_shapes trig W o sg g E shapes explicit nc acc)
  = res_snd (run_shapes trig W o' sg g E shapes explicit nc' acc).
Proof.
  intros Hs. pose proof Hs as (Ha & Ha' & _).
  induction shapes as [|s rest IH]; intros nc nc' acc; cbn [run_shapes]; [reflexivity|].
  pose proof (validate_top_waiver o o' sg g E s explicit Hs) as Ht.
  destruct (validate_top trig W o sg g E s explicit) as [cr|e];
    destruct (validate_top trig W o' sg g E s explicit) as [cr'|e']; simpl in Ht; try discriminate.
  - injection Ht as Ht. cbn [bind]. cbv zeta. rewrite Ha, Ha', Ht. cbn [andb]. apply IH.
  - simpl. congruence.
Qed.

(* Turning allow_infos / allow_warnings on or off never changes which results are reported. *)
Theorem validate_same_results o o' sg g E : same_but_waivers o o' ->
  res_snd (validate trig W o sg g E) = res_snd (validate trig W o' sg g E).
Proof. intros Hs. unfold validate. apply run_shapes_waiver; auto. Qed.

Lemma all_waived_incl (o o':eopts) rs : incl (e_allowed o) (e_allowed o') ->
  all_waived o rs = true -> all_waived o' rs = true.
Proof.
  intros Hi. unfold all_waived, waived. rewrite !forallb_forall. intros H r Hr.
  specialize (H r Hr). apply (mem_In term_eqb_spec) in H. apply (mem_In term_eqb_spec). auto.
Qed.

(* conforms(o) implies conforms(o') whenever o' waives at least what o waives *)
Theorem validate_monotone o o' sg g E c rs c' rs' : same_but_waivers o o' ->
  incl (allowed_severities o) (allowed_severities o') ->
  validate trig W o sg g E = Ok (c, rs) -> validate trig W o' sg g E = Ok (c', rs') ->
  rs = rs' /\ (c = true -> c' = true).
Proof.
  intros Hs Hi H H'. pose proof (validate_same_results o o' sg g E Hs) as Hr.
  rewrite H, H' in Hr. simpl in Hr. injection Hr as <-. split; [reflexivity|].
  apply validate_verdict in H. apply validate_verdict in H'. subst c c'.
  apply all_waived_incl. exact Hi.
Qed.

End WithTrig.
