(* C15: the rules model instantiated with the C02 focus-node model and the C04 evaluator, and the
   comparison used by the correspondence run. *)
From Coq Require Import List NArith ZArith Bool Arith.
From Verif Require Import Base.SetList Base.Terms Base.Vocab Paths.Path Paths.PathCheck Shapes.AST Shapes.Leaf Shapes.Eval Shapes.EvalCheck Rules.Rules.
Import ListNotations.

Definition model_foci (sg:graph) (E:env) (g:graph) (shape:term) : list term :=
  match lookup E shape with Some s => focus_nodes sg g s | None => [] end.

Definition model_conf (W:world) (o:opts) (sg:graph) (E:env) (g:graph) (c f:term) : res bool :=
  match lookup E c with
  | Some s => bind (validate_top recursion_triggers W o sg g E s (Some [f])) (fun cr => Ok (fst cr))
  | None => Err ShapeLoad
  end.

Definition rules_model (W:world) (o:opts) (sg:graph) (E:env) (explicit:option (list term)) (iterate:bool)
  (g:graph) (l:list srules) : res graph :=
  apply_rules (model_foci sg E) (model_conf W o sg E) explicit (focus_filter o) iterate g l.

Definition gsubset (a b:graph) : bool := forallb (fun t => gmem t b) a.
Definition graph_eqb (a b:graph) : bool := gsubset a b && gsubset b a.

Definition check_rules (W:world) (o:opts) (sg:graph) (E:env) (explicit:option (list term)) (iterate:bool)
  (g:graph) (l:list srules) (observed:res graph) : bool :=
  match rules_model W o sg E explicit iterate g l, observed with
  | Ok a, Ok b => graph_eqb a b
  | Err e1, Err e2 => exn_eqb e1 e2
  | _, _ => false
  end.
