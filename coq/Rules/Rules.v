(* C15: executable model of pyshacl/rules (gather order, apply_rules, TripleRule.apply,
   SPARQLRule.apply, SHACLRule.filter_conditions).
   Focus-node computation of a rule's shape and conformance to a condition shape are parameters
   (instantiated by the C02 / C04 models for the correspondence run). CONSTRUCT queries are
   modelled for the template family "basic graph pattern -> triple templates". *)
From Coq Require Import List NArith ZArith Bool Arith.
From Verif Require Import Base.SetList Base.Terms Paths.Path.
Import ListNotations.

Definition triple_eqb (a b:triple) : bool :=
  term_eqb (tsubj a) (tsubj b) && term_eqb (tpred a) (tpred b) && term_eqb (tobj a) (tobj b).
Notation gmem := (mem triple_eqb).
Notation gunion := (union triple_eqb).

(* ---- node expressions of triple rules: sh:this, a constant, [ sh:path p ] ---- *)
Inductive nexpr := NThis | NConst (t:term) | NPath (p:path).
Definition eval_nexpr (g:graph) (e:nexpr) (a:term) : res (list term) :=
  match e with NThis => Ok [a] | NConst t => Ok [t] | NPath p => value_nodes g p a end.

(* ---- CONSTRUCT { head } WHERE { body }: basic graph patterns ---- *)
Inductive pterm := PT (t:term) | PV (v:N) | PThis.
Definition tpat := (pterm * pterm * pterm)%type.
Definition benv := list (N * term).
Fixpoint blookup (e:benv) (v:N) : option term :=
  match e with [] => None | (k, t) :: r => if N.eqb k v then Some t else blookup r v end.
Definition match_term (p:pterm) (t a:term) (e:benv) : option benv :=
  match p with
  | PT c => if term_eqb c t then Some e else None
  | PThis => if term_eqb a t then Some e else None
  | PV v => match blookup e v with
            | Some b => if term_eqb b t then Some e else None
            | None => Some ((v, t) :: e)
            end
  end.
Definition match_triple (p:tpat) (t:triple) (a:term) (e:benv) : option benv :=
  match match_term (fst (fst p)) (tsubj t) a e with
  | Some e1 => match match_term (snd (fst p)) (tpred t) a e1 with
               | Some e2 => match_term (snd p) (tobj t) a e2
               | None => None end
  | None => None
  end.
Fixpoint bgp (g:graph) (a:term) (pats:list tpat) (e:benv) : list benv :=
  match pats with
  | [] => [e]
  | p :: r => flat_map (fun t => match match_triple p t a e with Some e' => bgp g a r e' | None => [] end) g
  end.
Definition inst_term (p:pterm) (a:term) (e:benv) : option term :=
  match p with PT c => Some c | PThis => Some a | PV v => blookup e v end.
Definition inst_triple (p:tpat) (a:term) (e:benv) : list triple :=
  match inst_term (fst (fst p)) a e, inst_term (snd (fst p)) a e, inst_term (snd p) a e with
  | Some s, Some pr, Some o => [(s, pr, o)]     (* rdflib's template filling checks boundness only *)
  | _, _, _ => []
  end.
Definition construct (g:graph) (a:term) (head body:list tpat) : list triple :=
  flat_map (fun e => flat_map (fun h => inst_triple h a e) head) (bgp g a body []).

Inductive rkind := RTriple (s p o:nexpr) | RConstruct (head body:list tpat).
Record rule := { r_id : N; r_order : Z; r_deact : bool; r_conds : list term; r_kind : rkind }.
Record srules := { sr_shape : term; sr_order : Z; sr_rules : list rule }.

Definition ITERATE_LIMIT := 100.

(* stable insertion sort by an integer key (Python's sorted is stable) *)
Fixpoint insert_by {X} (key:X -> Z) (x:X) (l:list X) : list X :=
  match l with
  | [] => [x]
  | y :: r => if (key y <=? key x)%Z then y :: insert_by key x r else x :: l
  end.
Definition sort_by {X} (key:X -> Z) (l:list X) : list X := fold_left (fun acc x => insert_by key x acc) l [].

Section Rules.
Variable foci_of : graph -> term -> list term.          (* Shape.focus_nodes(data_graph) of the rule's shape *)
Variable conf : graph -> term -> term -> res bool.      (* condition shape c validates focus f on g: conforms? *)
Variable explicit : option (list term).                 (* focus nodes handed over directly (use_shapes + focus_nodes) *)
Variable flt : list term.                               (* executor.focus_nodes ([] = none) *)

Definition focus_list (g:graph) (shape:term) : list term :=
  let l := match explicit with Some f => f | None => foci_of g shape end in
  match flt with [] => l | _ => filter (fun f => is_iri f && tmem f flt) l end.

(* filter_conditions: every condition is validated for every focus node *)
Definition applicable (g:graph) (r:rule) (foci:list term) : res (list term) :=
  bind (mapM (fun f => bind (mapM (fun c => conf g c f) (r_conds r)) (fun bs => Ok (f, forallb (fun b => b) bs))) foci)
       (fun fl => Ok (map fst (filter snd fl))).

Definition fire (g:graph) (k:rkind) (a:term) : res (list triple) :=
  match k with
  | RTriple s p o =>
      bind (eval_nexpr g s a) (fun ss => bind (eval_nexpr g p a) (fun ps => bind (eval_nexpr g o a) (fun os =>
        Ok (flat_map (fun x => flat_map (fun y => map (fun z => (x, y, z)) os) ps) ss))))
  | RConstruct head body => Ok (construct g a head body)
  end.

Definition has_new (g:graph) (ts:list triple) : bool := existsb (fun t => negb (gmem t g)) ts.

(* one pass over the applicable nodes: (triples to add, number of nodes that contribute a new triple) *)
Definition pass (g:graph) (k:rkind) (nodes:list term) : res (list triple * nat) :=
  bind (mapM (fire g k) nodes) (fun tss =>
    Ok (concat (match k with RTriple _ _ _ => tss | RConstruct _ _ => filter (has_new g) tss end),
        length (filter (has_new g) tss))).

(* TripleRule.apply's while loop: the applicable nodes are computed once, before the loop *)
Fixpoint triple_loop (fuel:nat) (iterate:bool) (g:graph) (k:rkind) (nodes:list term) (all_added:nat) : res (graph * nat) :=
  match fuel with
  | O => Err Reportable
  | S fuel' =>
    bind (pass g k nodes) (fun r =>
      let '(to_add, added) := r in
      if Nat.ltb 0 added then
        let g' := gunion g to_add in
        if iterate then triple_loop fuel' iterate g' k nodes (all_added + added) else Ok (g', all_added + added)
      else Ok (g, all_added))
  end.

Definition apply_rule (iterate:bool) (g:graph) (shape:term) (r:rule) : res (graph * nat) :=
  let foci := focus_list g shape in
  if negb (match flt with [] => true | _ => false end) && (match foci with [] => true | _ => false end) then Ok (g, 0)
  else
    bind (applicable g r foci) (fun nodes =>
      (* SPARQLRule never iterates by itself *)
      triple_loop ITERATE_LIMIT (match r_kind r with RTriple _ _ _ => iterate | RConstruct _ _ => false end) g (r_kind r) nodes 0).

(* one round over the (sorted) rules of a shape: later rules see the triples of earlier ones *)
Fixpoint rules_pass (iterate:bool) (g:graph) (shape:term) (rs:list rule) (modified:nat) : res (graph * nat) :=
  match rs with
  | [] => Ok (g, modified)
  | r :: rest =>
    if r_deact r then rules_pass iterate g shape rest modified
    else bind (apply_rule iterate g shape r) (fun gn => rules_pass iterate (fst gn) shape rest (modified + snd gn))
  end.

Fixpoint shape_loop (fuel:nat) (iterate:bool) (g:graph) (shape:term) (rs:list rule) : res graph :=
  match fuel with
  | O => Err Reportable
  | S fuel' =>
    bind (rules_pass iterate g shape rs 0) (fun gn =>
      if Nat.ltb 0 (snd gn) && iterate then shape_loop fuel' iterate (fst gn) shape rs else Ok (fst gn))
  end.

Fixpoint shapes_run (iterate:bool) (g:graph) (l:list srules) : res graph :=
  match l with
  | [] => Ok g
  | s :: rest => bind (shape_loop ITERATE_LIMIT iterate g (sr_shape s) (sort_by r_order (sr_rules s))) (fun g' => shapes_run iterate g' rest)
  end.

Definition apply_rules (iterate:bool) (g:graph) (l:list srules) : res graph :=
  shapes_run iterate g (sort_by sr_order l).
End Rules.
