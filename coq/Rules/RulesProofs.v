(* C15: properties of the rules model. *)
From Coq Require Import List NArith ZArith Bool Arith Lia Permutation Sorted.
From Verif Require Import Base.SetList Base.Terms Paths.Path Rules.Rules.
Import ListNotations.

Lemma triple_eqb_spec a b : reflect (a = b) (triple_eqb a b).
Proof.
  destruct a as [[s p] o], b as [[s' p'] o']. unfold triple_eqb, tsubj, tpred, tobj. simpl.
  destruct (term_eqb_spec s s'), (term_eqb_spec p p'), (term_eqb_spec o o'); simpl; constructor; congruence.
Qed.

Lemma In_gunion g l t : In t (gunion g l) <-> In t g \/ In t l.
Proof. apply (In_union triple_eqb_spec). Qed.
Lemma gunion_incl g l : incl g (gunion g l).
Proof. intros t H. apply In_gunion. left. exact H. Qed.

Lemma has_new_spec g ts : has_new g ts = true <-> exists t, In t ts /\ ~ In t g.
Proof.
  unfold has_new. rewrite existsb_exists. split; intros (t & Ht & Hn); exists t; split; auto.
  - intros Hin. apply negb_true_iff in Hn. apply (mem_false triple_eqb_spec) in Hn. contradiction.
  - apply negb_true_iff. destruct (mem triple_eqb t g) eqn:E; [|reflexivity].
    apply (mem_In triple_eqb_spec) in E. contradiction.
Qed.

Section Props.
Variable foci_of : graph -> term -> list term.
Variable conf : graph -> term -> term -> res bool.
Variable explicit : option (list term).
Variable flt : list term.

Notation focus_list := (focus_list foci_of explicit flt).
Notation applicable := (applicable conf).
Notation apply_rule := (apply_rule foci_of conf explicit flt).
Notation rules_pass := (rules_pass foci_of conf explicit flt).
Notation shape_loop := (shape_loop foci_of conf explicit flt).
Notation shapes_run := (shapes_run foci_of conf explicit flt).
Notation apply_rules := (apply_rules foci_of conf explicit flt).

(* ---- what `applicable` keeps: the focus nodes that conform to every condition ---- *)
Lemma mapM_In {A B} (f:A -> res B) l ys : mapM f l = Ok ys -> forall y, In y ys -> exists x, In x l /\ f x = Ok y.
Proof.
  intros H. apply mapM_ok in H. induction H as [|x y l ys Hxy _ IH]; intros z Hz; [contradiction|].
  destruct Hz as [<-|Hz]; [exists x; split; [left; reflexivity|exact Hxy]|].
  destruct (IH z Hz) as (x' & Hx' & Hf). exists x'. split; [right; exact Hx'|exact Hf].
Qed.

Lemma applicable_sound g r foci nodes a : applicable g r foci = Ok nodes -> In a nodes ->
  In a foci /\ forall c, In c (r_conds r) -> conf g c a = Ok true.
Proof.
  unfold Rules.applicable. intros H Ha.
  destruct (mapM _ foci) as [fl|e] eqn:E; cbn [bind] in H; [|discriminate]. injection H as <-.
  apply in_map_iff in Ha as ([f b] & <- & Hf). apply filter_In in Hf as [Hf Hb]. cbn [snd fst] in *. subst b.
  destruct (mapM_In _ _ _ E _ Hf) as (x & Hx & Hfx).
  destruct (mapM (fun c => conf g c x) (r_conds r)) as [bs|e] eqn:Eb; cbn [bind] in Hfx; [|discriminate].
  injection Hfx as -> Hall. split; [exact Hx|]. intros c Hc.
  rewrite forallb_forall in Hall.
  apply mapM_ok in Eb. clear -Eb Hall Hc.
  induction Eb as [|c0 b0 cs bs0 H0 _ IH]; [contradiction|].
  destruct Hc as [->|Hc].
  - rewrite H0. f_equal. apply Hall. left. reflexivity.
  - apply IH; auto. intros b Hb. apply Hall. right. exact Hb.
Qed.

(* ---- a fired triple: rule kind k on node a over graph gm yields t ---- *)
Definition fired (k:rkind) (nodes:list term) (lo hi:graph) (t:triple) : Prop :=
  exists gm a ts, incl lo gm /\ incl gm hi /\ In a nodes /\ fire gm k a = Ok ts /\ In t ts.

Lemma fired_weaken k nodes lo hi lo' hi' t : fired k nodes lo hi t -> incl lo' lo -> incl hi hi' -> fired k nodes lo' hi' t.
Proof.
  intros (gm & a & ts & H1 & H2 & H3 & H4 & H5) Hl Hh. exists gm, a, ts.
  split; [eapply incl_tran; eauto|]. split; [eapply incl_tran; eauto|]. auto.
Qed.

Lemma pass_sound g k nodes to_add added : pass g k nodes = Ok (to_add, added) ->
  forall t, In t to_add -> exists a ts, In a nodes /\ fire g k a = Ok ts /\ In t ts.
Proof.
  unfold pass. intros H t Ht. destruct (mapM (fire g k) nodes) as [tss|e] eqn:E; cbn [bind] in H; [|discriminate].
  injection H as <- _. apply in_concat in Ht as (ts & Hts & Ht).
  assert (Hin : In ts tss) by (destruct k; [exact Hts|apply filter_In in Hts as [H _]; exact H]).
  destruct (mapM_In _ _ _ E _ Hin) as (a & Ha & Hf). exists a, ts. auto.
Qed.

Lemma triple_loop_inv fuel : forall it g k nodes n g' n', triple_loop fuel it g k nodes n = Ok (g', n') ->
  incl g g' /\ forall t, In t g' -> In t g \/ fired k nodes g g' t.
Proof.
  induction fuel as [|fuel IH]; intros it g k nodes n g' n' H; [discriminate|]. cbn [triple_loop] in H.
  destruct (pass g k nodes) as [[to_add added]|e] eqn:Ep; cbn [bind] in H; [|discriminate].
  destruct (Nat.ltb 0 added).
  - destruct it.
    + destruct (IH _ _ _ _ _ _ _ H) as [I1 I2]. split; [eapply incl_tran; [apply gunion_incl|exact I1]|].
      intros t Ht. destruct (I2 t Ht) as [Hu|Hf].
      * apply In_gunion in Hu as [Hg|Ha]; [left; exact Hg|right].
        destruct (pass_sound _ _ _ _ _ Ep t Ha) as (a & ts & Ha1 & Ha2 & Ha3).
        exists g, a, ts. split; [apply incl_refl|]. split; [eapply incl_tran; [apply gunion_incl|exact I1]|]. auto.
      * right. eapply fired_weaken; [exact Hf|apply gunion_incl|apply incl_refl].
    + injection H as <- _. split; [apply gunion_incl|]. intros t Ht.
      apply In_gunion in Ht as [Hg|Ha]; [left; exact Hg|right].
      destruct (pass_sound _ _ _ _ _ Ep t Ha) as (a & ts & Ha1 & Ha2 & Ha3).
      exists g, a, ts. split; [apply incl_refl|]. split; [apply gunion_incl|]. auto.
  - injection H as <- _. split; [apply incl_refl|]. intros t Ht. left. exact Ht.
Qed.

(* ---- justification of a triple by an active rule of a shape ---- *)
Definition justified_by (shape:term) (r:rule) (lo hi:graph) (t:triple) : Prop :=
  r_deact r = false /\
  exists ga nodes, incl lo ga /\ incl ga hi /\ applicable ga r (focus_list ga shape) = Ok nodes /\ fired (r_kind r) nodes ga hi t.

Lemma justified_weaken shape r lo hi lo' hi' t : justified_by shape r lo hi t -> incl lo' lo -> incl hi hi' -> justified_by shape r lo' hi' t.
Proof.
  intros (Hd & ga & nodes & H1 & H2 & H3 & H4) Hl Hh. split; [exact Hd|]. exists ga, nodes.
  split; [eapply incl_tran; eauto|]. split; [eapply incl_tran; eauto|]. split; [exact H3|].
  eapply fired_weaken; [exact H4|apply incl_refl|exact Hh].
Qed.

Lemma apply_rule_inv it g shape r g' n : r_deact r = false -> apply_rule it g shape r = Ok (g', n) ->
  incl g g' /\ forall t, In t g' -> In t g \/ justified_by shape r g g' t.
Proof.
  intros Hd H. unfold Rules.apply_rule in H.
  assert (K : forall nodes it', applicable g r (focus_list g shape) = Ok nodes ->
              triple_loop ITERATE_LIMIT it' g (r_kind r) nodes 0 = Ok (g', n) ->
              incl g g' /\ forall t, In t g' -> In t g \/ justified_by shape r g g' t).
  { intros nodes it' Ha Hl. destruct (triple_loop_inv _ _ _ _ _ _ _ _ Hl) as [I1 I2]. split; [exact I1|].
    intros t Ht. destruct (I2 t Ht) as [Hg|Hf]; [left; exact Hg|right].
    split; [exact Hd|]. exists g, nodes. split; [apply incl_refl|]. split; [exact I1|]. split; [exact Ha|exact Hf]. }
  destruct (negb _ && _).
  - injection H as <- _. split; [apply incl_refl|]. intros t Ht. left. exact Ht.
  - destruct (applicable g r (focus_list g shape)) as [nodes|e] eqn:Ea; cbn [bind] in H; [|discriminate].
    eapply K; eauto.
Qed.

Definition justified (shape:term) (rs:list rule) (lo hi:graph) (t:triple) : Prop :=
  exists r, In r rs /\ justified_by shape r lo hi t.

Lemma rules_pass_inv it shape rs : forall g m g' m', rules_pass it g shape rs m = Ok (g', m') ->
  incl g g' /\ forall t, In t g' -> In t g \/ justified shape rs g g' t.
Proof.
  induction rs as [|r rs IH]; intros g m g' m' H; cbn [Rules.rules_pass] in H.
  - injection H as <- _. split; [apply incl_refl|]. intros t Ht. left. exact Ht.
  - destruct (r_deact r) eqn:Hd.
    + destruct (IH _ _ _ _ H) as [I1 I2]. split; [exact I1|]. intros t Ht. destruct (I2 t Ht) as [Hg|(r' & Hr' & Hj)]; [left; exact Hg|].
      right. exists r'. split; [right; exact Hr'|exact Hj].
    + destruct (apply_rule it g shape r) as [[g1 n1]|e] eqn:Ea; cbn [bind fst snd] in H; [|discriminate].
      destruct (apply_rule_inv _ _ _ _ _ _ Hd Ea) as [A1 A2]. destruct (IH _ _ _ _ H) as [I1 I2].
      split; [eapply incl_tran; eauto|]. intros t Ht. destruct (I2 t Ht) as [Hg|(r' & Hr' & Hj)].
      * destruct (A2 t Hg) as [Hg0|Hj]; [left; exact Hg0|]. right. exists r. split; [left; reflexivity|].
        eapply justified_weaken; [exact Hj|apply incl_refl|exact I1].
      * right. exists r'. split; [right; exact Hr'|]. eapply justified_weaken; [exact Hj|exact A1|apply incl_refl].
Qed.

Lemma shape_loop_inv fuel : forall it g shape rs g', shape_loop fuel it g shape rs = Ok g' ->
  incl g g' /\ forall t, In t g' -> In t g \/ justified shape rs g g' t.
Proof.
  induction fuel as [|fuel IH]; intros it g shape rs g' H; [discriminate|]. cbn [Rules.shape_loop] in H.
  destruct (rules_pass it g shape rs 0) as [[g1 n1]|e] eqn:Ep; cbn [bind fst snd] in H; [|discriminate].
  destruct (rules_pass_inv _ _ _ _ _ _ _ Ep) as [P1 P2].
  destruct (Nat.ltb 0 n1 && it).
  - destruct (IH _ _ _ _ _ H) as [I1 I2]. split; [eapply incl_tran; eauto|]. intros t Ht.
    destruct (I2 t Ht) as [Hg|(r & Hr & Hj)].
    + destruct (P2 t Hg) as [Hg0|(r & Hr & Hj)]; [left; exact Hg0|]. right. exists r. split; [exact Hr|].
      eapply justified_weaken; [exact Hj|apply incl_refl|exact I1].
    + right. exists r. split; [exact Hr|]. eapply justified_weaken; [exact Hj|exact P1|apply incl_refl].
  - injection H as <-. split; [exact P1|exact P2].
Qed.

Lemma sort_by_perm {X} (key:X -> Z) l : Permutation (sort_by key l) l.
Proof.
  unfold sort_by. assert (G : forall acc, Permutation (fold_left (fun a x => insert_by key x a) l acc) (acc ++ l)).
  { induction l as [|x l IH]; intros acc; cbn [fold_left]; [rewrite app_nil_r; reflexivity|].
    rewrite IH. assert (Hi : forall a, Permutation (insert_by key x a) (a ++ [x])).
    { induction a as [|y a IHa]; simpl; [reflexivity|]. destruct (key y <=? key x)%Z.
      - constructor. exact IHa.
      - change (x :: y :: a) with ([x] ++ (y :: a)). rewrite Permutation_app_comm. reflexivity. }
    rewrite Hi. rewrite <- app_assoc. reflexivity. }
  apply (G []).
Qed.
Lemma In_sort_by {X} (key:X -> Z) l x : In x (sort_by key l) <-> In x l.
Proof. split; apply Permutation_in; [|symmetry]; apply sort_by_perm. Qed.

(* ---- the run over all shapes ---- *)
Definition justified_any (l:list srules) (lo hi:graph) (t:triple) : Prop :=
  exists s, In s l /\ justified (sr_shape s) (sr_rules s) lo hi t.

Lemma shapes_run_inv it l : forall g g', shapes_run it g l = Ok g' ->
  incl g g' /\ forall t, In t g' -> In t g \/ justified_any l g g' t.
Proof.
  induction l as [|s l IH]; intros g g' H; cbn [Rules.shapes_run] in H.
  - injection H as <-. split; [apply incl_refl|]. intros t Ht. left. exact Ht.
  - destruct (shape_loop ITERATE_LIMIT it g (sr_shape s) (sort_by r_order (sr_rules s))) as [g1|e] eqn:El; cbn [bind] in H; [|discriminate].
    destruct (shape_loop_inv _ _ _ _ _ _ El) as [L1 L2]. destruct (IH _ _ H) as [I1 I2].
    split; [eapply incl_tran; eauto|]. intros t Ht. destruct (I2 t Ht) as [Hg|(s' & Hs' & Hj)].
    + destruct (L2 t Hg) as [Hg0|(r & Hr & Hj)]; [left; exact Hg0|]. right. exists s. split; [left; reflexivity|].
      exists r. split; [apply (In_sort_by r_order); exact Hr|]. eapply justified_weaken; [exact Hj|apply incl_refl|exact I1].
    + right. exists s'. split; [right; exact Hs'|]. destruct Hj as (r & Hr & Hj). exists r. split; [exact Hr|].
      eapply justified_weaken; [exact Hj|exact L1|apply incl_refl].
Qed.

(* C15 (1),(2),(3): every input triple is kept, and every other triple of the result was produced
   by an ACTIVE rule of a shape, fired on a focus node of that shape (on the graph as it stood
   when the rule was applied) that conforms to all the rule's conditions. *)
Theorem rules_only_add_justified it g l g' : apply_rules it g l = Ok g' ->
  incl g g' /\ forall t, In t g' -> In t g \/ justified_any l g g' t.
Proof.
  unfold Rules.apply_rules. intros H. destruct (shapes_run_inv _ _ _ _ H) as [I1 I2]. split; [exact I1|].
  intros t Ht. destruct (I2 t Ht) as [Hg|(s & Hs & Hj)]; [left; exact Hg|right].
  exists s. split; [apply (In_sort_by sr_order); exact Hs|exact Hj].
Qed.

(* unfolding of a justification down to the data *)
Theorem justified_unfold l lo hi t : justified_any l lo hi t ->
  exists s r ga gm a ts,
    In s l /\ In r (sr_rules s) /\ r_deact r = false /\
    incl lo ga /\ incl ga gm /\ incl gm hi /\
    In a (focus_list ga (sr_shape s)) /\ (forall c, In c (r_conds r) -> conf ga c a = Ok true) /\
    fire gm (r_kind r) a = Ok ts /\ In t ts.
Proof.
  intros (s & Hs & r & Hr & Hd & ga & nodes & H1 & H2 & Ha & gm & a & ts & H3 & H4 & H5 & H6 & H7).
  destruct (applicable_sound _ _ _ _ _ Ha H5) as [Hf Hc].
  exists s, r, ga, gm, a, ts. repeat (split; [assumption|]). exact H7.
Qed.

(* ---- quiescence: with iterate_rules a shape's rules are re-applied until they add nothing ---- *)
Lemma pass_zero g k nodes to_add : pass g k nodes = Ok (to_add, 0) ->
  forall a, In a nodes -> exists ts, fire g k a = Ok ts /\ incl ts g.
Proof.
  unfold pass. intros H a Ha. destruct (mapM (fire g k) nodes) as [tss|e] eqn:E; cbn [bind] in H; [|discriminate].
  injection H as _ Hlen. apply mapM_ok in E. clear to_add.
  induction E as [|x ts l tss' Hx _ IH]; [contradiction|]. cbn [filter] in Hlen.
  destruct (has_new g ts) eqn:Hn; [discriminate|].
  destruct Ha as [->|Ha]; [|apply IH; auto].
  exists ts. split; [exact Hx|]. intros t Ht. destruct (mem triple_eqb t g) eqn:Em; [apply (mem_In triple_eqb_spec); exact Em|].
  exfalso. assert (has_new g ts = true); [|congruence]. apply has_new_spec. exists t. split; [exact Ht|].
  apply (mem_false triple_eqb_spec). exact Em.
Qed.

Lemma triple_loop_count fuel : forall it g k nodes n g' n', triple_loop fuel it g k nodes n = Ok (g', n') ->
  n <= n' /\ (n' = n -> g' = g /\ exists to_add, pass g k nodes = Ok (to_add, 0)).
Proof.
  induction fuel as [|fuel IH]; intros it g k nodes n g' n' H; [discriminate|]. cbn [triple_loop] in H.
  destruct (pass g k nodes) as [[to_add added]|e] eqn:Ep; cbn [bind] in H; [|discriminate].
  destruct (Nat.ltb_spec 0 added) as [Hpos|Hz].
  - destruct it.
    + destruct (IH _ _ _ _ _ _ _ H) as [I1 _]. split; [lia|]. intros ->. lia.
    + injection H as <- <-. split; [lia|]. intros E. lia.
  - injection H as <- <-. split; [lia|]. intros _. split; [reflexivity|]. exists to_add. assert (Ez : added = 0) by lia. rewrite Ez. reflexivity.
Qed.

Definition quiescent (g:graph) (shape:term) (r:rule) : Prop :=
  r_deact r = true
  \/ (flt <> [] /\ focus_list g shape = [])
  \/ exists nodes, applicable g r (focus_list g shape) = Ok nodes /\
        forall a, In a nodes -> exists ts, fire g (r_kind r) a = Ok ts /\ incl ts g.

Lemma apply_rule_count it g shape r g' n : apply_rule it g shape r = Ok (g', n) ->
  n = 0 -> g' = g /\ (r_deact r = false -> quiescent g shape r).
Proof.
  unfold Rules.apply_rule. intros H Hn. subst n.
  destruct (negb _ && _) eqn:Ec.
  - injection H as <-. split; [reflexivity|]. intros _. right. left.
    apply andb_true_iff in Ec as [E1 E2]. split.
    + destruct flt; [discriminate|discriminate].
    + destruct (focus_list g shape); [reflexivity|discriminate].
  - destruct (applicable g r (focus_list g shape)) as [nodes|e] eqn:Ea; cbn [bind] in H; [|discriminate].
    destruct (triple_loop_count _ _ _ _ _ _ _ _ H) as [_ K]. destruct (K eq_refl) as [-> (to_add & Hp)].
    split; [reflexivity|]. intros _. right. right. exists nodes. split; [first [exact Ea|reflexivity]|]. apply (pass_zero _ _ _ _ Hp).
Qed.

Lemma apply_rule_ge it g shape r g' n : apply_rule it g shape r = Ok (g', n) -> 0 <= n.
Proof. lia. Qed.

Lemma rules_pass_count it shape rs : forall g m g' m', rules_pass it g shape rs m = Ok (g', m') ->
  m <= m' /\ (m' = m -> g' = g /\ forall r, In r rs -> quiescent g shape r).
Proof.
  induction rs as [|r rs IH]; intros g m g' m' H; cbn [Rules.rules_pass] in H.
  - injection H as <- <-. split; [lia|]. intros _. split; [reflexivity|]. intros r [].
  - destruct (r_deact r) eqn:Hd.
    + destruct (IH _ _ _ _ H) as [I1 I2]. split; [exact I1|]. intros E. destruct (I2 E) as [-> Q]. split; [reflexivity|].
      intros r' [<-|Hr']; [left; exact Hd|apply Q; exact Hr'].
    + destruct (apply_rule it g shape r) as [[g1 n1]|e] eqn:Ea; cbn [bind fst snd] in H; [|discriminate].
      destruct (IH _ _ _ _ H) as [I1 I2]. split; [lia|]. intros E.
      assert (n1 = 0) by lia. subst n1. destruct (apply_rule_count _ _ _ _ _ _ Ea eq_refl) as [-> Q1].
      assert (E2 : m' = m + 0) by lia. destruct (I2 E2) as [-> Q]. split; [reflexivity|].
      intros r' [<-|Hr']; [apply Q1; exact Hd|apply Q; exact Hr'].
Qed.

Theorem iterate_reaches_quiescence fuel : forall g shape rs g', shape_loop fuel true g shape rs = Ok g' ->
  forall r, In r rs -> quiescent g' shape r.
Proof.
  induction fuel as [|fuel IH]; intros g shape rs g' H; [discriminate|]. cbn [Rules.shape_loop] in H.
  destruct (rules_pass true g shape rs 0) as [[g1 n1]|e] eqn:Ep; cbn [bind fst snd] in H; [|discriminate].
  destruct (Nat.ltb_spec 0 n1) as [Hpos|Hz]; cbn [andb] in H.
  - apply (IH _ _ _ _ H).
  - injection H as <-. destruct (rules_pass_count _ _ _ _ _ _ _ Ep) as [_ K].
    assert (E : n1 = 0) by lia. destruct (K E) as [-> Q]. exact Q.
Qed.

(* without iterate_rules every active rule of a shape is applied exactly once, in order *)
Theorem single_pass_without_iterate fuel g shape rs :
  shape_loop (S fuel) false g shape rs = bind (rules_pass false g shape rs 0) (fun gn => Ok (fst gn)).
Proof.
  cbn [Rules.shape_loop]. destruct (rules_pass false g shape rs 0) as [[g1 n1]|e]; cbn [bind fst snd]; [|reflexivity].
  rewrite andb_false_r. reflexivity.
Qed.

(* deactivated rules are skipped: their definition is irrelevant *)
Theorem deactivated_rules_irrelevant it shape rs : forall g m,
  rules_pass it g shape rs m = rules_pass it g shape (filter (fun r => negb (r_deact r)) rs) m.
Proof.
  induction rs as [|r rs IH]; intros g m; [reflexivity|]. cbn [Rules.rules_pass filter].
  destruct (r_deact r) eqn:Hd; cbn [negb].
  - apply IH.
  - cbn [Rules.rules_pass]. rewrite Hd. destruct (apply_rule it g shape r) as [[g1 n1]|e]; cbn [bind fst snd]; [apply IH|reflexivity].
Qed.
End Props.

(* ---- the order of execution is determined by sh:order alone (pairwise distinct values) ---- *)
Section Sorting.
Context {X:Type} (key:X -> Z).
Definition kle (a b:X) := (key a <= key b)%Z.
Definition klt (a b:X) := (key a < key b)%Z.

Lemma insert_sorted x l : StronglySorted kle l -> StronglySorted kle (insert_by key x l).
Proof.
  induction 1 as [|y l Hs IH Hall]; simpl; [constructor; [constructor|constructor]|].
  destruct (Z.leb_spec (key y) (key x)) as [Hle|Hgt].
  - constructor; [exact IH|]. rewrite Forall_forall in *. intros z Hz.
    assert (Hp : Permutation (insert_by key x l) (x :: l)).
    { clear. induction l as [|w l IHl]; simpl; [reflexivity|]. destruct (key w <=? key x)%Z; [|reflexivity].
      rewrite IHl. apply perm_swap. }
    apply (Permutation_in _ Hp) in Hz as [<-|Hz]; [exact Hle|apply Hall; exact Hz].
  - constructor; [constructor; assumption|]. constructor; [unfold kle; lia|].
    rewrite Forall_forall in *. intros z Hz. specialize (Hall z Hz). unfold kle in *. lia.
Qed.

Lemma sort_by_sorted l : StronglySorted kle (sort_by key l).
Proof.
  unfold sort_by. assert (G : forall acc, StronglySorted kle acc -> StronglySorted kle (fold_left (fun a x => insert_by key x a) l acc)).
  { induction l as [|x l IH]; intros acc Ha; cbn [fold_left]; [exact Ha|]. apply IH. apply insert_sorted. exact Ha. }
  apply G. constructor.
Qed.

Lemma strict_of_nodup l : StronglySorted kle l -> NoDup (map key l) -> StronglySorted klt l.
Proof.
  induction 1 as [|y l Hs IH Hall]; intros Hnd; [constructor|]. cbn [map] in Hnd. inversion Hnd as [|? ? Hni Hnd']; subst.
  constructor; [apply IH; exact Hnd'|]. rewrite Forall_forall in *. intros z Hz. specialize (Hall z Hz).
  unfold kle, klt in *. assert (key y <> key z); [|lia]. intros E. apply Hni. rewrite E. apply in_map. exact Hz.
Qed.

Lemma strict_sorted_perm_eq l1 : forall l2, StronglySorted klt l1 -> StronglySorted klt l2 -> Permutation l1 l2 -> l1 = l2.
Proof.
  induction l1 as [|x r IH]; intros l2 H1 H2 Hp.
  - apply Permutation_nil in Hp. subst. reflexivity.
  - destruct l2 as [|y r2]; [apply Permutation_sym, Permutation_nil in Hp; discriminate|].
    inversion H1 as [|? ? Hs1 Hall1]; subst. inversion H2 as [|? ? Hs2 Hall2]; subst.
    rewrite Forall_forall in Hall1, Hall2.
    assert (E : key x = key y).
    { assert (Hx : In x (y :: r2)) by (apply (Permutation_in _ Hp); left; reflexivity).
      assert (Hy : In y (x :: r)) by (apply (Permutation_in _ (Permutation_sym Hp)); left; reflexivity).
      destruct Hx as [<-|Hx]; [reflexivity|]. destruct Hy as [<-|Hy]; [reflexivity|].
      specialize (Hall2 x Hx). specialize (Hall1 y Hy). unfold klt in *. lia. }
    assert (Exy : x = y).
    { assert (Hx : In x (y :: r2)) by (apply (Permutation_in _ Hp); left; reflexivity).
      destruct Hx as [<-|Hx]; [reflexivity|]. specialize (Hall2 x Hx). unfold klt in *. lia. }
    subst y. f_equal. apply IH; auto. eapply Permutation_cons_inv. exact Hp.
Qed.

Theorem sort_by_unique l l' : Permutation l l' -> NoDup (map key l) -> sort_by key l = sort_by key l'.
Proof.
  intros Hp Hnd. apply strict_sorted_perm_eq.
  - apply strict_of_nodup; [apply sort_by_sorted|]. eapply Permutation_NoDup; [|exact Hnd].
    apply Permutation_map. symmetry. apply sort_by_perm.
  - apply strict_of_nodup; [apply sort_by_sorted|]. eapply Permutation_NoDup; [|exact Hnd].
    apply Permutation_map. rewrite Hp. symmetry. apply sort_by_perm.
  - rewrite sort_by_perm, Hp. symmetry. apply sort_by_perm.
Qed.
End Sorting.

(* shapes are processed in ascending sh:order, each shape's rules in ascending sh:order - in
   whatever order the rules were harvested *)
Theorem shape_order_decides foci_of conf explicit flt it g l l' :
  Permutation l l' -> NoDup (map sr_order l) ->
  apply_rules foci_of conf explicit flt it g l = apply_rules foci_of conf explicit flt it g l'.
Proof. intros Hp Hnd. unfold apply_rules. rewrite (sort_by_unique sr_order l l' Hp Hnd). reflexivity. Qed.

Theorem rule_order_decides foci_of conf explicit flt it g (s s':srules) rest :
  sr_shape s = sr_shape s' -> Permutation (sr_rules s) (sr_rules s') -> NoDup (map r_order (sr_rules s)) ->
  shapes_run foci_of conf explicit flt it g (s :: rest) = shapes_run foci_of conf explicit flt it g (s' :: rest).
Proof.
  intros Hs Hp Hnd. cbn [shapes_run]. rewrite Hs, (sort_by_unique r_order _ _ Hp Hnd). reflexivity.
Qed.

(* sorted output really is ascending *)
Theorem sort_by_ascending {X} (key:X -> Z) l : StronglySorted (fun a b => (key a <= key b)%Z) (sort_by key l).
Proof. apply sort_by_sorted. Qed.
