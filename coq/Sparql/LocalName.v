(* The variable name under which a parameter of a SPARQL-based constraint component, function or
   target type is pre-bound: model of SHACLParameter.localname (pyshacl/parameter.py) -
     hash_index = path.find('#');  if hash_index > 0: return path[hash_index+1:]
     right_slash_index = path.rfind('/');  if right_slash_index > 0: return path[right_slash_index+1:]
     raise ReportableRuntimeError
   and the facts SHACL-SPARQL / SHACL-AF rely on: the name of a parameter ns#local or ns/local is
   local, so the query's $local is the variable that gets the parameter's value. *)
From Coq Require Import List String Ascii Bool Arith Lia.
Import ListNotations.
Open Scope string_scope.

Definition hash : ascii := "#"%char.
Definition slash : ascii := "/"%char.

(* str.find / str.rfind for one character *)
Fixpoint find (c:ascii) (s:string) : option nat :=
  match s with
  | "" => None
  | String a r => if Ascii.eqb a c then Some 0 else option_map S (find c r)
  end.
Fixpoint rfind (c:ascii) (s:string) : option nat :=
  match s with
  | "" => None
  | String a r => match rfind c r with
                  | Some i => Some (S i)
                  | None => if Ascii.eqb a c then Some 0 else None
                  end
  end.
(* s[n:] *)
Fixpoint drop (n:nat) (s:string) : string :=
  match n, s with
  | 0, _ => s
  | S m, String _ r => drop m r
  | S _, "" => ""
  end.

(* None = the documented error (ReportableRuntimeError) *)
Definition localname (p:string) : option string :=
  match find hash p with
  | Some (S i) => Some (drop (S (S i)) p)
  | _ => match rfind slash p with
         | Some (S i) => Some (drop (S (S i)) p)
         | _ => None
         end
  end.

(* ---- lemmas ---- *)

Lemma drop_app ns t : drop (length ns) (ns ++ t) = t.
Proof. induction ns as [|a ns IH]; [reflexivity|exact IH]. Qed.

Lemma find_app_hit c ns r : find c ns = None -> find c (ns ++ String c r) = Some (length ns).
Proof.
  induction ns as [|a ns IH]; cbn [find append length]; intros H.
  - rewrite Ascii.eqb_refl. reflexivity.
  - destruct (Ascii.eqb a c); [discriminate|].
    destruct (find c ns) eqn:E; [discriminate|]. rewrite IH; reflexivity.
Qed.

Lemma find_app_none c a b : find c a = None -> find c b = None -> find c (a ++ b) = None.
Proof.
  induction a as [|x a IH]; cbn [find append]; intros Ha Hb; [exact Hb|].
  destruct (Ascii.eqb x c); [discriminate|].
  destruct (find c a) eqn:E; [discriminate|]. rewrite IH; auto.
Qed.

Lemma rfind_none c s : find c s = None -> rfind c s = None.
Proof.
  induction s as [|a s IH]; cbn [find rfind]; intros H; [reflexivity|].
  destruct (Ascii.eqb a c); [discriminate|].
  destruct (find c s) eqn:E; [discriminate|]. rewrite IH; reflexivity.
Qed.

Lemma rfind_app_last c ns local : find c local = None -> rfind c (ns ++ String c local) = Some (length ns).
Proof.
  intros H. induction ns as [|a ns IH]; cbn [rfind append length].
  - rewrite (rfind_none c local H), Ascii.eqb_refl. reflexivity.
  - rewrite IH. reflexivity.
Qed.

Lemma length_pos ns : ns <> "" -> exists k, length ns = S k.
Proof. destruct ns as [|a ns]; [congruence|]. intros _. exists (length ns). reflexivity. Qed.

(* ---- the facts ---- *)

(* hash namespace: whatever follows the first '#' *)
Theorem localname_hash ns local :
  ns <> "" -> find hash ns = None -> localname (ns ++ String hash local) = Some local.
Proof.
  intros Hne Hns. unfold localname. rewrite (find_app_hit hash ns local Hns).
  destruct (length_pos ns Hne) as (k & Hk). rewrite Hk. f_equal.
  change (drop (S (S k)) (ns ++ String hash local)) with (drop (S (S k)) (ns ++ String hash local)).
  rewrite <- Hk. replace (ns ++ String hash local) with ((ns ++ String hash "") ++ local).
  - replace (S (length ns)) with (length (ns ++ String hash "")); [apply drop_app|].
    clear. induction ns as [|a ns IH]; cbn [append length]; [reflexivity|rewrite IH; reflexivity].
  - clear. induction ns as [|a ns IH]; cbn [append]; [reflexivity|rewrite IH; reflexivity].
Qed.

(* slash namespace (no '#' anywhere): whatever follows the LAST '/' *)
Theorem localname_slash ns local :
  ns <> "" -> find hash ns = None -> find hash local = None -> find slash local = None ->
  localname (ns ++ String slash local) = Some local.
Proof.
  intros Hne Hns Hl Hsl. unfold localname.
  assert (Hh : find hash (ns ++ String slash local) = None).
  { apply find_app_none; [exact Hns|]. cbn [find]. change (Ascii.eqb slash hash) with false. cbn iota. rewrite Hl. reflexivity. }
  rewrite Hh, (rfind_app_last slash ns local Hsl).
  destruct (length_pos ns Hne) as (k & Hk). rewrite Hk. f_equal. rewrite <- Hk.
  replace (ns ++ String slash local) with ((ns ++ String slash "") ++ local).
  - replace (S (length ns)) with (length (ns ++ String slash "")); [apply drop_app|].
    clear. induction ns as [|a ns IH]; cbn [append length]; [reflexivity|rewrite IH; reflexivity].
  - clear. induction ns as [|a ns IH]; cbn [append]; [reflexivity|rewrite IH; reflexivity].
Qed.

(* two parameters of one namespace get the same variable name only if they are the same parameter *)
Corollary localname_injective_hash ns l1 l2 :
  ns <> "" -> find hash ns = None ->
  localname (ns ++ String hash l1) = localname (ns ++ String hash l2) -> l1 = l2.
Proof. intros Hne Hns. rewrite !localname_hash by assumption. congruence. Qed.

Corollary localname_injective_slash ns l1 l2 :
  ns <> "" -> find hash ns = None -> find hash l1 = None -> find slash l1 = None -> find hash l2 = None -> find slash l2 = None ->
  localname (ns ++ String slash l1) = localname (ns ++ String slash l2) -> l1 = l2.
Proof. intros Hne Hns H1 H1' H2 H2'. rewrite !localname_slash by assumption. congruence. Qed.

(* the error is raised exactly when there is neither a '#' nor a '/' beyond the first character *)
Theorem localname_error p :
  localname p = None <->
  (find hash p = None \/ find hash p = Some 0) /\ (rfind slash p = None \/ rfind slash p = Some 0).
Proof.
  unfold localname. destruct (find hash p) as [[|i]|]; destruct (rfind slash p) as [[|j]|]; split;
    try (intros H; discriminate H); try (intros [[H|H] [H'|H']]; discriminate); auto; intros _; auto.
Qed.

Definition check_localname (p:string) (observed:option string) : bool :=
  match localname p, observed with
  | Some a, Some b => String.eqb a b
  | None, None => true
  | _, _ => false
  end.
