(* C07: SHACL path -> SPARQL property path text (pyshacl/helper/path_helper.py
   shacl_path_to_sparql_path) as a token list, and a recursive-descent parser for the SPARQL 1.1
   property path grammar (rules [88]-[94], without negated property sets and `a`):
     Path ::= PathSequence ( '|' PathSequence )*
     PathSequence ::= PathEltOrInverse ( '/' PathEltOrInverse )*
     PathEltOrInverse ::= PathElt | '^' PathElt
     PathElt ::= PathPrimary PathMod?          PathMod ::= '?' | '*' | '+'
     PathPrimary ::= iri | '(' Path ')'                                                   *)
From Coq Require Import List NArith Bool Arith.
From Verif Require Import Base.SetList Base.Terms Paths.Path.
Import ListNotations.

Inductive tok := TIri (n:N) | TCaret | TSlash | TBar | TStar | TPlus | TQuest | TL | TR.

Definition tok_eqb (a b:tok) : bool :=
  match a, b with
  | TIri x, TIri y => N.eqb x y
  | TCaret, TCaret | TSlash, TSlash | TBar, TBar | TStar, TStar | TPlus, TPlus | TQuest, TQuest | TL, TL | TR, TR => true
  | _, _ => false
  end.

Fixpoint join (sep:tok) (l:list (list tok)) : list tok :=
  match l with
  | [] => []
  | [x] => x
  | x :: r => x ++ sep :: join sep r
  end.

Definition wrap (top:bool) (b:list tok) : list tok := if top then b else TL :: b ++ [TR].

(* the printer: compound paths below the top level are bracketed *)
Fixpoint print (top:bool) (p:path) : list tok :=
  match p with
  | PPred n => [TIri n]
  | PInv q => wrap top (TCaret :: print false q)
  | PSeq qs => wrap top (join TSlash ((fix go (qs:list path) := match qs with [] => [] | q :: r => print false q :: go r end) qs))
  | PAlt qs => wrap top (join TBar ((fix go (qs:list path) := match qs with [] => [] | q :: r => print false q :: go r end) qs))
  | PStar q => wrap top (print false q ++ [TStar])
  | PPlus q => wrap top (print false q ++ [TPlus])
  | POpt q => wrap top (print false q ++ [TQuest])
  end.

(* the real function refuses lists with fewer than two members; compound nodes at recursion >= 12 *)
Fixpoint shallow (d:nat) (p:path) : bool :=
  match p with
  | PPred _ => true
  | _ =>
    match d with
    | O => false
    | S d' =>
      match p with
      | PPred _ => true
      | PInv q | PStar q | PPlus q | POpt q => shallow d' q
      | PSeq qs | PAlt qs => (fix all (qs:list path) := match qs with [] => true | q :: r => shallow d' q && all r end) qs
      end
    end
  end.

Definition print_path (p:path) : option (list tok) :=
  if wf_path p && shallow 12 p then Some (print true p) else None.

(* ---- parser ---- *)
Definition mk_alt (acc:list path) : path := match acc with [q] => q | _ => PAlt (rev acc) end.
Definition mk_seq (acc:list path) : path := match acc with [q] => q | _ => PSeq (rev acc) end.

Fixpoint parse_alt (f:nat) (ts:list tok) : option (path * list tok) :=
  match f with O => None | S f =>
    match parse_seq f ts with
    | Some (q, rest) => alt_rest f [q] rest
    | None => None
    end
  end
with alt_rest (f:nat) (acc:list path) (ts:list tok) : option (path * list tok) :=
  match f with O => None | S f =>
    match ts with
    | TBar :: ts' => match parse_seq f ts' with Some (q, rest) => alt_rest f (q :: acc) rest | None => None end
    | _ => Some (mk_alt acc, ts)
    end
  end
with parse_seq (f:nat) (ts:list tok) : option (path * list tok) :=
  match f with O => None | S f =>
    match parse_eltinv f ts with
    | Some (q, rest) => seq_rest f [q] rest
    | None => None
    end
  end
with seq_rest (f:nat) (acc:list path) (ts:list tok) : option (path * list tok) :=
  match f with O => None | S f =>
    match ts with
    | TSlash :: ts' => match parse_eltinv f ts' with Some (q, rest) => seq_rest f (q :: acc) rest | None => None end
    | _ => Some (mk_seq acc, ts)
    end
  end
with parse_eltinv (f:nat) (ts:list tok) : option (path * list tok) :=
  match f with O => None | S f =>
    match ts with
    | TCaret :: ts' => match parse_elt f ts' with Some (q, rest) => Some (PInv q, rest) | None => None end
    | _ => parse_elt f ts
    end
  end
with parse_elt (f:nat) (ts:list tok) : option (path * list tok) :=
  match f with O => None | S f =>
    match parse_primary f ts with
    | Some (q, TStar :: rest) => Some (PStar q, rest)
    | Some (q, TPlus :: rest) => Some (PPlus q, rest)
    | Some (q, TQuest :: rest) => Some (POpt q, rest)
    | other => other
    end
  end
with parse_primary (f:nat) (ts:list tok) : option (path * list tok) :=
  match f with O => None | S f =>
    match ts with
    | TIri n :: rest => Some (PPred n, rest)
    | TL :: ts' => match parse_alt f ts' with Some (q, TR :: rest) => Some (q, rest) | _ => None end
    | _ => None
    end
  end.

Definition parse_path (ts:list tok) : option path :=
  match parse_alt (8 * length ts + 8) ts with
  | Some (p, []) => Some p
  | _ => None
  end.

Fixpoint path_eqb (a b:path) {struct a} : bool :=
  let fix all (xs ys:list path) {struct xs} : bool :=
    match xs, ys with [], [] => true | x :: xr, y :: yr => path_eqb x y && all xr yr | _, _ => false end in
  match a, b with
  | PPred x, PPred y => N.eqb x y
  | PInv x, PInv y | PStar x, PStar y | PPlus x, PPlus y | POpt x, POpt y => path_eqb x y
  | PSeq xs, PSeq ys | PAlt xs, PAlt ys => all xs ys
  | _, _ => false
  end.
Definition opath_eqb (a b:option path) : bool :=
  match a, b with Some x, Some y => path_eqb x y | None, None => true | _, _ => false end.
Fixpoint toks_eqb (a b:list tok) : bool :=
  match a, b with [], [] => true | x :: a', y :: b' => tok_eqb x y && toks_eqb a' b' | _, _ => false end.
Definition otoks_eqb (a b:option (list tok)) : bool :=
  match a, b with Some x, Some y => toks_eqb x y | None, None => true | _, _ => false end.

(* rdflib's parser flattens a sequence inside a sequence (and an alternative inside an alternative);
   used only when comparing the model parser with rdflib's on arbitrary SPARQL path texts *)
Fixpoint flat (p:path) : path :=
  match p with
  | PPred n => PPred n
  | PInv q => PInv (flat q)
  | PStar q => PStar (flat q)
  | PPlus q => PPlus (flat q)
  | POpt q => POpt (flat q)
  | PSeq qs => PSeq ((fix go (qs:list path) : list path :=
                        match qs with [] => [] | q :: r => (match flat q with PSeq l => l | x => [x] end) ++ go r end) qs)
  | PAlt qs => PAlt ((fix go (qs:list path) : list path :=
                        match qs with [] => [] | q :: r => (match flat q with PAlt l => l | x => [x] end) ++ go r end) qs)
  end.
Definition oflat (o:option path) : option path := match o with Some p => Some (flat p) | None => None end.
