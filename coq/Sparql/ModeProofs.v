(* C07: value nodes in sparql_mode = value nodes in memory, composed from
   - the round trip of the path text (PathTextProofs.print_parse),
   - the algebra of the batched OPTIONAL query (Optional.batched_optional_column),
   - C03 (the in-memory evaluator computes the SPARQL path relation),
   under ONE stated assumption about the component that is not pySHACL's: the SPARQL engine
   answers a path pattern `$f PATH ?v` with the nodes related to $f by the SPARQL path relation. *)
From Coq Require Import List NArith Bool Arith Lia.
From Coq Require Import Relations.
From Verif Require Import Base.SetList Base.Terms Paths.Path Paths.PathProofs Base.Vocab Shapes.AST Shapes.Leaf Shapes.TargetProofs Sparql.PathText Sparql.PathTextProofs Sparql.Optional.
Import ListNotations.

Section Mode.
Variable g : graph.
Variable engine : path -> term -> list term.
Hypothesis engine_spec : forall q x v, In v (engine q x) <-> path_rel g q x v.

Fixpoint indexed {X} (k:nat) (l:list X) : list (nat * X) :=
  match l with [] => [] | x :: r => (k, x) :: indexed (S k) r end.

(* Shape.value_nodes(..., sparql_mode=True) for one batch of focus nodes *)
Definition sparql_value_nodes (p:path) (foci:list term) : option (list (term * list term)) :=
  match print_path p with
  | None => None
  | Some ts =>
    match parse_path ts with
    | None => None                      (* the engine rejects the query text *)
    | Some q =>
      let rows := optional_chain (map (engine q) foci) in
      Some (map (fun kf => (snd kf, dedup term_eqb (column (fst kf) rows))) (indexed 0 foci))
    end
  end.

Lemma nth_indexed {X} (l:list X) k i x : nth_error l i = Some x -> nth_error (indexed k l) i = Some (k + i, x).
Proof.
  revert k i. induction l as [|y r IH]; intros k i H; [destruct i; discriminate|].
  destruct i as [|i]; cbn [indexed nth_error] in *.
  - injection H as ->. rewrite Nat.add_0_r. reflexivity.
  - rewrite (IH (S k) i H). f_equal. f_equal. lia.
Qed.

Theorem sparql_value_nodes_correct p foci : wf_path p = true -> shallow 12 p = true ->
  exists out, sparql_value_nodes p foci = Some out /\
  forall i f, nth_error foci i = Some f ->
    exists vs, nth_error out i = Some (f, vs) /\ forall v, In v vs <-> path_rel g p f v.
Proof.
  intros Hwf Hsh. unfold sparql_value_nodes, print_path. rewrite Hwf, Hsh. cbn [andb].
  rewrite (print_parse p Hwf). eexists. split; [reflexivity|].
  intros i f Hi. eexists. split.
  - erewrite map_nth_error; [|apply (nth_indexed foci 0 i f Hi)]. cbn [fst snd]. reflexivity.
  - intros v. cbn [Nat.add]. rewrite (In_dedup term_eqb_spec).
    rewrite (batched_optional_column (map (engine p) foci) i (engine p f) v).
    + apply engine_spec.
    + apply map_nth_error. exact Hi.
Qed.

(* ... hence equal, as sets, to what the in-memory evaluator (C03) returns for each focus node *)
Theorem sparql_mode_value_nodes_eq_memory p foci : wf_path p = true -> shallow 12 p = true -> fits p 0 = true ->
  exists out, sparql_value_nodes p foci = Some out /\
  forall i f, nth_error foci i = Some f ->
    exists vs mem, nth_error out i = Some (f, vs) /\ value_nodes g p f = Ok mem /\ forall v, In v vs <-> In v mem.
Proof.
  intros Hwf Hsh Hfit. destruct (sparql_value_nodes_correct p foci Hwf Hsh) as (out & Hout & H).
  exists out. split; [exact Hout|]. intros i f Hi. destruct (H i f Hi) as (vs & Hn & Hvs).
  destruct (eval_path_main g p f Hwf Hfit) as (mem & Hmem & _ & Hrel).
  exists vs, mem. split; [exact Hn|]. split; [exact Hmem|]. intros v. rewrite Hvs, Hrel. reflexivity.
Qed.

(* the *_sparql twins of sh:equals / sh:disjoint / sh:lessThan(OrEquals) fetch the values of the
   compared property with the same batched query: column i = objects(focus i, property) *)
Theorem sparql_pair_lookup pr foci i f v : nth_error foci i = Some f ->
  (In v (column i (optional_chain (map (engine (PPred pr)) foci))) <-> In (f, IRI pr, v) g).
Proof.
  intros Hi. rewrite (batched_optional_column (map (engine (PPred pr)) foci) i (engine (PPred pr) f) v).
  - rewrite engine_spec. reflexivity.
  - apply map_nth_error. exact Hi.
Qed.

(* the sh:class twin asks `$value rdf:type/rdfs:subClassOf* $class`: the SHACL instance relation,
   which is what the in-memory has_class decides (C01_class) *)
Definition class_path : path := PSeq [PPred rdf_type; PStar (PPred rdfs_subClassOf)].
Theorem sparql_class_ask v c : is_lit v = false ->
  (In c (engine class_path v) <-> has_class g v c = true).
Proof.
  intros Hl. rewrite engine_spec, (has_class_spec g v c Hl). unfold shacl_instance, class_path. simpl.
  split.
  - intros (t & Ht & z & Hs & ->). exists t. split; [exact Ht|exact Hs].
  - intros (t & Ht & Hs). exists t. split; [exact Ht|]. exists c. split; [exact Hs|reflexivity].
Qed.
End Mode.
