(* Facts about the placeholder substitution of sh:message templates (Sparql/Message.v). *)
From Coq Require Import List String Ascii Bool.
From Verif Require Import Sparql.Message.
Import ListNotations.
Open Scope string_scope.

Lemma app_assoc_s (a b c:string) : (a ++ b) ++ c = a ++ b ++ c.
Proof. induction a as [|x a IH]; cbn; [reflexivity|rewrite IH; reflexivity]. Qed.
Lemma app_nil_r_s (a:string) : a ++ "" = a.
Proof. induction a as [|x a IH]; cbn; [reflexivity|rewrite IH; reflexivity]. Qed.
Lemma cat_app l1 l2 : cat (l1 ++ l2) = cat l1 ++ cat l2.
Proof. induction l1 as [|x l IH]; cbn; [reflexivity|]. unfold cat in *. cbn. rewrite IH, app_assoc_s. reflexivity. Qed.

(* ---- the scanner drops and invents nothing: the segments spell the template ---- *)
Lemma scan_show : forall s st, cat (map show (scan st s)) = pending st ++ s.
Proof.
  induction s as [|c r IH]; intros st.
  - destruct st; cbn; rewrite ?app_nil_r_s; reflexivity.
  - destruct st as [| |sg n]; cbn [scan].
    + destruct (Ascii.eqb_spec c lbrace) as [->|Hc].
      * rewrite IH. reflexivity.
      * cbn. rewrite IH. reflexivity.
    + destruct (is_sigil c) eqn:Hs.
      * rewrite IH. reflexivity.
      * destruct (Ascii.eqb_spec c lbrace) as [->|Hc]; cbn; rewrite IH; reflexivity.
    + destruct (Ascii.eqb_spec c rbrace) as [->|Hc].
      * destruct n as [|a n].
        -- cbn. rewrite IH. reflexivity.
        -- cbn [map show cat fold_right]. fold (cat (map show (scan S0 r))). rewrite IH. cbn.
           rewrite ?app_assoc_s; cbn; rewrite ?app_assoc_s; reflexivity.
      * destruct (Ascii.eqb_spec c lbrace) as [->|Hc'].
        -- cbn [map show cat fold_right]. fold (cat (map show (scan S1 r))). rewrite IH. cbn.
           rewrite ?app_assoc_s; cbn; rewrite ?app_assoc_s; reflexivity.
        -- rewrite IH. cbn. rewrite ?app_assoc_s; cbn; rewrite ?app_assoc_s; reflexivity.
Qed.

Theorem parse_spells_template s : cat (map show (parse s)) = s.
Proof. unfold parse. rewrite scan_show. reflexivity. Qed.

(* without bindings nothing changes; in particular unbound placeholders stay as written *)
Lemma render_nil x : render [] x = show x.
Proof. destruct x; reflexivity. Qed.
Theorem subst_no_bindings s : subst [] s = s.
Proof.
  unfold subst. rewrite <- (parse_spells_template s) at 2. f_equal. apply map_ext, render_nil.
Qed.

(* ---- the result depends on the bindings of the names the template mentions, and on nothing else ---- *)
Theorem subst_own_bindings b b' t :
  (forall n, In n (holes t) -> lookup b n = lookup b' n) -> subst b t = subst b' t.
Proof.
  unfold subst, holes. induction (parse t) as [|x l IH]; intros H; [reflexivity|].
  cbn [map cat fold_right]. fold (cat (map (render b) l)). fold (cat (map (render b') l)).
  rewrite IH; [|intros n Hn; apply H; cbn; apply in_or_app; right; exact Hn]. f_equal.
  destruct x as [s|sg n]; [reflexivity|]. cbn. rewrite (H n); [reflexivity|]. cbn. left. reflexivity.
Qed.

(* ---- a value is inserted verbatim: whatever it contains, it is not scanned ---- *)
Lemma scan_prefix b : forall pre rest, lbrace_free pre = true ->
  cat (map (render b) (scan S0 (pre ++ rest))) = pre ++ cat (map (render b) (scan S0 rest)).
Proof.
  induction pre as [|c p IH]; intros rest H; [reflexivity|].
  cbn in H. apply andb_prop in H as [Hc Hp]. cbn [append scan].
  destruct (Ascii.eqb c lbrace); [discriminate|]. cbn. fold (cat (map (render b) (scan S0 (p ++ rest)))).
  rewrite IH; [reflexivity|exact Hp].
Qed.

Lemma scan_name sg : forall n acc rest, brace_free n = true -> (acc ++ n <> "") ->
  scan (S2 sg acc) (n ++ String rbrace rest) = Hole sg (acc ++ n) :: scan S0 rest.
Proof.
  induction n as [|c n IH]; intros acc rest Hn Hne.
  - cbn [append scan]. rewrite Ascii.eqb_refl. rewrite app_nil_r_s in *. destruct acc; [congruence|reflexivity].
  - cbn in Hn. apply andb_prop in Hn as [Hc Hn]. apply andb_prop in Hc as [Hl Hr].
    cbn [append scan]. destruct (Ascii.eqb c rbrace); [discriminate|]. destruct (Ascii.eqb c lbrace); [discriminate|].
    rewrite IH; [|exact Hn|].
    + rewrite app_assoc_s. reflexivity.
    + rewrite app_assoc_s. cbn. destruct acc; cbn; discriminate.
Qed.

Theorem subst_hole b pre sg n v rest :
  lbrace_free pre = true -> is_sigil sg = true -> n <> "" -> brace_free n = true -> lookup b n = Some v ->
  subst b (pre ++ String lbrace (String sg (n ++ String rbrace rest))) = pre ++ v ++ subst b rest.
Proof.
  intros Hp Hs Hne Hn Hl. unfold subst, parse. rewrite scan_prefix; [|exact Hp]. f_equal.
  cbn [scan]. rewrite Ascii.eqb_refl, Hs. rewrite (scan_name sg n "" rest Hn); [|exact Hne].
  cbn. rewrite Hl. reflexivity.
Qed.

(* an unbound name leaves the placeholder as it was written *)
Theorem subst_unbound b pre sg n rest :
  lbrace_free pre = true -> is_sigil sg = true -> n <> "" -> brace_free n = true -> lookup b n = None ->
  subst b (pre ++ String lbrace (String sg (n ++ String rbrace rest))) = pre ++ String lbrace (String sg (n ++ String rbrace (subst b rest))).
Proof.
  intros Hp Hs Hne Hn Hl. unfold subst, parse. rewrite scan_prefix; [|exact Hp]. f_equal.
  cbn [scan]. rewrite Ascii.eqb_refl, Hs. rewrite (scan_name sg n "" rest Hn); [|exact Hne].
  cbn. rewrite Hl. cbn. rewrite app_assoc_s. reflexivity.
Qed.

(* a concrete instance used by Props/C05.v *)
Definition ex_bindings : bindings := [("value", "C:\dir {$this}"); ("this", "ex:a")].
Definition ex_template : string := "v={?value} on {$this}, {?other} {?} {".
Definition ex_result : string := "v=C:\dir {$this} on ex:a, {?other} {?} {".
