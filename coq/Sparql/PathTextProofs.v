(* C07: the printed SPARQL path text parses back, by the SPARQL grammar, to the very same path. *)
From Coq Require Import List NArith Bool Arith Lia.
From Verif Require Import Base.SetList Base.Terms Paths.Path Paths.PathProofs Sparql.PathText.
Import ListNotations.

Fixpoint psize (p:path) : nat :=
  match p with
  | PPred _ => 1
  | PInv q | PStar q | PPlus q | POpt q => S (psize q)
  | PSeq qs | PAlt qs => S ((fix go (qs:list path) := match qs with [] => 0 | q :: r => psize q + go r end) qs)
  end.
Definition sum_size (qs:list path) : nat := fold_right (fun q n => psize q + n) 0 qs.
Lemma psize_seq qs : psize (PSeq qs) = S (sum_size qs).
Proof. reflexivity. Qed.
Lemma psize_alt qs : psize (PAlt qs) = S (sum_size qs).
Proof. reflexivity. Qed.
Lemma sum_size_cons q qs : sum_size (q :: qs) = psize q + sum_size qs.
Proof. reflexivity. Qed.
Lemma psize_pos p : 1 <= psize p.
Proof. destruct p; simpl; lia. Qed.

Lemma print_seq top qs : print top (PSeq qs) = wrap top (join TSlash (map (print false) qs)).
Proof. reflexivity. Qed.
Lemma print_alt top qs : print top (PAlt qs) = wrap top (join TBar (map (print false) qs)).
Proof. reflexivity. Qed.

Lemma join_cons sep x r : join sep (x :: r) = x ++ flat_map (fun y => sep :: y) r.
Proof.
  revert x. induction r as [|y r IH]; intros x; simpl; [rewrite app_nil_r; reflexivity|].
  f_equal. f_equal. specialize (IH y). simpl in IH. destruct r; simpl in *; [rewrite app_nil_r; reflexivity|].
  rewrite IH. reflexivity.
Qed.

(* what may follow a complete path: end of input or a closing bracket *)
Definition topfollow (rest:list tok) : Prop := rest = [] \/ exists r, rest = TR :: r.
Definition nomod (rest:list tok) : Prop :=
  match rest with TStar :: _ | TPlus :: _ | TQuest :: _ => False | _ => True end.
Definition noslash (rest:list tok) : Prop := match rest with TSlash :: _ => False | _ => True end.
Definition nobar (rest:list tok) : Prop := match rest with TBar :: _ => False | _ => True end.
Lemma topfollow_nomod r : topfollow r -> nomod r.
Proof. intros [->|[r' ->]]; simpl; exact I. Qed.
Lemma topfollow_noslash r : topfollow r -> noslash r.
Proof. intros [->|[r' ->]]; simpl; exact I. Qed.
Lemma topfollow_nobar r : topfollow r -> nobar r.
Proof. intros [->|[r' ->]]; simpl; exact I. Qed.

(* statement A: a bracketed (non-top) print is one PathPrimary *)
Definition A (p:path) : Prop := forall f rest, 8 * psize p + 1 <= f -> parse_primary f (print false p ++ rest) = Some (p, rest).
(* statement B: the top-level print is one Path *)
Definition B (p:path) : Prop := forall f rest, 8 * psize p <= f -> topfollow rest -> parse_alt f (print true p ++ rest) = Some (p, rest).

Lemma eltinv_nontop q f rest : parse_eltinv (S f) (print false q ++ rest) = parse_elt f (print false q ++ rest).
Proof. destruct q; reflexivity. Qed.

Lemma elt_of_A q : A q -> forall f rest, 8 * psize q + 2 <= f -> nomod rest -> parse_elt f (print false q ++ rest) = Some (q, rest).
Proof.
  intros HA f rest Hf Hn. destruct f as [|f]; [lia|]. cbn [parse_elt]. rewrite HA by lia.
  destruct rest as [|[] rest]; simpl in Hn; try contradiction; reflexivity.
Qed.
Lemma eltinv_of_A q : A q -> forall f rest, 8 * psize q + 3 <= f -> nomod rest -> parse_eltinv f (print false q ++ rest) = Some (q, rest).
Proof.
  intros HA f rest Hf Hn. destruct f as [|f]; [lia|]. rewrite eltinv_nontop. apply elt_of_A; auto. lia.
Qed.

Lemma seq_rest_stop f acc rest : 1 <= f -> noslash rest -> seq_rest f acc rest = Some (mk_seq acc, rest).
Proof. intros Hf Hn. destruct f as [|f]; [lia|]. cbn [seq_rest]. destruct rest as [|[] rest]; simpl in Hn; try contradiction; reflexivity. Qed.
Lemma alt_rest_stop f acc rest : 1 <= f -> nobar rest -> alt_rest f acc rest = Some (mk_alt acc, rest).
Proof. intros Hf Hn. destruct f as [|f]; [lia|]. cbn [alt_rest]. destruct rest as [|[] rest]; simpl in Hn; try contradiction; reflexivity. Qed.

Lemma seq_of_eltinv f ts X rest : parse_eltinv f ts = Some (X, rest) -> 1 <= f -> noslash rest -> parse_seq (S f) ts = Some (X, rest).
Proof. intros H Hf Hn. cbn [parse_seq]. rewrite H. apply seq_rest_stop; auto. Qed.
Lemma alt_of_seq f ts X rest : parse_seq f ts = Some (X, rest) -> 1 <= f -> nobar rest -> parse_alt (S f) ts = Some (X, rest).
Proof. intros H Hf Hn. cbn [parse_alt]. rewrite H. apply alt_rest_stop; auto. Qed.
Lemma top_of_eltinv f ts X rest : parse_eltinv f ts = Some (X, rest) -> 1 <= f -> topfollow rest -> parse_alt (S (S f)) ts = Some (X, rest).
Proof.
  intros H Hf Ht. apply alt_of_seq; [|lia|apply topfollow_nobar; exact Ht].
  apply seq_of_eltinv; auto. apply topfollow_noslash; exact Ht.
Qed.

Lemma nomod_flat sep (l:list (list tok)) rest : sep = TSlash \/ sep = TBar -> nomod rest ->
  nomod (flat_map (fun y => sep :: y) l ++ rest).
Proof. intros Hs Hn. destruct l; simpl; [exact Hn|]. destruct Hs as [->| ->]; exact I. Qed.

(* the ( '/' PathEltOrInverse )* loop over the remaining members of a sequence *)
Lemma seq_loop qs : Forall A qs -> forall acc f rest, 8 * sum_size qs + 4 <= f -> topfollow rest ->
  seq_rest f acc (flat_map (fun y => TSlash :: y) (map (print false) qs) ++ rest) = Some (mk_seq (rev qs ++ acc), rest).
Proof.
  induction 1 as [|q qs HA _ IH]; intros acc f rest Hf Ht.
  - simpl. apply seq_rest_stop; [lia|apply topfollow_noslash; exact Ht].
  - rewrite sum_size_cons in Hf. pose proof (psize_pos q) as Hq1. destruct f as [|f]; [lia|]. cbn [map flat_map app]. cbn [seq_rest].
    rewrite <- app_assoc. rewrite (eltinv_of_A q HA).
    + rewrite IH by (auto; lia). simpl. rewrite <- app_assoc. reflexivity.
    + lia.
    + apply nomod_flat; [left; reflexivity|apply topfollow_nomod; exact Ht].
Qed.

Lemma seq_of_A q : A q -> forall f rest, 8 * psize q + 4 <= f -> nomod rest -> noslash rest -> parse_seq f (print false q ++ rest) = Some (q, rest).
Proof.
  intros HA f rest Hf Hm Hs. destruct f as [|f]; [lia|]. apply seq_of_eltinv; [|lia|exact Hs].
  apply eltinv_of_A; auto. lia.
Qed.

Lemma nomod_noslash_flat_bar (l:list (list tok)) rest : topfollow rest ->
  nomod (flat_map (fun y => TBar :: y) l ++ rest) /\ noslash (flat_map (fun y => TBar :: y) l ++ rest).
Proof. intros Ht. destruct l; simpl; [split; [apply topfollow_nomod|apply topfollow_noslash]; exact Ht|split; exact I]. Qed.

Lemma alt_loop qs : Forall A qs -> forall acc f rest, 8 * sum_size qs + 5 <= f -> topfollow rest ->
  alt_rest f acc (flat_map (fun y => TBar :: y) (map (print false) qs) ++ rest) = Some (mk_alt (rev qs ++ acc), rest).
Proof.
  induction 1 as [|q qs HA _ IH]; intros acc f rest Hf Ht.
  - simpl. apply alt_rest_stop; [lia|apply topfollow_nobar; exact Ht].
  - rewrite sum_size_cons in Hf. pose proof (psize_pos q) as Hq1. destruct f as [|f]; [lia|]. cbn [map flat_map app]. cbn [alt_rest].
    rewrite <- app_assoc. destruct (nomod_noslash_flat_bar (map (print false) qs) rest Ht) as [Hm Hs].
    rewrite (seq_of_A q HA) by (auto; lia).
    rewrite IH by (auto; lia). simpl. rewrite <- app_assoc. reflexivity.
Qed.

Lemma A_of_B p : (forall n, p <> PPred n) -> B p -> A p.
Proof.
  intros Hc HB f rest Hf. destruct f as [|f]; [lia|].
  assert (Hp : print false p ++ rest = TL :: print true p ++ TR :: rest).
  { destruct p; try (exfalso; eapply Hc; reflexivity);
      rewrite ?print_seq, ?print_alt; cbn [print wrap]; simpl; rewrite <- app_assoc; reflexivity. }
  rewrite Hp. cbn [parse_primary]. rewrite HB; [reflexivity|lia|right; eexists; reflexivity].
Qed.

Lemma mk_seq_two (q1 q2:path) qs : mk_seq (rev (q2 :: qs) ++ [q1]) = PSeq (q1 :: q2 :: qs).
Proof.
  unfold mk_seq. destruct (rev (q2 :: qs) ++ [q1]) as [|a [|b l]] eqn:E.
  - destruct (rev (q2 :: qs)); discriminate.
  - apply (f_equal (@length path)) in E. rewrite app_length, rev_length in E. simpl in E. lia.
  - rewrite <- E. rewrite rev_app_distr, rev_involutive. reflexivity.
Qed.
Lemma mk_alt_two (q1 q2:path) qs : mk_alt (rev (q2 :: qs) ++ [q1]) = PAlt (q1 :: q2 :: qs).
Proof.
  unfold mk_alt. destruct (rev (q2 :: qs) ++ [q1]) as [|a [|b l]] eqn:E.
  - destruct (rev (q2 :: qs)); discriminate.
  - apply (f_equal (@length path)) in E. rewrite app_length, rev_length in E. simpl in E. lia.
  - rewrite <- E. rewrite rev_app_distr, rev_involutive. reflexivity.
Qed.

Lemma wf_seq_inv qs : wf_path (PSeq qs) = true -> 2 <= length qs /\ Forall (fun q => wf_path q = true) qs.
Proof.
  simpl. intros H. apply andb_true_iff in H as [H1 H2]. split; [apply Nat.leb_le; exact H1|].
  clear H1. induction qs as [|q r IH]; [constructor|]. apply andb_true_iff in H2 as [Ha Hb]. constructor; auto.
Qed.
Lemma wf_alt_inv qs : wf_path (PAlt qs) = true -> 2 <= length qs /\ Forall (fun q => wf_path q = true) qs.
Proof.
  simpl. intros H. apply andb_true_iff in H as [H1 H2]. split; [apply Nat.leb_le; exact H1|].
  clear H1. induction qs as [|q r IH]; [constructor|]. apply andb_true_iff in H2 as [Ha Hb]. constructor; auto.
Qed.

Theorem print_parse_AB p : wf_path p = true -> A p /\ B p.
Proof.
  induction p as [pr|q IH|qs IH|qs IH|q IH|q IH|q IH] using path_ind'; intros Hwf.
  - (* predicate *)
    assert (HA : A (PPred pr)).
    { intros f rest Hf. destruct f as [|f]; [simpl in Hf; lia|]. reflexivity. }
    split; [exact HA|]. intros f rest Hf Ht. simpl in Hf.
    destruct f as [|[|[|[|[|f]]]]]; try lia. apply top_of_eltinv; [|lia|exact Ht].
    destruct Ht as [->|[r ->]]; reflexivity.
  - (* inverse *)
    simpl in Hwf. destruct (IH Hwf) as [HAq _].
    assert (HB : B (PInv q)).
    { intros f rest Hf Ht. simpl in Hf. destruct f as [|[|[|f]]]; try lia.
      apply top_of_eltinv; [|lia|exact Ht]. cbn [print wrap app]. cbn [parse_eltinv].
      rewrite (elt_of_A q HAq); [reflexivity|lia|apply topfollow_nomod; exact Ht]. }
    split; [apply A_of_B; [intros n; discriminate|exact HB]|exact HB].
  - (* sequence *)
    apply wf_seq_inv in Hwf as [Hlen Hall].
    assert (HAs : Forall A qs).
    { rewrite Forall_forall in *. intros q Hq. apply (IH q Hq). apply Hall; exact Hq. }
    assert (HB : B (PSeq qs)).
    { intros f rest Hf Ht. rewrite psize_seq in Hf. rewrite print_seq. cbn [wrap].
      destruct qs as [|q1 [|q2 qs]]; simpl in Hlen; try lia.
      inversion HAs as [|? ? HA1 HAr]; subst.
      cbn [map]. rewrite join_cons. rewrite <- app_assoc. rewrite !sum_size_cons in Hf. pose proof (psize_pos q1) as Hq1. pose proof (psize_pos q2) as Hq2.
      destruct f as [|[|[|f]]]; try lia.
      apply alt_of_seq; [|lia|apply topfollow_nobar; exact Ht].
      cbn [parse_seq]. rewrite (eltinv_of_A q1 HA1).
      - rewrite (seq_loop (q2 :: qs) HAr) by (auto; rewrite ?sum_size_cons; lia). rewrite mk_seq_two. reflexivity.
      - lia.
      - apply nomod_flat; [left; reflexivity|apply topfollow_nomod; exact Ht]. }
    split; [apply A_of_B; [intros n; discriminate|exact HB]|exact HB].
  - (* alternative *)
    apply wf_alt_inv in Hwf as [Hlen Hall].
    assert (HAs : Forall A qs).
    { rewrite Forall_forall in *. intros q Hq. apply (IH q Hq). apply Hall; exact Hq. }
    assert (HB : B (PAlt qs)).
    { intros f rest Hf Ht. rewrite psize_alt in Hf. rewrite print_alt. cbn [wrap].
      destruct qs as [|q1 [|q2 qs]]; simpl in Hlen; try lia.
      inversion HAs as [|? ? HA1 HAr]; subst.
      cbn [map]. rewrite join_cons. rewrite <- app_assoc. rewrite !sum_size_cons in Hf. pose proof (psize_pos q1) as Hq1. pose proof (psize_pos q2) as Hq2.
      destruct f as [|[|f]]; try lia. cbn [parse_alt].
      destruct (nomod_noslash_flat_bar (map (print false) (q2 :: qs)) rest Ht) as [Hm Hs].
      rewrite (seq_of_A q1 HA1) by (auto; lia).
      rewrite (alt_loop (q2 :: qs) HAr) by (auto; rewrite ?sum_size_cons; lia). rewrite mk_alt_two. reflexivity. }
    split; [apply A_of_B; [intros n; discriminate|exact HB]|exact HB].
  - simpl in Hwf. destruct (IH Hwf) as [HAq _].
    assert (HB : B (PStar q)).
    { intros f rest Hf Ht. simpl in Hf. destruct f as [|[|[|[|f]]]]; try lia.
      apply top_of_eltinv; [|lia|exact Ht]. cbn [print wrap]. rewrite <- app_assoc. rewrite eltinv_nontop.
      cbn [parse_elt]. rewrite HAq by lia. reflexivity. }
    split; [apply A_of_B; [intros n; discriminate|exact HB]|exact HB].
  - simpl in Hwf. destruct (IH Hwf) as [HAq _].
    assert (HB : B (PPlus q)).
    { intros f rest Hf Ht. simpl in Hf. destruct f as [|[|[|[|f]]]]; try lia.
      apply top_of_eltinv; [|lia|exact Ht]. cbn [print wrap]. rewrite <- app_assoc. rewrite eltinv_nontop.
      cbn [parse_elt]. rewrite HAq by lia. reflexivity. }
    split; [apply A_of_B; [intros n; discriminate|exact HB]|exact HB].
  - simpl in Hwf. destruct (IH Hwf) as [HAq _].
    assert (HB : B (POpt q)).
    { intros f rest Hf Ht. simpl in Hf. destruct f as [|[|[|[|f]]]]; try lia.
      apply top_of_eltinv; [|lia|exact Ht]. cbn [print wrap]. rewrite <- app_assoc. rewrite eltinv_nontop.
      cbn [parse_elt]. rewrite HAq by lia. reflexivity. }
    split; [apply A_of_B; [intros n; discriminate|exact HB]|exact HB].
Qed.


(* the fuel of parse_path suffices: a path has no more nodes than its text has tokens (+1) *)
Definition sum_len (l:list (list tok)) : nat := fold_right (fun x n => length x + n) 0 l.
Lemma join_len_ge sep l : sum_len l <= length (join sep l).
Proof.
  induction l as [|x r IH]; [simpl; lia|]. rewrite join_cons. rewrite app_length. cbn [sum_len fold_right].
  fold (sum_len r). destruct r as [|y r']; [simpl; lia|]. rewrite join_cons in IH. cbn [flat_map].
  rewrite app_length in IH. simpl. rewrite app_length. cbn [sum_len fold_right] in IH. fold (sum_len r') in IH.
  cbn [sum_len fold_right]. fold (sum_len r'). lia.
Qed.

Lemma size_le_tokens p : psize p <= length (print false p) /\ psize p <= length (print true p) + 1.
Proof.
  induction p as [pr|q IH|qs IH|qs IH|q IH|q IH|q IH] using path_ind'.
  - simpl. lia.
  - destruct IH as [I1 _]. cbn [print wrap psize]. simpl. rewrite app_length. simpl. lia.
  - rewrite psize_seq, !print_seq. cbn [wrap]. simpl. rewrite app_length. simpl.
    assert (HS : sum_size qs <= sum_len (map (print false) qs)).
    { induction IH as [|q r [Hq _] _ IHr]; [simpl; lia|]. rewrite sum_size_cons. cbn [map sum_len fold_right].
      fold (sum_len (map (print false) r)). lia. }
    pose proof (join_len_ge TSlash (map (print false) qs)) as HJ.
    lia.
  - rewrite psize_alt, !print_alt. cbn [wrap]. simpl. rewrite app_length. simpl.
    assert (HS : sum_size qs <= sum_len (map (print false) qs)).
    { induction IH as [|q r [Hq _] _ IHr]; [simpl; lia|]. rewrite sum_size_cons. cbn [map sum_len fold_right].
      fold (sum_len (map (print false) r)). lia. }
    pose proof (join_len_ge TBar (map (print false) qs)) as HJ.
    lia.
  - destruct IH as [I1 _]. cbn [print wrap psize]. simpl. rewrite !app_length. simpl. lia.
  - destruct IH as [I1 _]. cbn [print wrap psize]. simpl. rewrite !app_length. simpl. lia.
  - destruct IH as [I1 _]. cbn [print wrap psize]. simpl. rewrite !app_length. simpl. lia.
Qed.

(* the round trip: what the printer writes for a well-formed path is read back, by the SPARQL
   grammar, as exactly that path *)
Theorem print_parse p : wf_path p = true -> parse_path (print true p) = Some p.
Proof.
  intros Hwf. destruct (print_parse_AB p Hwf) as [_ HB]. unfold parse_path.
  specialize (HB (8 * length (print true p) + 8) []). rewrite app_nil_r in HB.
  rewrite HB; [reflexivity| |left; reflexivity].
  destruct (size_le_tokens p) as [_ H]. lia.
Qed.

Corollary print_path_parse p ts : print_path p = Some ts -> parse_path ts = Some p.
Proof.
  unfold print_path. destruct (wf_path p) eqn:Hwf; cbn [andb]; [|discriminate].
  destruct (shallow 12 p); [|discriminate]. intros H. injection H as <-. apply print_parse. exact Hwf.
Qed.

(* without the brackets of nested compound paths the statement is false: p+* is no SPARQL path *)
Example stacked_modifiers_unparsable : parse_path [TIri 1%N; TPlus; TStar] = None /\ parse_path [TCaret; TCaret; TIri 1%N] = None.
Proof. vm_compute. split; reflexivity. Qed.
Example nested_now_bracketed :
  print true (PStar (PPlus (PPred 1%N))) = [TL; TIri 1%N; TPlus; TR; TStar]
  /\ print true (PInv (PInv (PPred 1%N))) = [TCaret; TL; TCaret; TIri 1%N; TR].
Proof. vm_compute. split; reflexivity. Qed.
