(* C07: the batched look-ups of sparql_mode.
   Shape.value_nodes and the *_sparql twins of sh:equals / sh:disjoint / sh:lessThan(OrEquals) ask
   one query for all focus nodes of a batch:
       SELECT ?v0 ... ?vn WHERE { OPTIONAL { $f0 PATH ?v0 } ... OPTIONAL { $fn PATH ?vn } }
   and read column i as the value set of focus i. By the SPARQL algebra the group is a chain of
   LeftJoins of patterns over pairwise disjoint variables, starting from the unit solution. *)
From Coq Require Import List Arith Lia NArith.
From Verif Require Import Base.SetList Base.Terms.
Import ListNotations.

Definition row := list (option term).

(* LeftJoin(rows, { ?v_k |-> s | s in sols }) where ?v_k is fresh: every row is extended by each
   solution, or kept with ?v_k unbound when there is none *)
Definition leftjoin_col (rows:list row) (sols:list term) : list row :=
  flat_map (fun r => match sols with [] => [r ++ [None]] | _ => map (fun v => r ++ [Some v]) sols end) rows.

Definition optional_chain (solss:list (list term)) : list row := fold_left leftjoin_col solss [[]].

(* what the code collects for focus i: the bound values of column i over all rows *)
Definition column (i:nat) (rows:list row) : list term :=
  flat_map (fun r => match nth_error r i with Some (Some v) => [v] | _ => [] end) rows.

Definition all_len (k:nat) (rows:list row) : Prop := Forall (fun r => length r = k) rows.

Lemma leftjoin_len k rows sols : all_len k rows -> all_len (S k) (leftjoin_col rows sols).
Proof.
  unfold all_len, leftjoin_col. intros H. rewrite Forall_forall in *. intros r Hr.
  apply in_flat_map in Hr as (r0 & Hr0 & Hr). specialize (H r0 Hr0).
  destruct sols as [|s sols'].
  - destruct Hr as [<-|[]]. rewrite app_length. simpl. lia.
  - apply in_map_iff in Hr as (v & <- & _). rewrite app_length. simpl. lia.
Qed.

Lemma leftjoin_nonempty rows sols : rows <> [] -> leftjoin_col rows sols <> [].
Proof.
  destruct rows as [|r rows]; [congruence|]. intros _. unfold leftjoin_col. cbn [flat_map].
  destruct sols; simpl; discriminate.
Qed.

(* earlier columns are untouched *)
Lemma leftjoin_old_column k rows sols j v : all_len k rows -> j < k ->
  (In v (column j (leftjoin_col rows sols)) <-> In v (column j rows)).
Proof.
  unfold all_len, column, leftjoin_col. intros H Hj. rewrite Forall_forall in H. rewrite !in_flat_map. split.
  - intros (r & Hr & Hv). apply in_flat_map in Hr as (r0 & Hr0 & Hr). exists r0. split; [exact Hr0|].
    specialize (H r0 Hr0).
    assert (E : nth_error r j = nth_error r0 j).
    { destruct sols as [|s sols'].
      - destruct Hr as [<-|[]]. apply nth_error_app1. lia.
      - apply in_map_iff in Hr as (w & <- & _). apply nth_error_app1. lia. }
    rewrite <- E. exact Hv.
  - intros (r0 & Hr0 & Hv). specialize (H r0 Hr0).
    destruct sols as [|s sols'].
    + exists (r0 ++ [None]). split; [apply in_flat_map; exists r0; split; [exact Hr0|left; reflexivity]|].
      rewrite nth_error_app1 by lia. exact Hv.
    + exists (r0 ++ [Some s]). split; [apply in_flat_map; exists r0; split; [exact Hr0|left; reflexivity]|].
      rewrite nth_error_app1 by lia. exact Hv.
Qed.

(* the new column holds exactly the solutions of its pattern *)
Lemma leftjoin_new_column k rows sols v : all_len k rows -> rows <> [] ->
  (In v (column k (leftjoin_col rows sols)) <-> In v sols).
Proof.
  unfold all_len, column, leftjoin_col. intros H Hne. rewrite Forall_forall in H. rewrite in_flat_map. split.
  - intros (r & Hr & Hv). apply in_flat_map in Hr as (r0 & Hr0 & Hr). specialize (H r0 Hr0).
    destruct sols as [|s sols'].
    + destruct Hr as [<-|[]]. rewrite nth_error_app2 in Hv by lia. rewrite H, Nat.sub_diag in Hv. simpl in Hv. contradiction.
    + apply in_map_iff in Hr as (w & <- & Hw). rewrite nth_error_app2 in Hv by lia. rewrite H, Nat.sub_diag in Hv.
      simpl in Hv. destruct Hv as [<-|[]]. exact Hw.
  - intros Hv. destruct rows as [|r0 rows']; [congruence|]. specialize (H r0 (or_introl eq_refl)).
    exists (r0 ++ [Some v]). split.
    + apply in_flat_map. exists r0. split; [left; reflexivity|].
      destruct sols as [|s sols']; [contradiction|]. apply in_map_iff. exists v. split; [reflexivity|exact Hv].
    + rewrite nth_error_app2 by lia. rewrite H, Nat.sub_diag. simpl. left. reflexivity.
Qed.

Lemma chain_invariant solss : forall k rows, all_len k rows -> rows <> [] ->
  let out := fold_left leftjoin_col solss rows in
  all_len (k + length solss) out /\ out <> []
  /\ (forall j v, j < k -> (In v (column j out) <-> In v (column j rows)))
  /\ (forall i sols v, nth_error solss i = Some sols -> (In v (column (k + i) out) <-> In v sols)).
Proof.
  induction solss as [|s solss IH]; intros k rows Hlen Hne; cbn [fold_left length].
  - rewrite Nat.add_0_r. split; [exact Hlen|]. split; [exact Hne|]. split; [intros; reflexivity|].
    intros i sols v Hi. destruct i; discriminate.
  - specialize (IH (S k) (leftjoin_col rows s) (leftjoin_len k rows s Hlen) (leftjoin_nonempty rows s Hne)).
    cbv zeta in IH. destruct IH as (I1 & I2 & I3 & I4).
    split; [replace (k + S (length solss)) with (S k + length solss) by lia; exact I1|].
    split; [exact I2|]. split.
    + intros j v Hj. rewrite I3 by lia. apply (leftjoin_old_column k); auto.
    + intros i sols v Hi. destruct i as [|i].
      * injection Hi as <-. rewrite Nat.add_0_r. rewrite I3 by lia. apply leftjoin_new_column; auto.
      * cbn [nth_error] in Hi. replace (k + S i) with (S k + i) by lia. apply (I4 i sols v Hi).
Qed.

(* Reading column i of the batched query gives exactly the solutions of pattern i - whatever the
   other patterns of the batch return (none, one, many) *)
Theorem batched_optional_column solss i sols v : nth_error solss i = Some sols ->
  (In v (column i (optional_chain solss)) <-> In v sols).
Proof.
  intros Hi. unfold optional_chain.
  assert (H0 : all_len 0 [[]]) by (constructor; [reflexivity|constructor]).
  assert (H1 : [([]:row)] <> []) by discriminate.
  destruct (chain_invariant solss 0 [[]] H0 H1) as (_ & _ & _ & H). apply (H i sols v Hi).
Qed.

(* the query never returns an empty table, so that an empty column means "no value" *)
Theorem batched_optional_nonempty solss : optional_chain solss <> [].
Proof.
  assert (H0 : all_len 0 [[]]) by (constructor; [reflexivity|constructor]).
  assert (H1 : [([]:row)] <> []) by discriminate.
  destruct (chain_invariant solss 0 [[]] H0 H1) as (_ & H & _). exact H.
Qed.

Lemma flat_map_const_length {X Y} (f:X -> list Y) c l : (forall x, length (f x) = c) -> length (flat_map f l) = length l * c.
Proof. intros H. induction l as [|x l IH]; [reflexivity|]. simpl. rewrite app_length, IH, H. lia. Qed.

(* number of rows: the product of the non-empty solution counts (the cost of the batch) *)
Theorem batched_optional_rows solss :
  length (optional_chain solss) = fold_left (fun n s => n * Nat.max 1 (length s)) solss 1.
Proof.
  unfold optional_chain.
  assert (G : forall n (rows:list row), length rows = n ->
              length (fold_left leftjoin_col solss rows) = fold_left (fun n s => n * Nat.max 1 (length s)) solss n);
    [|apply G; reflexivity].
  induction solss as [|s solss IH]; intros n rows Hn; cbn [fold_left]; [exact Hn|].
  apply IH. rewrite <- Hn. clear. unfold leftjoin_col. destruct s as [|x s'].
  - rewrite (flat_map_const_length _ 1) by reflexivity. f_equal.
  - rewrite (flat_map_const_length _ (S (length s'))) by (intros r; simpl; rewrite map_length; reflexivity). f_equal.
Qed.

(* ---- the target query of sparql_mode (Shape.focus_nodes_sparql) ----
   Kinds of targets with two or more values are put into a VALUES clause holding the PRODUCT of
   their value lists (kinds with one value are bound directly); for every row the query has one
   OPTIONAL per kind, and the focus nodes are the bound values of all columns over all rows. *)
Fixpoint rows_product (ls:list (list term)) : list (list term) :=
  match ls with
  | [] => [[]]
  | l :: rest => flat_map (fun x => map (fun tl => x :: tl) (rows_product rest)) l
  end.

(* sol k v : what the OPTIONAL of kind k returns when its variable is bound to v *)
Definition target_focus (sol:nat -> term -> list term) (kinds:list (list term)) : list term :=
  flat_map (fun row => flat_map (fun kv => sol (fst kv) (snd kv)) (combine (seq 0 (length row)) row)) (rows_product kinds).

Lemma in_rows_product ls row : In row (rows_product ls) <-> Forall2 (fun x l => In x l) row ls.
Proof.
  revert row. induction ls as [|l rest IH]; intros row; cbn [rows_product].
  - split; [intros [<-|[]]; constructor|intros H; inversion H; left; reflexivity].
  - rewrite in_flat_map. split.
    + intros (x & Hx & Hr). apply in_map_iff in Hr as (tl & <- & Htl). constructor; [exact Hx|apply IH; exact Htl].
    + intros H. inversion H as [|x l' tl rest' Hx Htl]; subst. exists x. split; [exact Hx|]. apply in_map_iff. exists tl. split; [reflexivity|apply IH; exact Htl].
Qed.

Lemma combine_seq_nth {X} (row:list X) k v s : nth_error row k = Some v -> In (s + k, v) (combine (seq s (length row)) row).
Proof.
  revert k s. induction row as [|x row IH]; intros k s H; [destruct k; discriminate|].
  destruct k as [|k]; cbn [length seq combine nth_error] in *.
  - injection H as ->. left. f_equal. lia.
  - right. replace (s + S k) with (S s + k) by lia. apply IH. exact H.
Qed.
Lemma in_combine_seq {X} (row:list X) s k v : In (k, v) (combine (seq s (length row)) row) -> exists i, k = s + i /\ nth_error row i = Some v.
Proof.
  revert s. induction row as [|x row IH]; intros s H; [contradiction|]. cbn [length seq combine] in H.
  destruct H as [E|H]; [injection E as <- <-; exists 0; split; [lia|reflexivity]|].
  destruct (IH (S s) H) as (i & -> & Hi). exists (S i). split; [lia|exact Hi].
Qed.

Lemma forall2_nth {X Y} (R:X -> Y -> Prop) l1 l2 : Forall2 R l1 l2 -> forall i x, nth_error l1 i = Some x -> exists y, nth_error l2 i = Some y /\ R x y.
Proof.
  induction 1 as [|a b l1 l2 Hab _ IH]; intros i x Hi; [destruct i; discriminate|].
  destruct i as [|i]; cbn [nth_error] in *; [injection Hi as <-; exists b; auto|apply IH; exact Hi].
Qed.

Lemma exists_row (ls:list (list term)) : Forall (fun l => l <> []) ls -> forall k l v, nth_error ls k = Some l -> In v l ->
  exists row, In row (rows_product ls) /\ nth_error row k = Some v.
Proof.
  induction 1 as [|l0 rest Hne Hrest IH]; intros k l v Hk Hv; [destruct k; discriminate|].
  destruct k as [|k]; cbn [nth_error] in Hk.
  - injection Hk as ->.
    assert (Hr : exists tl, In tl (rows_product rest)).
    { clear -Hrest. induction rest as [|l r IHr]; [exists []; left; reflexivity|]. inversion Hrest as [|? ? Hl Hrest']; subst.
      destruct (IHr Hrest') as (tl & Htl). destruct l as [|x l]; [congruence|]. exists (x :: tl). cbn [rows_product flat_map].
      apply in_or_app. left. apply in_map_iff. exists tl. auto. }
    destruct Hr as (tl & Htl). exists (v :: tl). split; [|reflexivity]. cbn [rows_product]. apply in_flat_map. exists v. split; [exact Hv|].
    apply in_map_iff. exists tl. auto.
  - destruct (IH k l v Hk Hv) as (row & Hrow & Hn). destruct l0 as [|x l0]; [congruence|].
    exists (x :: row). split; [|exact Hn]. cbn [rows_product]. apply in_flat_map. exists x. split; [left; reflexivity|]. apply in_map_iff. exists row. auto.
Qed.

(* every value of every kind is looked up, and nothing else: the focus nodes are exactly the union,
   over the kinds k and their values v, of what kind k's pattern returns for v *)
Theorem target_query_covers_all_values sol kinds x : Forall (fun l => l <> []) kinds ->
  (In x (target_focus sol kinds) <-> exists k l v, nth_error kinds k = Some l /\ In v l /\ In x (sol k v)).
Proof.
  intros Hne. unfold target_focus. rewrite in_flat_map. split.
  - intros (row & Hrow & Hx). apply in_flat_map in Hx as ([k v] & Hkv & Hx). cbn [fst snd] in Hx.
    apply in_combine_seq in Hkv as (i & -> & Hi). apply in_rows_product in Hrow.
    destruct (forall2_nth _ _ _ Hrow i v Hi) as (l & Hl & Hv). exists i, l, v. auto.
  - intros (k & l & v & Hk & Hv & Hx). destruct (exists_row kinds Hne k l v Hk Hv) as (row & Hrow & Hn).
    exists row. split; [exact Hrow|]. apply in_flat_map. exists (k, v). split; [apply (combine_seq_nth row k v 0 Hn)|exact Hx].
Qed.

(* rows built position-wise (zip) instead of as a product lose values when the lists differ in length *)
Example zip_rows_lose_values :
  let kinds := [[IRI 1%N; IRI 2%N]; [IRI 10%N; IRI 11%N; IRI 12%N]] in
  ~ In [IRI 1%N; IRI 12%N] (map (fun p => [fst p; snd p]) (combine (nth 0 kinds []) (nth 1 kinds []))) /\ In [IRI 1%N; IRI 12%N] (rows_product kinds).
Proof. cbn. split; [intros [H|[H|[]]]; discriminate|right; right; left; reflexivity]. Qed.
