(* sh:message templates of SPARQL-based constraints: {?var} and {$var} are placeholders.
   Model of the substitution both code sites perform (SPARQLQueryHelper.bind_messages and
   ConstraintComponent._format_sparql_based_result_message): one left-to-right pass over the
   declared template with the pattern  { [?$] [^{}]+ }  - a template is cut into literal text
   and holes independently of any binding, and a bound hole is replaced by the value as it is. *)
From Coq Require Import List String Ascii Bool.
Import ListNotations.
Open Scope string_scope.

Inductive seg := Lit (s:string) | Hole (sigil:ascii) (name:string).

Definition lbrace : ascii := "{"%char.
Definition rbrace : ascii := "}"%char.
Definition is_sigil (c:ascii) : bool := Ascii.eqb c "?"%char || Ascii.eqb c "$"%char.

(* scanner state: outside a candidate / after "{" / after "{" sigil name *)
Inductive sstate := S0 | S1 | S2 (sigil:ascii) (name:string).

Definition one (c:ascii) : string := String c "".
Definition pending (st:sstate) : string :=
  match st with S0 => "" | S1 => one lbrace | S2 sg n => one lbrace ++ one sg ++ n end.

(* literal characters are emitted one by one; [norm] glues them together afterwards *)
Fixpoint scan (st:sstate) (s:string) : list seg :=
  match s with
  | "" => match st with S0 => [] | _ => [Lit (pending st)] end
  | String c r =>
      match st with
      | S0 => if Ascii.eqb c lbrace then scan S1 r else Lit (one c) :: scan S0 r
      | S1 => if is_sigil c then scan (S2 c "") r
              else if Ascii.eqb c lbrace then Lit (one lbrace) :: scan S1 r
              else Lit (one lbrace) :: Lit (one c) :: scan S0 r
      | S2 sg n =>
          if Ascii.eqb c rbrace then
            match n with
            | "" => Lit (pending st) :: Lit (one c) :: scan S0 r
            | _ => Hole sg n :: scan S0 r
            end
          else if Ascii.eqb c lbrace then Lit (pending st) :: scan S1 r
          else scan (S2 sg (n ++ one c)) r
      end
  end.

Definition parse (s:string) : list seg := scan S0 s.

Definition show (x:seg) : string :=
  match x with Lit s => s | Hole sg n => one lbrace ++ one sg ++ n ++ one rbrace end.

Definition bindings := list (string * string).
Fixpoint lookup (b:bindings) (n:string) : option string :=
  match b with [] => None | (k, v) :: r => if String.eqb k n then Some v else lookup r n end.

Definition render (b:bindings) (x:seg) : string :=
  match x with
  | Lit s => s
  | Hole sg n => match lookup b n with Some v => v | None => show x end
  end.

Definition cat (l:list string) : string := fold_right append "" l.
Definition subst (b:bindings) (template:string) : string := cat (map (render b) (parse template)).

(* names a template mentions *)
Definition holes (template:string) : list string :=
  flat_map (fun x => match x with Hole _ n => [n] | Lit _ => [] end) (parse template).

Fixpoint brace_free (s:string) : bool :=
  match s with "" => true | String c r => negb (Ascii.eqb c lbrace) && negb (Ascii.eqb c rbrace) && brace_free r end.
Fixpoint lbrace_free (s:string) : bool :=
  match s with "" => true | String c r => negb (Ascii.eqb c lbrace) && lbrace_free r end.
