(* C20: what the source classification and the format sniffer of the loader guarantee. *)
From Coq Require Import String Ascii List Bool Arith Lia.
From Verif Require Import Load.Source.
Import ListNotations.
Open Scope string_scope.

(* ---------------- classification ---------------- *)
Lemma marker_not_scheme c r : is_marker c = true ->
  starts "file:" (String c r) = false /\ starts "http:" (String c r) = false /\ starts "https:" (String c r) = false
  /\ Ascii.eqb c "/"%char = false /\ starts "./" (String c r) = false.
Proof. destruct c as [[] [] [] [] [] [] [] []]; simpl; intros H; try discriminate; repeat split; reflexivity. Qed.

(* text that starts with one of # @ < { [ or a line break is RDF data, whatever its length *)
Theorem marker_first_is_data c r : is_marker c = true -> classify_str (String c r) = KData /\ classify_bytes (String c r) = KData.
Proof.
  intros H. destruct (marker_not_scheme c r H) as (H1 & H2 & H3 & H4 & H5).
  unfold classify_str, classify_bytes. rewrite H1, H2, H3, H4, H5, H. cbn [orb andb]. rewrite andb_false_r. split; reflexivity.
Qed.

(* text with a line break that is not an absolute/relative path or a file:/http(s): reference is RDF data *)
Theorem text_with_newline_is_data s :
  contains_nl s = true -> starts "file:" s = false -> starts "http:" s = false -> starts "https:" s = false ->
  starts "/" s = false -> starts "./" s = false -> classify_str s = KData.
Proof.
  intros Hn H1 H2 H3 H4 H5. unfold classify_str. rewrite H1, H2, H3. cbn [orb].
  destruct s as [|c r]; [discriminate|]. rewrite H5, andb_false_r.
  assert (Hc : Ascii.eqb c "/"%char = false).
  { destruct (Ascii.eqb_spec c "/"%char) as [->|]; [simpl in H4; destruct r; discriminate|reflexivity]. }
  rewrite Hc. cbn [orb]. destruct (is_marker c); [reflexivity|]. rewrite Hn. reflexivity.
Qed.
Theorem bytes_with_newline_are_data s :
  contains_nl s = true -> starts "file:" s = false -> starts "http:" s = false -> starts "https:" s = false ->
  classify_bytes s = KData.
Proof.
  intros Hn H1 H2 H3. unfold classify_bytes. rewrite H1, H2, H3. cbn [orb].
  destruct s as [|c r]; [discriminate|]. destruct (is_marker c); [reflexivity|]. rewrite Hn. reflexivity.
Qed.
(* long text is never taken for a file name either *)
Theorem long_text_is_data s c r : s = String c r -> 140 <= String.length s ->
  starts "file:" s = false -> starts "http:" s = false -> starts "https:" s = false ->
  Ascii.eqb c "/"%char = false -> starts "./" s = false -> classify_str s = KData.
Proof.
  intros -> Hl H1 H2 H3 H4 H5. unfold classify_str. rewrite H1, H2, H3, H4, H5. cbn [orb]. rewrite andb_false_r.
  destruct (is_marker c); [reflexivity|]. destruct (contains_nl (String c r)); [reflexivity|].
  destruct (Nat.ltb_spec (String.length (String c r)) 140); [lia|reflexivity].
Qed.

(* ---------------- the sniffer ---------------- *)
Fixpoint all_space (s:string) : bool := match s with EmptyString => true | String c r => is_space c && all_space r end.

Lemma app_assoc_s (a b c:string) : (a ++ b) ++ c = a ++ (b ++ c).
Proof. induction a as [|x a IH]; simpl; [reflexivity|rewrite IH; reflexivity]. Qed.
Lemma length_app_s (a b:string) : String.length (a ++ b) = String.length a + String.length b.
Proof. induction a as [|x a IH]; simpl; [reflexivity|rewrite IH; reflexivity]. Qed.

Lemma readline_app_nonl p s : contains_nl p = false -> readline (p ++ s) = (p ++ fst (readline s), snd (readline s)).
Proof.
  induction p as [|c p IH]; simpl; intros H; [destruct (readline s); reflexivity|].
  apply orb_false_iff in H as [Hc Hp]. rewrite Hc. rewrite (IH Hp). reflexivity.
Qed.
Lemma lstrip_app_space p s : all_space p = true -> lstrip (p ++ s) = lstrip s.
Proof. induction p as [|c p IH]; simpl; intros H; [reflexivity|]. apply andb_true_iff in H as [Hc Hp]. rewrite Hc. apply IH. exact Hp. Qed.
Lemma nl_is_space : is_space nl = true. Proof. reflexivity. Qed.
Lemma space_not_nl_or_nl c : Ascii.eqb c nl = true -> c = nl.
Proof. intros H. apply Ascii.eqb_eq. exact H. Qed.

(* the loop over blank lines ends at the first line with a visible character *)
Lemma first_line_skips_blank c r : is_space c = false ->
  forall ws p fuel, all_space ws = true -> all_space p = true -> contains_nl p = false -> String.length ws < fuel ->
  first_line fuel (p ++ ws ++ String c r) = Some (fst (readline (String c r))).
Proof.
  intros Hc. assert (Hcn : Ascii.eqb c nl = false).
  { destruct (Ascii.eqb_spec c nl) as [->|]; [rewrite nl_is_space in Hc; discriminate|reflexivity]. }
  induction ws as [|a ws IH]; intros p fuel Hws Hp Hpn Hf.
  - destruct fuel as [|fuel]; [simpl in Hf; lia|]. cbn [first_line]. cbn [append]. rewrite (readline_app_nonl p _ Hpn).
    cbn [readline]. rewrite Hcn. destruct (readline r) as [l rest]. cbn [fst snd].
    assert (E : lstrip (p ++ String c l) = String c l) by (rewrite (lstrip_app_space p _ Hp); simpl; rewrite Hc; reflexivity).
    rewrite E. destruct (p ++ String c l) eqn:Ep; [destruct p; discriminate|reflexivity].
  - simpl in Hws. apply andb_true_iff in Hws as [Ha Hws]. destruct fuel as [|fuel]; [simpl in Hf; lia|]. simpl in Hf.
    destruct (Ascii.eqb a nl) eqn:Ea.
    + apply Ascii.eqb_eq in Ea. subst a. cbn [first_line]. cbn [append]. rewrite (readline_app_nonl p _ Hpn).
      cbn [readline]. rewrite Ascii.eqb_refl. cbn [fst snd].
      assert (E : lstrip (p ++ String nl "") = "") by (rewrite (lstrip_app_space p _ Hp); reflexivity).
      rewrite E. destruct (p ++ String nl "") eqn:Ep; [destruct p; discriminate|].
      specialize (IH "" fuel Hws eq_refl eq_refl). cbn [append] in IH. apply IH. lia.
    + assert (Hp' : all_space (p ++ String a "") = true).
      { clear -Hp Ha. induction p as [|x p IHp]; simpl in *; [rewrite Ha; reflexivity|]. apply andb_true_iff in Hp as [H1 H2]. rewrite H1. apply IHp. exact H2. }
      assert (Hpn' : contains_nl (p ++ String a "") = false).
      { clear -Hpn Ea. induction p as [|x p IHp]; simpl in *; [rewrite Ea; reflexivity|]. apply orb_false_iff in Hpn as [H1 H2]. rewrite H1. apply IHp. exact H2. }
      specialize (IH (p ++ String a "") (S fuel) Hws Hp' Hpn'). rewrite app_assoc_s in IH. cbn [append] in IH. apply IH. lia.
Qed.

Lemma lower_char_space c : is_space (lower_char c) = is_space c.
Proof. destruct c as [[] [] [] [] [] [] [] []]; reflexivity. Qed.
Lemma lower_char_nl c : Ascii.eqb (lower_char c) nl = Ascii.eqb c nl.
Proof. destruct c as [[] [] [] [] [] [] [] []]; reflexivity. Qed.
Lemma lower_app a b : lower (a ++ b) = lower a ++ lower b.
Proof. induction a as [|c a IH]; simpl; [reflexivity|rewrite IH; reflexivity]. Qed.
Lemma lower_length a : String.length (lower a) = String.length a.
Proof. induction a as [|c a IH]; simpl; [reflexivity|rewrite IH; reflexivity]. Qed.
Lemma contains_nl_lower a : contains_nl (lower a) = contains_nl a.
Proof. induction a as [|c a IH]; simpl; [reflexivity|rewrite IH, lower_char_nl; reflexivity]. Qed.
Lemma take_app a b n : String.length a <= n -> take n (a ++ b) = a ++ take (n - String.length a) b.
Proof.
  revert n. induction a as [|c a IH]; intros n H; simpl in *; [rewrite Nat.sub_0_r; reflexivity|].
  destruct n as [|n]; [lia|]. simpl. rewrite IH by lia. reflexivity.
Qed.
Lemma starts_app p x : starts p (p ++ x) = true.
Proof.
  unfold starts. induction p as [|c p IH]; simpl; [destruct x; reflexivity|].
  destruct (ascii_dec c c) as [_|N]; [exact IH|contradiction].
Qed.

Definition turtle_markers : list string := ["@prefix "; "prefix "; "@base "; "base "; "# baseuri:"].
Definition xml_markers : list string := ["<?xml"; "<xml"; "<rdf:"].

(* the decision on the lower-cased first 15 characters, for each marker *)
Lemma decide_turtle m y : In m turtle_markers ->
  (if starts "<!doctype html" (m ++ y) || starts "<html" (m ++ y) then SHtml
   else if starts "@prefix " (m ++ y) || starts "prefix " (m ++ y) || starts "@base " (m ++ y) || starts "base " (m ++ y) || starts "# baseuri:" (m ++ y)
        then SFormat (Some FTurtle)
        else SFormat (if starts "<?xml" (m ++ y) || starts "<xml" (m ++ y) || starts "<rdf:" (m ++ y) then Some FXml else None))
  = SFormat (Some FTurtle).
Proof.
  intros [<-|[<-|[<-|[<-|[<-|[]]]]]].
  - rewrite (starts_app "@prefix " y). reflexivity.
  - rewrite (starts_app "prefix " y). reflexivity.
  - rewrite (starts_app "@base " y). reflexivity.
  - rewrite (starts_app "base " y). reflexivity.
  - rewrite (starts_app "# baseuri:" y). reflexivity.
Qed.

Lemma decide_xml m y : In m xml_markers ->
  (if starts "<!doctype html" (m ++ y) || starts "<html" (m ++ y) then SHtml
   else if starts "@prefix " (m ++ y) || starts "prefix " (m ++ y) || starts "@base " (m ++ y) || starts "base " (m ++ y) || starts "# baseuri:" (m ++ y)
        then SFormat (Some FTurtle)
        else SFormat (if starts "<?xml" (m ++ y) || starts "<xml" (m ++ y) || starts "<rdf:" (m ++ y) then Some FXml else None))
  = SFormat (Some FXml).
Proof.
  intros [<-|[<-|[<-|[]]]].
  - rewrite (starts_app "<?xml" y). reflexivity.
  - rewrite (starts_app "<xml" y). reflexivity.
  - rewrite (starts_app "<rdf:" y). reflexivity.
Qed.

Lemma marker_shape m : In (lower m) (turtle_markers ++ xml_markers) ->
  String.length m <= 15 /\ contains_nl m = false /\ exists c r, m = String c r /\ is_space c = false.
Proof.
  intros H. assert (Hl : String.length (lower m) <= 15 /\ contains_nl (lower m) = false /\ exists c r, lower m = String c r /\ is_space c = false).
  { simpl in H. repeat (destruct H as [<-|H]; [simpl; repeat split; try lia; eexists _, _; split; reflexivity|]). contradiction. }
  destruct Hl as (L1 & L2 & c & r & E & Hc). rewrite lower_length in L1. rewrite contains_nl_lower in L2.
  split; [exact L1|]. split; [exact L2|]. destruct m as [|c0 m']; [discriminate|]. simpl in E. injection E as Ec _.
  exists c0, m'. split; [reflexivity|]. rewrite <- lower_char_space, Ec. exact Hc.
Qed.

Lemma sniff_unfold ws m rest : all_space ws = true -> In (lower m) (turtle_markers ++ xml_markers) ->
  first_line (S (String.length (ws ++ m ++ rest))) (ws ++ m ++ rest) = Some (m ++ fst (readline rest)).
Proof.
  intros Hws Hm. destruct (marker_shape m Hm) as (Hlen & Hnl & c & r & -> & Hc).
  pose proof (first_line_skips_blank c (r ++ rest) Hc ws "" (S (String.length (ws ++ String c r ++ rest))) Hws eq_refl eq_refl) as H.
  cbn [append] in H. cbn [append]. rewrite H by (rewrite length_app_s; lia).
  f_equal. change (String c (r ++ rest)) with (String c r ++ rest). rewrite (readline_app_nonl (String c r) rest Hnl). reflexivity.
Qed.

(* A document whose first visible characters - after any blank lines and indentation - spell a
   Turtle header in any letter case (@prefix, PREFIX, @base, BASE, "# baseURI:") is read as Turtle;
   an XML declaration or <rdf: root as RDF/XML. *)
Theorem sniff_turtle ws m rest : all_space ws = true -> In (lower m) turtle_markers ->
  sniff (ws ++ m ++ rest) = SFormat (Some FTurtle).
Proof.
  intros Hws Hm. assert (Hm' : In (lower m) (turtle_markers ++ xml_markers)) by (apply in_or_app; left; exact Hm).
  unfold sniff. rewrite (sniff_unfold ws m rest Hws Hm'). destruct (marker_shape m Hm') as (Hlen & _).
  rewrite (take_app m _ 15 Hlen), lower_app. apply decide_turtle. exact Hm.
Qed.
Theorem sniff_xml ws m rest : all_space ws = true -> In (lower m) xml_markers ->
  sniff (ws ++ m ++ rest) = SFormat (Some FXml).
Proof.
  intros Hws Hm. assert (Hm' : In (lower m) (turtle_markers ++ xml_markers)) by (apply in_or_app; right; exact Hm).
  unfold sniff. rewrite (sniff_unfold ws m rest Hws Hm'). destruct (marker_shape m Hm') as (Hlen & _).
  rewrite (take_app m _ 15 Hlen), lower_app. apply decide_xml. exact Hm.
Qed.

(* an empty or blank document has no first line: the sniffer answers (it used to loop forever) *)
Theorem sniff_blank ws : all_space ws = true -> sniff ws = SFormat None.
Proof.
  intros H. unfold sniff.
  assert (G : forall fuel s, all_space s = true -> first_line fuel s = None).
  { induction fuel as [|fuel IH]; intros s Hs; [reflexivity|]. cbn [first_line].
    destruct (readline s) as [l rest] eqn:E. destruct l as [|c l]; [reflexivity|].
    assert (Hl : all_space (String c l) = true /\ all_space rest = true).
    { clear -E Hs. revert c l rest E. induction s as [|a s IHs]; intros c l rest E; simpl in E; [discriminate|].
      simpl in Hs. apply andb_true_iff in Hs as [Ha Hs]. destruct (Ascii.eqb a nl).
      - injection E as <- <- <-. simpl. rewrite Ha. auto.
      - destruct (readline s) as [l0 r0] eqn:E0. injection E as <- <- <-. destruct l0 as [|c0 l0].
        + simpl. rewrite Ha. split; [reflexivity|]. destruct s; simpl in E0; [injection E0 as <-; reflexivity|].
          destruct (Ascii.eqb a0 nl); [discriminate|destruct (readline s); discriminate].
        + destruct (IHs Hs c0 l0 r0 eq_refl) as [I1 I2]. simpl. rewrite Ha. simpl in I1. rewrite I1. auto. }
    destruct Hl as [Hl Hr]. assert (Els : lstrip (String c l) = "").
    { clear -Hl. generalize (String c l) Hl. induction s as [|a s IHs]; simpl; intros H; [reflexivity|]. apply andb_true_iff in H as [Ha Hs]. rewrite Ha. apply IHs. exact Hs. }
    rewrite Els. apply IH. exact Hr. }
  rewrite G by exact H. reflexivity.
Qed.

(* file names: the extension table *)
Theorem extension_table :
  ext_format "data.ttl" = Some FTurtle /\ ext_format "data.nt" = Some FNt /\ ext_format "data.n3" = Some FN3
  /\ ext_format "data.json" = Some FJsonLd /\ ext_format "data.xml" = Some FXml /\ ext_format "data.rdf" = Some FXml
  /\ ext_format "data.nq" = Some FNquads /\ ext_format "data.trig" = Some FTrig /\ ext_format "data" = None.
Proof. vm_compute. repeat split. Qed.
Lemma ends_app base suffix : ends suffix (base ++ suffix) = true.
Proof.
  induction base as [|c b IH]; cbn [append].
  - destruct suffix; simpl; [reflexivity|]. rewrite Ascii.eqb_refl, String.eqb_refl. reflexivity.
  - cbn [ends]. destruct (String.eqb suffix (String c (b ++ suffix))); [reflexivity|exact IH].
Qed.
Theorem turtle_extension base : ext_format (base ++ ".ttl") = Some FTurtle.
Proof. unfold ext_format. rewrite ends_app. reflexivity. Qed.
