(* C20: hand-written model of the source-kind and format detection of
   pyshacl/rdfutil/load.py load_from_source, over actual character strings. *)
From Coq Require Import String Ascii List Bool Arith.
Import ListNotations.
Open Scope string_scope.

Definition nl : ascii := "010"%char.
Definition is_space (c:ascii) : bool :=          (* what bytes.lstrip() removes *)
  match nat_of_ascii c with 32 | 9 | 10 | 13 | 11 | 12 => true | _ => false end.
Fixpoint contains_nl (s:string) : bool :=
  match s with EmptyString => false | String c r => Ascii.eqb c nl || contains_nl r end.
Fixpoint lstrip (s:string) : string :=
  match s with String c r => if is_space c then lstrip r else s | EmptyString => EmptyString end.
Definition lower_char (c:ascii) : ascii :=
  let n := nat_of_ascii c in if Nat.leb 65 n && Nat.leb n 90 then ascii_of_nat (n + 32) else c.
Fixpoint lower (s:string) : string := match s with EmptyString => EmptyString | String c r => String (lower_char c) (lower r) end.
Fixpoint take (n:nat) (s:string) : string :=
  match n, s with S n', String c r => String c (take n' r) | _, _ => EmptyString end.
Definition starts (p s:string) : bool := String.prefix p s.
Fixpoint ends (suffix s:string) : bool :=
  if String.eqb suffix s then true else match s with EmptyString => false | String _ r => ends suffix r end.

(* ---- which kind of thing is a str / bytes source ---- *)
Inductive kind := KFileUri | KWeb | KFile | KData | KError.
Definition kind_eqb (a b:kind) : bool :=
  match a, b with KFileUri, KFileUri | KWeb, KWeb | KFile, KFile | KData, KData | KError, KError => true | _, _ => false end.

Definition is_marker (c:ascii) : bool :=
  match nat_of_ascii c with 35 (* # *) | 64 (* @ *) | 60 (* < *) | 10 | 123 (* { *) | 91 (* [ *) => true | _ => false end.

Definition classify_str (s:string) : kind :=
  if starts "file:" s then KFileUri
  else if starts "http:" s || starts "https:" s then KWeb
  else match s with
       | EmptyString => KData                              (* the empty graph *)
       | String c _ =>
         if Ascii.eqb c "/"%char || (Nat.ltb 2 (String.length s) && starts "./" s) then KFile
         else if is_marker c then KData
         else if contains_nl s then KData
         else if Nat.ltb (String.length s) 140 then KFile
         else KData
       end.

Definition classify_bytes (s:string) : kind :=
  if starts "file:" s || starts "http:" s || starts "https:" s then KError   (* ValueError *)
  else match s with
       | EmptyString => KData                              (* the empty graph *)
       | String c _ =>
         if is_marker c then KData
         else if contains_nl s then KData
         else if Nat.ltb (String.length s) 140 then KFile
         else KData
       end.

(* ---- format from the file name ---- *)
Inductive fmt := FTurtle | FNt | FN3 | FJsonLd | FNquads | FTrig | FXml | FHext.
Definition fmt_eqb (a b:fmt) : bool :=
  match a, b with FTurtle, FTurtle | FNt, FNt | FN3, FN3 | FJsonLd, FJsonLd | FNquads, FNquads | FTrig, FTrig | FXml, FXml | FHext, FHext => true | _, _ => false end.
Definition ofmt_eqb (a b:option fmt) : bool :=
  match a, b with Some x, Some y => fmt_eqb x y | None, None => true | _, _ => false end.

Definition ext_format (filename:string) : option fmt :=
  if ends ".ttl" filename then Some FTurtle
  else if ends ".nt" filename then Some FNt
  else if ends ".n3" filename then Some FN3
  else if ends ".json" filename then Some FJsonLd
  else if ends ".nq" filename || ends ".nquads" filename then Some FNquads
  else if ends ".trig" filename then Some FTrig
  else if ends ".xml" filename || ends ".rdf" filename then Some FXml
  else if ends ".hext" filename then Some FHext
  else None.

(* ---- format from the first non-blank line of the content ---- *)
(* split off the first line (including its line break), as readline() does *)
Fixpoint readline (s:string) : string * string :=
  match s with
  | EmptyString => (EmptyString, EmptyString)
  | String c r => if Ascii.eqb c nl then (String c EmptyString, r) else let '(l, rest) := readline r in (String c l, rest)
  end.

(* the first line that is not blank, left-stripped; None at the end of the stream *)
Fixpoint first_line (fuel:nat) (s:string) : option string :=
  match fuel with
  | O => None
  | S f =>
    let '(l, rest) := readline s in
    match l with
    | EmptyString => None
    | _ => match lstrip l with EmptyString => first_line f rest | l' => Some l' end
    end
  end.

Inductive sniffed := SHtml | SFormat (f:option fmt).
Definition sniffed_eqb (a b:sniffed) : bool :=
  match a, b with SHtml, SHtml => true | SFormat x, SFormat y => ofmt_eqb x y | _, _ => false end.

Definition sniff (content:string) : sniffed :=
  match first_line (S (String.length content)) content with
  | None => SFormat None
  | Some l =>
    let l := lower (take 15 l) in
    if starts "<!doctype html" l || starts "<html" l then SHtml
    else
      let x := if starts "<?xml" l || starts "<xml" l || starts "<rdf:" l then Some FXml else None in
      if starts "@prefix " l || starts "prefix " l || starts "@base " l || starts "base " l || starts "# baseuri:" l
      then SFormat (Some FTurtle) else SFormat x
  end.
