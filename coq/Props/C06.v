(* C06 - verdict, report graph and report text agree and the report is well-formed. *)
From Coq Require Import List NArith Bool.
From Verif Require Import Base.SetList Base.Terms Base.Vocab Paths.Path Shapes.AST Shapes.Leaf Shapes.Eval
  Shapes.EvalProofs Shapes.AbortProofs Shapes.Report.
Import ListNotations.

(* The report built from a verdict c and results rs has one sh:ValidationReport node carrying
   exactly one sh:conforms literal - the verdict - and exactly |rs| sh:result links
   (the number the text states). *)
Theorem C06_report_node : forall report, (forall k, report <> BN k) -> forall base conforms rs,
  count_sp (report_graph report base conforms rs) report p_type = 1
  /\ In (report, p_conforms, bool_lit conforms) (report_graph report base conforms rs)
  /\ count_sp (report_graph report base conforms rs) report p_conforms = 1
  /\ count_sp (report_graph report base conforms rs) report p_result = length rs.
Proof. exact report_node_wf. Qed.
Print Assumptions C06_report_node.

(* Every result node, at any sh:detail nesting depth, is a sh:ValidationResult with exactly one
   sh:focusNode, sh:resultSeverity, sh:sourceConstraintComponent, sh:sourceShape and at most one
   sh:value and sh:resultPath - for every list of results. *)
Theorem C06_result_nodes : forall report, (forall k, report <> BN k) -> forall base conforms rs n parent r,
  In (n, parent, r) (snd (label_all rs base)) ->
  let T := report_graph report base conforms rs in
  count_sp T (BN n) p_type = 1 /\ count_sp T (BN n) p_focus = 1 /\ count_sp T (BN n) p_sev = 1
  /\ count_sp T (BN n) p_comp = 1 /\ count_sp T (BN n) p_shape = 1
  /\ count_sp T (BN n) p_value <= 1 /\ count_sp T (BN n) p_path <= 1.
Proof. intros report Hr base conforms rs n parent r Hin. exact (result_node_wf report Hr base conforms rs n parent r Hin). Qed.
Print Assumptions C06_result_nodes.

(* The verdict is false exactly when some top-level result has a severity that is not waived
   (with no waiver: when there is any result) - with every option combination. *)
Theorem C06_verdict : forall trig W o sg g E c rs,
  validate trig W o sg g E = Ok (c, rs) -> c = all_waived (eopts_of o) rs.
Proof. exact validate_verdict. Qed.
Print Assumptions C06_verdict.

(* the text summary states the same verdict and the same number of results *)
Theorem C06_text : forall c rs, fst (report_text_summary c rs) = c
  /\ match snd (report_text_summary c rs) with Some n => n = length rs | None => rs = [] end.
Proof. intros c rs. split; [reflexivity|]. destruct rs; simpl; auto. Qed.
Print Assumptions C06_text.

(* a non-conforming report is never empty: the RuntimeError of create_validation_report is unreachable *)
Theorem C06_nonconform_has_result : forall trig W o sg g E rs, validate trig W o sg g E = Ok (false, rs) -> rs <> [].
Proof. exact nonconforming_has_result. Qed.
Print Assumptions C06_nonconform_has_result.

Example C06_nonvacuous :
  report_graph (BN 0) 1 false
    [VR (IRI 7) (Some (IRI 8)) None sh_NodeConstraintComponent (IRI 100) t_Violation []
        [VR (IRI 8) None None sh_HasValueConstraintComponent (IRI 101) t_Info [] []]]
  = [(BN 0, p_type, c_report); (BN 0, p_conforms, bool_lit false);
     (BN 0, p_result, BN 1); (BN 1, p_type, c_result); (BN 1, p_comp, IRI sh_NodeConstraintComponent);
     (BN 1, p_shape, IRI 100); (BN 1, p_sev, t_Violation); (BN 1, p_focus, IRI 7); (BN 1, p_value, IRI 8);
     (BN 1, p_detail, BN 2); (BN 2, p_type, c_result); (BN 2, p_comp, IRI sh_HasValueConstraintComponent);
     (BN 2, p_shape, IRI 101); (BN 2, p_sev, t_Info); (BN 2, p_focus, IRI 8)].
Proof. vm_compute. reflexivity. Qed.
