(* C07 - SPARQL remote-graph mode and in-memory mode give the same report. *)
From Coq Require Import List NArith Bool String.
From Verif Require Import Base.SetList Base.Terms Paths.Path Paths.PathProofs Base.Vocab Shapes.AST Shapes.Leaf
  Sparql.PathText Sparql.PathTextProofs Sparql.Optional Sparql.ModeProofs
  Mini.PyMini Gen.T1 Mini.Pipeline Mini.PipelineProofs.
Import ListNotations.

(* The SPARQL text written for a SHACL path is read back by the SPARQL 1.1 path grammar as that
   very path: every nesting of inverse, sequence, alternative and the three modifiers, any depth. *)
Theorem C07_path_text_roundtrip : forall p, wf_path p = true -> parse_path (print true p) = Some p.
Proof. exact print_parse. Qed.
Print Assumptions C07_path_text_roundtrip.

Theorem C07_printer_answers_parse_back : forall p ts, print_path p = Some ts -> parse_path ts = Some p.
Proof. exact print_path_parse. Qed.
Print Assumptions C07_printer_answers_parse_back.

(* The batched query `OPTIONAL { $f0 PATH ?v0 } ... OPTIONAL { $fn PATH ?vn }`: column i holds
   exactly the solutions of pattern i, whatever the other patterns return (none, one or many). *)
Theorem C07_batched_optional : forall solss i sols v, nth_error solss i = Some sols ->
  (In v (column i (optional_chain solss)) <-> In v sols).
Proof. exact batched_optional_column. Qed.
Print Assumptions C07_batched_optional.

(* The target query: kinds of targets with several values go into a VALUES clause holding the product of
   their value lists; the focus nodes collected over all rows and columns are exactly the union, over
   every kind and every one of its values, of what that kind's pattern returns - no value is skipped. *)
Theorem C07_target_query_covers_all_values : forall sol kinds x, Forall (fun l => l <> []) kinds ->
  (In x (target_focus sol kinds) <-> exists k l v, nth_error kinds k = Some l /\ In v l /\ In x (sol k v)).
Proof. exact target_query_covers_all_values. Qed.
Print Assumptions C07_target_query_covers_all_values.

(* Value nodes: for every graph, path, batch of focus nodes - the sparql_mode look-up returns, per
   focus node, the same set as the in-memory evaluator, PROVIDED the engine answers a path
   pattern by the SPARQL path relation (the stated assumption on rdflib / the remote endpoint). *)
Theorem C07_value_nodes_same : forall g engine,
  (forall q x v, In v (engine q x) <-> path_rel g q x v) ->
  forall p foci, wf_path p = true -> shallow 12 p = true -> fits p 0 = true ->
  exists out, sparql_value_nodes engine p foci = Some out /\
  forall i f, nth_error foci i = Some f ->
    exists vs mem, nth_error out i = Some (f, vs) /\ value_nodes g p f = Ok mem /\ forall v, In v vs <-> In v mem.
Proof. exact sparql_mode_value_nodes_eq_memory. Qed.
Print Assumptions C07_value_nodes_same.

(* the twins of sh:equals / sh:disjoint / sh:lessThan(OrEquals) read objects(focus, property) *)
Theorem C07_pair_lookup_same : forall g engine,
  (forall q x v, In v (engine q x) <-> path_rel g q x v) ->
  forall pr foci i f v, nth_error foci i = Some f ->
  (In v (column i (optional_chain (map (engine (PPred pr)) foci))) <-> In (f, IRI pr, v) g).
Proof. exact sparql_pair_lookup. Qed.
Print Assumptions C07_pair_lookup_same.

(* the twin of sh:class decides the SHACL instance relation, like the in-memory has_class *)
Theorem C07_class_same : forall g engine,
  (forall q x v, In v (engine q x) <-> path_rel g q x v) ->
  forall v c, is_lit v = false -> (In c (engine class_path v) <-> has_class g v c = true).
Proof. exact sparql_class_ask. Qed.
Print Assumptions C07_class_same.

(* The data graph is never written to in this mode: no Write event in any run of the program
   generated from Validator.run, for every option valuation with sparql_mode and every fault. *)
Theorem C07_never_writes : forall v fs, In v all_valuations -> In fs fault_sets ->
  v_sparql v = true -> writes (trace (snd (run_validator v fs))) = [].
Proof. exact sparql_mode_never_writes. Qed.
Print Assumptions C07_never_writes.

(* before the fix (cc855f9 in /repo) nested modifiers were written without brackets: no SPARQL path *)
Example C07_stacked_modifiers_unparsable :
  parse_path [TIri 1%N; TPlus; TStar] = None /\ parse_path [TCaret; TCaret; TIri 1%N] = None.
Proof. exact stacked_modifiers_unparsable. Qed.
