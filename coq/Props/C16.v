(* C16 - outcomes use only the documented channels (exception families, exit codes).
   Proved here: the command-line half, over the handler table generated from pyshacl/cli.py. The
   API half (which exception classes can escape validate()) is decided by enumeration of failure
   causes on the real code - see DESIGN.md. *)
From Coq Require Import List NArith String Bool.
From Verif Require Import Gen.T3 Mini.Cli Mini.CliProofs Closure.Worklist Closure.WorklistProofs Gen.T4.
Import ListNotations.
Open Scope string_scope.

Theorem C16_table_wellformed : handlers_wellformed = true.
Proof. exact handlers_wellformed_computed. Qed.
Print Assumptions C16_table_wellformed.

(* whatever exception class (given by its method resolution order) is raised below main():
   status 2 or 3, or 1 with a written ValidationFailure - never the interpreter's own status 1 *)
Theorem C16_every_exception : forall c, In "Exception" c ->
  exit_status (Raised c) = 2%N \/ exit_status (Raised c) = 3%N
  \/ (exit_status (Raised c) = 1%N /\ In "ValidationFailure" c /\ report_written (Raised c) = true).
Proof. exact (every_exception_has_a_documented_status handlers_wellformed_computed). Qed.
Print Assumptions C16_every_exception.

Theorem C16_status_zero : forall o, (forall c, o = Raised c -> In "Exception" c) -> exit_status o = 0%N -> o = Returned true.
Proof. exact (status_zero_means_conforming handlers_wellformed_computed). Qed.
Print Assumptions C16_status_zero.

Theorem C16_status_one : forall o, (forall c, o = Raised c -> In "Exception" c) -> exit_status o = 1%N ->
  report_written o = true /\ (o = Returned false \/ exists c, o = Raised c /\ In "ValidationFailure" c).
Proof. exact (status_one_means_report handlers_wellformed_computed). Qed.
Print Assumptions C16_status_one.

(* the documented families: 2 for errors, 3 for unimplemented features, 1 + text for a validation failure *)
Theorem C16_documented_families : family_codes_ok = true.
Proof. exact family_codes_computed. Qed.
Print Assumptions C16_documented_families.

(* RecursionError is not a documented channel: the closures over rdfs:subClassOf are computed by the work-list
   programs generated from pyshacl/rdfutil/closure.py, which terminate with a result on every graph (no bound on the
   length of a chain), and no call of rdflib's recursive closure generators is left under pyshacl/. *)
Theorem C16_closures_total : forall g pred start,
  (exists r, run_on transitive_subjects_prog g pred start = Some r) /\ (exists r, run_on transitive_objects_prog g pred start = Some r).
Proof. exact closures_total. Qed.
Print Assumptions C16_closures_total.

Example C16_no_recursive_closure_left : recursive_closure_uses = [].
Proof. reflexivity. Qed.
