(* C16 - outcomes use only the documented channels (exception families, exit codes).
   Proved here: the command-line half, over the handler table generated from pyshacl/cli.py. The
   API half (which exception classes can escape validate()) is decided by enumeration of failure
   causes on the real code - see DESIGN.md. *)
From Coq Require Import List NArith String Bool.
From Verif Require Import Gen.T3 Mini.Cli Mini.CliProofs Closure.Worklist Closure.WorklistProofs Gen.T4 Base.Terms Closure.ListCheck Closure.ListCheckProofs Gen.T5 Gen.T6 Mini.Raises Mini.RaisesProofs.
Import ListNotations.
Open Scope string_scope.

Theorem C16_table_wellformed : handlers_wellformed = true.
Proof. exact handlers_wellformed_computed. Qed.
Print Assumptions C16_table_wellformed.

(* whatever exception class (given by its method resolution order) is raised below main():
   status 2 or 3, or 1 with a written ValidationFailure - never the interpreter's own status 1 *)
Theorem C16_every_exception : forall c, In "Exception" c ->
  exit_status (Raised c) = 2%N \/ exit_status (Raised c) = 3%N
  \/ (exit_status (Raised c) = 1%N /\ In "ValidationFailure" c /\ report_written (Raised c) = true).
Proof. exact (every_exception_has_a_documented_status handlers_wellformed_computed). Qed.
Print Assumptions C16_every_exception.

Theorem C16_status_zero : forall o, (forall c, o = Raised c -> In "Exception" c) -> exit_status o = 0%N -> o = Returned true.
Proof. exact (status_zero_means_conforming handlers_wellformed_computed). Qed.
Print Assumptions C16_status_zero.

Theorem C16_status_one : forall o, (forall c, o = Raised c -> In "Exception" c) -> exit_status o = 1%N ->
  report_written o = true /\ (o = Returned false \/ exists c, o = Raised c /\ In "ValidationFailure" c).
Proof. exact (status_one_means_report handlers_wellformed_computed). Qed.
Print Assumptions C16_status_one.

(* the documented families: 2 for errors, 3 for unimplemented features, 1 + text for a validation failure *)
Theorem C16_documented_families : family_codes_ok = true.
Proof. exact family_codes_computed. Qed.
Print Assumptions C16_documented_families.

(* RecursionError is not a documented channel: the closures over rdfs:subClassOf are computed by the work-list
   programs generated from pyshacl/rdfutil/closure.py, which terminate with a result on every graph (no bound on the
   length of a chain), and no call of rdflib's recursive closure generators is left under pyshacl/. *)
Theorem C16_closures_total : forall g pred start,
  (exists r, run_on transitive_subjects_prog g pred start = Some r) /\ (exists r, run_on transitive_objects_prog g pred start = Some r).
Proof. exact closures_total. Qed.
Print Assumptions C16_closures_total.

Example C16_no_recursive_closure_left : recursive_closure_uses = [].
Proof. reflexivity. Qed.

(* Malformed lists are reported through a documented channel: the list check generated from ShapesGraph._check_rdf_lists
   (Tie A, translator/t5.py) never runs out of fuel and accepts exactly the rest maps in which every rdf:rest chain ends -
   ring-shaped and rho-shaped chains alike are rejected (ShapeLoadError), so that after acceptance every list of the shapes
   graph can be enumerated (rdflib's Graph.items() has no cycle to raise its ValueError about). *)
Theorem C16_list_check_decides : forall m,
  check check_rdf_lists_prog m <> OutOfFuel
  /\ (check check_rdf_lists_prog m = Accept <-> forall x, in_dom m x = true -> Good m x).
Proof. exact check_decides. Qed.
Print Assumptions C16_list_check_decides.

Theorem C16_accepted_lists_end : forall m, check check_rdf_lists_prog m = Accept -> forall x, exists fl, steps_out fl m x = true.
Proof. exact accepted_lists_end. Qed.
Print Assumptions C16_accepted_lists_end.

Example C16_list_check_wiring : rejects_second_rest = true /\ rejects_second_first = true /\ check_called_by_constructor = true.
Proof. repeat split. Qed.

Example C16_list_check_nonvacuous :
  check check_rdf_lists_prog [(BN 1, BN 2); (BN 2, IRI 9)] = Accept                       (* a proper list *)
  /\ check check_rdf_lists_prog [(BN 1, BN 2); (BN 2, BN 1)] = Reject                     (* a ring *)
  /\ check check_rdf_lists_prog [(BN 1, BN 2); (BN 2, BN 3); (BN 3, BN 4); (BN 4, BN 3)] = Reject   (* rho shape *)
  /\ check check_rdf_lists_prog [(BN 1, BN 3); (BN 2, BN 3); (BN 3, IRI 9)] = Accept.      (* a shared tail *)
Proof. repeat split; vm_compute; reflexivity. Qed.

(* The API half, as far as the raise statements themselves go (Tie A, translator/t6.py: every `raise` of every module on
   the validate() path): each one raises a class of the documented families or re-raises what it caught, is handled in
   the same function, is the signal of a helper all of whose calls are guarded by a handler for that class, or is one of
   the listed guards on Python argument types / internal invariants (Mini/Raises.v, internal_guards).  Exceptions raised
   implicitly by an expression are outside this census: they are searched for by the enumeration of ill-formed inputs. *)
Theorem C16_raise_census : forall s, In s raise_sites ->
  documented (s_what s) = true \/ s_caught s = true \/ helper_signal s = true \/ is_guard s = true.
Proof. exact raise_census. Qed.
Print Assumptions C16_raise_census.

Theorem C16_helper_calls_guarded : forall c, In c helper_calls -> s_caught c = true \/ fn_is_helper (s_fn c) = true.
Proof. exact helper_calls_guarded. Qed.
Print Assumptions C16_helper_calls_guarded.

(* the same for assert statements (AssertionError is no documented channel): each is one of the listed ones, whose condition the
   component's constructor or pySHACL's own caller has established *)
Theorem C16_assert_census : forall a, In a assert_sites -> assert_ok a = true.
Proof. exact assert_census. Qed.
Print Assumptions C16_assert_census.

Example C16_census_nonvacuous :
  Nat.leb 100 (List.length raise_sites) = true /\ warning_is_caught = true
  /\ documented "ConstraintLoadError" = true /\ documented "ShapeLoadError" = true /\ documented "RuleLoadError" = true
  /\ documented "TypeError" = false /\ documented "RuntimeError" = false /\ documented "ConstraintLoadWarning" = false
  /\ site_ok ("pyshacl/shape.py", "Shape.validate", "TypeError", false, 1%N) = false.
Proof. vm_compute. repeat split; reflexivity. Qed.
