(* C18 - a serialized report is the report; CLI and API agree.
   Proved here (Tie A, tables generated from pyshacl/cli.py and entrypoints.py): every command-line
   option reaches a keyword that validate() reads, and the exit status states the verdict.
   That the serialised bytes parse back to the report graph is a statement about rdflib's
   serialisers and parsers: it is checked differentially (see DESIGN.md), not proved. *)
From Coq Require Import List NArith String Bool.
From Verif Require Import Gen.T3 Mini.Cli Mini.CliProofs.
Import ListNotations.
Open Scope string_scope.

Theorem C18_every_option_is_passed_on : forall d, In d cli_dests ->
  In d structural_dests \/ exists k, In (d, k) cli_passed.
Proof. exact (option_reaches_validate options_reach_computed). Qed.
Print Assumptions C18_every_option_is_passed_on.

Theorem C18_no_option_is_ignored_by_validate : forall d k, In (d, k) cli_passed -> In k validate_keywords.
Proof. exact (keyword_understood keywords_understood_computed). Qed.
Print Assumptions C18_no_option_is_ignored_by_validate.

(* the exit status matches the verdict: 0 iff a conforming report was returned; 1 only with a written
   non-conforming report or validation failure *)
Theorem C18_exit_zero_iff_conforms : forall o, (forall c, o = Raised c -> In "Exception" c) ->
  (exit_status o = 0%N <-> o = Returned true).
Proof.
  intros o H. split; [apply (status_zero_means_conforming handlers_wellformed_computed o H)|].
  intros ->. destruct (finals handlers_wellformed_computed) as (F0 & _). exact F0.
Qed.
Print Assumptions C18_exit_zero_iff_conforms.
Theorem C18_exit_one_has_report : forall o, (forall c, o = Raised c -> In "Exception" c) -> exit_status o = 1%N ->
  report_written o = true /\ (o = Returned false \/ exists c, o = Raised c /\ In "ValidationFailure" c).
Proof. exact (status_one_means_report handlers_wellformed_computed). Qed.
Print Assumptions C18_exit_one_has_report.
