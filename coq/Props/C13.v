(* C13 - focus_nodes / use_shapes select a sub-report of the full validation. *)
From Coq Require Import List NArith Bool.
From Verif Require Import Base.SetList Base.Terms Base.Vocab Paths.Path Shapes.AST Shapes.Leaf Shapes.Eval
  Shapes.EvalProofs Shapes.SelectProofs.
Import ListNotations.

(* focus_nodes = F: every shape is validated exactly on the nodes of F among its own targets.
   The checks carried out on other nodes on their behalf are the unrestricted ones: the
   evaluator (vshape) takes eopts, which does not contain the filter. *)
Theorem C13_focus : forall trig W o sg g E s, focus_filter o <> [] ->
  validate_top trig W o sg g E s None =
  (let kept := filter (fun f => is_iri f && tmem f (focus_filter o)) (focus_nodes sg g s) in
   if isnil kept then Ok (true, []) else validate_top trig W (no_filter o) sg g E s (Some kept)).
Proof. exact focus_filter_narrows. Qed.
Print Assumptions C13_focus.

(* use_shapes = U: the run equals the unrestricted run on the shapes graph in which every other
   shape has lost its target declarations (shapes visited in the order of the environment) -
   with every nested evaluation unchanged, because target declarations are invisible to it. *)
Theorem C13_shapes : forall trig W o sg g E U,
  (forall s, In s E -> tmem (sid s) U = false -> implicit_class sg s = false) ->
  forall L nc acc, incl L E -> abort o && nc = false ->
  run_shapes trig W o sg g (map (keep_selected U) E) (map (keep_selected U) L) None nc acc
  = run_shapes trig W o sg g E (filter (fun s => tmem (sid s) U) L) None nc acc.
Proof. exact use_shapes_is_target_removal. Qed.
Print Assumptions C13_shapes.

Theorem C13_targets_invisible : forall trig W h, same_but_targets h -> forall o g E fuel top ep s foci,
  vshape trig W fuel o g (map h E) top ep (h s) foci = vshape trig W fuel o g E top ep s foci.
Proof. exact vshape_map. Qed.
Print Assumptions C13_targets_invisible.

(* both options: each shape of U is applied to each node of F irrespective of target declarations *)
Theorem C13_both : forall trig W o sg g E use shapes, use <> [] -> focus_filter o <> [] ->
  lookup_selected E use = Ok shapes ->
  validate_sel trig W o sg g E use = run_shapes trig W (no_filter o) sg g E shapes (Some (focus_filter o)) false [].
Proof. exact both_options. Qed.
Print Assumptions C13_both.

(* Non-vacuity: the violation of the selected node a is found on node b (through sh:node) and is
   reported when only a is selected - the defect fixed in /repo 43050c6. *)
Definition N : shape := {| sid := IRI 101; spath := None; deact := false; ssev := t_Violation; smsgs := []; stargets := no_targets;
                           scomps := [CLeaf (LIn [])] |}.
Definition P : shape := {| sid := BN 1; spath := Some (PPred 50); deact := false; ssev := t_Violation; smsgs := []; stargets := no_targets;
                           scomps := [CNode [IRI 101]] |}.
Definition S : shape := {| sid := IRI 100; spath := None; deact := false; ssev := t_Violation; smsgs := [];
   stargets := {| t_nodes := [IRI 1; IRI 2]; t_classes := []; t_implicit := false; t_subjects_of := []; t_objects_of := [] |};
   scomps := [CProperty [BN 1]] |}.
Definition og := {| abort := false; allow_infos := false; allow_warnings := false; max_depth := 15; focus_filter := [IRI 1] |}.
Example C13_nonvacuous :
  validate_impl0 og [] [(IRI 1, IRI 50, IRI 2)] [S; P; N]
  = Ok (false, [VR (IRI 1) (Some (IRI 2)) (Some (IRI 50)) sh_NodeConstraintComponent (BN 1) t_Violation []
                   [VR (IRI 2) (Some (IRI 2)) None sh_InConstraintComponent (IRI 101) t_Violation [] []]]).
Proof. vm_compute. reflexivity. Qed.
