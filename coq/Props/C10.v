(* C10 - a call depends on its current arguments, not on process history. *)
From Coq Require Import List NArith Bool String.
From Verif Require Import Mini.PyMini Gen.T1 Gen.T2 Mini.Pipeline Mini.GlobalState Mini.GlobalProofs.
Import ListNotations.

(* Whatever a call does, and at whichever effectful step of loading the shapes or of the run it
   fails (every option valuation, every single fault position), rdflib's literal-parsing switches
   and the registry of custom SPARQL functions are left as a fresh process has them. *)
Theorem C10_globals_restored : forall clears s o, Inv s -> op_in_domain o -> Inv (fst (step clears s o)).
Proof. exact inv_step. Qed.
Print Assumptions C10_globals_restored.

Theorem C10_globals_every_history : forall clears ops, Forall op_in_domain ops -> forall s, Inv s -> Inv (run clears ops s).
Proof. exact inv_reachable. Qed.
Print Assumptions C10_globals_every_history.

(* After any history of calls (failed or not), edits, collections and allocations at reused
   addresses, a call observes what the same call observes in a fresh process holding equal graphs.
   `code_clears` is computed from the generated constructors. *)
Theorem C10_history_free : forall ops s0 rules v lf rf sa da nodes,
  snd (step code_clears (run code_clears ops s0) (Call rules v lf rf sa da nodes))
  = snd (step code_clears (fresh_with (heap (run code_clears ops s0))) (Call rules v lf rf sa da nodes)).
Proof. exact history_free. Qed.
Print Assumptions C10_history_free.

(* the statement is not vacuous: without the clearing it is false (validate, edit, validate) *)
Theorem C10_needs_clearing :
  snd (step false (run false stale_history init) (Call false v0 [] [] 1%N 1%N [5%N]))
  <> snd (step false (fresh_with (heap (run false stale_history init))) (Call false v0 [] [] 1%N 1%N [5%N])).
Proof. exact stale_cache_refutes_without_clearing. Qed.
Print Assumptions C10_needs_clearing.
