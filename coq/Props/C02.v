(* C02 - a shape validates exactly the focus nodes its target declarations select. *)
From Coq Require Import List NArith Bool Relations.
From Verif Require Import Base.SetList Base.Terms Base.Vocab Paths.Path Shapes.AST Shapes.Leaf Shapes.Eval
  Shapes.TargetProofs.
Import ListNotations.

(* The focus nodes resolved for a shape (the model of Shape.focus_nodes) are, without
   duplicates, exactly: targetNode values (present in the data or not), SHACL instances of
   each targetClass and of the shape itself when it is a SHACL instance of rdfs:Class in the
   shapes graph, subjects of targetSubjectsOf predicates, objects of targetObjectsOf predicates.
   Holds for every data graph: subclass chains, cycles, literal and blank-node objects. *)
Theorem C02_focus : forall sg g s,
  NoDup (focus_nodes sg g s) /\ forall x, In x (focus_nodes sg g s) <-> focus_spec sg g s x.
Proof. exact focus_nodes_correct. Qed.
Print Assumptions C02_focus.

Theorem C02_no_targets : forall sg g s,
  stargets s = no_targets -> implicit_class sg s = false -> focus_nodes sg g s = [].
Proof. exact no_targets_no_focus. Qed.
Print Assumptions C02_no_targets.

(* the class-membership test used for targets and by sh:class is SHACL's instance relation,
   on arbitrary (cyclic) subclass graphs *)
Theorem C02_instances : forall g c x, In x (instances_of g c) <-> shacl_instance g x c.
Proof. exact instances_of_spec. Qed.
Print Assumptions C02_instances.

Theorem C02_implicit_class : forall sg s,
  implicit_class sg s = true <-> shacl_instance sg (sid s) t_rdfs_Class.
Proof. exact implicit_class_spec. Qed.
Print Assumptions C02_implicit_class.

(* Non-vacuity: a subclass cycle, an absent target node, a literal object. *)
Definition ex_g : graph :=
  [(IRI 10, t_rdf_type, IRI 21); (IRI 21, t_subClassOf, IRI 20); (IRI 20, t_subClassOf, IRI 21);
   (IRI 11, IRI 50, LIT 1 0 0)].
Definition ex_s : shape :=
  {| sid := IRI 30; spath := None; deact := false; ssev := t_Violation; smsgs := [];
     stargets := {| t_nodes := [IRI 99]; t_classes := [IRI 20]; t_implicit := false;
                    t_subjects_of := []; t_objects_of := [IRI 50] |};
     scomps := [] |}.
Example C02_nonvacuous : focus_nodes [] ex_g ex_s = [IRI 99; IRI 10; LIT 1 0 0].
Proof. vm_compute. reflexivity. Qed.
