(* C02 - a shape validates exactly the focus nodes its target declarations select. *)
From Coq Require Import List NArith Bool Relations String.
From Verif Require Import Base.SetList Base.Terms Base.Vocab Paths.Path Shapes.AST Shapes.Leaf Shapes.Eval
  Shapes.TargetProofs Closure.Worklist Closure.WorklistProofs Closure.ClosureModel Gen.T4.
Import ListNotations.

(* The focus nodes resolved for a shape (the model of Shape.focus_nodes) are, without
   duplicates, exactly: targetNode values (present in the data or not), SHACL instances of
   each targetClass and of the shape itself when it is a SHACL instance of rdfs:Class in the
   shapes graph, subjects of targetSubjectsOf predicates, objects of targetObjectsOf predicates.
   Holds for every data graph: subclass chains, cycles, literal and blank-node objects. *)
Theorem C02_focus : forall sg g s,
  NoDup (focus_nodes sg g s) /\ forall x, In x (focus_nodes sg g s) <-> focus_spec sg g s x.
Proof. exact focus_nodes_correct. Qed.
Print Assumptions C02_focus.

Theorem C02_no_targets : forall sg g s,
  stargets s = no_targets -> implicit_class sg s = false -> focus_nodes sg g s = [].
Proof. exact no_targets_no_focus. Qed.
Print Assumptions C02_no_targets.

(* the class-membership test used for targets and by sh:class is SHACL's instance relation,
   on arbitrary (cyclic) subclass graphs *)
Theorem C02_instances : forall g c x, In x (instances_of g c) <-> shacl_instance g x c.
Proof. exact instances_of_spec. Qed.
Print Assumptions C02_instances.

Theorem C02_implicit_class : forall sg s,
  implicit_class sg s = true <-> shacl_instance sg (sid s) t_rdfs_Class.
Proof. exact implicit_class_spec. Qed.
Print Assumptions C02_implicit_class.

(* Tie A for the subclass closure: the work-list programs generated from pyshacl/rdfutil/closure.py (as used
   by Shape.focus_nodes and sh:class) terminate on every graph and return, without duplicates, exactly the
   model's subclasses / superclasses - chains of any length, diamonds, cycles, any enumeration order. *)
Theorem C02_closure_code_subclasses : forall g c,
  exists r, run_on transitive_subjects_prog g t_subClassOf c = Some r /\ NoDup r /\ forall y, In y r <-> In y (subclasses g c).
Proof. exact subjects_closure_is_subclasses. Qed.
Print Assumptions C02_closure_code_subclasses.

Theorem C02_closure_code_superclasses : forall g t,
  exists r, run_on transitive_objects_prog g t_subClassOf t = Some r /\ NoDup r /\ forall y, In y r <-> In y (superclasses g t).
Proof. exact objects_closure_is_superclasses. Qed.
Print Assumptions C02_closure_code_superclasses.

(* every call site of the two functions walks rdfs:subClassOf *)
Example C02_closure_call_sites :
  forallb (fun x => String.eqb (snd x) "RDFS_subClassOf") closure_call_sites = true /\ closure_call_sites <> [].
Proof. split; [vm_compute; reflexivity|discriminate]. Qed.

Example C02_closure_nonvacuous :
  run_on transitive_subjects_prog
    [(IRI 2, t_subClassOf, IRI 1); (IRI 4, t_subClassOf, IRI 1); (IRI 2, t_subClassOf, IRI 4); (IRI 5, t_subClassOf, IRI 4);
     (IRI 1, t_subClassOf, IRI 5)] t_subClassOf (IRI 1) = Some [IRI 1; IRI 2; IRI 4; IRI 5].
Proof. vm_compute. reflexivity. Qed.

(* Non-vacuity: a subclass cycle, an absent target node, a literal object. *)
Definition ex_g : graph :=
  [(IRI 10, t_rdf_type, IRI 21); (IRI 21, t_subClassOf, IRI 20); (IRI 20, t_subClassOf, IRI 21);
   (IRI 11, IRI 50, LIT 1 0 0)].
Definition ex_s : shape :=
  {| sid := IRI 30; spath := None; deact := false; ssev := t_Violation; smsgs := [];
     stargets := {| t_nodes := [IRI 99]; t_classes := [IRI 20]; t_implicit := false;
                    t_subjects_of := []; t_objects_of := [IRI 50] |};
     scomps := [] |}.
Example C02_nonvacuous : focus_nodes [] ex_g ex_s = [IRI 99; IRI 10; LIT 1 0 0].
Proof. vm_compute. reflexivity. Qed.
