(* C15 - SHACL rules only add justified triples, in the documented order. *)
From Coq Require Import List NArith ZArith Bool Permutation Sorted.
From Verif Require Import Base.SetList Base.Terms Paths.Path Rules.Rules Rules.RulesProofs.
Import ListNotations.

(* The returned graph contains every input triple; every other triple was produced by an ACTIVE
   rule (never a deactivated one) of one of the shapes ... *)
Theorem C15_only_justified_triples : forall foci_of conf explicit flt it g l g',
  apply_rules foci_of conf explicit flt it g l = Ok g' ->
  incl g g' /\ forall t, In t g' -> In t g \/ justified_any foci_of conf explicit flt l g g' t.
Proof. exact rules_only_add_justified. Qed.
Print Assumptions C15_only_justified_triples.

(* ... namely: rule r of shape s, not deactivated, fired on a focus node a of s (computed on the
   graph ga as it stood when the rule was applied, ga between input and output) that conforms to
   every sh:condition of r on ga, the triple being an instance of r's template on a graph gm
   between ga and the output. *)
Theorem C15_justification : forall foci_of conf explicit flt l lo hi t,
  justified_any foci_of conf explicit flt l lo hi t ->
  exists s r ga gm a ts,
    In s l /\ In r (sr_rules s) /\ r_deact r = false /\
    incl lo ga /\ incl ga gm /\ incl gm hi /\
    In a (focus_list foci_of explicit flt ga (sr_shape s)) /\ (forall c, In c (r_conds r) -> conf ga c a = Ok true) /\
    fire gm (r_kind r) a = Ok ts /\ In t ts.
Proof. exact justified_unfold. Qed.
Print Assumptions C15_justification.

(* Shapes run in ascending sh:order and each shape's rules in ascending sh:order, whatever the
   order in which they were harvested (pairwise distinct values, as the property requires). *)
Theorem C15_shape_order : forall foci_of conf explicit flt it g l l',
  Permutation l l' -> NoDup (map sr_order l) ->
  apply_rules foci_of conf explicit flt it g l = apply_rules foci_of conf explicit flt it g l'.
Proof. exact shape_order_decides. Qed.
Print Assumptions C15_shape_order.
Theorem C15_rule_order : forall foci_of conf explicit flt it g (s s':srules) rest,
  sr_shape s = sr_shape s' -> Permutation (sr_rules s) (sr_rules s') -> NoDup (map r_order (sr_rules s)) ->
  shapes_run foci_of conf explicit flt it g (s :: rest) = shapes_run foci_of conf explicit flt it g (s' :: rest).
Proof. exact rule_order_decides. Qed.
Print Assumptions C15_rule_order.
Theorem C15_ascending : forall (l:list srules), StronglySorted (fun a b => (sr_order a <= sr_order b)%Z) (sort_by sr_order l).
Proof. intros l. apply (sort_by_ascending sr_order). Qed.
Print Assumptions C15_ascending.

(* deactivated rules never fire: the run is the run without them *)
Theorem C15_deactivated_skipped : forall foci_of conf explicit flt it shape rs g m,
  rules_pass foci_of conf explicit flt it g shape rs m
  = rules_pass foci_of conf explicit flt it g shape (filter (fun r => negb (r_deact r)) rs) m.
Proof. exact deactivated_rules_irrelevant. Qed.
Print Assumptions C15_deactivated_skipped.

(* with iterate_rules a shape's rules are re-applied until they add nothing: when the loop of a
   shape ends normally, no active rule of the shape can add a triple to the graph it ended with *)
Theorem C15_iterate_until_quiescent : forall foci_of conf explicit flt fuel g shape rs g',
  shape_loop foci_of conf explicit flt fuel true g shape rs = Ok g' ->
  forall r, In r rs -> quiescent foci_of conf explicit flt g' shape r.
Proof. exact iterate_reaches_quiescence. Qed.
Print Assumptions C15_iterate_until_quiescent.

(* without it, one pass in order; later rules see the triples of earlier ones by construction of rules_pass *)
Theorem C15_single_pass : forall foci_of conf explicit flt fuel g shape rs,
  shape_loop foci_of conf explicit flt (S fuel) false g shape rs
  = bind (rules_pass foci_of conf explicit flt false g shape rs 0) (fun gn => Ok (fst gn)).
Proof. exact single_pass_without_iterate. Qed.
Print Assumptions C15_single_pass.

(* non-vacuity: a two-rule chain where the second rule's condition only holds after the first fired *)
Definition ex_rules : list srules :=
  [{| sr_shape := IRI 10; sr_order := 0;
      sr_rules := [ {| r_id := 2; r_order := 2; r_deact := false; r_conds := [IRI 11];
                       r_kind := RTriple NThis (NConst (IRI 102)) (NConst (IRI 201)) |};
                    {| r_id := 1; r_order := 1; r_deact := false; r_conds := [];
                       r_kind := RTriple NThis (NConst (IRI 101)) (NConst (IRI 200)) |};
                    {| r_id := 3; r_order := 3; r_deact := true; r_conds := [];
                       r_kind := RTriple NThis (NConst (IRI 103)) (NConst (IRI 202)) |} ] |}].
Definition ex_foci (g:graph) (s:term) : list term := [IRI 1].
Definition ex_conf (g:graph) (c f:term) : res bool := Ok (existsb (fun t => triple_eqb t (f, IRI 101, IRI 200)) g).
Example C15_nonvacuous :
  apply_rules ex_foci ex_conf None [] false [] ex_rules = Ok [(IRI 1, IRI 101, IRI 200); (IRI 1, IRI 102, IRI 201)].
Proof. vm_compute. reflexivity. Qed.
