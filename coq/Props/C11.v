(* C11 - allow_infos / allow_warnings only relax the verdict. *)
From Coq Require Import List NArith Bool.
From Verif Require Import Base.SetList Base.Terms Base.Vocab Paths.Path Shapes.AST Shapes.Leaf Shapes.Eval
  Shapes.EvalProofs.
Import ListNotations.

(* With any combination of the options (and with or without abort_on_first) the verdict is
   'conforms' exactly when every reported top-level result has a waived severity. *)
Theorem C11_verdict : forall o sg g E c rs,
  validate o sg g E = Ok (c, rs) -> c = all_waived (eopts_of o) rs.
Proof. exact validate_verdict. Qed.
Print Assumptions C11_verdict.
