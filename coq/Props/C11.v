(* C11 - allow_infos / allow_warnings only relax the verdict. *)
From Coq Require Import List NArith Bool.
From Verif Require Import Base.SetList Base.Terms Base.Vocab Paths.Path Shapes.AST Shapes.Leaf Shapes.Eval
  Shapes.EvalProofs Shapes.EvalExt.
Import ListNotations.

(* With any combination of the options (and with or without abort_on_first) the verdict is
   'conforms' exactly when every reported top-level result has a waived severity
   (with no waiver: exactly when there is no result). *)
Theorem C11_verdict : forall trig W o sg g E c rs,
  validate trig W o sg g E = Ok (c, rs) -> c = all_waived (eopts_of o) rs.
Proof. exact validate_verdict. Qed.
Print Assumptions C11_verdict.

(* Turning the options on or off never changes which results are reported
   (same list, hence same set; same failure if the run fails). *)
Theorem C11_same_results : forall trig W o o' sg g E, same_but_waivers o o' ->
  res_snd (validate trig W o sg g E) = res_snd (validate trig W o' sg g E).
Proof. exact validate_same_results. Qed.
Print Assumptions C11_same_results.

(* conforms(default) -> conforms(allow_infos) -> conforms(allow_warnings) *)
Theorem C11_monotone : forall trig W o o' sg g E c rs c' rs', same_but_waivers o o' ->
  incl (allowed_severities o) (allowed_severities o') ->
  validate trig W o sg g E = Ok (c, rs) -> validate trig W o' sg g E = Ok (c', rs') ->
  rs = rs' /\ (c = true -> c' = true).
Proof. exact validate_monotone. Qed.
Print Assumptions C11_monotone.

(* the waiver sets are ordered as the statement says *)
Example C11_waiver_chain : forall o,
  incl (allowed_severities {| abort := abort o; allow_infos := false; allow_warnings := false; max_depth := max_depth o; focus_filter := focus_filter o |})
       (allowed_severities {| abort := abort o; allow_infos := true; allow_warnings := false; max_depth := max_depth o; focus_filter := focus_filter o |})
  /\ incl (allowed_severities {| abort := abort o; allow_infos := true; allow_warnings := false; max_depth := max_depth o; focus_filter := focus_filter o |})
          (allowed_severities {| abort := abort o; allow_infos := false; allow_warnings := true; max_depth := max_depth o; focus_filter := focus_filter o |}).
Proof. intros o. unfold allowed_severities; simpl. split; intros x; simpl; tauto. Qed.

(* Non-vacuity: sh:not over an Info-severity shape that fails. The waiver does not flip the
   nested conformance (the defect fixed in /repo 4cb5e8c), the result list is the same under
   the three settings and the verdicts are monotone. *)
Definition T : shape := {| sid := IRI 101; spath := None; deact := false; ssev := t_Info; smsgs := []; stargets := no_targets;
                           scomps := [CLeaf (LIn [])] |}.
Definition S : shape := {| sid := IRI 100; spath := None; deact := false; ssev := t_Violation; smsgs := [];
                           stargets := {| t_nodes := [IRI 7]; t_classes := []; t_implicit := false; t_subjects_of := []; t_objects_of := [] |};
                           scomps := [CNot [IRI 101]] |}.
Definition U : shape := {| sid := IRI 102; spath := None; deact := false; ssev := t_Info; smsgs := [];
                           stargets := {| t_nodes := [IRI 7]; t_classes := []; t_implicit := false; t_subjects_of := []; t_objects_of := [] |};
                           scomps := [CLeaf (LIn [])] |}.
Definition oo (i w:bool) := {| abort := false; allow_infos := i; allow_warnings := w; max_depth := 15; focus_filter := [] |}.
Example C11_nonvacuous :
  validate_impl0 (oo false false) [] [] [S; T; U] = Ok (false, [VR (IRI 7) (Some (IRI 7)) None sh_InConstraintComponent (IRI 102) t_Info [] []])
  /\ validate_impl0 (oo true false) [] [] [S; T; U] = Ok (true, [VR (IRI 7) (Some (IRI 7)) None sh_InConstraintComponent (IRI 102) t_Info [] []]).
Proof. vm_compute. split; reflexivity. Qed.
