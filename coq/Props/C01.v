(* C01 - core constraint components flag exactly the value nodes the SHACL text names. *)
From Coq Require Import List NArith ZArith QArith Bool.
From Verif Require Import Base.SetList Base.Terms Base.Vocab Paths.Path Shapes.AST Shapes.Leaf Shapes.Eval
  Shapes.EvalProofs Shapes.TargetProofs Shapes.LeafSpec.
Import ListNotations.
Local Close Scope Q_scope.

(* Every leaf component of the model reports exactly the results its W3C textual definition
   prescribes (leaf_spec), for every data graph, focus node and set of value nodes. *)
Theorem C01_component : forall W g l f vs b, In b (leaf_bad W g l f vs) <-> leaf_spec W g l f vs b.
Proof. exact leaf_bad_spec. Qed.
Print Assumptions C01_component.

(* Lifted to shapes made of leaf components (without abort_on_first): the results of the shape
   are exactly those of its components, for each focus node and its value nodes. *)
Theorem C01_shape : forall trig W o g E fuel top ep s foci cr fvs,
  e_abort o = false ->
  (forall c, In c (scomps s) -> exists l, c = CLeaf l) ->
  shape_value_nodes g s foci = Ok fvs ->
  vshape trig W (S fuel) o g E top ep s foci = Ok cr ->
  deact s = false -> foci <> [] ->
  forall r, In r (snd cr) <->
    exists l f vs b, In (CLeaf l) (scomps s) /\ In (f, vs) fvs /\ leaf_spec W g l f vs b
                     /\ r = mk s (leaf_comp l) f b [].
Proof. exact leaf_shape_results. Qed.
Print Assumptions C01_shape.

(* The value-range components evaluate SPARQL's "$bound < v" (<=, >, >=) by the operator mapping:
   numerics by value (exact rationals, +-INF), simple literals/xsd:string by code point, booleans,
   xsd:dateTime only both with or both without timezone, xsd:date; everything else - different
   operand classes, ill-typed literals, IRIs, blank nodes - is incomparable and violates. *)
Theorem C01_range : forall W op b v, range_ok W op b v = true <-> range_spec W op b v.
Proof. exact range_ok_spec. Qed.
Print Assumptions C01_range.

(* sh:lessThan / sh:lessThanOrEquals use the same order on literals; wrongly-kinded pairs violate *)
Theorem C01_order : forall W eq v c, is_lit v = true -> is_lit c = true ->
  (in_order W eq v c = true <->
   (if eq then sparql_le (kind_of W v) (kind_of W c) = Some true else sparql_lt (kind_of W v) (kind_of W c) = Some true)).
Proof. exact in_order_spec. Qed.
Print Assumptions C01_order.
Theorem C01_order_wrong_kind : forall W eq v c,
  is_bnode v = true \/ is_bnode c = true \/ is_lit v <> is_lit c -> in_order W eq v c = false.
Proof. exact in_order_wrong_kind. Qed.
Print Assumptions C01_order_wrong_kind.

(* sh:languageIn is SPARQL langMatches (RFC 4647 basic filtering) over the members of the list *)
Theorem C01_languageIn : forall W ranges v,
  language_in W ranges v = true <-> exists r, In r ranges /\ lang_matches r (lang_of W v) = true.
Proof. exact language_in_spec. Qed.
Print Assumptions C01_languageIn.

(* sh:uniqueLang: one result per non-empty language tag used by at least two value nodes *)
Theorem C01_uniqueLang : forall vs l, In l (dup_langs [] [] vs) <-> (l <> 0%N /\ 2 <= count_lang l vs).
Proof. exact unique_lang_spec. Qed.
Print Assumptions C01_uniqueLang.
Theorem C01_uniqueLang_once : forall vs seen dups, NoDup dups -> NoDup (dup_langs seen dups vs).
Proof. exact dup_langs_nodup. Qed.
Print Assumptions C01_uniqueLang_once.

(* sh:class uses SHACL's instance relation (rdf:type followed by zero or more rdfs:subClassOf), on cyclic graphs too *)
Theorem C01_class : forall g v c, is_lit v = false -> (has_class g v c = true <-> shacl_instance g v c).
Proof. exact has_class_spec. Qed.
Print Assumptions C01_class.

(* the verdict of a component is 'conforms' exactly when it reports nothing *)
Theorem C01_verdict : forall trig W nested g E s fvs ep c cr,
  nested_good nested -> evalc trig W nested g E s fvs ep c = Ok cr -> (fst cr = true <-> snd cr = []).
Proof. exact evalc_good. Qed.
Print Assumptions C01_verdict.

(* Non-vacuity / the defect repaired in /repo 460dded: an integer against a dateTime bound. *)
Definition Wx : world :=
  {| w_kind := [(LIT 1 2 0, KNum (Qmake 5 1)); (LIT 3 4 0, KDateTime true 1577836800000000%Z)];
     w_dinfo := []; w_len := []; w_regex := []; w_lang := [] |}.
Example C01_nonvacuous :
  leaf_bad Wx [] (LMinIncl [LIT 3 4 0]) (IRI 9) [LIT 1 2 0] = [Some (LIT 1 2 0)]
  /\ leaf_bad Wx [] (LMinIncl [LIT 1 2 0]) (IRI 9) [LIT 1 2 0] = [].
Proof. vm_compute. split; reflexivity. Qed.
