(* C08 - caller's data and ontology graphs are not modified unless inplace is set.
   The programs these theorems speak about (coq/Gen/T1.v) are regenerated from
   /repo/pyshacl/validator.py and rule_expand_runner.py by translator/t1.py on every run. *)
From Coq Require Import List NArith Bool String.
From Verif Require Import Mini.PyMini Gen.T1 Mini.Pipeline Mini.PipelineProofs.
Import ListNotations.

(* For every combination of {ontology absent/present} x {inplace} x {pre_inferenced} x {Graph /
   multi-graph container} x {inference None, none, rdfs, owlrl, both} x {advanced} x {sparql_mode} x
   {functions declared} x {rules declared} - 1280 valuations - and for every point at which a
   callee may fail (none, or the k-th effectful call, k < 12): the translated decision code of
   validate() never gets stuck, never writes to the caller's ontology graph object, and writes to
   the caller's data graph object only when inplace was requested. *)
Theorem C08_validate_no_write : forall v fs, In v all_valuations -> In fs fault_sets ->
  not_stuck (run_validator v fs) = true
  /\ no_write_to [CALLER_ONT] (run_validator v fs) = true
  /\ (v_inplace v = false -> no_write_to [CALLER_DATA] (run_validator v fs) = true).
Proof. exact validator_no_caller_write. Qed.
Print Assumptions C08_validate_no_write.

(* the same for shacl_rules() *)
Theorem C08_rules_no_write : forall v fs, In v all_valuations -> In fs fault_sets ->
  not_stuck (run_rules v fs) = true
  /\ no_write_to [CALLER_ONT] (run_rules v fs) = true
  /\ (v_inplace v = false -> no_write_to [CALLER_DATA] (run_rules v fs) = true).
Proof. exact rules_no_caller_write. Qed.
Print Assumptions C08_rules_no_write.

Theorem C08_domain_size : List.length all_valuations = 1280.
Proof. exact all_valuations_count. Qed.
Print Assumptions C08_domain_size.

(* Non-vacuity: with an ontology, rdfs inference and rules the data graph is cloned once and
   all three writers aim at the clone. *)
Example C08_nonvacuous :
  trace (snd (run_validator {| v_ont := true; v_inplace := false; v_preinf := false; v_multi := false;
                               v_inference := Some "rdfs"; v_advanced := true; v_sparql := false;
                               v_functions := false; v_rules := true |} []))
  = [Clone 0 10; Write 10; Write 10; Write 10; Noted "validate_shapes"].
Proof. vm_compute. reflexivity. Qed.
