(* C03 — property-path value nodes follow SPARQL 1.1 property-path semantics.
   This file contains only the property theorems; proofs live in Paths/PathProofs.v. *)
From Coq Require Import List NArith Bool Relations.
From Verif Require Import Base.SetList Base.Terms Paths.Path Paths.PathProofs.
Import ListNotations.

(* For every well-formed path within the supported depth, every graph (cyclic or
   not) and every focus node, the evaluator answers, without duplicates, exactly
   the nodes related to the focus by the SPARQL 1.1 path relation. *)
Theorem C03_sound_complete : forall g p x,
  wf_path p = true -> fits p 0 = true ->
  exists vs, value_nodes g p x = Ok vs /\ NoDup vs /\ forall y, In y vs <-> path_rel g p x y.
Proof. exact eval_path_main. Qed.
Print Assumptions C03_sound_complete.

(* Whatever the path, fuel, direction and depth counter: an answer is never wrong. *)
Theorem C03_answers_exact : forall wfuel g p inv r x vs,
  eval_path wfuel g p inv r x = Ok vs ->
  NoDup vs /\ forall y, In y vs <-> rel g inv p x y.
Proof. exact eval_path_sound. Qed.
Print Assumptions C03_answers_exact.

(* Termination on arbitrary (cyclic) data: with the stated fuel the worklists
   never give up; the only failures are the depth limit and malformed lists. *)
Theorem C03_terminates : forall g p, wf_path p = true ->
  forall inv r x, fits p r = true -> exists vs, eval_path (fuel_for g) g p inv r x = Ok vs.
Proof. exact eval_path_total. Qed.
Print Assumptions C03_terminates.

Theorem C03_zero_length_star : forall g q x vs, value_nodes g (PStar q) x = Ok vs -> In x vs.
Proof. exact zero_length_star. Qed.
Print Assumptions C03_zero_length_star.
Theorem C03_zero_length_opt : forall g q x vs, value_nodes g (POpt q) x = Ok vs -> In x vs.
Proof. exact zero_length_opt. Qed.
Print Assumptions C03_zero_length_opt.

(* Non-vacuity: a cyclic graph, an inverse of a sequence under a closure, and a
   focus node absent from the graph all satisfy the hypotheses. *)
Definition ex_g : graph :=
  [(IRI 1, IRI 100, IRI 2); (IRI 2, IRI 101, IRI 3); (IRI 3, IRI 100, IRI 1); (IRI 3, IRI 101, IRI 3)].
Definition ex_p : path := PStar (PInv (PSeq [PPred 100; PPred 101])).
Example C03_hypotheses_satisfiable :
  wf_path ex_p = true /\ fits ex_p 0 = true /\
  value_nodes ex_g ex_p (IRI 3) = Ok [IRI 3; IRI 1] /\
  value_nodes ex_g ex_p (IRI 77) = Ok [IRI 77].
Proof. vm_compute. repeat split. Qed.
