(* C03 — property-path value nodes follow SPARQL 1.1 property-path semantics.
   This file contains only the property theorems; proofs live in Paths/PathProofs.v. *)
From Coq Require Import List NArith Bool Relations.
From Verif Require Import Base.SetList Base.Terms Paths.Path Paths.PathProofs Paths.PathAlgebra.
Import ListNotations.

(* For every well-formed path within the supported depth, every graph (cyclic or
   not) and every focus node, the evaluator answers, without duplicates, exactly
   the nodes related to the focus by the SPARQL 1.1 path relation. *)
Theorem C03_sound_complete : forall g p x,
  wf_path p = true -> fits p 0 = true ->
  exists vs, value_nodes g p x = Ok vs /\ NoDup vs /\ forall y, In y vs <-> path_rel g p x y.
Proof. exact eval_path_main. Qed.
Print Assumptions C03_sound_complete.

(* Whatever the path, fuel, direction and depth counter: an answer is never wrong. *)
Theorem C03_answers_exact : forall wfuel g p inv r x vs,
  eval_path wfuel g p inv r x = Ok vs ->
  NoDup vs /\ forall y, In y vs <-> rel g inv p x y.
Proof. exact eval_path_sound. Qed.
Print Assumptions C03_answers_exact.

(* Termination on arbitrary (cyclic) data: with the stated fuel the worklists
   never give up; the only failures are the depth limit and malformed lists. *)
Theorem C03_terminates : forall g p, wf_path p = true ->
  forall inv r x, fits p r = true -> exists vs, eval_path (fuel_for g) g p inv r x = Ok vs.
Proof. exact eval_path_total. Qed.
Print Assumptions C03_terminates.

Theorem C03_zero_length_star : forall g q x vs, value_nodes g (PStar q) x = Ok vs -> In x vs.
Proof. exact zero_length_star. Qed.
Print Assumptions C03_zero_length_star.
Theorem C03_zero_length_opt : forall g q x vs, value_nodes g (POpt q) x = Ok vs -> In x vs.
Proof. exact zero_length_opt. Qed.
Print Assumptions C03_zero_length_opt.

(* Non-vacuity: a cyclic graph, an inverse of a sequence under a closure, and a
   focus node absent from the graph all satisfy the hypotheses. *)
Definition ex_g : graph :=
  [(IRI 1, IRI 100, IRI 2); (IRI 2, IRI 101, IRI 3); (IRI 3, IRI 100, IRI 1); (IRI 3, IRI 101, IRI 3)].
Definition ex_p : path := PStar (PInv (PSeq [PPred 100; PPred 101])).
Example C03_hypotheses_satisfiable :
  wf_path ex_p = true /\ fits ex_p 0 = true /\
  value_nodes ex_g ex_p (IRI 3) = Ok [IRI 3; IRI 1] /\
  value_nodes ex_g ex_p (IRI 77) = Ok [IRI 77].
Proof. vm_compute. repeat split. Qed.

(* ---- Algebraic laws of the evaluator (Paths/PathAlgebra.v): two paths that denote the same SPARQL
   relation get the same value nodes. These are the rewritings a slip in the evaluator's direction
   handling, sequence order or closure loops breaks. [same_answers g p p' x]: both evaluations
   answer, without repetitions, with the same members. ---- *)
Theorem C03_same_relation_same_answers : forall g p p' x,
  (forall a b, path_rel g p a b <-> path_rel g p' a b) ->
  wf_path p = true -> fits p 0 = true -> wf_path p' = true -> fits p' 0 = true ->
  same_answers g p p' x.
Proof. exact value_nodes_equiv. Qed.
Print Assumptions C03_same_relation_same_answers.

Theorem C03_double_inverse : forall g p x,
  wf_path p = true -> fits (PInv (PInv p)) 0 = true -> fits p 0 = true -> same_answers g (PInv (PInv p)) p x.
Proof. exact eval_inv_inv. Qed.
Print Assumptions C03_double_inverse.

Theorem C03_inverse_of_sequence : forall g qs x,
  wf_path (PInv (PSeq qs)) = true -> fits (PInv (PSeq qs)) 0 = true ->
  wf_path (PSeq (rev (map PInv qs))) = true -> fits (PSeq (rev (map PInv qs))) 0 = true ->
  same_answers g (PInv (PSeq qs)) (PSeq (rev (map PInv qs))) x.
Proof. exact eval_inv_seq. Qed.
Print Assumptions C03_inverse_of_sequence.

Theorem C03_inverse_of_alternative : forall g qs x,
  wf_path (PInv (PAlt qs)) = true -> fits (PInv (PAlt qs)) 0 = true ->
  wf_path (PAlt (map PInv qs)) = true -> fits (PAlt (map PInv qs)) 0 = true ->
  same_answers g (PInv (PAlt qs)) (PAlt (map PInv qs)) x.
Proof. exact eval_inv_alt. Qed.
Print Assumptions C03_inverse_of_alternative.

Theorem C03_one_or_more_unfolds : forall g q x,
  wf_path q = true -> fits (PPlus q) 0 = true -> fits (PSeq [q; PStar q]) 0 = true ->
  same_answers g (PPlus q) (PSeq [q; PStar q]) x.
Proof. exact eval_plus_unfold. Qed.
Print Assumptions C03_one_or_more_unfolds.

Theorem C03_zero_or_more_unfolds : forall g q x,
  wf_path q = true -> fits (PStar q) 0 = true -> fits (POpt (PPlus q)) 0 = true ->
  same_answers g (PStar q) (POpt (PPlus q)) x.
Proof. exact eval_star_unfold. Qed.
Print Assumptions C03_zero_or_more_unfolds.

Theorem C03_closure_of_inverse : forall g q x,
  wf_path q = true -> fits (PStar (PInv q)) 0 = true ->
  same_answers g (PStar (PInv q)) (PInv (PStar q)) x /\ same_answers g (PPlus (PInv q)) (PInv (PPlus q)) x.
Proof. exact eval_closure_of_inverse. Qed.
Print Assumptions C03_closure_of_inverse.

(* Paths have no negation: more triples, never fewer value nodes. *)
Theorem C03_monotone_in_the_data : forall g g' p x,
  (forall t, In t g -> In t g') -> wf_path p = true -> fits p 0 = true ->
  exists vs vs', value_nodes g p x = Ok vs /\ value_nodes g' p x = Ok vs' /\ forall y, In y vs -> In y vs'.
Proof. exact eval_monotone. Qed.
Print Assumptions C03_monotone_in_the_data.

(* Non-vacuity of the laws: on the cyclic example graph the inverse of a sequence and its rewriting
   both answer, non-trivially and alike. *)
Example C03_laws_satisfiable :
  let qs := [PPred 100; PPred 101] in
  wf_path (PInv (PSeq qs)) = true /\ fits (PInv (PSeq qs)) 0 = true /\
  wf_path (PSeq (rev (map PInv qs))) = true /\ fits (PSeq (rev (map PInv qs))) 0 = true /\
  value_nodes ex_g (PInv (PSeq qs)) (IRI 3) = Ok [IRI 1] /\
  value_nodes ex_g (PSeq (rev (map PInv qs))) (IRI 3) = Ok [IRI 1] /\
  value_nodes ex_g (PPlus (PPred 100)) (IRI 3) = value_nodes ex_g (PSeq [PPred 100; PStar (PPred 100)]) (IRI 3).
Proof. vm_compute. repeat split. Qed.
