(* C09 - validation is deterministic up to blank-node labels and result order.
   Proved for the model: the order in which shapes are taken from the (set-valued) shape collection
   permutes the results and changes nothing else; the environment is a look-up table whose order is
   immaterial; arbitrary-element picks from singleton sets are choice-independent; focus nodes, value
   nodes and what each core component reports depend on WHICH triples the graphs hold, not on the order
   (or multiplicity) in which they are listed. Independence from blank-node labels, prefix bindings and
   the hash seed in the real code, and from insertion order beyond those three stages, is decided by
   the multi-process differential (DESIGN.md). *)
From Coq Require Import List NArith Bool Permutation.
From Verif Require Import Base.SetList Base.Terms Paths.Path Shapes.AST Shapes.Leaf Shapes.Eval Shapes.OrderProofs Shapes.MemberOrder
  Closure.Worklist Closure.WorklistProofs Gen.T4 Closure.ListCheck Closure.ListCheckProofs Gen.T5
  Paths.PathProofs Paths.PathOrder Shapes.TargetProofs Shapes.TargetOrder Shapes.LeafSpec Shapes.LeafOrder.
Import ListNotations.

Theorem C09_shape_order : forall trig W o sg g E explicit shapes shapes' c rs, abort o = false ->
  Permutation shapes shapes' ->
  run_shapes trig W o sg g E shapes explicit false [] = Ok (c, rs) ->
  exists rs', run_shapes trig W o sg g E shapes' explicit false [] = Ok (c, rs') /\ Permutation rs rs'.
Proof. exact shape_order_irrelevant. Qed.
Print Assumptions C09_shape_order.

Theorem C09_environment_order : forall E E' t, NoDup (map sid E) -> Permutation E E' -> lookup E t = lookup E' t.
Proof. exact lookup_perm. Qed.
Print Assumptions C09_environment_order.

Theorem C09_pick_from_singleton : forall (A:Type) (pick pick':list A -> option A) (l:list A) x,
  (forall l y, pick l = Some y -> In y l) -> (forall l y, pick' l = Some y -> In y l) ->
  (forall y, In y l -> y = x) -> forall a b, pick l = Some a -> pick' l = Some b -> a = b.
Proof. intros A. exact (@pick_singleton A). Qed.
Print Assumptions C09_pick_from_singleton.

(* The members of sh:or / sh:and / sh:xone are consulted as a collection: taking them in another order gives the same
   component outcome (verdict and results), for any nested evaluator, environment, data and value nodes. *)
Theorem C09_or_member_order : forall trig W nested g E s fvs ep members members' r,
  NoDup members -> Permutation members members' ->
  evalc trig W nested g E s fvs ep (COr [members]) = Ok r -> evalc trig W nested g E s fvs ep (COr [members']) = Ok r.
Proof. exact or_member_order. Qed.
Print Assumptions C09_or_member_order.

Theorem C09_and_member_order : forall trig W nested g E s fvs ep members members' r,
  NoDup members -> Permutation members members' ->
  evalc trig W nested g E s fvs ep (CAnd [members]) = Ok r -> evalc trig W nested g E s fvs ep (CAnd [members']) = Ok r.
Proof. exact and_member_order. Qed.
Print Assumptions C09_and_member_order.

Theorem C09_xone_member_order : forall trig W nested g E s fvs ep members members' r,
  Permutation members members' ->
  evalc trig W nested g E s fvs ep (CXone [members]) = Ok r -> evalc trig W nested g E s fvs ep (CXone [members']) = Ok r.
Proof. exact xone_member_order. Qed.
Print Assumptions C09_xone_member_order.

(* Tie A, insertion order: the subclass / superclass closures of the real code (the work-list programs generated from
   pyshacl/rdfutil/closure.py) return the same set of nodes for any two listings of the same triples - whatever order
   the store enumerates the neighbours of a node in, with duplicates or without. *)
Theorem C09_closure_insertion_order_subjects : forall g g' pred start r r',
  (forall t, In t g <-> In t g') ->
  run_on transitive_subjects_prog g pred start = Some r -> run_on transitive_subjects_prog g' pred start = Some r' ->
  forall y, In y r <-> In y r'.
Proof. exact (closure_order_free true). Qed.
Print Assumptions C09_closure_insertion_order_subjects.

Theorem C09_closure_insertion_order_objects : forall g g' pred start r r',
  (forall t, In t g <-> In t g') ->
  run_on transitive_objects_prog g pred start = Some r -> run_on transitive_objects_prog g' pred start = Some r' ->
  forall y, In y r <-> In y r'.
Proof. exact (closure_order_free false). Qed.
Print Assumptions C09_closure_insertion_order_objects.

(* the hypotheses are met by a diamond listed in two orders: the lists differ, the sets do not *)
Example C09_closure_nonvacuous :
  run_on transitive_subjects_prog [(IRI 2, IRI 9, IRI 1); (IRI 4, IRI 9, IRI 1); (IRI 2, IRI 9, IRI 4); (IRI 5, IRI 9, IRI 4)] (IRI 9) (IRI 1)
    = Some [IRI 1; IRI 2; IRI 4; IRI 5]
  /\ run_on transitive_subjects_prog [(IRI 5, IRI 9, IRI 4); (IRI 4, IRI 9, IRI 1); (IRI 2, IRI 9, IRI 4); (IRI 2, IRI 9, IRI 1)] (IRI 9) (IRI 1)
    = Some [IRI 1; IRI 4; IRI 2; IRI 5].
Proof. split; vm_compute; reflexivity. Qed.

(* Tie A, insertion order: whether the shapes graph's lists are accepted depends on the rest map as a function, not on
   the order in which the store lists the rdf:rest triples (a node with two different rdf:rest values is rejected before,
   see C16_list_check_wiring, so the map is a function of the triple set) *)
Theorem C09_list_check_order_free : forall m m', (forall x, rest_of m x = rest_of m' x) ->
  (check check_rdf_lists_prog m = Accept <-> check check_rdf_lists_prog m' = Accept).
Proof. exact check_order_free. Qed.
Print Assumptions C09_list_check_order_free.

(* Triple insertion order, stage by stage (two listings of the same triples: permutations, repetitions): *)
(* - the focus nodes of a shape (data graph and shapes graph both re-listed) *)
Theorem C09_focus_nodes_insertion_order : forall sg sg' g g' s,
  same_triples sg sg' -> same_triples g g' ->
  NoDup (focus_nodes sg g s) /\ NoDup (focus_nodes sg' g' s)
  /\ forall x, In x (focus_nodes sg g s) <-> In x (focus_nodes sg' g' s).
Proof. exact focus_nodes_order_free. Qed.
Print Assumptions C09_focus_nodes_insertion_order.

(* - the value nodes of any well-formed path within the supported depth *)
Theorem C09_value_nodes_insertion_order : forall g g' p x,
  same_triples g g' -> wf_path p = true -> fits p 0 = true ->
  exists vs vs', value_nodes g p x = Ok vs /\ value_nodes g' p x = Ok vs' /\ NoDup vs /\ NoDup vs'
                 /\ forall y, In y vs <-> In y vs'.
Proof. exact value_nodes_order_free. Qed.
Print Assumptions C09_value_nodes_insertion_order.

(* - what a core component reports, given the value nodes in any order *)
Theorem C09_component_insertion_order : forall W g g' l f vs vs',
  same_triples g g' -> Permutation vs vs' ->
  forall b, In b (leaf_bad W g l f vs) <-> In b (leaf_bad W g' l f vs').
Proof. exact leaf_bad_order_free. Qed.
Print Assumptions C09_component_insertion_order.

Example C09_insertion_order_nonvacuous :
  let g := [(IRI 1, IRI 100, IRI 2); (IRI 2, IRI 100, IRI 3); (IRI 3, IRI 100, IRI 1)] in
  let g' := [(IRI 3, IRI 100, IRI 1); (IRI 1, IRI 100, IRI 2); (IRI 2, IRI 100, IRI 3); (IRI 1, IRI 100, IRI 2)] in
  same_triples g g' /\ value_nodes g (PPlus (PPred 100)) (IRI 1) = Ok [IRI 2; IRI 3; IRI 1]
  /\ value_nodes g' (PPlus (PPred 100)) (IRI 1) = Ok [IRI 2; IRI 3; IRI 1] /\ g <> g'.
Proof.
  cbv zeta. split; [|split; [vm_compute; reflexivity|split; [vm_compute; reflexivity|discriminate]]].
  intros t; cbn [In]; tauto.
Qed.
