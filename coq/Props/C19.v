(* C19 - always terminates; nesting exact below the depth limit, loud error above it. *)
From Coq Require Import List NArith Bool Arith.
From Verif Require Import Base.SetList Base.Terms Base.Vocab Paths.Path Shapes.AST Shapes.Leaf Shapes.Eval
  Shapes.EvalProofs Shapes.EvalRel Shapes.DepthProofs Shapes.EvalExt.
Import ListNotations.

(* Termination: with fuel max_validation_depth + 1 the model never runs out of fuel - for ANY
   environment (arbitrary cyclic references between shapes), any data graph (cyclic or not),
   any options and any back-out heuristic. The answer is a report or a documented failure. *)
Theorem C19_total : forall trig W o sg g E, errs_in not_oof_exn (validate trig W o sg g E).
Proof. exact validate_total. Qed.
Print Assumptions C19_total.

(* Loud failure: a nested evaluation of an active shape on some node, entered at or beyond the
   limit, is the 'validation path too deep' failure - never (true, []). *)
Theorem C19_loud : forall trig W o g E fuel ep s foci,
  deact s = false -> foci <> [] -> e_max_depth o <= length ep ->
  vshape trig W fuel o g E false ep s foci = Err TooDeep.
Proof. exact vshape_too_deep. Qed.
Print Assumptions C19_loud.

(* Exactness: an answer obtained under some depth limit is the answer under every larger limit
   (and more fuel): the limit never silently truncates nesting into a different report. *)
Theorem C19_exact : forall trig W o o' g E, e_abort o = e_abort o' -> e_allowed o = e_allowed o' ->
  e_max_depth o <= e_max_depth o' ->
  forall fuel fuel' top ep s foci r, fuel <= fuel' ->
  vshape trig W fuel o g E top ep s foci = Ok r -> vshape trig W fuel' o' g E top ep s foci = Ok r.
Proof. intros trig W o o' g E Ha Hw Hd fuel fuel' top ep s foci r Hf. exact (vshape_mono trig W o o' g E Ha Hw Hd fuel fuel' top ep s foci Hf r). Qed.
Print Assumptions C19_exact.

(* Below the limit: a non-recursive shapes graph (references strictly decrease a rank) whose
   nesting depth under the validated shape is below max_validation_depth never fails with
   'too deep'. *)
Theorem C19_below : forall trig W o sg g E rank s explicit,
  ranked E rank -> In s E -> rank (sid s) < max_depth o ->
  errs_in not_too_deep (validate_top trig W o sg g E s explicit).
Proof. exact validate_top_below_limit. Qed.
Print Assumptions C19_below.

(* The recursion back-out heuristic never fires on a non-recursive shapes graph: the report is
   the one computed with the heuristic switched off. *)
Theorem C19_no_backout : forall W o g E rank, ranked E rank ->
  forall fuel top ep s foci, In s E ->
  (forall e, In e ep -> rank (sid s) < rank (fst e)) ->
  vshape recursion_triggers W fuel o g E top ep s foci = vshape no_triggers W fuel o g E top ep s foci.
Proof. exact vshape_no_backout. Qed.
Print Assumptions C19_no_backout.

(* Non-vacuity: a self-referential shape over cyclic data terminates with the loud failure;
   a two-level chain below the limit gives a report. *)
Definition R : shape := {| sid := IRI 100; spath := Some (PPred 50); deact := false; ssev := t_Violation; smsgs := [];
   stargets := {| t_nodes := [IRI 1]; t_classes := []; t_implicit := false; t_subjects_of := []; t_objects_of := [] |};
   scomps := [CNot [IRI 100]] |}.
Definition cyc : graph := [(IRI 1, IRI 50, IRI 2); (IRI 2, IRI 50, IRI 1)].
Definition o2 := {| abort := false; allow_infos := false; allow_warnings := false; max_depth := 2; focus_filter := [] |}.
Example C19_nonvacuous : validate_impl0 o2 [] cyc [R] = Err TooDeep.
Proof. vm_compute. reflexivity. Qed.
