(* C04 - logical/shape-based components compose by conformance, not by leaked results. *)
From Coq Require Import List NArith Bool.
From Verif Require Import Base.SetList Base.Terms Base.Vocab Paths.Path Shapes.AST Shapes.Leaf Shapes.Eval
  Shapes.EvalProofs Shapes.AbortProofs.
Import ListNotations.

(* A node conforms to a referenced shape exactly when validating it against that shape
   yields no results - for every environment (recursive or not), every option setting,
   every evaluation path and depth. *)
Theorem C04_conform_iff_empty : forall trig o g E fuel ep s foci c rs,
  vshape trig fuel o g E false ep s foci = Ok (c, rs) -> (c = true <-> rs = []).
Proof. intros trig o g E fuel ep s foci c rs H. exact (vshape_good trig o g E fuel ep s foci (c, rs) H). Qed.
Print Assumptions C04_conform_iff_empty.

(* and every component hands back `conforms` exactly when it reports nothing *)
Theorem C04_component_conform_iff_empty : forall trig nested g E s fvs ep c cr,
  nested_good nested -> evalc trig nested g E s fvs ep c = Ok cr -> (fst cr = true <-> snd cr = []).
Proof. exact evalc_good. Qed.
Print Assumptions C04_component_conform_iff_empty.

(* without severity waivers the verdict is 'conforms' exactly when there is no result *)
Theorem C04_verdict_default : forall trig o sg g E c rs,
  allow_infos o = false -> allow_warnings o = false ->
  validate trig o sg g E = Ok (c, rs) -> (c = true <-> rs = []).
Proof. exact validate_verdict_default. Qed.
Print Assumptions C04_verdict_default.

(* sh:not, sh:and, sh:or, sh:xone and sh:qualifiedValueShape (with sibling shapes) produce their
   results from the members' conformance alone: two nested evaluators that agree on conformance
   (whatever results they return) give the same component results. *)
Theorem C04_conformance_only : forall trig n1 n2 g E s fvs ep c cr,
  fst_agree n1 n2 ->
  match c with CNode _ | CProperty _ => False | _ => True end ->
  evalc trig n2 g E s fvs ep c = Ok cr -> evalc trig n1 g E s fvs ep c = Ok cr.
Proof. exact evalc_conformance_only. Qed.
Print Assumptions C04_conformance_only.
