(* C04 - placeholder until the proofs are in (statements added below as they are proved) *)
From Verif Require Import Shapes.Eval.
