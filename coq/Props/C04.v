(* C04 - logical/shape-based components compose by conformance, not by leaked results. *)
From Coq Require Import List NArith ZArith Bool.
From Verif Require Import Base.SetList Base.Terms Base.Vocab Paths.Path Shapes.AST Shapes.Leaf Shapes.Eval
  Shapes.EvalProofs Shapes.AbortProofs Shapes.LeakProofs Shapes.ListsProofs.
Import ListNotations.

(* A node conforms to a referenced shape exactly when validating it against that shape
   yields no results - for every environment (recursive or not), every option setting,
   every evaluation path and depth. *)
Theorem C04_conform_iff_empty : forall trig W o g E fuel ep s foci c rs,
  vshape trig W fuel o g E false ep s foci = Ok (c, rs) -> (c = true <-> rs = []).
Proof. intros trig W o g E fuel ep s foci c rs H. exact (vshape_good trig W o g E fuel ep s foci (c, rs) H). Qed.
Print Assumptions C04_conform_iff_empty.

(* and every component hands back `conforms` exactly when it reports nothing *)
Theorem C04_component_conform_iff_empty : forall trig W nested g E s fvs ep c cr,
  nested_good nested -> evalc trig W nested g E s fvs ep c = Ok cr -> (fst cr = true <-> snd cr = []).
Proof. exact evalc_good. Qed.
Print Assumptions C04_component_conform_iff_empty.

(* without severity waivers the verdict is 'conforms' exactly when there is no result *)
Theorem C04_verdict_default : forall trig W o sg g E c rs,
  allow_infos o = false -> allow_warnings o = false ->
  validate trig W o sg g E = Ok (c, rs) -> (c = true <-> rs = []).
Proof. exact validate_verdict_default. Qed.
Print Assumptions C04_verdict_default.

(* sh:not, sh:and, sh:or, sh:xone and sh:qualifiedValueShape (with sibling shapes) produce their
   results from the members' conformance alone: two nested evaluators that agree on conformance
   (whatever results they return) give the same component results. *)
Theorem C04_conformance_only : forall trig W n1 n2 g E s fvs ep c cr,
  fst_agree n1 n2 ->
  match c with CNode _ | CProperty _ => False | _ => True end ->
  evalc trig W n2 g E s fvs ep c = Ok cr -> evalc trig W n1 g E s fvs ep c = Ok cr.
Proof. exact evalc_conformance_only. Qed.
Print Assumptions C04_conformance_only.

(* Results of shapes consulted only for conformance never surface: every result returned for a
   shape was produced by a constraint of that shape or of a property shape reached from it
   through sh:property links only; it carries that shape's identity and severity; nested
   results appear only as sh:detail of sh:node results. *)
Theorem C04_no_leak : forall trig W o g E fuel top ep s foci cr,
  vshape trig W fuel o g E top ep s foci = Ok cr -> Forall (owned_by E s) (snd cr).
Proof. exact vshape_owned. Qed.
Print Assumptions C04_no_leak.

(* every node conforms to a deactivated shape *)
Theorem C04_deactivated : forall trig W o g E fuel top ep s foci,
  deact s = true -> vshape trig W fuel o g E top ep s foci = Ok (true, []).
Proof. exact vshape_deactivated. Qed.
Print Assumptions C04_deactivated.

(* Non-vacuity: sh:not inside sh:or inside a qualified value shape, with a deactivated member. *)
Definition L1 : shape := {| sid := IRI 201; spath := None; deact := false; ssev := t_Warning; smsgs := []; stargets := no_targets; scomps := [CLeaf (LIn [IRI 2])] |}.
Definition L2 : shape := {| sid := IRI 202; spath := None; deact := true; ssev := t_Violation; smsgs := []; stargets := no_targets; scomps := [CLeaf (LIn [])] |}.
Definition NOT1 : shape := {| sid := BN 3; spath := None; deact := false; ssev := t_Violation; smsgs := []; stargets := no_targets; scomps := [CNot [IRI 201]] |}.
Definition OR1 : shape := {| sid := BN 2; spath := None; deact := false; ssev := t_Violation; smsgs := []; stargets := no_targets; scomps := [COr [[BN 3; IRI 202]]] |}.
Definition Q : shape := {| sid := BN 1; spath := Some (PPred 50); deact := false; ssev := t_Info; smsgs := []; stargets := no_targets;
                           scomps := [CQualified [BN 2] (Some 3%Z) None false] |}.
Definition TOP : shape := {| sid := IRI 200; spath := None; deact := false; ssev := t_Violation; smsgs := [];
   stargets := {| t_nodes := [IRI 1]; t_classes := []; t_implicit := false; t_subjects_of := []; t_objects_of := [] |};
   scomps := [CProperty [BN 1]] |}.
Example C04_nonvacuous :
  validate_impl0 default_opts [] [(IRI 1, IRI 50, IRI 2); (IRI 1, IRI 50, IRI 3)] [TOP; Q; OR1; NOT1; L1; L2]
  = Ok (false, [VR (IRI 1) None (Some (IRI 50)) sh_QualifiedMinCountConstraintComponent (BN 1) t_Info [] []]).
Proof. vm_compute. reflexivity. Qed.

(* ---- A shape may carry several sh:or / sh:and / sh:xone lists: each is a constraint of its own
   (Shapes/ListsProofs.v). The answer over l :: ls is the answer over [l] together with the answer
   over ls - conforming iff both are, reporting the results of both: a satisfied list never hides a
   later one, wherever it stands. ---- *)
Theorem C04_or_lists_are_separate_constraints : forall trig W nested g E s fvs ep l ls r1 r2,
  evalc trig W nested g E s fvs ep (COr [l]) = Ok r1 -> evalc trig W nested g E s fvs ep (COr ls) = Ok r2 ->
  evalc trig W nested g E s fvs ep (COr (l :: ls)) = Ok (fst r1 && fst r2, snd r1 ++ snd r2).
Proof. exact ListsProofs.or_lists_split. Qed.
Print Assumptions C04_or_lists_are_separate_constraints.

Theorem C04_and_lists_are_separate_constraints : forall trig W nested g E s fvs ep l ls r1 r2,
  evalc trig W nested g E s fvs ep (CAnd [l]) = Ok r1 -> evalc trig W nested g E s fvs ep (CAnd ls) = Ok r2 ->
  evalc trig W nested g E s fvs ep (CAnd (l :: ls)) = Ok (fst r1 && fst r2, snd r1 ++ snd r2).
Proof. exact ListsProofs.and_lists_split. Qed.
Print Assumptions C04_and_lists_are_separate_constraints.

Theorem C04_xone_lists_are_separate_constraints : forall trig W nested g E s fvs ep l ls r1 r2,
  evalc trig W nested g E s fvs ep (CXone [l]) = Ok r1 -> evalc trig W nested g E s fvs ep (CXone ls) = Ok r2 ->
  evalc trig W nested g E s fvs ep (CXone (l :: ls)) = Ok (fst r1 && fst r2, snd r1 ++ snd r2).
Proof. exact ListsProofs.xone_lists_split. Qed.
Print Assumptions C04_xone_lists_are_separate_constraints.

Theorem C04_every_or_list_must_hold : forall trig W nested g E s fvs ep l ls r1 r2 r,
  evalc trig W nested g E s fvs ep (COr [l]) = Ok r1 -> evalc trig W nested g E s fvs ep (COr ls) = Ok r2 ->
  evalc trig W nested g E s fvs ep (COr (l :: ls)) = Ok r -> fst r = true -> fst r1 = true /\ fst r2 = true.
Proof. exact ListsProofs.or_lists_all_must_hold. Qed.
Print Assumptions C04_every_or_list_must_hold.
