(* C20 - the report does not depend on how the graphs are handed over. *)
From Coq Require Import String Ascii List Bool Arith.
From Verif Require Import Load.Source Load.SourceProofs.
Import ListNotations.
Open Scope string_scope.

(* Which str / bytes arguments are RDF text rather than a file name: anything that starts with one
   of # @ < { [ or a line break; any text containing a line break that is not a path or a
   file:/http(s): reference; any text of 140 characters or more. *)
Theorem C20_marker_is_data : forall c r, is_marker c = true ->
  classify_str (String c r) = KData /\ classify_bytes (String c r) = KData.
Proof. exact marker_first_is_data. Qed.
Print Assumptions C20_marker_is_data.
Theorem C20_multiline_text_is_data : forall s,
  contains_nl s = true -> starts "file:" s = false -> starts "http:" s = false -> starts "https:" s = false ->
  starts "/" s = false -> starts "./" s = false -> classify_str s = KData.
Proof. exact text_with_newline_is_data. Qed.
Print Assumptions C20_multiline_text_is_data.
Theorem C20_multiline_bytes_are_data : forall s,
  contains_nl s = true -> starts "file:" s = false -> starts "http:" s = false -> starts "https:" s = false ->
  classify_bytes s = KData.
Proof. exact bytes_with_newline_are_data. Qed.
Print Assumptions C20_multiline_bytes_are_data.
Theorem C20_long_text_is_data : forall s c r, s = String c r -> 140 <= String.length s ->
  starts "file:" s = false -> starts "http:" s = false -> starts "https:" s = false ->
  Ascii.eqb c "/"%char = false -> starts "./" s = false -> classify_str s = KData.
Proof. exact long_text_is_data. Qed.
Print Assumptions C20_long_text_is_data.

(* Format detection from a standard header: after any blank lines and indentation, a Turtle header
   in any letter case (@prefix, PREFIX, @base, BASE, "# baseURI:") gives turtle, an XML declaration
   or rdf: root gives xml - for every document, of any length. *)
Theorem C20_turtle_header_detected : forall ws m rest, all_space ws = true -> In (lower m) turtle_markers ->
  sniff (ws ++ m ++ rest) = SFormat (Some FTurtle).
Proof. exact sniff_turtle. Qed.
Print Assumptions C20_turtle_header_detected.
Theorem C20_xml_header_detected : forall ws m rest, all_space ws = true -> In (lower m) xml_markers ->
  sniff (ws ++ m ++ rest) = SFormat (Some FXml).
Proof. exact sniff_xml. Qed.
Print Assumptions C20_xml_header_detected.
(* an empty or blank document: the sniffer terminates with "no format" (it used to loop forever) *)
Theorem C20_blank_document : forall ws, all_space ws = true -> sniff ws = SFormat None.
Proof. exact sniff_blank. Qed.
Print Assumptions C20_blank_document.

Theorem C20_extension : forall base, ext_format (base ++ ".ttl") = Some FTurtle.
Proof. exact turtle_extension. Qed.
Print Assumptions C20_extension.
Theorem C20_extension_table :
  ext_format "data.ttl" = Some FTurtle /\ ext_format "data.nt" = Some FNt /\ ext_format "data.n3" = Some FN3
  /\ ext_format "data.json" = Some FJsonLd /\ ext_format "data.xml" = Some FXml /\ ext_format "data.rdf" = Some FXml
  /\ ext_format "data.nq" = Some FNquads /\ ext_format "data.trig" = Some FTrig /\ ext_format "data" = None.
Proof. exact extension_table. Qed.
Print Assumptions C20_extension_table.

(* the defects repaired in /repo (fa.. commits): examples that are now data / turtle *)
Example C20_examples :
  classify_str ("PREFIX sh: <http://www.w3.org/ns/shacl#>" ++ String nl "ex:a ex:p ex:b .") = KData
  /\ classify_bytes ("_:b0 <http://ex.org/p> <http://ex.org/o> ." ++ String nl "") = KData
  /\ sniff ("# baseURI: http://ex.org/base/" ++ String nl "<a> <p> <b> .") = SFormat (Some FTurtle).
Proof. vm_compute. repeat split. Qed.
