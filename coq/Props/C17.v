(* C17 - advanced-mode targets, functions and expression constraints follow their queries.
   SPARQL evaluation is rdflib's; query solutions and function results enter as data. *)
From Coq Require Import List NArith ZArith Bool Arith String Permutation Sorted.
From Verif Require Import Base.SetList Base.Terms Paths.Path Shapes.Advanced Shapes.AdvancedProofs.
Import ListNotations.

(* with advanced=True a shape validates exactly its core focus nodes plus the ?this solutions of each
   custom target; with advanced=False the declarations are ignored *)
Theorem C17_targets : forall core ts x,
  In x (advanced_focus core ts true) <-> In x core \/ exists sols, In sols ts /\ In x sols.
Proof. exact advanced_focus_spec. Qed.
Print Assumptions C17_targets.
Theorem C17_targets_once : forall core ts, NoDup (advanced_focus core ts true).
Proof. exact advanced_focus_nodup. Qed.
Print Assumptions C17_targets_once.
Theorem C17_targets_ignored_without_advanced : forall core ts, advanced_focus core ts false = core.
Proof. exact advanced_off_ignores_targets. Qed.
Print Assumptions C17_targets_ignored_without_advanced.

(* SHACL-AF parameter order: every parameter exactly once; ascending sh:order when all have one *)
Theorem C17_parameter_order_complete : forall ps, Permutation (params_in_order ps) ps.
Proof. exact params_in_order_perm. Qed.
Print Assumptions C17_parameter_order_complete.
Theorem C17_parameter_order_ascending : forall ps l, all_ordered ps = Some l ->
  exists l', params_in_order ps = map fst l' /\ StronglySorted (fun a b => (snd a <= snd b)%Z) l'
             /\ forall p o, In (p, o) l' -> p_order p = Some o.
Proof. exact params_sorted_by_order. Qed.
Print Assumptions C17_parameter_order_ascending.
(* the call's i-th argument is bound to the i-th parameter of that order *)
Theorem C17_arguments_bound_in_order : forall (V:Type) ps (args:list V) l, bind_args ps args = Some l ->
  map fst l = map p_name (params_in_order ps) /\ map snd l = args.
Proof. intros V. exact (@bind_args_spec V). Qed.
Print Assumptions C17_arguments_bound_in_order.
Theorem C17_function_result : forall r rows v, function_result ((v :: r) :: rows) = v.
Proof. exact function_result_first. Qed.
Print Assumptions C17_function_result.

(* sh:expression reports a value node exactly when the node expression does not evaluate to {true} *)
Theorem C17_expression : forall fuel T g t e vs bad, expression_bad fuel T g t e vs = Ok bad ->
  forall v, In v bad <-> In v vs /\ exists vals, eval_nexpr fuel T g e v = Ok vals /\ ~ (vals <> [] /\ forall x, In x vals -> x = t).
Proof. exact expression_bad_spec. Qed.
Print Assumptions C17_expression.

(* non-vacuity: order by sh:order beats order by name *)
Example C17_order_example :
  map p_name (params_in_order [ {| p_name := "alpha"; p_order := Some 2%Z; p_optional := false |};
                                {| p_name := "zeta"; p_order := Some 1%Z; p_optional := false |} ]) = ["zeta"; "alpha"]%string
  /\ map p_name (params_in_order [ {| p_name := "zeta"; p_order := None; p_optional := false |};
                                   {| p_name := "alpha"; p_order := Some 1%Z; p_optional := false |} ]) = ["alpha"; "zeta"]%string.
Proof. vm_compute. split; reflexivity. Qed.

(* the composite node expressions of SHACL-AF: a union has a value exactly when a member has it, an intersection when
   every member has it, sh:filterShape keeps exactly the values of sh:nodes that conform to the shape *)
Theorem C17_union : forall fuel T g es a vals,
  eval_nexpr (S fuel) T g (NUnion es) a = Ok vals ->
  NoDup vals /\ forall x, In x vals <-> exists e vs, In e es /\ eval_nexpr fuel T g e a = Ok vs /\ In x vs.
Proof. exact eval_union_spec. Qed.
Print Assumptions C17_union.

Theorem C17_intersection : forall fuel T g e0 es a vals,
  eval_nexpr (S fuel) T g (NInter (e0 :: es)) a = Ok vals ->
  NoDup vals /\ forall x, In x vals <-> forall e, In e (e0 :: es) -> exists vs, eval_nexpr fuel T g e a = Ok vs /\ In x vs.
Proof. exact eval_inter_spec. Qed.
Print Assumptions C17_intersection.

Theorem C17_filter_shape : forall fuel T g k e a vals,
  eval_nexpr (S fuel) T g (NFilter k e) a = Ok vals ->
  exists vs, eval_nexpr fuel T g e a = Ok vs /\ NoDup vals /\
    forall x, In x vals <-> In x vs /\ exists r, fn_lookup T k [x] = Some (Some r).
Proof. exact eval_filter_spec. Qed.
Print Assumptions C17_filter_shape.

Example C17_composite_nonvacuous :
  eval_nexpr 5 [(7%N, [IRI 2], Some (IRI 99)); (7%N, [IRI 3], None)]
    [(IRI 1, IRI 50, IRI 2); (IRI 1, IRI 50, IRI 3); (IRI 1, IRI 51, IRI 3); (IRI 1, IRI 51, IRI 4)]
    (NUnion [NFilter 7 (NPath (PPred 50)); NInter [NPath (PPred 50); NPath (PPred 51)]]) (IRI 1)
  = Ok [IRI 2; IRI 3].
Proof. vm_compute. reflexivity. Qed.
