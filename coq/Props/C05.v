From Verif Require Import Shapes.Eval.
