(* C05 - SPARQL-based constraints report exactly their query's solutions, one result each.
   Query evaluation is rdflib's and enters the model as data (the rows each declared query
   returns for each focus/value node under the SHACL-SPARQL pre-bindings). Proved here is what
   pySHACL itself does with those rows. *)
From Coq Require Import List NArith Bool.
From Coq Require String.
From Verif Require Import Base.SetList Base.Terms Base.Vocab Paths.Path Shapes.AST Shapes.Leaf Shapes.Eval
  Shapes.EvalProofs Shapes.SparqlProofs Sparql.Message Sparql.MessageProofs Sparql.LocalName.
Import ListNotations.

(* The rows kept by an sh:sparql constraint are exactly the distinct solutions of its query:
   every kept row is a row of the query, every row binding ?this/?path/?value is represented
   (up to equality of all its bindings), ?failure is reported iff some row binds it ... *)
Theorem C05_distinct_solutions : forall l,
  (forall x, In x (dedup_sols l) -> In x l)
  /\ (forall x, In x l -> violation_row x -> exists y, In y (dedup_sols l) /\ sol_failure y = false /\ same_sol x y)
  /\ ((exists y, In y (dedup_sols l) /\ sol_failure y = true) <-> (exists x, In x l /\ sol_failure x = true)).
Proof. exact dedup_sols_spec. Qed.
Print Assumptions C05_distinct_solutions.

(* ... and one result each: no two kept rows are the same solution, at most one failure row *)
Theorem C05_one_result_each : forall l,
  ForallOrdPairs (fun a b => (sol_failure a = true /\ sol_failure b = true) \/
                             (sol_failure a = false /\ sol_failure b = false /\ same_sol a b) -> False)
                 (dedup_sols l).
Proof. exact dedup_sols_distinct. Qed.
Print Assumptions C05_one_result_each.

(* The results of the component are exactly one result per kept row of each active constraint
   and focus node; focus, sh:value and sh:resultPath come from ?this/?value/?path ... *)
Theorem C05_sparql_results : forall trig W nested g E s fvs ep cs cr,
  evalc trig W nested g E s fvs ep (CSparql cs) = Ok cr ->
  forall r, In r (snd cr) <->
    exists sc f vs so, In sc cs /\ sc_deact sc = false /\ In (f, vs) fvs
                       /\ In so (dedup_sols (sols_of (sc_sols sc) f)) /\ r = sparql_result s f so.
Proof. exact sparql_constraint_results. Qed.
Print Assumptions C05_sparql_results.

(* ... and each result's messages are the declared templates instantiated with THAT solution's
   own bindings (followed by the shape's declared messages) - for any number of results *)
Theorem C05_own_bindings : forall s f so, rmsgs (sparql_result s f so) = sol_msgs so ++ smsgs s.
Proof. exact sparql_messages_own. Qed.
Print Assumptions C05_own_bindings.

(* ASK validators of constraint components: one result per value node the query rejects *)
Theorem C05_ask_component : forall trig W nested g E s fvs ep cc answers cr,
  cc_val cc = VAsk answers ->
  evalc trig W nested g E s fvs ep (CCustom cc) = Ok cr ->
  forall r, In r (snd cr) <->
    exists f vs v msgs, In (f, vs) fvs /\ In v vs /\ ask_of answers f v = Some (false, msgs)
      /\ r = mkm s (cc_node cc) f (if is_property_shape s then None else Some v) (shape_rpath s) msgs.
Proof. exact ask_component_results. Qed.
Print Assumptions C05_ask_component.

(* Non-vacuity: two rows differing only in ?other give two results with their own messages;
   a repeated row gives one. *)
Definition r1 := {| sol_failure := false; sol_this := Some (IRI 1); sol_path := None; sol_value := Some (IRI 2); sol_rest := 1; sol_msgs := [LIT 10 0 0] |}.
Definition r2 := {| sol_failure := false; sol_this := Some (IRI 1); sol_path := None; sol_value := Some (IRI 2); sol_rest := 2; sol_msgs := [LIT 11 0 0] |}.
Example C05_nonvacuous : map sol_msgs (dedup_sols [r1; r2; r1]) = [[LIT 10 0 0]; [LIT 11 0 0]].
Proof. vm_compute. reflexivity. Qed.

(* ---- message templates (model of the {?var}/{$var} substitution; tied to both code sites by the
   correspondence run of this check) ---- *)

(* the scanner cuts a template into literal text and holes without dropping or inventing a character *)
Theorem C05_template_segments : forall t, cat (map show (parse t)) = t.
Proof. exact parse_spells_template. Qed.
Print Assumptions C05_template_segments.

(* a bound placeholder is replaced by the value exactly as it is - whatever the value contains (braces,
   backslashes, text that looks like a placeholder), it is not looked at again *)
Theorem C05_value_verbatim : forall b pre sg n v rest,
  lbrace_free pre = true -> is_sigil sg = true -> n <> String.EmptyString -> brace_free n = true -> lookup b n = Some v ->
  subst b (String.append pre (String.String lbrace (String.String sg (String.append n (String.String rbrace rest)))))
  = String.append pre (String.append v (subst b rest)).
Proof. exact subst_hole. Qed.
Print Assumptions C05_value_verbatim.

(* a placeholder whose variable the solution does not bind stays as written *)
Theorem C05_unbound_kept : forall b pre sg n rest,
  lbrace_free pre = true -> is_sigil sg = true -> n <> String.EmptyString -> brace_free n = true -> lookup b n = None ->
  subst b (String.append pre (String.String lbrace (String.String sg (String.append n (String.String rbrace rest)))))
  = String.append pre (String.String lbrace (String.String sg (String.append n (String.String rbrace (subst b rest))))).
Proof. exact subst_unbound. Qed.
Print Assumptions C05_unbound_kept.

(* the message depends on the bindings of the variables its template names and on nothing else:
   "that solution's own bindings only" *)
Theorem C05_message_own_bindings : forall b b' t,
  (forall n, In n (holes t) -> lookup b n = lookup b' n) -> subst b t = subst b' t.
Proof. exact subst_own_bindings. Qed.
Print Assumptions C05_message_own_bindings.

(* ex_template = "v={?value} on {$this}, {?other} {?} {" with ?value = "C:\dir {$this}" and $this = "ex:a"
   gives "v=C:\dir {$this} on ex:a, {?other} {?} {" (definitions in Sparql/MessageProofs.v) *)
Example C05_message_nonvacuous : subst ex_bindings ex_template = ex_result.
Proof. vm_compute. reflexivity. Qed.

(* ---- The variable a component's parameter is pre-bound under (Sparql/LocalName.v, model of
   SHACLParameter.localname): for a parameter ns#local or ns/local the name is local, so the query's
   $local is the variable that receives the parameter's value; no other name, whatever the namespace
   looks like before the separator. [LocalName.find c s = None]: the character does not occur. ---- *)
Theorem C05_parameter_name_hash_namespace : forall ns local : String.string,
  ns <> String.EmptyString -> LocalName.find LocalName.hash ns = None ->
  LocalName.localname (String.append ns (String.String LocalName.hash local)) = Some local.
Proof. exact LocalName.localname_hash. Qed.
Print Assumptions C05_parameter_name_hash_namespace.

Theorem C05_parameter_name_slash_namespace : forall ns local : String.string,
  ns <> String.EmptyString -> LocalName.find LocalName.hash ns = None ->
  LocalName.find LocalName.hash local = None -> LocalName.find LocalName.slash local = None ->
  LocalName.localname (String.append ns (String.String LocalName.slash local)) = Some local.
Proof. exact LocalName.localname_slash. Qed.
Print Assumptions C05_parameter_name_slash_namespace.

Theorem C05_parameter_names_distinct : forall ns l1 l2 : String.string,
  ns <> String.EmptyString -> LocalName.find LocalName.hash ns = None ->
  LocalName.find LocalName.hash l1 = None -> LocalName.find LocalName.slash l1 = None ->
  LocalName.find LocalName.hash l2 = None -> LocalName.find LocalName.slash l2 = None ->
  LocalName.localname (String.append ns (String.String LocalName.slash l1)) =
  LocalName.localname (String.append ns (String.String LocalName.slash l2)) -> l1 = l2.
Proof. exact LocalName.localname_injective_slash. Qed.
Print Assumptions C05_parameter_names_distinct.

(* the documented error, and only then: no '#' and no '/' beyond the first character *)
Theorem C05_parameter_name_error : forall p : String.string,
  LocalName.localname p = None <->
  (LocalName.find LocalName.hash p = None \/ LocalName.find LocalName.hash p = Some 0) /\
  (LocalName.rfind LocalName.slash p = None \/ LocalName.rfind LocalName.slash p = Some 0).
Proof. exact LocalName.localname_error. Qed.
Print Assumptions C05_parameter_name_error.

Import String.
Example C05_parameter_name_examples :
  LocalName.localname "http://example.org/params/maxLen"%string = Some "maxLen"%string /\
  LocalName.localname "http://example.org/ns#maxLen"%string = Some "maxLen"%string /\
  LocalName.localname "http://a/b#c/d#e"%string = Some "c/d#e"%string /\
  LocalName.localname "urn:x"%string = None.
Proof. vm_compute. repeat split. Qed.
