(* C14 - multi-graph data = union graph; mix-in / pre-inference = validating pre-expanded. *)
From Coq Require Import List NArith Bool String.
From Verif Require Import Base.SetList Base.Terms Mini.PyMini Gen.T1 Mini.Pipeline Mini.Content Mini.ContentProofs Mini.Quads.
Import ListNotations.

(* For every option valuation on which the constructor and run() do not refuse: the object that is
   validated in the end holds the caller's data, then the ontology's axioms (iff an ontology was
   given), then the closure (iff an inference mode is active and the data is not pre-inferenced),
   then the rule output - whatever the container kind of the data and whether inplace is set.
   Programs generated from /repo by translator/t1.py; decided by evaluation over 1280 valuations. *)
Theorem C14_validated_content : forall v c, In v all_valuations ->
  validated_content (run_validator_content v) = Some c -> c = expected_validator v.
Proof. exact validator_validates_expected. Qed.
Print Assumptions C14_validated_content.
Theorem C14_expanded_content : forall v c, In v all_valuations ->
  validated_content (run_rules_content v) = Some c -> c = expected_rules v.
Proof. exact rules_expand_expected. Qed.
Print Assumptions C14_expanded_content.

Theorem C14_container_irrelevant : forall v v' c c', In v all_valuations -> In v' all_valuations -> same_but_container v v' ->
  validated_content (run_validator_content v) = Some c -> validated_content (run_validator_content v') = Some c' -> c = c'.
Proof. exact container_irrelevant_validator. Qed.
Print Assumptions C14_container_irrelevant.
Theorem C14_container_irrelevant_rules : forall v v' c c', In v all_valuations -> In v' all_valuations -> same_but_container v v' ->
  validated_content (run_rules_content v) = Some c -> validated_content (run_rules_content v') = Some c' -> c = c'.
Proof. exact container_irrelevant_rules. Qed.
Print Assumptions C14_container_irrelevant_rules.

(* = validating, with neither option, the graph expanded beforehand in the same way: for ANY
   axiom-mixing, closure and rule functions (inoculate / owlrl / apply_rules in the real code) *)
Theorem C14_equals_pre_expanded : forall (G:Type) (mix:G -> G -> G) (closure rules:G -> G) v c data ont,
  In v all_valuations -> validated_content (run_validator_content v) = Some c ->
  denote mix closure rules data ont c data = pre_expanded mix closure rules v data ont.
Proof. intros G mix closure rules. exact (validated_is_pre_expanded mix closure rules). Qed.
Print Assumptions C14_equals_pre_expanded.

(* quads: cloning keeps the union graph, writing into any named graph adds exactly the written
   triples to it, and every distribution of a triple set over named graphs has that set as union *)
Theorem C14_clone_union : forall ds t, In t (dunion (dclone ds)) <-> In t (dunion ds).
Proof. exact clone_same_union. Qed.
Print Assumptions C14_clone_union.
Theorem C14_write_union : forall ctx ts ds t, In t (dunion (dwrite ctx ts ds)) <-> In t (dunion ds) \/ In t ts.
Proof. exact write_adds_to_union. Qed.
Print Assumptions C14_write_union.
Theorem C14_any_partition : forall (assign:triple -> term) (T:graph) t,
  In t (dunion (map (fun x => (assign x, x)) T)) <-> In t T.
Proof. exact any_partition_same_union. Qed.
Print Assumptions C14_any_partition.

(* non-vacuity: a Dataset with ontology and rdfs inference, not inplace *)
Definition v_ex : valuation :=
  {| v_ont := true; v_inplace := false; v_preinf := false; v_multi := true; v_inference := Some "rdfs"%string; v_advanced := false;
     v_sparql := false; v_functions := false; v_rules := false |}.
Example C14_nonvacuous : validated_content (run_validator_content v_ex) = Some [XData; XMix; XInfer].
Proof. vm_compute. reflexivity. Qed.
