(* C12 - abort_on_first changes how much is reported, never what is decided. *)
From Coq Require Import List NArith Bool.
From Verif Require Import Base.SetList Base.Terms Base.Vocab Paths.Path Shapes.AST Shapes.Leaf Shapes.Eval
  Shapes.EvalProofs Shapes.AbortProofs.
Import ListNotations.

(* For every environment (recursive or not), data graph, order of shapes and constraints and
   every severity-waiver setting: whenever the complete run gives a report (c, rs), the run with
   abort_on_first gives (c, rs') - the same verdict - where rs' is a sub-list of rs whose
   results may carry fewer nested details, and a non-conforming verdict has a result. *)
Theorem C12_abort : forall trig W o, abort o = false -> forall sg g E c rs,
  validate trig W o sg g E = Ok (c, rs) ->
  exists rs', validate trig W (with_abort o) sg g E = Ok (c, rs') /\ le_list rs' rs /\ (c = false -> rs' <> []).
Proof. exact validate_abort. Qed.
Print Assumptions C12_abort.

(* the RuntimeError "A Non-Conformant Validation Report must have at least one result" is unreachable *)
Theorem C12_nonempty : forall trig W o sg g E rs, validate trig W o sg g E = Ok (false, rs) -> rs <> [].
Proof. exact nonconforming_has_result. Qed.
Print Assumptions C12_nonempty.

(* Non-vacuity: two failing constraints; the aborted run keeps the first result only. *)
Definition S : shape := {| sid := IRI 100; spath := None; deact := false; ssev := t_Violation; smsgs := [];
   stargets := {| t_nodes := [IRI 7]; t_classes := []; t_implicit := false; t_subjects_of := []; t_objects_of := [] |};
   scomps := [CLeaf (LIn []); CLeaf (LHasValue [IRI 8])] |}.
Definition ofull := {| abort := false; allow_infos := false; allow_warnings := false; max_depth := 15; focus_filter := [] |}.
Example C12_nonvacuous :
  validate_impl0 ofull [] [] [S] = Ok (false, [VR (IRI 7) (Some (IRI 7)) None sh_InConstraintComponent (IRI 100) t_Violation [] [];
                                              VR (IRI 7) None None sh_HasValueConstraintComponent (IRI 100) t_Violation [] []])
  /\ validate_impl0 (with_abort ofull) [] [] [S] = Ok (false, [VR (IRI 7) (Some (IRI 7)) None sh_InConstraintComponent (IRI 100) t_Violation [] []]).
Proof. vm_compute. split; reflexivity. Qed.
