(* C16: what the generated census of raise statements satisfies (decided by evaluation on the generated tables). *)
From Coq Require Import List NArith String Bool.
From Verif Require Import Gen.T3 Gen.T6 Mini.Cli Mini.Raises.
Import ListNotations.
Open Scope string_scope.

Lemma census_computed : census_ok = true.
Proof. vm_compute. reflexivity. Qed.
Lemma helper_calls_computed : helper_calls_ok = true.
Proof. vm_compute. reflexivity. Qed.
Lemma warning_computed : warning_is_caught = true.
Proof. vm_compute. reflexivity. Qed.

Theorem raise_census : forall s, In s raise_sites ->
  documented (s_what s) = true \/ s_caught s = true \/ helper_signal s = true \/ is_guard s = true.
Proof.
  intros s Hs. pose proof (proj1 (forallb_forall site_ok raise_sites) census_computed s Hs) as H.
  unfold site_ok in H. repeat rewrite orb_true_iff in H. tauto.
Qed.

Theorem helper_calls_guarded : forall c, In c helper_calls -> s_caught c = true \/ fn_is_helper (s_fn c) = true.
Proof.
  intros c Hc. pose proof (proj1 (forallb_forall call_ok helper_calls) helper_calls_computed c Hc) as H.
  unfold call_ok in H. rewrite orb_true_iff in H. exact H.
Qed.

(* a documented class is handled by the command line with status 2, 3 or (ValidationFailure) 1 + text; in particular
   never by falling out of main() *)
Lemma documented_classes_have_handlers :
  forallb (fun s => negb (documented (s_what s)) || String.eqb (s_what s) "<reraise>"
                    || match dispatch cli_handlers (census_mro 8 (s_what s)) with Some _ => true | None => false end) raise_sites = true.
Proof. vm_compute. reflexivity. Qed.

Lemma asserts_computed : asserts_ok = true.
Proof. vm_compute. reflexivity. Qed.

Theorem assert_census : forall a, In a assert_sites -> assert_ok a = true.
Proof. intros a Ha. exact (proj1 (forallb_forall assert_ok assert_sites) asserts_computed a Ha). Qed.
