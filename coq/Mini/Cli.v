(* C16 (command line half): how an outcome of validate() becomes the exit status of
   `python -m pyshacl`, from the handler table GENERATED from pyshacl/cli.py (Gen/T3.v).
   Python's semantics of `try ... except C1 ... except Cn`: the first clause whose class is the
   raised exception's class or one of its ancestors handles it; if none does the exception leaves
   main() and the interpreter exits with status 1. An exception class is represented by the list
   of the names of the classes in its method resolution order. *)
From Coq Require Import List NArith String Bool.
From Verif Require Import Gen.T3.
Import ListNotations.
Open Scope string_scope.

Definition mro := list string.
Fixpoint smem (x:string) (l:list string) : bool := match l with [] => false | y :: r => String.eqb x y || smem x r end.

Fixpoint dispatch (hs:list (string * N * bool)) (c:mro) : option (string * N * bool) :=
  match hs with
  | [] => None
  | h :: r => if smem (fst (fst h)) c then Some h else dispatch r c
  end.

Inductive outcome := Returned (conforms:bool) | Raised (c:mro).

Definition UNCAUGHT : N := 1.   (* CPython: traceback, exit status 1 *)

Definition exit_status (o:outcome) : N :=
  match o with
  | Returned true => cli_final_exit_conform
  | Returned false => cli_final_exit_nonconform
  | Raised c => match dispatch cli_handlers c with Some h => snd (fst h) | None => UNCAUGHT end
  end.
(* something was written to the report output (the report, or the text of a validation failure) *)
Definition report_written (o:outcome) : bool :=
  match o with
  | Returned _ => cli_report_written_before_final_exit
  | Raised c => match dispatch cli_handlers c with Some h => snd h | None => false end
  end.

(* ancestors of the classes of pyshacl/errors.py, from the generated table and the builtin hierarchy *)
Definition builtin_bases : list (string * string) :=
  [("RuntimeError", "Exception"); ("NotImplementedError", "RuntimeError"); ("RecursionError", "RuntimeError");
   ("RuntimeWarning", "Warning"); ("Warning", "Exception"); ("Exception", "BaseException")].
Fixpoint base_of (t:list (string * string)) (c:string) : option string :=
  match t with [] => None | (k, b) :: r => if String.eqb k c then Some b else base_of r c end.
Fixpoint mro_of (fuel:nat) (c:string) : mro :=
  match fuel with
  | O => [c]
  | S f => c :: match base_of (error_classes ++ builtin_bases) c with Some b => mro_of f b | None => [] end
  end.

(* decided facts about the generated table *)
Definition wf_catchall : bool := smem "Exception" (map (fun h => fst (fst h)) cli_handlers).
Definition code_ok (h:string * N * bool) : bool :=
  match snd (fst h) with
  | 1%N => String.eqb (fst (fst h)) "ValidationFailure" && snd h
  | 2%N | 3%N => true
  | _ => false
  end.
Definition wf_codes : bool := forallb code_ok cli_handlers.
Definition wf_finals : bool :=
  cli_raises_inband_failure && cli_report_written_before_final_exit
  && N.eqb cli_final_exit_conform 0 && N.eqb cli_final_exit_nonconform 1.
Definition wf_early : bool := forallb (fun n => N.eqb n 2) cli_early_exits.
Definition handlers_wellformed : bool := wf_catchall && wf_codes && wf_finals && wf_early.

Definition documented_family : list string := ["ReportableRuntimeError"; "ShapeLoadError"; "ConstraintLoadError"; "RuleLoadError"].
Definition family_codes_ok : bool :=
  forallb (fun c => N.eqb (exit_status (Raised (mro_of 8 c))) 2) documented_family
  && N.eqb (exit_status (Raised (mro_of 8 "NotImplementedError"))) 3
  && N.eqb (exit_status (Raised (mro_of 8 "ValidationFailure"))) 1
  && report_written (Raised (mro_of 8 "ValidationFailure")).

(* ---- C18: the command line and the API agree on the options ---- *)
Definition structural_dests : list string := ["data"; "output"; "do_rules"; "server"].
Definition every_option_reaches_validate : bool :=
  forallb (fun d => smem d structural_dests || existsb (fun p => String.eqb (fst p) d) cli_passed) cli_dests.
Definition every_keyword_understood : bool := forallb (fun p => smem (snd p) validate_keywords) cli_passed.
