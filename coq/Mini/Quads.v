(* C14: datasets at the level of quads. A dataset is a list of (context, triple); what a
   validation run reads (default_union = True) is the union graph. *)
From Coq Require Import List NArith Bool.
From Verif Require Import Base.SetList Base.Terms.
Import ListNotations.

Definition quad := (term * triple)%type.       (* (graph name, triple) *)
Definition dataset := list quad.

Definition q_triple_eqb (a b:triple) : bool :=
  term_eqb (tsubj a) (tsubj b) && term_eqb (tpred a) (tpred b) && term_eqb (tobj a) (tobj b).
Lemma q_triple_eqb_spec a b : reflect (a = b) (q_triple_eqb a b).
Proof.
  destruct a as [[s p] o], b as [[s' p'] o']. unfold q_triple_eqb, tsubj, tpred, tobj. simpl.
  destruct (term_eqb_spec s s'), (term_eqb_spec p p'), (term_eqb_spec o o'); simpl; constructor; congruence.
Qed.

Definition dunion (ds:dataset) : graph := dedup q_triple_eqb (map snd ds).

(* clone_dataset: every graph is copied under its own name *)
Definition dclone (ds:dataset) : dataset := map (fun q => q) ds.
(* writing triples into one (existing or new) named graph of the dataset: inoculate_dataset's
   ontology graph, _run_pre_inference's destination graph, the rules' default context *)
Definition dwrite (ctx:term) (ts:list triple) (ds:dataset) : dataset := ds ++ map (fun t => (ctx, t)) ts.

Lemma In_dunion ds t : In t (dunion ds) <-> exists c, In (c, t) ds.
Proof.
  unfold dunion. rewrite (In_dedup q_triple_eqb_spec), in_map_iff. split.
  - intros ([c t'] & E & H). simpl in E. subst t'. exists c. exact H.
  - intros (c & H). exists (c, t). split; [reflexivity|exact H].
Qed.

Theorem clone_same_union ds t : In t (dunion (dclone ds)) <-> In t (dunion ds).
Proof. unfold dclone. rewrite map_id. reflexivity. Qed.

Theorem write_adds_to_union ctx ts ds t : In t (dunion (dwrite ctx ts ds)) <-> In t (dunion ds) \/ In t ts.
Proof.
  rewrite !In_dunion. unfold dwrite. split.
  - intros (c & H). apply in_app_or in H as [H|H]; [left; exists c; exact H|right].
    apply in_map_iff in H as (t' & E & H). injection E as _ <-. exact H.
  - intros [(c & H)|H]; [exists c; apply in_or_app; left; exact H|].
    exists ctx. apply in_or_app. right. apply in_map_iff. exists t. split; [reflexivity|exact H].
Qed.

(* every way of distributing the triples of T over named graphs has T as its union *)
Theorem any_partition_same_union (assign:triple -> term) (T:graph) t :
  In t (dunion (map (fun x => (assign x, x)) T)) <-> In t T.
Proof.
  rewrite In_dunion. split.
  - intros (c & H). apply in_map_iff in H as (x & E & H). injection E as _ <-. exact H.
  - intros H. exists (assign t). apply in_map_iff. exists t. split; [reflexivity|exact H].
Qed.

(* hence two partitions of the same triple set are indistinguishable through the union *)
Corollary partitions_agree (a1 a2:triple -> term) (T:graph) t :
  In t (dunion (map (fun x => (a1 x, x)) T)) <-> In t (dunion (map (fun x => (a2 x, x)) T)).
Proof. rewrite !any_partition_same_union. reflexivity. Qed.

Definition gsub (a b:graph) : bool := forallb (fun t => mem q_triple_eqb t b) a.
Definition gsame (a b:graph) : bool := gsub a b && gsub b a.
