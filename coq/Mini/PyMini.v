(* PyMini: a deep embedding of the Python subset in which pySHACL's pipeline decisions are
   written (which graph object is cloned before which writer runs, which global switch is
   flipped and restored). Programs in this language are GENERATED from /repo's source on every
   run by translator/*.py; this file is the hand-written semantics.

   Graphs are abstract heap objects: the caller's objects have small fixed ids, clones are
   fresh. White-listed callees do not run: they emit events according to the summaries in
   `call_summary` (each summary is also compared with the real callee by the harness). *)
From Coq Require Import List NArith Bool String.
Import ListNotations.
Open Scope string_scope.

Inductive value :=
| VNone | VBool (b:bool) | VStr (s:string) | VObj (o:N) | VOpaque.   (* VOpaque: a value the slice only passes on *)

Inductive expr :=
| EName (x:string)
| ESelf (attr:string)                       (* self.attr *)
| EConst (v:value)
| ENot (e:expr) | EAnd (a b:expr) | EOr (a b:expr)
| EIsNone (e:expr) | EIsNotNone (e:expr)
| EEq (a b:expr) | ENe (a b:expr)
| EOpt (key:string) (dflt:option value)     (* self.options.get(key, dflt) / self.options[key] *)
| EStr (e:expr)                             (* str(e) *)
| EIf (c a b:expr)                          (* a if c else b *)
| ECall (f:string) (args:list expr).        (* white-listed call or call of another translated method *)

Inductive stmt :=
| SAssign (x:string) (e:expr)
| SSetSelf (attr:string) (e:expr)
| SExpr (e:expr)
| SIf (c:expr) (th el:list stmt)
| SRaise (cls:string)
| SReturn (e:expr)
| STry (body:list stmt) (final:list stmt).   (* try: body finally: final *)

Inductive event :=
| Clone (src dst:N)        (* a new graph object dst holding a copy of src *)
| Write (o:N)              (* triples are added to object o *)
| Flip (switch:string) (on:bool)   (* a process-global switch is set *)
| Reg (on:bool)            (* custom SPARQL functions registered / unregistered *)
| Noted (what:string)      (* an effect-free step that may still fail, e.g. the validation loop *)
| Forget                   (* the id(graph)-keyed module caches are emptied *)
| Mix (o:N)                (* content view (C14): the ontology's axioms are added to object o *)
| Infer (o:N)              (* content view (C14): the closure of o's union graph is added to o *)
| Raised (cls:string).

Record state := {
  vars : list (string * value);
  selfs : list (string * value);
  opts : list (string * value);
  trace : list event;
  next : N;                  (* next fresh object id *)
  faults : list nat          (* positions (index of effectful call) at which a callee raises *)
}.

Inductive outcome := Normal | Returned (v:value) | Exn (cls:string) | Stuck (why:string).

Fixpoint lookup (l:list (string * value)) (k:string) : option value :=
  match l with [] => None | (k', v) :: r => if String.eqb k k' then Some v else lookup r k end.
Definition update (l:list (string * value)) (k:string) (v:value) := (k, v) :: l.

Definition truthy (v:value) : bool :=
  match v with VNone => false | VBool b => b | VStr s => negb (String.eqb s "") | VObj _ => true | VOpaque => true end.

Definition value_eqb (a b:value) : bool :=
  match a, b with
  | VNone, VNone => true | VBool x, VBool y => Bool.eqb x y | VStr x, VStr y => String.eqb x y
  | VObj x, VObj y => N.eqb x y | _, _ => false
  end.

Definition emit (st:state) (e:event) : state :=
  {| vars := vars st; selfs := selfs st; opts := opts st; trace := (trace st ++ [e])%list; next := next st; faults := faults st |}.
Definition set_vars (st:state) (v:list (string * value)) : state :=
  {| vars := v; selfs := selfs st; opts := opts st; trace := trace st; next := next st; faults := faults st |}.
Definition set_selfs (st:state) (v:list (string * value)) : state :=
  {| vars := vars st; selfs := v; opts := opts st; trace := trace st; next := next st; faults := faults st |}.
Definition fresh (st:state) : N * state :=
  (next st, {| vars := vars st; selfs := selfs st; opts := opts st; trace := trace st; next := N.succ (next st); faults := faults st |}).

(* number of effectful calls so far = number of Clone/Write/Flip/Reg events *)
Definition effect_count (st:state) : nat := List.length (trace st).
Definition faulty (st:state) : bool := existsb (Nat.eqb (effect_count st)) (faults st).

(* result of evaluating an expression: a value or an exception class *)
Inductive eres := EV (v:value) (st:state) | EX (cls:string) (st:state) | ES (why:string).

Definition obj_of (v:value) : option N := match v with VObj o => Some o | _ => None end.

(* summaries of the white-listed callees: (callee, evaluated arguments) -> events and result.
   A callee listed in `faults` raises RuntimeError after its effect. *)
Definition call_summary (f:string) (args:list value) (st:state) : eres :=
  let finish (v:value) (st':state) :=
    if faulty st then EX "RuntimeError" (emit st' (Raised "RuntimeError")) else EV v st' in
  match f, args with
  | "clone_graph", a :: _ =>
      match obj_of a with
      | Some src => let '(d, st1) := fresh st in finish (VObj d) (emit st1 (Clone src d))
      | None => ES "clone_graph of a non-object"
      end
  | "inoculate", a :: _ :: _ =>
      match obj_of a with Some o => finish a (emit st (Write o)) | None => ES "inoculate into a non-object" end
  | "inoculate_dataset", base :: _ :: target :: _ =>
      match target, obj_of base with
      | VNone, Some b => let '(d, st1) := fresh st in finish (VObj d) (emit (emit st1 (Clone b d)) (Write d))
      | VObj t, _ => finish target (emit st (Write t))
      | _, _ => ES "inoculate_dataset arguments"
      end
  | "mix_graphs", a :: _ :: mode :: _ | "mix_datasets", a :: _ :: mode :: _ =>
      match obj_of a with
      | Some b => if truthy mode then finish a (emit st (Write b))
                  else let '(d, st1) := fresh st in finish (VObj d) (emit (emit st1 (Clone b d)) (Write d))
      | None => ES "mix of a non-object"
      end
  | "_run_pre_inference", a :: _ =>
      match obj_of a with Some o => finish VNone (emit st (Write o)) | None => ES "inference on a non-object" end
  | "apply_rules", _ :: _ :: g :: _ =>
      match obj_of g with Some o => finish VNone (emit st (Write o)) | None => ES "rules on a non-object" end
  | "apply_functions", _ => finish VNone (emit st (Reg true))
  | "unapply_functions", _ => EV VNone (emit st (Reg false))
  | "validate_shapes", _ => finish VNone (emit st (Noted "validate_shapes"))
  | "rdflib_bool_patch", _ => EV VNone (emit st (Flip "rdflib_bool" true))
  | "rdflib_bool_unpatch", _ => EV VNone (emit st (Flip "rdflib_bool" false))
  | "load_from_source", _ => finish VOpaque (emit st (Noted "load_from_source"))
  | "_forget_cached_graph_contents", _ => EV VNone (emit st Forget)
  | "URIRef", _ => EV VOpaque st
  | _, _ => ES ("call not in the white-list: " ++ f)
  end.

Section Exec.
Variable summary : string -> list value -> state -> eres.   (* events and result of the white-listed callees *)
Variable methods : list (string * list stmt).   (* other translated methods of the same class *)

Fixpoint find_method (l:list (string * list stmt)) (k:string) : option (list stmt) :=
  match l with [] => None | (k', b) :: r => if String.eqb k k' then Some b else find_method r k end.

Fixpoint eval_gen (fuel:nat) (e:expr) (st:state) {struct fuel} : eres :=
  match fuel with O => ES "fuel" | S fuel' =>
  match e with
  | EName x => match lookup (vars st) x with Some v => EV v st | None => ES ("unbound " ++ x) end
  | ESelf a => match lookup (selfs st) a with Some v => EV v st | None => ES ("no attribute " ++ a) end
  | EConst v => EV v st
  | ENot a => match eval_gen fuel' a st with EV v st' => EV (VBool (negb (truthy v))) st' | r => r end
  | EAnd a b => match eval_gen fuel' a st with
                | EV v st' => if truthy v then eval_gen fuel' b st' else EV v st'
                | r => r end
  | EOr a b => match eval_gen fuel' a st with
               | EV v st' => if truthy v then EV v st' else eval_gen fuel' b st'
               | r => r end
  | EIsNone a => match eval_gen fuel' a st with EV v st' => EV (VBool (match v with VNone => true | _ => false end)) st' | r => r end
  | EIsNotNone a => match eval_gen fuel' a st with EV v st' => EV (VBool (match v with VNone => false | _ => true end)) st' | r => r end
  | EEq a b => match eval_gen fuel' a st with
               | EV va st' => match eval_gen fuel' b st' with EV vb st'' => EV (VBool (value_eqb va vb)) st'' | r => r end
               | r => r end
  | ENe a b => match eval_gen fuel' a st with
               | EV va st' => match eval_gen fuel' b st' with EV vb st'' => EV (VBool (negb (value_eqb va vb))) st'' | r => r end
               | r => r end
  | EOpt k d => match lookup (opts st) k, d with
                | Some v, _ => EV v st
                | None, Some v => EV v st
                | None, None => EX "KeyError" st
                end
  | EStr a => eval_gen fuel' a st
  | EIf c a b => match eval_gen fuel' c st with
                 | EV v st' => if truthy v then eval_gen fuel' a st' else eval_gen fuel' b st'
                 | r => r end
  | ECall f args =>
      (fix evargs (l:list expr) (acc:list value) (st:state) {struct l} : eres :=
         match l with
         | [] =>
           match find_method methods f with
           | Some body =>
               (* a method of the same object: fresh locals, same self *)
               match exec_gen fuel' body (set_vars st []) with
               | (Returned v, st') => EV v (set_vars st' (vars st))
               | (Normal, st') => EV VNone (set_vars st' (vars st))
               | (Exn c, st') => EX c (set_vars st' (vars st))
               | (Stuck w, _) => ES w
               end
           | None => summary f (rev acc) st
           end
         | a :: r => match eval_gen fuel' a st with EV v st' => evargs r (v :: acc) st' | other => other end
         end) args [] st
  end end
with exec_gen (fuel:nat) (body:list stmt) (st:state) {struct fuel} : outcome * state :=
  match fuel with O => (Stuck "fuel", st) | S fuel' =>
  match body with
  | [] => (Normal, st)
  | s :: rest =>
    let continue (st':state) := exec_gen fuel' rest st' in
    match s with
    | SAssign x e => match eval_gen fuel' e st with
                     | EV v st' => continue (set_vars st' (update (vars st') x v))
                     | EX c st' => (Exn c, st') | ES w => (Stuck w, st) end
    | SSetSelf a e => match eval_gen fuel' e st with
                      | EV v st' => continue (set_selfs st' (update (selfs st') a v))
                      | EX c st' => (Exn c, st') | ES w => (Stuck w, st) end
    | SExpr e => match eval_gen fuel' e st with
                 | EV _ st' => continue st' | EX c st' => (Exn c, st') | ES w => (Stuck w, st) end
    | SIf c th el => match eval_gen fuel' c st with
                     | EV v st' => match exec_gen fuel' (if truthy v then th else el) st' with
                                   | (Normal, st'') => continue st''
                                   | other => other end
                     | EX cl st' => (Exn cl, st') | ES w => (Stuck w, st) end
    | SRaise cls => (Exn cls, emit st (Raised cls))
    | SReturn e => match eval_gen fuel' e st with
                   | EV v st' => (Returned v, st') | EX c st' => (Exn c, st') | ES w => (Stuck w, st) end
    | STry b fin =>
        match exec_gen fuel' b st with
        | (Stuck w, st') => (Stuck w, st')
        | (o, st') => match exec_gen fuel' fin st' with
                      | (Normal, st'') => match o with Normal => continue st'' | _ => (o, st'') end
                      | other => other end
        end
    end
  end end.

End Exec.

(* the effect view used by C08/C07/C10: the summaries above *)
Definition eval := eval_gen call_summary.
Definition exec_list := exec_gen call_summary.

Definition FUEL := 200.

Fixpoint writes (tr:list event) : list N :=
  match tr with [] => [] | Write o :: r => o :: writes r | _ :: r => writes r end.
