(* C10: invariants of the global state machine, from the decided properties of the generated programs. *)
From Coq Require Import List NArith Bool String.
From Verif Require Import Mini.PyMini Gen.T1 Gen.T2 Mini.Pipeline Mini.GlobalState.
Import ListNotations.

Definition load_ok : bool :=
  forallb (fun rules => forallb (fun fs =>
    let r := apply_trace (snd (load_trace rules fs)) false false in negb (fst r) && negb (snd r)) fault_sets) [false; true].
Definition run_ok : bool :=
  forallb (fun rules => forallb (fun v => forallb (fun fs =>
    let r := apply_trace (snd (run_trace rules v fs)) false false in negb (fst r) && negb (snd r)) fault_sets) all_valuations) [false; true].

Lemma load_ok_computed : load_ok = true.
Proof. vm_compute. reflexivity. Qed.
Lemma run_ok_computed : run_ok = true.
Proof. vm_compute. reflexivity. Qed.

Lemma pair_false (r:bool * bool) : negb (fst r) && negb (snd r) = true -> r = (false, false).
Proof. destruct r as [[] []]; simpl; intros H; try discriminate; reflexivity. Qed.

Lemma load_lift : load_ok = true ->
  forall rules fs, In fs fault_sets -> apply_trace (snd (load_trace rules fs)) false false = (false, false).
Proof.
  unfold load_ok. intros H rules fs Hf. rewrite forallb_forall in H.
  assert (Hr : In rules [false; true]) by (destruct rules; simpl; auto).
  specialize (H rules Hr). rewrite forallb_forall in H. specialize (H fs Hf).
  apply pair_false. exact H.
Qed.
Lemma load_restores rules fs : In fs fault_sets -> apply_trace (snd (load_trace rules fs)) false false = (false, false).
Proof. apply load_lift. exact load_ok_computed. Qed.

Lemma run_lift : run_ok = true ->
  forall rules v fs, In v all_valuations -> In fs fault_sets ->
  apply_trace (snd (run_trace rules v fs)) false false = (false, false).
Proof.
  unfold run_ok. intros H rules v fs Hv Hf. rewrite forallb_forall in H.
  assert (Hr : In rules [false; true]) by (destruct rules; simpl; auto).
  specialize (H rules Hr). rewrite forallb_forall in H. specialize (H v Hv). rewrite forallb_forall in H.
  specialize (H fs Hf). apply pair_false. exact H.
Qed.
Lemma run_restores rules v fs : In v all_valuations -> In fs fault_sets ->
  apply_trace (snd (run_trace rules v fs)) false false = (false, false).
Proof. apply run_lift. exact run_ok_computed. Qed.

Definition op_in_domain (o:op) : Prop :=
  match o with
  | Call _ v lf rf _ _ _ => In v all_valuations /\ In lf fault_sets /\ In rf fault_sets
  | _ => True
  end.

(* whatever a call does and wherever it fails, it leaves the named globals as it found them *)
Theorem inv_step clears s o : Inv s -> op_in_domain o -> Inv (fst (step clears s o)).
Proof.
  intros [Hp Hr] Hd. destruct o as [rules v lf rf sa da nodes|a n d|a|a ct]; cbn [step]; try (split; assumption).
  destruct Hd as (Hv & Hlf & Hrf). rewrite Hp, Hr.
  destruct (load_trace rules lf) as [o1 t1] eqn:E1.
  assert (H1 : apply_trace t1 false false = (false, false)).
  { pose proof (load_restores rules lf Hlf) as H. rewrite E1 in H. exact H. }
  rewrite H1. destruct o1; try (split; reflexivity).
  destruct (run_trace rules v rf) as [o2 t2] eqn:E2.
  assert (H2 : apply_trace t2 false false = (false, false)).
  { pose proof (run_restores rules v rf Hv Hrf) as H. rewrite E2 in H. exact H. }
  rewrite H2. split; reflexivity.
Qed.

Theorem inv_reachable clears ops : Forall op_in_domain ops -> forall s, Inv s -> Inv (run clears ops s).
Proof.
  induction 1 as [|o ops Ho _ IH]; intros s Hs; simpl; [exact Hs|]. apply IH. apply inv_step; auto.
Qed.

(* a call observes the current contents of the graphs it is given - not the process history *)
Definition fresh_with (h:list (addr * content)) : gstate := {| patched := false; registered := false; cache := []; heap := h |}.

Theorem call_history_free s rules v lf rf sa da nodes :
  snd (step true s (Call rules v lf rf sa da nodes))
  = snd (step true (fresh_with (heap s)) (Call rules v lf rf sa da nodes)).
Proof.
  cbn [step fresh_with patched registered cache heap].
  destruct (load_trace rules lf) as [o1 t1].
  destruct (apply_trace t1 (patched s) (registered s)) as [p1 r1].
  destruct (apply_trace t1 false false) as [p1' r1'].
  destruct o1; try reflexivity.
  destruct (run_trace rules v rf) as [o2 t2].
  destruct (apply_trace t2 p1 r1), (apply_trace t2 p1' r1'). reflexivity.
Qed.

Lemma code_clears_computed : code_clears = true.
Proof. vm_compute. reflexivity. Qed.

(* the step function of the code as it stands: `clears` read off the generated constructors *)
Theorem history_free ops s0 rules v lf rf sa da nodes :
  snd (step code_clears (run code_clears ops s0) (Call rules v lf rf sa da nodes))
  = snd (step code_clears (fresh_with (heap (run code_clears ops s0))) (Call rules v lf rf sa da nodes)).
Proof. rewrite code_clears_computed. apply call_history_free. Qed.

(* without the clearing (the code before the fix) the statement is false: validate, edit, validate again *)
Definition v0 : valuation :=
  {| v_ont := false; v_inplace := false; v_preinf := false; v_multi := false; v_inference := None; v_advanced := false;
     v_sparql := false; v_functions := false; v_rules := false |}.
Definition stale_history : list op := [Alloc 1%N [(5%N, 100%N)]; Call false v0 [] [] 1%N 1%N [5%N]; Edit 1%N 5%N 200%N].
Theorem stale_cache_refutes_without_clearing :
  snd (step false (run false stale_history init) (Call false v0 [] [] 1%N 1%N [5%N]))
  <> snd (step false (fresh_with (heap (run false stale_history init))) (Call false v0 [] [] 1%N 1%N [5%N])).
Proof. vm_compute. discriminate. Qed.
