(* C10: the process-global state pySHACL touches, as a state machine driven by the event traces
   of the GENERATED pipeline programs (Gen/T1.v, Gen/T2.v), plus the two id(graph)-keyed caches.

   globals: rdflib.NORMALIZE_LITERALS / the xsd:boolean parser (one switch "rdflib_bool"),
            the registry of custom SPARQL functions, the blank-node stringification cache and the
            SPARQL-constraint-component validator cache (keyed by (id(graph), node)). *)
From Coq Require Import List NArith Bool String.
From Verif Require Import Mini.PyMini Gen.T1 Gen.T2 Mini.Pipeline.
Import ListNotations.
Open Scope string_scope.

Definition addr := N.
Definition content := list (N * N).       (* node -> description/definition, as it stands in the graph *)

Record gstate := {
  patched : bool;                         (* rdflib's literal parsing is patched *)
  registered : bool;                      (* custom SPARQL functions are registered *)
  cache : list (addr * N * N);            (* (id(graph), node) -> cached description/validator *)
  heap : list (addr * content)            (* live graph objects *)
}.
Definition init : gstate := {| patched := false; registered := false; cache := []; heap := [] |}.

Fixpoint apply_trace (tr:list event) (p r:bool) : bool * bool :=
  match tr with
  | [] => (p, r)
  | Flip _ b :: t => apply_trace t b r
  | Reg b :: t => apply_trace t p b
  | _ :: t => apply_trace t p r
  end.

Fixpoint assoc_n {B} (l:list (N * B)) (k:N) : option B :=
  match l with [] => None | (k', v) :: r => if N.eqb k k' then Some v else assoc_n r k end.

Definition cache_get (c:list (addr * N * N)) (a:addr) (n:N) : option N :=
  match find (fun e => N.eqb (fst (fst e)) a && N.eqb (snd (fst e)) n) c with Some e => Some (snd e) | None => None end.

(* what a run sees of one node of a graph: the cached entry when there is one, else the current content *)
Definition look (c:list (addr * N * N)) (h:list (addr * content)) (a:addr) (n:N) : N :=
  match cache_get c a n with
  | Some d => d
  | None => match assoc_n h a with Some ct => match assoc_n ct n with Some d => d | None => 0%N end | None => 0%N end
  end.

Inductive op :=
| Call (rules:bool) (v:valuation) (load_fault run_fault:list nat) (shapes data:addr) (nodes:list N)
       (* validate() / shacl_rules() on the graph objects at `shapes`, `data`; the run consults `nodes` *)
| Edit (a:addr) (n d:N)                    (* the caller edits a graph between calls *)
| Drop (a:addr)                            (* the object is garbage collected *)
| Alloc (a:addr) (ct:content).             (* a new object, possibly at a reused address *)

Definition load_prog (rules:bool) := if rules then entry_shacl_rules_load_shapes else entry_validate_load_shapes.

Definition load_trace (rules:bool) (fs:list nat) : outcome * list event :=
  let st := {| vars := [("shacl_graph", VOpaque)]; selfs := []; opts := []; trace := []; next := 10; faults := fs |} in
  let r := exec_list [] FUEL (load_prog rules) st in (fst r, trace (snd r)).

Definition run_trace (rules:bool) (v:valuation) (fs:list nat) : outcome * list event :=
  let r := if rules then run_rules v fs else run_validator v fs in (fst r, trace (snd r)).

(* does the constructor (generated head of Validator.__init__ / RuleExpandRunner.__init__) empty the caches? *)
Definition init_head (rules:bool) := if rules then rules_init_head else validator_init_head.
Definition head_clears (rules:bool) : bool :=
  let st := {| vars := []; selfs := []; opts := []; trace := []; next := 10; faults := [] |} in
  let r := exec_list [] FUEL (init_head rules) st in
  match fst r with Normal => existsb (fun e => match e with Forget => true | _ => false end) (trace (snd r)) | _ => false end.
Definition code_clears : bool := head_clears false && head_clears true.

(* observation of a call: None when it failed, else what it saw of the consulted nodes *)
Definition observation := option (list N).

(* `clears`: the run starts by emptying the id-keyed caches (PySHACLRunType._forget_cached_graph_contents) *)
Definition step (clears:bool) (s:gstate) (o:op) : gstate * observation :=
  match o with
  | Call rules v lf rf sa da nodes =>
      let '(o1, t1) := load_trace rules lf in
      let '(p1, r1) := apply_trace t1 (patched s) (registered s) in
      match o1 with
      | Normal =>
          let c0 := if clears then [] else cache s in
          let '(o2, t2) := run_trace rules v rf in
          let '(p2, r2) := apply_trace t2 p1 r1 in
          let seen := map (look c0 (heap s) sa) nodes in
          let c1 := (map (fun nd => (sa, fst nd, snd nd)) (combine nodes seen) ++ c0)%list in
          ({| patched := p2; registered := r2; cache := c1; heap := heap s |},
           match o2 with Normal | Returned _ => Some seen | _ => None end)
      | _ => ({| patched := p1; registered := r1; cache := cache s; heap := heap s |}, None)
      end
  | Edit a n d =>
      ({| patched := patched s; registered := registered s; cache := cache s;
          heap := map (fun e => if N.eqb (fst e) a then (fst e, (n, d) :: snd e) else e) (heap s) |}, None)
  | Drop a =>
      ({| patched := patched s; registered := registered s; cache := cache s;
          heap := filter (fun e => negb (N.eqb (fst e) a)) (heap s) |}, None)
  | Alloc a ct =>
      ({| patched := patched s; registered := registered s; cache := cache s;
          heap := (a, ct) :: filter (fun e => negb (N.eqb (fst e) a)) (heap s) |}, None)
  end.

Definition run (clears:bool) (ops:list op) (s:gstate) : gstate := fold_left (fun st o => fst (step clears st o)) ops s.

(* the named globals are as a fresh process has them *)
Definition Inv (s:gstate) : Prop := patched s = false /\ registered s = false.

(* the generated programs restore the switches whatever fails: decided over the finite domain *)
Definition flips_restored : bool :=
  forallb (fun rules => forallb (fun fs => negb (fst (apply_trace (snd (load_trace rules fs)) false false))) fault_sets) [false; true].
Definition regs_restored (rules:bool) : bool :=
  forallb (fun v => forallb (fun fs => negb (snd (apply_trace (snd (run_trace rules v fs)) false false))) fault_sets) all_valuations.
