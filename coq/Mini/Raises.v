(* C16 (API half, the explicit part): the census of every `raise` statement on the validate() path, GENERATED from
   /repo/pyshacl by translator/t6.py (Gen/T6.v).  A statement is in order when it
     - raises a class of the documented families (ReportableRuntimeError and everything below it in
       pyshacl/errors.py, NotImplementedError), or re-raises what it caught;
     - is handled in place (it sits in a try of the same function whose handlers catch its class);
     - is the signal of one of the few helpers whose callers handle it (compare_literal & co.: TypeError,
       get_shacl_function / get_shacl_target_type: KeyError, find_node_named_graph: LookupError) - and then every
       call of that helper must itself sit in a try catching that class, or inside another such helper;
     - or is one of the internal guards listed in [internal_guards]: statements that check the Python types of
       arguments handed in by the caller of the API (not RDF input), or invariants of the code itself.
   What the census cannot see - exceptions raised implicitly by an expression (KeyError of a dict, AttributeError,
   an rdflib or re error) - stays with the enumeration of ill-formed inputs run by the check. *)
From Coq Require Import List NArith String Bool.
From Verif Require Import Gen.T3 Gen.T6 Mini.Cli.
Import ListNotations.
Open Scope string_scope.

Definition site := (string * string * string * bool * N)%type.
Definition s_file (s:site) : string := fst (fst (fst (fst s))).
Definition s_fn (s:site) : string := snd (fst (fst (fst s))).
Definition s_what (s:site) : string := snd (fst (fst s)).      (* class raised / callee *)
Definition s_caught (s:site) : bool := snd (fst s).
Definition s_count (s:site) : N := snd s.

Fixpoint census_mro (fuel:nat) (c:string) : list string :=
  match fuel with
  | O => [c]
  | S f => c :: match base_of (census_error_classes ++ builtin_bases) c with Some b => census_mro f b | None => [] end
  end.

Definition documented (cls:string) : bool :=
  smem "ReportableRuntimeError" (census_mro 8 cls) || String.eqb cls "NotImplementedError" || String.eqb cls "<reraise>".

(* the function (after its class, before any nested def) is one of the helpers *)
Definition ends_with (suf s:string) : bool :=
  String.eqb (substring (String.length s - String.length suf) (String.length suf) s) suf.
(* a function or a method named h *)
Definition named (h fn:string) : bool := String.eqb fn h || ends_with ("." ++ h) fn.
Definition fn_is_helper (fn:string) : bool :=
  existsb (fun h => named (fst h) fn || String.prefix (fst h ++ ".") fn) helper_class.
Definition helper_signal (s:site) : bool :=
  existsb (fun h => named (fst h) (s_fn s) && String.eqb (s_what s) (snd h)) helper_class.

(* (file, function, class, at most this many statements): argument-type guards of the Python API and invariants of
   the code; none depends on the content of an RDF graph *)
Definition internal_guards : list (string * string * string * N) :=
  [ (* the evaluation path handed down by Shape.validate ends with this shape and this component *)
    ("pyshacl/constraints/constraint_component.py", "ConstraintComponent.recursion_triggers", "RuntimeError", 1%N);
    (* a member of an RDF list / an object of a triple is always an IRI, a blank node or a literal *)
    ("pyshacl/constraints/core/other_constraints.py", "InConstraintComponent.__init__", "TypeError", 1%N);
    ("pyshacl/constraints/core/other_constraints.py", "ClosedConstraintComponent.__init__", "TypeError", 1%N);
    (* __init__ admits only literals as patterns and compiles each of them *)
    ("pyshacl/constraints/core/string_based_constraints.py", "PatternConstraintComponent._evaluate_string_rule", "RuntimeError", 1%N);
    ("pyshacl/constraints/core/string_based_constraints.py", "PatternConstraintComponent.make_generic_messages", "TypeError", 1%N);
    (* ignored on node shapes: Shape.validate catches the warning and goes on (checked by [warning_is_caught]) *)
    ("pyshacl/constraints/core/shape_based_constraints.py", "QualifiedValueShapeConstraintComponent.__init__", "ConstraintLoadWarning", 1%N);
    (* raised inside a SPARQL function call: rdflib's expression evaluator turns SPARQLError into an unbound value *)
    ("pyshacl/functions/shacl_function.py", "SPARQLFunction.execute_from_sparql", "SPARQLError", 4%N);
    (* Python types of the arguments of the graph utilities *)
    ("pyshacl/rdfutil/clone.py", "clone_blank_node", "RuntimeError", 2%N);
    ("pyshacl/rdfutil/clone.py", "clone_dataset", "RuntimeError", 1%N);
    ("pyshacl/rdfutil/clone.py", "clone_node", "ValueError", 1%N);
    ("pyshacl/rdfutil/clone.py", "mix_datasets", "RuntimeError", 3%N);
    ("pyshacl/rdfutil/clone.py", "mix_graphs", "RuntimeError", 1%N);
    ("pyshacl/rdfutil/compare.py", "compare_blank_node", "RuntimeError", 2%N);
    ("pyshacl/rdfutil/compare.py", "compare_node", "RuntimeError", 2%N);
    ("pyshacl/rdfutil/compare.py", "order_graph_literal", "RuntimeError", 2%N);
    ("pyshacl/rdfutil/inoculate.py", "inoculate_dataset", "RuntimeError", 2%N);
    ("pyshacl/rdfutil/stringify.py", "find_node_named_graph", "RuntimeError", 1%N);
    ("pyshacl/rdfutil/stringify.py", "stringify_blank_node", "RuntimeError", 1%N);
    ("pyshacl/rdfutil/stringify.py", "stringify_node", "RuntimeError", 1%N);
    (* loading: sources that cannot be opened, fetched or recognised as RDF - outside "syntactically valid RDF input";
       RuntimeError and ValueError are status 2 on the command line (C16_every_exception) *)
    ("pyshacl/rdfutil/load.py", "get_rdf_from_web", "RuntimeError", 1%N);
    ("pyshacl/rdfutil/load.py", "load_from_source", "RuntimeError", 10%N);
    ("pyshacl/rdfutil/load.py", "load_from_source", "ValueError", 2%N);
    ("pyshacl/rdfutil/load.py", "path_from_uri", "ValueError", 1%N);
    (* Python type of the data graph argument *)
    ("pyshacl/rule_expand_runner.py", "RuleExpandRunner.__init__", "RuntimeError", 1%N);
    ("pyshacl/validator.py", "Validator.__init__", "RuntimeError", 1%N);
    (* a property shape has a path (set when the shape is built) *)
    ("pyshacl/shape.py", "Shape.path", "RuntimeError", 1%N);
    (* a non-conforming report has a result: C04 / C06 prove it of the model, the differential run checks it *)
    ("pyshacl/validator.py", "Validator.create_validation_report", "RuntimeError", 1%N) ].

Definition is_guard (s:site) : bool :=
  existsb (fun g => String.eqb (s_file s) (fst (fst (fst g))) && String.eqb (s_fn s) (snd (fst (fst g)))
                    && String.eqb (s_what s) (snd (fst g)) && N.leb (s_count s) (snd g)) internal_guards.

Definition site_ok (s:site) : bool := documented (s_what s) || s_caught s || helper_signal s || is_guard s.
Definition call_ok (c:site) : bool := s_caught c || fn_is_helper (s_fn c).

Definition census_ok : bool := forallb site_ok raise_sites.
Definition helper_calls_ok : bool := forallb call_ok helper_calls.

(* the one warning class raised by a constructor is caught where Shape.validate builds the components *)
Definition warning_is_caught : bool :=
  negb (existsb (fun s => String.eqb (s_what s) "ConstraintLoadWarning" && negb (String.eqb (s_fn s) "QualifiedValueShapeConstraintComponent.__init__")) raise_sites).

(* ---- assert statements: an AssertionError is an undocumented channel as well.  Every assert on the validate() path is one of the
   listed ones - each guards an invariant that the constructor of the component (or the caller inside pySHACL) has established, or a
   Python type of an API argument - and a function holds no more of them than listed. *)
Definition listed_asserts : list (string * string * N) :=
  [ (* the shapes / data graph arguments are rdflib graphs (checked or built by validate() before) *)
    ("pyshacl/validator.py", "Validator.__init__", 1%N); ("pyshacl/validator.py", "Validator.run", 1%N);
    ("pyshacl/rule_expand_runner.py", "RuleExpandRunner.__init__", 1%N); ("pyshacl/rule_expand_runner.py", "RuleExpandRunner.run", 1%N);
    ("pyshacl/shapes_graph.py", "ShapesGraph.__init__", 1%N);
    (* the cache attribute set by the decorator two lines above *)
    ("pyshacl/entrypoints.py", "with_metashacl_shacl_graph_cache.wrapped", 1%N); ("pyshacl/rdfutil/stringify.py", "with_dict_cache.wrapped", 1%N);
    ("pyshacl/rdfutil/stringify.py", "stringify_blank_node", 2%N);
    (* a header line that was just read and tested non-empty *)
    ("pyshacl/rdfutil/load.py", "load_from_source", 1%N);
    (* bounds / lengths / patterns are literals: the constructors reject everything else with ConstraintLoadError *)
    ("pyshacl/constraints/core/value_range_constraints.py", "MinExclusiveConstraintComponent._evaluate_min_rule", 1%N);
    ("pyshacl/constraints/core/value_range_constraints.py", "MinInclusiveConstraintComponent._evaluate_min_rule", 1%N);
    ("pyshacl/constraints/core/value_range_constraints.py", "MaxExclusiveConstraintComponent._evaluate_max_rule", 1%N);
    ("pyshacl/constraints/core/value_range_constraints.py", "MaxInclusiveConstraintComponent._evaluate_max_rule", 1%N);
    ("pyshacl/constraints/core/string_based_constraints.py", "MinLengthConstraintComponent._evaluate_string_rule", 1%N);
    ("pyshacl/constraints/core/string_based_constraints.py", "MaxLengthConstraintComponent._evaluate_string_rule", 1%N);
    ("pyshacl/constraints/core/string_based_constraints.py", "PatternConstraintComponent.make_generic_messages", 1%N);
    (* rows of a SELECT result *)
    ("pyshacl/constraints/core/other_constraints.py", "ClosedConstraintComponent.evaluate", 1%N);
    (* two methods of the abstract target type that nothing calls *)
    ("pyshacl/target.py", "SHACLTargetType.check_params", 1%N); ("pyshacl/target.py", "SHACLTargetType.bind", 1%N) ].

Definition assert_ok (a:string * string * N) : bool :=
  existsb (fun l => String.eqb (fst (fst a)) (fst (fst l)) && String.eqb (snd (fst a)) (snd (fst l)) && N.leb (snd a) (snd l)) listed_asserts.
Definition asserts_ok : bool := forallb assert_ok assert_sites.
