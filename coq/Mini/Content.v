(* C14: the content view of the generated pipeline programs (Gen/T1.v).
   The same programs as in C08, executed with summaries that say WHAT is written: the ontology's
   axioms (Mix), the closure of the object's union graph (Infer), rule output (Write).
   Graph objects are abstract: the content of an object is the list of expansions applied to the
   caller's data, in order. The container kind (Graph / Dataset) and the distribution of triples
   over named graphs do not occur in a content - that they cannot matter is checked for the real
   callees by the harness (union of quads before/after each callee). *)
From Coq Require Import List NArith Bool String.
From Verif Require Import Mini.PyMini Gen.T1 Mini.Pipeline.
Import ListNotations.
Open Scope string_scope.

Definition content_summary (f:string) (args:list value) (st:state) : eres :=
  let finish (v:value) (st':state) :=
    if faulty st then EX "RuntimeError" (emit st' (Raised "RuntimeError")) else EV v st' in
  match f, args with
  | "inoculate", a :: _ :: _ =>
      match obj_of a with Some o => finish a (emit st (Mix o)) | None => ES "inoculate into a non-object" end
  | "inoculate_dataset", base :: _ :: target :: _ =>
      match target, obj_of base with
      | VNone, Some b => let '(d, st1) := fresh st in finish (VObj d) (emit (emit st1 (Clone b d)) (Mix d))
      | VObj t, _ => finish target (emit st (Mix t))
      | _, _ => ES "inoculate_dataset arguments"
      end
  | "mix_graphs", a :: _ :: mode :: _ | "mix_datasets", a :: _ :: mode :: _ =>
      match obj_of a with
      | Some b => if truthy mode then finish a (emit st (Mix b))
                  else let '(d, st1) := fresh st in finish (VObj d) (emit (emit st1 (Clone b d)) (Mix d))
      | None => ES "mix of a non-object"
      end
  | "_run_pre_inference", a :: _ =>
      match obj_of a with Some o => finish VNone (emit st (Infer o)) | None => ES "inference on a non-object" end
  | _, _ => call_summary f args st
  end.

Inductive expansion := XData | XOntology | XMix | XInfer | XRules.
Definition expansion_eqb (a b:expansion) : bool :=
  match a, b with XData, XData | XOntology, XOntology | XMix, XMix | XInfer, XInfer | XRules, XRules => true | _, _ => false end.
Fixpoint content_eqb (a b:list expansion) : bool :=
  match a, b with [] , [] => true | x :: a', y :: b' => expansion_eqb x y && content_eqb a' b' | _, _ => false end.

Definition heap := list (N * list expansion).
Fixpoint hget (h:heap) (o:N) : list expansion :=
  match h with [] => [] | (k, c) :: r => if N.eqb k o then c else hget r o end.
Definition hset (h:heap) (o:N) (c:list expansion) : heap := (o, c) :: h.

Fixpoint contents (tr:list event) (h:heap) : heap :=
  match tr with
  | [] => h
  | Clone s d :: r => contents r (hset h d (hget h s))
  | Mix o :: r => contents r (hset h o (hget h o ++ [XMix]))
  | Infer o :: r => contents r (hset h o (hget h o ++ [XInfer]))
  | Write o :: r => contents r (hset h o (hget h o ++ [XRules]))
  | _ :: r => contents r h
  end.

Definition heap0 : heap := [(CALLER_DATA, [XData]); (CALLER_ONT, [XOntology])].

Definition run_validator_content (v:valuation) : outcome * state :=
  exec_gen content_summary [("mix_in_ontology", validator_mix_in_ontology)] FUEL
           (validator_init_guards ++ validator_run_prepare ++ validator_run_writers)%list (init_state v []).
Definition run_rules_content (v:valuation) : outcome * state :=
  exec_gen content_summary [("mix_in_ontology", rules_mix_in_ontology)] FUEL
           (rules_init_guards ++ rules_run_prepare ++ rules_run_writers)%list (init_state v []).

(* what is validated in the end: the content of the object self._target_graph *)
Definition validated_content (r:outcome * state) : option (list expansion) :=
  match fst r, lookup (selfs (snd r)) "_target_graph" with
  | (Normal | Returned _), Some (VObj t) => Some (hget (contents (trace (snd r)) heap0) t)
  | _, _ => None
  end.

Definition inference_active (v:valuation) : bool :=
  match v_inference v with Some s => negb (String.eqb s "none") && negb (String.eqb s "") | None => false end && negb (v_preinf v).

(* the expected content: data, then the axioms, then the closure, then the rules - nothing about containers *)
Definition expected_validator (v:valuation) : list expansion :=
  [XData] ++ (if v_ont v then [XMix] else []) ++ (if inference_active v then [XInfer] else [])
  ++ (if v_advanced v && v_rules v && negb (v_sparql v) then [XRules] else []).
Definition expected_rules (v:valuation) : list expansion :=
  [XData] ++ (if v_ont v then [XMix] else []) ++ (if inference_active v then [XInfer] else [])
  ++ (if v_rules v then [XRules] else []).

Definition content_ok (run:valuation -> outcome * state) (expected:valuation -> list expansion) : bool :=
  forallb (fun v => match validated_content (run v) with
                    | Some c => content_eqb c (expected v)
                    | None => match fst (run v) with Exn _ => true | _ => false end   (* documented refusals *)
                    end) all_valuations.
