(* The finite domain over which the generated pipeline programs (coq/Gen/T1.v) are decided, and the
   predicates the properties C08 / C07 / C10 state about their event traces. *)
From Coq Require Import List NArith Bool String.
From Verif Require Import Mini.PyMini Gen.T1.
Import ListNotations.
Open Scope string_scope.

Definition CALLER_DATA : N := 0.
Definition CALLER_ONT : N := 1.
Definition FIRST_FRESH : N := 10.

Record valuation := {
  v_ont : bool;            (* an ontology graph is given *)
  v_inplace : bool;
  v_preinf : bool;         (* pre_inferenced *)
  v_multi : bool;          (* data graph is a Dataset / ConjunctiveGraph *)
  v_inference : option string;   (* None: the option is Python None *)
  v_advanced : bool;
  v_sparql : bool;
  v_functions : bool;      (* the shapes graph declares SHACL functions *)
  v_rules : bool           (* the shapes graph declares SHACL rules *)
}.

Definition bools := [false; true].
Definition inferences : list (option string) := [None; Some "none"; Some "rdfs"; Some "owlrl"; Some "both"].

Definition all_valuations : list valuation :=
  flat_map (fun a => flat_map (fun b => flat_map (fun c => flat_map (fun d => flat_map (fun e =>
  flat_map (fun f => flat_map (fun g => flat_map (fun h => map (fun i =>
    {| v_ont := a; v_inplace := b; v_preinf := c; v_multi := d; v_inference := e; v_advanced := f;
       v_sparql := g; v_functions := h; v_rules := i |}) bools) bools) bools) bools) inferences) bools) bools) bools) bools.

Definition truthy_flag (b:bool) : value := if b then VOpaque else VBool false.

Definition init_state (v:valuation) (faults:list nat) : state :=
  {| vars := [("isinstance:data_graph", VBool true); ("shacl_graph", VOpaque);
              ("options[sparql_mode]", VBool (v_sparql v)); ("options[use_js]", VBool false);
              ("executor", VOpaque); ("executor.sparql_mode", VBool (v_sparql v));
              ("advanced", truthy_flag (v_advanced v));
              ("advanced[functions]", truthy_flag (v_functions v)); ("advanced[rules]", truthy_flag (v_rules v));
              ("gathered_functions", truthy_flag (v_functions v)); ("gathered_rules", truthy_flag (v_rules v))];
     selfs := [("data_graph", VObj CALLER_DATA); ("ont_graph", if v_ont v then VObj CALLER_ONT else VNone);
               ("inplace", VBool (v_inplace v)); ("pre_inferenced", VBool (v_preinf v));
               ("data_graph_is_multigraph", VBool (v_multi v)); ("debug", VBool false); ("_target_graph", VNone)];
     opts := [("inference", match v_inference v with Some s => VStr s | None => VNone end);
              ("advanced", VBool (v_advanced v)); ("sparql_mode", VBool (v_sparql v))];
     trace := []; next := FIRST_FRESH; faults := faults |}.

Definition run_validator (v:valuation) (faults:list nat) : outcome * state :=
  exec_list [("mix_in_ontology", validator_mix_in_ontology)] FUEL
            (validator_init_guards ++ validator_run_prepare ++ validator_run_writers)%list
            (init_state v faults).
Definition run_rules (v:valuation) (faults:list nat) : outcome * state :=
  exec_list [("mix_in_ontology", rules_mix_in_ontology)] FUEL
            (rules_init_guards ++ rules_run_prepare ++ rules_run_writers)%list
            (init_state v faults).

Definition not_stuck (r:outcome * state) : bool := match fst r with Stuck _ => false | _ => true end.

(* fault positions: no fault, or the k-th effectful call raises (after its effect) *)
Definition fault_sets : list (list nat) := [] :: map (fun k => [k]) (seq 0 12).

Definition no_write_to (objs:list N) (r:outcome * state) : bool :=
  forallb (fun o => negb (existsb (N.eqb o) objs)) (writes (trace (snd r))).

(* C08: unless inplace, neither the caller's data graph nor the ontology graph object is written
   to - also when a callee fails at any point; the ontology graph is never written to at all *)
Definition c08_ok (run : valuation -> list nat -> outcome * state) : bool :=
  forallb (fun v => forallb (fun fs =>
    let r := run v fs in
    not_stuck r
    && no_write_to [CALLER_ONT] r
    && (v_inplace v || no_write_to [CALLER_DATA] r)) fault_sets) all_valuations.

(* C07: in SPARQL remote-graph mode nothing is ever written *)
Definition c07_ok : bool :=
  forallb (fun v => negb (v_sparql v) || forallb (fun fs =>
    match writes (trace (snd (run_validator v fs))) with [] => true | _ => false end) fault_sets) all_valuations.

(* C10: custom SPARQL functions that were registered are unregistered again, whatever fails *)
Fixpoint reg_balance (tr:list event) (registered:bool) : bool :=
  match tr with
  | [] => registered
  | Reg b :: r => reg_balance r b
  | _ :: r => reg_balance r registered
  end.
Definition c10_unregisters (run : valuation -> list nat -> outcome * state) : bool :=
  forallb (fun v => forallb (fun fs => negb (reg_balance (trace (snd (run v fs))) false)) fault_sets) all_valuations.

(* first valuation / fault on which a predicate fails: the counter-example handed to the harness *)
Definition find_bad (p : valuation -> list nat -> bool) : option (valuation * list nat) :=
  find (fun vf => negb (p (fst vf) (snd vf)))
       (flat_map (fun v => map (fun fs => (v, fs)) fault_sets) all_valuations).

(* comparison of a recorded trace with the model's *)
Definition event_eqb (a b:event) : bool :=
  match a, b with
  | Clone s d, Clone s' d' => N.eqb s s' && N.eqb d d'
  | Write o, Write o' => N.eqb o o'
  | Flip s b, Flip s' b' => String.eqb s s' && Bool.eqb b b'
  | Reg b, Reg b' => Bool.eqb b b'
  | Raised c, Raised c' => String.eqb c c'
  | Noted c, Noted c' => String.eqb c c'
  | Forget, Forget => true
  | Mix o, Mix o' => N.eqb o o'
  | Infer o, Infer o' => N.eqb o o'
  | _, _ => false
  end.
Fixpoint trace_eqb (a b:list event) : bool :=
  match a, b with [], [] => true | x :: a', y :: b' => event_eqb x y && trace_eqb a' b' | _, _ => false end.
