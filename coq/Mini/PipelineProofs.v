(* Decision of the pipeline predicates over the generated programs: the domain is finite
   (listed in Mini/Pipeline.v), so the kernel evaluates them (vm_compute) and forallb_forall
   lifts the result to a statement about every valuation and fault point. Re-checked on every
   run against coq/Gen/T1.v as regenerated from /repo. *)
From Coq Require Import List NArith Bool String.
From Verif Require Import Mini.PyMini Gen.T1 Mini.Pipeline.
Import ListNotations.

Lemma c08_validator_computed : c08_ok run_validator = true.
Proof. vm_compute. reflexivity. Qed.
Lemma c08_rules_computed : c08_ok run_rules = true.
Proof. vm_compute. reflexivity. Qed.
Lemma c07_computed : c07_ok = true.
Proof. vm_compute. reflexivity. Qed.

Lemma c08_lift run : c08_ok run = true ->
  forall v fs, In v all_valuations -> In fs fault_sets ->
  not_stuck (run v fs) = true
  /\ no_write_to [CALLER_ONT] (run v fs) = true
  /\ (v_inplace v = false -> no_write_to [CALLER_DATA] (run v fs) = true).
Proof.
  unfold c08_ok. intros H v fs Hv Hf. rewrite forallb_forall in H. specialize (H v Hv).
  rewrite forallb_forall in H. specialize (H fs Hf). cbv zeta in H.
  apply andb_true_iff in H as [H H3]. apply andb_true_iff in H as [H1 H2].
  repeat split; auto. intros Hi. rewrite Hi in H3. exact H3.
Qed.

Theorem validator_no_caller_write : forall v fs, In v all_valuations -> In fs fault_sets ->
  not_stuck (run_validator v fs) = true
  /\ no_write_to [CALLER_ONT] (run_validator v fs) = true
  /\ (v_inplace v = false -> no_write_to [CALLER_DATA] (run_validator v fs) = true).
Proof. apply c08_lift. exact c08_validator_computed. Qed.

Theorem rules_no_caller_write : forall v fs, In v all_valuations -> In fs fault_sets ->
  not_stuck (run_rules v fs) = true
  /\ no_write_to [CALLER_ONT] (run_rules v fs) = true
  /\ (v_inplace v = false -> no_write_to [CALLER_DATA] (run_rules v fs) = true).
Proof. apply c08_lift. exact c08_rules_computed. Qed.

Lemma c07_lift : c07_ok = true ->
  forall v fs, In v all_valuations -> In fs fault_sets ->
  v_sparql v = true -> writes (trace (snd (run_validator v fs))) = [].
Proof.
  unfold c07_ok. intros H v fs Hv Hf Hs. rewrite forallb_forall in H. specialize (H v Hv).
  apply orb_true_iff in H as [H|H]; [rewrite Hs in H; discriminate|].
  rewrite forallb_forall in H. specialize (H fs Hf).
  destruct (writes (trace (snd (run_validator v fs)))); [reflexivity|discriminate].
Qed.

Theorem sparql_mode_never_writes : forall v fs, In v all_valuations -> In fs fault_sets ->
  v_sparql v = true -> writes (trace (snd (run_validator v fs))) = [].
Proof. apply c07_lift. exact c07_computed. Qed.

(* the domain is what it says: every combination of the nine axes *)
Definition valuation_eqb (x y:valuation) : bool :=
  Bool.eqb (v_ont x) (v_ont y) && Bool.eqb (v_inplace x) (v_inplace y) && Bool.eqb (v_preinf x) (v_preinf y)
  && Bool.eqb (v_multi x) (v_multi y)
  && match v_inference x, v_inference y with Some a, Some b => String.eqb a b | None, None => true | _, _ => false end
  && Bool.eqb (v_advanced x) (v_advanced y) && Bool.eqb (v_sparql x) (v_sparql y)
  && Bool.eqb (v_functions x) (v_functions y) && Bool.eqb (v_rules x) (v_rules y).

Lemma all_valuations_count : List.length all_valuations = 1280.
Proof. vm_compute. reflexivity. Qed.
