From Coq Require Import List NArith String Bool.
From Verif Require Import Gen.T3 Mini.Cli.
Import ListNotations.
Open Scope string_scope.

Lemma smem_In x l : smem x l = true <-> In x l.
Proof.
  induction l as [|y r IH]; simpl; [split; [discriminate|contradiction]|].
  rewrite orb_true_iff, IH. split.
  - intros [H|H]; [left; symmetry; apply String.eqb_eq; exact H|right; exact H].
  - intros [H|H]; [left; apply String.eqb_eq; symmetry; exact H|right; exact H].
Qed.

Lemma dispatch_sound hs c h : dispatch hs c = Some h -> In h hs /\ In (fst (fst h)) c.
Proof.
  induction hs as [|h0 r IH]; simpl; [discriminate|]. destruct (smem (fst (fst h0)) c) eqn:E.
  - intros [= <-]. split; [left; reflexivity|apply smem_In; exact E].
  - intros H. destruct (IH H) as [H1 H2]. split; [right; exact H1|exact H2].
Qed.
Lemma dispatch_total hs c x : In x (map (fun h => fst (fst h)) hs) -> In x c -> exists h, dispatch hs c = Some h.
Proof.
  induction hs as [|h0 r IH]; simpl; [contradiction|]. intros Hx Hc. destruct (smem (fst (fst h0)) c) eqn:E; [eexists; reflexivity|].
  destruct Hx as [<-|Hx]; [apply smem_In in Hc; congruence|]. apply IH; assumption.
Qed.

Lemma handlers_wellformed_computed : handlers_wellformed = true.
Proof. vm_compute. reflexivity. Qed.
Lemma family_codes_computed : family_codes_ok = true.
Proof. vm_compute. reflexivity. Qed.

Lemma wf_parts : handlers_wellformed = true -> wf_catchall = true /\ wf_codes = true /\ wf_finals = true /\ wf_early = true.
Proof.
  unfold handlers_wellformed. destruct wf_catchall, wf_codes, wf_finals, wf_early; simpl; intros H; try discriminate; auto.
Qed.

Lemma code_ok_cases h : code_ok h = true ->
  snd (fst h) = 2%N \/ snd (fst h) = 3%N \/ (snd (fst h) = 1%N /\ fst (fst h) = "ValidationFailure" /\ snd h = true).
Proof.
  unfold code_ok. destruct (snd (fst h)) as [|[[p|p|]|[p|p|]|]]; try discriminate; auto.
  intros H. apply andb_true_iff in H as [H1 H2]. apply String.eqb_eq in H1. auto.
Qed.

(* For EVERY exception class deriving from Exception - documented or not - the command line ends
   with status 2 or 3, or with status 1 for a ValidationFailure whose text was written to the
   report output. No exception leaves main() with the interpreter's status 1. *)
Theorem every_exception_has_a_documented_status (wf:handlers_wellformed = true) c : In "Exception" c ->
  exit_status (Raised c) = 2%N \/ exit_status (Raised c) = 3%N
  \/ (exit_status (Raised c) = 1%N /\ In "ValidationFailure" c /\ report_written (Raised c) = true).
Proof.
  intros Hc. destruct (wf_parts wf) as (W1 & W2 & _ & _).
  unfold wf_catchall in W1. apply smem_In in W1. destruct (dispatch_total cli_handlers c "Exception" W1 Hc) as [h Hh].
  unfold exit_status, report_written. rewrite Hh. destruct (dispatch_sound _ _ _ Hh) as [Hin Hcls].
  unfold wf_codes in W2. rewrite forallb_forall in W2. specialize (W2 h Hin).
  destruct (code_ok_cases h W2) as [E|[E|(E & Ec & Ew)]]; [left; exact E|right; left; exact E|].
  right. right. rewrite <- Ec. auto.
Qed.

Lemma finals (wf:handlers_wellformed = true) : cli_final_exit_conform = 0%N /\ cli_final_exit_nonconform = 1%N /\ cli_report_written_before_final_exit = true.
Proof.
  destruct (wf_parts wf) as (_ & _ & W3 & _). unfold wf_finals in W3.
  apply andb_true_iff in W3 as [W3 H4]. apply andb_true_iff in W3 as [W3 H3]. apply andb_true_iff in W3 as [H1 H2].
  apply N.eqb_eq in H3, H4. auto.
Qed.

(* status 0 only after a conforming report, status 1 only after a non-conforming report or a
   validation failure - each with something written to the report output *)
Theorem status_zero_means_conforming (wf:handlers_wellformed = true) o : (forall c, o = Raised c -> In "Exception" c) ->
  exit_status o = 0%N -> o = Returned true.
Proof.
  intros Hex H. destruct (finals wf) as (F0 & F1 & _). destruct o as [[]|c]; [reflexivity| |].
  - simpl in H. rewrite F1 in H. discriminate.
  - destruct (every_exception_has_a_documented_status wf c (Hex c eq_refl)) as [E|[E|[E _]]]; rewrite E in H; discriminate.
Qed.
Theorem status_one_means_report (wf:handlers_wellformed = true) o : (forall c, o = Raised c -> In "Exception" c) ->
  exit_status o = 1%N -> report_written o = true /\ (o = Returned false \/ exists c, o = Raised c /\ In "ValidationFailure" c).
Proof.
  intros Hex H. destruct (finals wf) as (F0 & F1 & FW). destruct o as [[]|c].
  - simpl in H. rewrite F0 in H. discriminate.
  - split; [exact FW|left; reflexivity].
  - destruct (every_exception_has_a_documented_status wf c (Hex c eq_refl)) as [E|[E|(E & Hv & Hw)]]; try (rewrite E in H; discriminate).
    split; [exact Hw|right; exists c; auto].
Qed.

(* ---- C18 ---- *)
Lemma options_reach_computed : every_option_reaches_validate = true.
Proof. vm_compute. reflexivity. Qed.
Lemma keywords_understood_computed : every_keyword_understood = true.
Proof. vm_compute. reflexivity. Qed.

Theorem option_reaches_validate (H:every_option_reaches_validate = true) d : In d cli_dests ->
  In d structural_dests \/ exists k, In (d, k) cli_passed.
Proof.
  intros Hd. unfold every_option_reaches_validate in H. rewrite forallb_forall in H. specialize (H d Hd).
  apply orb_true_iff in H as [H|H]; [left; apply smem_In; exact H|right].
  apply existsb_exists in H as ([a k] & Hin & E). simpl in E. apply String.eqb_eq in E. subst a. exists k. exact Hin.
Qed.
Theorem keyword_understood (H:every_keyword_understood = true) d k : In (d, k) cli_passed -> In k validate_keywords.
Proof.
  intros Hin. unfold every_keyword_understood in H. rewrite forallb_forall in H. specialize (H (d, k) Hin). apply smem_In. exact H.
Qed.
