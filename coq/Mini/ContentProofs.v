(* C14: decided properties of the content view, lifted from evaluation over the finite domain. *)
From Coq Require Import List NArith Bool String.
From Verif Require Import Mini.PyMini Gen.T1 Mini.Pipeline Mini.Content.
Import ListNotations.

Lemma expansion_eqb_eq a b : expansion_eqb a b = true -> a = b.
Proof. destruct a, b; simpl; intros H; try discriminate; reflexivity. Qed.
Lemma content_eqb_eq a : forall b, content_eqb a b = true -> a = b.
Proof.
  induction a as [|x a IH]; intros [|y b] H; simpl in H; try discriminate; [reflexivity|].
  apply andb_true_iff in H as [H1 H2]. f_equal; [apply expansion_eqb_eq; exact H1|apply IH; exact H2].
Qed.

Lemma validator_content_computed : content_ok run_validator_content expected_validator = true.
Proof. vm_compute. reflexivity. Qed.
Lemma rules_content_computed : content_ok run_rules_content expected_rules = true.
Proof. vm_compute. reflexivity. Qed.

Lemma content_lift run expected : content_ok run expected = true ->
  forall v c, In v all_valuations -> validated_content (run v) = Some c -> c = expected v.
Proof.
  unfold content_ok. intros H v c Hv Hc. rewrite forallb_forall in H. specialize (H v Hv).
  rewrite Hc in H. apply content_eqb_eq. exact H.
Qed.

Theorem validator_validates_expected : forall v c, In v all_valuations ->
  validated_content (run_validator_content v) = Some c -> c = expected_validator v.
Proof. apply content_lift. exact validator_content_computed. Qed.

Theorem rules_expand_expected : forall v c, In v all_valuations ->
  validated_content (run_rules_content v) = Some c -> c = expected_rules v.
Proof. apply content_lift. exact rules_content_computed. Qed.

(* two calls that differ only in the container kind of the data (and in inplace) work on the same content *)
Definition same_but_container (v v':valuation) : Prop :=
  v_ont v = v_ont v' /\ v_preinf v = v_preinf v' /\ v_inference v = v_inference v' /\ v_advanced v = v_advanced v'
  /\ v_sparql v = v_sparql v' /\ v_functions v = v_functions v' /\ v_rules v = v_rules v'.

Lemma expected_validator_container v v' : same_but_container v v' -> expected_validator v = expected_validator v'.
Proof.
  intros (H1 & H2 & H3 & H4 & H5 & H6 & H7). unfold expected_validator, inference_active. rewrite H1, H2, H3, H4, H5, H7. reflexivity.
Qed.
Lemma expected_rules_container v v' : same_but_container v v' -> expected_rules v = expected_rules v'.
Proof.
  intros (H1 & H2 & H3 & H4 & H5 & H6 & H7). unfold expected_rules, inference_active. rewrite H1, H2, H3, H7. reflexivity.
Qed.

Theorem container_irrelevant_validator v v' c c' : In v all_valuations -> In v' all_valuations -> same_but_container v v' ->
  validated_content (run_validator_content v) = Some c -> validated_content (run_validator_content v') = Some c' -> c = c'.
Proof.
  intros Hv Hv' Hs Hc Hc'. rewrite (validator_validates_expected v c Hv Hc), (validator_validates_expected v' c' Hv' Hc').
  apply expected_validator_container. exact Hs.
Qed.
Theorem container_irrelevant_rules v v' c c' : In v all_valuations -> In v' all_valuations -> same_but_container v v' ->
  validated_content (run_rules_content v) = Some c -> validated_content (run_rules_content v') = Some c' -> c = c'.
Proof.
  intros Hv Hv' Hs Hc Hc'. rewrite (rules_expand_expected v c Hv Hc), (rules_expand_expected v' c' Hv' Hc').
  apply expected_rules_container. exact Hs.
Qed.

(* ---- what a content denotes, for any axiom-extraction, closure and rule-expansion functions ---- *)
Section Denote.
Context {G:Type} (union_with_axioms : G -> G -> G) (closure : G -> G) (rules : G -> G).
Fixpoint denote (data ont:G) (c:list expansion) (acc:G) : G :=
  match c with
  | [] => acc
  | XData :: r => denote data ont r data
  | XOntology :: r => denote data ont r ont
  | XMix :: r => denote data ont r (union_with_axioms acc ont)
  | XInfer :: r => denote data ont r (closure acc)
  | XRules :: r => denote data ont r (rules acc)
  end.

(* validating with an ontology and/or an inference mode = validating, with neither, the data graph
   expanded beforehand in the same way: first the axioms, then the closure (then the rules) *)
Definition pre_expanded (v:valuation) (data ont:G) : G :=
  let g1 := if v_ont v then union_with_axioms data ont else data in
  let g2 := if inference_active v then closure g1 else g1 in
  if v_advanced v && v_rules v && negb (v_sparql v) then rules g2 else g2.

Theorem validated_is_pre_expanded v c data ont : In v all_valuations ->
  validated_content (run_validator_content v) = Some c -> denote data ont c data = pre_expanded v data ont.
Proof.
  intros Hv Hc. rewrite (validator_validates_expected v c Hv Hc). unfold expected_validator, pre_expanded.
  destruct (v_ont v), (inference_active v), (v_advanced v && v_rules v && negb (v_sparql v)); reflexivity.
Qed.
End Denote.
