(* Finite sets as duplicate-free lists, over a type with a boolean equality.
   Python `set` objects of the implementation are modelled by these lists;
   the order of elements is never observable in the compared behaviour. *)
From Coq Require Import List Bool Arith Lia.
Import ListNotations.
Set Implicit Arguments.

Section SetList.
Variable A : Type.
Variable eqb : A -> A -> bool.
Hypothesis eqb_spec : forall x y, reflect (x = y) (eqb x y).

Definition mem (x:A) (l:list A) : bool := existsb (eqb x) l.

Lemma mem_In x l : mem x l = true <-> In x l.
Proof.
  unfold mem. rewrite existsb_exists. split.
  - intros [y [Hy E]]. destruct (eqb_spec x y); congruence.
  - intros H. exists x. split; auto. destruct (eqb_spec x x); congruence.
Qed.

Lemma mem_false x l : mem x l = false <-> ~ In x l.
Proof. rewrite <- mem_In. destruct (mem x l); split; congruence. Qed.

Definition add (x:A) (l:list A) : list A := if mem x l then l else l ++ [x].

Lemma In_add x y l : In y (add x l) <-> y = x \/ In y l.
Proof.
  unfold add. destruct (mem x l) eqn:E.
  - apply mem_In in E. split; [auto|]. intros [->|H]; auto.
  - rewrite in_app_iff. simpl. intuition.
Qed.

Lemma NoDup_app_single (l:list A) x : NoDup l -> ~ In x l -> NoDup (l ++ [x]).
Proof.
  induction l as [|a l IH]; simpl; intros Hn Hx.
  - constructor; auto.
  - inversion Hn as [|? ? Ha Hl]; subst. constructor.
    + rewrite in_app_iff. simpl. intros [H|[H|[]]]; [auto|subst; auto].
    + apply IH; auto.
Qed.

Lemma NoDup_add x (l:list A) : NoDup l -> NoDup (add x l).
Proof.
  unfold add. destruct (mem x l) eqn:E; auto.
  intros H. apply NoDup_app_single; auto. apply mem_false; auto.
Qed.

Fixpoint union (l1 l2 : list A) : list A :=
  match l2 with [] => l1 | x :: r => union (add x l1) r end.

Lemma In_union l2 : forall l1 y, In y (union l1 l2) <-> In y l1 \/ In y l2.
Proof.
  induction l2 as [|x r IH]; simpl; intros l1 y.
  - tauto.
  - rewrite IH, In_add. intuition.
Qed.

Lemma NoDup_union l2 : forall l1, NoDup l1 -> NoDup (union l1 l2).
Proof. induction l2 as [|x r IH]; simpl; intros; auto. apply IH, NoDup_add; auto. Qed.

Definition dedup (l:list A) : list A := union [] l.

Lemma In_dedup l y : In y (dedup l) <-> In y l.
Proof. unfold dedup. rewrite In_union. simpl. tauto. Qed.

Lemma NoDup_dedup l : NoDup (dedup l).
Proof. apply NoDup_union. constructor. Qed.

Definition subset (l1 l2 : list A) : bool := forallb (fun x => mem x l2) l1.
Definition set_eqb (l1 l2 : list A) : bool := subset l1 l2 && subset l2 l1.

Lemma subset_incl l1 l2 : subset l1 l2 = true <-> incl l1 l2.
Proof.
  unfold subset, incl. rewrite forallb_forall. split; intros H x Hx.
  - apply mem_In; auto.
  - apply mem_In; auto.
Qed.

Lemma set_eqb_spec l1 l2 : set_eqb l1 l2 = true <-> (forall x, In x l1 <-> In x l2).
Proof.
  unfold set_eqb. rewrite andb_true_iff, !subset_incl. unfold incl. firstorder.
Qed.

Definition remove_all (xs l : list A) : list A := filter (fun y => negb (mem y xs)) l.

Lemma In_remove_all xs l y : In y (remove_all xs l) <-> In y l /\ ~ In y xs.
Proof.
  unfold remove_all. rewrite filter_In, negb_true_iff, mem_false. tauto.
Qed.

Lemma NoDup_filter (f:A->bool) (l:list A) : NoDup l -> NoDup (filter f l).
Proof.
  induction 1 as [|x l Hx Hl IH]; simpl; [constructor|].
  destruct (f x); auto. constructor; auto. rewrite filter_In. tauto.
Qed.

(* Pigeonhole used by the termination arguments. *)
Lemma NoDup_incl_lt x (seen U : list A) :
  NoDup seen -> ~ In x seen -> incl seen U -> In x U -> length seen < length U.
Proof.
  intros Hn Hx Hi HU.
  assert (H : length (x :: seen) <= length U).
  { apply NoDup_incl_length; [constructor; auto|]. intros y [<-|Hy]; auto. }
  simpl in H. lia.
Qed.

End SetList.

Lemma NoDup_app_disjoint {A} (l1 l2:list A) :
  NoDup l1 -> NoDup l2 -> (forall x, In x l1 -> In x l2 -> False) -> NoDup (l1 ++ l2).
Proof.
  induction l1 as [|a l1 IH]; simpl; intros H1 H2 Hd; auto.
  inversion H1 as [|? ? Ha Hl]; subst. constructor.
  - rewrite in_app_iff. intros [H|H]; [auto|]. apply (Hd a); auto.
  - apply IH; auto. intros x Hx1 Hx2. apply (Hd x); auto.
Qed.


Arguments mem_In {A eqb} eqb_spec.
Arguments mem_false {A eqb} eqb_spec.
Arguments In_add {A eqb} eqb_spec.
Arguments NoDup_add {A eqb} eqb_spec.
Arguments In_union {A eqb} eqb_spec.
Arguments NoDup_union {A eqb} eqb_spec.
Arguments In_dedup {A eqb} eqb_spec.
Arguments NoDup_dedup {A eqb} eqb_spec.
Arguments subset_incl {A eqb} eqb_spec.
Arguments set_eqb_spec {A eqb} eqb_spec.
Arguments In_remove_all {A eqb} eqb_spec.
