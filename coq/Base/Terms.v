(* RDF terms, triples and graphs.
   IRIs and blank nodes are interned to numbers by the harness (one table per
   case). A literal is identified, exactly as rdflib's Literal.__eq__ does, by
   lexical form, datatype and lower-cased language tag (each interned). *)
From Coq Require Import List NArith Bool.
From Verif Require Import Base.SetList.
Import ListNotations.

Inductive term := IRI (n:N) | BN (n:N) | LIT (lex dt lang : N).

Definition term_eqb (a b : term) : bool :=
  match a, b with
  | IRI x, IRI y => N.eqb x y
  | BN x, BN y => N.eqb x y
  | LIT a1 a2 a3, LIT b1 b2 b3 => N.eqb a1 b1 && N.eqb a2 b2 && N.eqb a3 b3
  | _, _ => false
  end.

Lemma term_eqb_spec a b : reflect (a = b) (term_eqb a b).
Proof.
  destruct a as [x|x|a1 a2 a3], b as [y|y|b1 b2 b3]; simpl; try (constructor; congruence).
  - destruct (N.eqb_spec x y); constructor; congruence.
  - destruct (N.eqb_spec x y); constructor; congruence.
  - destruct (N.eqb_spec a1 b1), (N.eqb_spec a2 b2), (N.eqb_spec a3 b3);
      simpl; constructor; congruence.
Qed.

Lemma term_eqb_refl a : term_eqb a a = true.
Proof. destruct (term_eqb_spec a a); congruence. Qed.

Definition is_iri (t:term) := match t with IRI _ => true | _ => false end.
Definition is_bnode (t:term) := match t with BN _ => true | _ => false end.
Definition is_lit (t:term) := match t with LIT _ _ _ => true | _ => false end.

Definition triple := (term * term * term)%type.
Definition graph := list triple.

Definition tsubj (t:triple) := fst (fst t).
Definition tpred (t:triple) := snd (fst t).
Definition tobj (t:triple) := snd t.

Notation tmem := (mem term_eqb).
Notation tadd := (add term_eqb).
Notation tunion := (union term_eqb).
Notation tdedup := (dedup term_eqb).
Notation tset_eqb := (set_eqb term_eqb).

(* rdflib Graph.objects / subjects / subject_objects, as sets *)
Definition objects (g:graph) (s p : term) : list term :=
  tdedup (map tobj (filter (fun t => term_eqb (tsubj t) s && term_eqb (tpred t) p) g)).
Definition subjects (g:graph) (p o : term) : list term :=
  tdedup (map tsubj (filter (fun t => term_eqb (tpred t) p && term_eqb (tobj t) o) g)).
Definition subjects_of (g:graph) (p : term) : list term :=
  tdedup (map tsubj (filter (fun t => term_eqb (tpred t) p) g)).
Definition objects_of (g:graph) (p : term) : list term :=
  tdedup (map tobj (filter (fun t => term_eqb (tpred t) p) g)).

Ltac teq :=
  repeat match goal with
  | H : _ && _ = true |- _ => apply andb_true_iff in H as [? ?]
  | H : term_eqb ?a ?b = true |- _ => destruct (term_eqb_spec a b); [subst|discriminate]
  end.

Lemma In_objects g s p o : In o (objects g s p) <-> In (s, p, o) g.
Proof.
  unfold objects. rewrite (In_dedup term_eqb_spec), in_map_iff. split.
  - intros [[[s' p'] o'] [E H]]. apply filter_In in H as [H E2].
    unfold tobj, tsubj, tpred in *. simpl in *. teq. exact H.
  - intros H. exists (s, p, o). split; auto. apply filter_In. split; auto.
    unfold tsubj, tpred. simpl. rewrite !term_eqb_refl. reflexivity.
Qed.

Lemma In_subjects g p o s : In s (subjects g p o) <-> In (s, p, o) g.
Proof.
  unfold subjects. rewrite (In_dedup term_eqb_spec), in_map_iff. split.
  - intros [[[s' p'] o'] [E H]]. apply filter_In in H as [H E2].
    unfold tobj, tsubj, tpred in *. simpl in *. teq. exact H.
  - intros H. exists (s, p, o). split; auto. apply filter_In. split; auto.
    unfold tobj, tpred. simpl. rewrite !term_eqb_refl. reflexivity.
Qed.

Lemma In_subjects_of g p s : In s (subjects_of g p) <-> exists o, In (s, p, o) g.
Proof.
  unfold subjects_of. rewrite (In_dedup term_eqb_spec), in_map_iff. split.
  - intros [[[s' p'] o'] [E H]]. apply filter_In in H as [H E2].
    unfold tobj, tsubj, tpred in *. simpl in *. teq. eauto.
  - intros [o H]. exists (s, p, o). split; auto. apply filter_In. split; auto.
    unfold tpred. simpl. apply term_eqb_refl.
Qed.

Lemma In_objects_of g p o : In o (objects_of g p) <-> exists s, In (s, p, o) g.
Proof.
  unfold objects_of. rewrite (In_dedup term_eqb_spec), in_map_iff. split.
  - intros [[[s' p'] o'] [E H]]. apply filter_In in H as [H E2].
    unfold tobj, tsubj, tpred in *. simpl in *. teq. eauto.
  - intros [s H]. exists (s, p, o). split; auto. apply filter_In. split; auto.
    unfold tpred. simpl. apply term_eqb_refl.
Qed.

Lemma NoDup_objects g s p : NoDup (objects g s p).
Proof. apply NoDup_dedup, term_eqb_spec. Qed.
Lemma NoDup_subjects g p o : NoDup (subjects g p o).
Proof. apply NoDup_dedup, term_eqb_spec. Qed.

(* every term occurring as subject or object *)
Definition nodes (g:graph) : list term := tdedup (map tsubj g ++ map tobj g).

Lemma In_nodes_subj g s p o : In (s,p,o) g -> In s (nodes g).
Proof.
  intros H. unfold nodes. rewrite (In_dedup term_eqb_spec), in_app_iff. left.
  apply in_map_iff. exists (s,p,o). auto.
Qed.
Lemma In_nodes_obj g s p o : In (s,p,o) g -> In o (nodes g).
Proof.
  intros H. unfold nodes. rewrite (In_dedup term_eqb_spec), in_app_iff. right.
  apply in_map_iff. exists (s,p,o). auto.
Qed.
Lemma NoDup_nodes g : NoDup (nodes g).
Proof. apply NoDup_dedup, term_eqb_spec. Qed.

(* outcomes *)
Inductive exn :=
| Reportable      (* ReportableRuntimeError *)
| ShapeLoad       (* ShapeLoadError *)
| ConstraintLoad  (* ConstraintLoadError *)
| TooDeep         (* ReportableRuntimeError "Validation path too deep" *)
| ValFailure      (* ValidationFailure (returned in place of the report graph) *)
| OutOfFuel.      (* model artefact: never reachable with the stated fuel *)

Inductive res (A:Type) := Ok (a:A) | Err (e:exn).
Arguments Ok {A} a. Arguments Err {A} e.

Definition bind {A B} (r:res A) (k:A -> res B) : res B :=
  match r with Ok a => k a | Err e => Err e end.

Fixpoint mapM {A B} (f:A -> res B) (l:list A) : res (list B) :=
  match l with
  | [] => Ok []
  | x :: xs => bind (f x) (fun y => bind (mapM f xs) (fun ys => Ok (y :: ys)))
  end.

Lemma mapM_ok {A B} (f:A->res B) l ys : mapM f l = Ok ys -> Forall2 (fun x y => f x = Ok y) l ys.
Proof.
  revert ys; induction l as [|x xs IH]; simpl; intros ys.
  - intros [= <-]; constructor.
  - destruct (f x) eqn:Ex; simpl; try discriminate.
    destruct (mapM f xs) eqn:Em; simpl; try discriminate.
    intros [= <-]. constructor; auto.
Qed.
