(* SHACL property paths: syntax, SPARQL 1.1 relational specification, and the
   executable model of pyshacl/helper/expression_helper.py value_nodes_from_path. *)
From Coq Require Import List NArith Bool Arith Relations.
From Verif Require Import Base.SetList Base.Terms.
Import ListNotations.

Inductive path :=
| PPred (p:N)              (* an IRI used as predicate path *)
| PInv (q:path)
| PSeq (qs:list path)      (* RDF list of paths *)
| PAlt (qs:list path)      (* sh:alternativePath list *)
| PStar (q:path) | PPlus (q:path) | POpt (q:path).

(* ---- Specification: SPARQL 1.1 section 18.4 property path relation ---- *)
Fixpoint path_rel (g:graph) (p:path) : term -> term -> Prop :=
  match p with
  | PPred pr => fun x y => In (x, IRI pr, y) g
  | PInv q => fun x y => path_rel g q y x
  | PSeq qs => (fix seq (qs:list path) : term -> term -> Prop :=
                  match qs with
                  | [] => fun x y => x = y
                  | q :: rest => fun x y => exists z, path_rel g q x z /\ seq rest z y
                  end) qs
  | PAlt qs => (fix alt (qs:list path) : term -> term -> Prop :=
                  match qs with
                  | [] => fun _ _ => False
                  | q :: rest => fun x y => path_rel g q x y \/ alt rest x y
                  end) qs
  | PStar q => clos_refl_trans term (path_rel g q)
  | PPlus q => clos_trans term (path_rel g q)
  | POpt q => fun x y => x = y \/ path_rel g q x y
  end.

(* well-formed per SHACL 2.3.1: sequence and alternative lists have >= 2 members *)
Fixpoint wf_path (p:path) : bool :=
  match p with
  | PPred _ => true
  | PInv q | PStar q | PPlus q | POpt q => wf_path q
  | PSeq qs => (2 <=? length qs) && (fix all (qs:list path) := match qs with [] => true | q :: r => wf_path q && all r end) qs
  | PAlt qs => (2 <=? length qs) && (fix all (qs:list path) := match qs with [] => true | q :: r => wf_path q && all r end) qs
  end.

(* ---- Implementation model ---- *)

(* The `while len(search_deeper_nodes) > 0` worklist of the three closure
   branches: pop a node; skip it if already collected; otherwise collect it and
   push its one-step successors. *)
Fixpoint work (fuel:nat) (step : term -> res (list term)) (seen todo : list term) : res (list term) :=
  match fuel with
  | O => match todo with [] => Ok seen | _ => Err OutOfFuel end
  | S f =>
    match todo with
    | [] => Ok seen
    | x :: rest =>
      if tmem x seen then work f step seen rest
      else match step x with
           | Ok ys => work f step (seen ++ [x]) (ys ++ rest)
           | Err e => Err e
           end
    end
  end.

Definition union_map (f : term -> res (list term)) (xs : list term) : res (list term) :=
  fold_left (fun acc x => bind acc (fun a => bind (f x) (fun ys => Ok (tunion a ys)))) xs (Ok []).

Lemma union_map_ext f f' xs : (forall z, f z = f' z) -> union_map f xs = union_map f' xs.
Proof.
  intros H. unfold union_map. generalize (@Ok (list term) []).
  induction xs as [|a xs IH]; intros acc; simpl; [reflexivity|]. rewrite H. apply IH.
Qed.

Definition MAX_PATH_RECURSION := 10.

Definition evaluator := path -> bool -> nat -> term -> res (list term).

(* the RDF-list branch: one list cell per call; rdf:first is a path, rdf:rest the next cell *)
Fixpoint seq_eval (ev:evaluator) (inverse:bool) (qs:list path) (recursion:nat) (x:term) {struct qs}
  : res (list term) :=
  if MAX_PATH_RECURSION <=? recursion then Err Reportable else
  match qs with
  | [] => Err ShapeLoad
  | q :: rest =>
    match rest with
    | [] => if recursion =? 0 then Err Reportable else ev q inverse (S recursion) x
    | _ =>
      if inverse then
        bind (seq_eval ev inverse rest (S recursion) x) (fun mid =>
          union_map (fun z => ev q inverse (S recursion) z) mid)
      else
        bind (ev q inverse (S recursion) x) (fun mid =>
          union_map (fun z => seq_eval ev inverse rest (S recursion) z) mid)
    end
  end.

(* the sh:alternativePath branch: `for a in sg.graph.items(list)` *)
Fixpoint alt_eval (ev:evaluator) (inverse:bool) (qs:list path) (recursion:nat) (x:term) (acc:list term)
  {struct qs} : res (list term) :=
  match qs with
  | [] => Ok acc
  | q :: rest => bind (ev q inverse (S recursion) x) (fun ys => alt_eval ev inverse rest recursion x (tunion acc ys))
  end.

(* value_nodes_from_path(sg, focus, path_val, target_graph, inverse, recursion).
   `wfuel` bounds the iterations of each worklist loop. *)
Fixpoint eval_path (wfuel:nat) (g:graph) (p:path) (inverse:bool) (recursion:nat) (x:term) {struct p}
  : res (list term) :=
  match p with
  | PPred pr => Ok (if inverse then subjects g (IRI pr) x else objects g x (IRI pr))
  | PInv q =>
      if MAX_PATH_RECURSION <=? recursion then Err Reportable else
      eval_path wfuel g q (negb inverse) (S recursion) x
  | PSeq qs =>
      (fix seq (qs:list path) (recursion:nat) (x:term) {struct qs} : res (list term) :=
         if MAX_PATH_RECURSION <=? recursion then Err Reportable else
         match qs with
         | [] => Err ShapeLoad
         | q :: rest =>
           match rest with
           | [] => if recursion =? 0 then Err Reportable
                   else eval_path wfuel g q inverse (S recursion) x
           | _ =>
             if inverse then
               bind (seq rest (S recursion) x) (fun mid =>
                 union_map (fun z => eval_path wfuel g q inverse (S recursion) z) mid)
             else
               bind (eval_path wfuel g q inverse (S recursion) x) (fun mid =>
                 union_map (fun z => seq rest (S recursion) z) mid)
           end
         end) qs recursion x
  | PAlt qs =>
      if MAX_PATH_RECURSION <=? recursion then Err Reportable else
      bind ((fix alt (qs:list path) (acc:list term) {struct qs} : res (list term) :=
               match qs with
               | [] => Ok acc
               | q :: rest => bind (eval_path wfuel g q inverse (S recursion) x)
                                   (fun ys => alt rest (tunion acc ys))
               end) qs [])
           (fun all => if length qs <? 2 then Err Reportable else Ok all)
  | PStar q =>
      if MAX_PATH_RECURSION <=? recursion then Err Reportable else
      let step := fun y => eval_path wfuel g q inverse (S recursion) y in
      bind (step x) (fun found => work wfuel step [x] found)
  | PPlus q =>
      if MAX_PATH_RECURSION <=? recursion then Err Reportable else
      let step := fun y => eval_path wfuel g q inverse (S recursion) y in
      bind (step x) (fun found => work wfuel step [] found)
  | POpt q =>
      if MAX_PATH_RECURSION <=? recursion then Err Reportable else
      bind (eval_path wfuel g q inverse (S recursion) x) (fun found => Ok (tunion [x] found))
  end.

Lemma eval_path_seq wfuel g qs inverse recursion x :
  eval_path wfuel g (PSeq qs) inverse recursion x = seq_eval (eval_path wfuel g) inverse qs recursion x.
Proof.
  cbn [eval_path]. revert recursion x.
  induction qs as [|q rest IH]; intros recursion x; cbn [seq_eval].
  - reflexivity.
  - destruct (MAX_PATH_RECURSION <=? recursion); [reflexivity|].
    destruct rest as [|q2 rest2]; [reflexivity|].
    destruct inverse.
    + rewrite IH. reflexivity.
    + destruct (eval_path wfuel g q false (S recursion) x) as [mid|e]; cbn [bind]; [|reflexivity].
      apply union_map_ext. intros z. apply IH.
Qed.

Lemma eval_path_alt wfuel g qs inverse recursion x :
  eval_path wfuel g (PAlt qs) inverse recursion x =
  if MAX_PATH_RECURSION <=? recursion then Err Reportable else
  bind (alt_eval (eval_path wfuel g) inverse qs recursion x [])
       (fun all => if length qs <? 2 then Err Reportable else Ok all).
Proof.
  cbn [eval_path]. destruct (MAX_PATH_RECURSION <=? recursion); [reflexivity|].
  f_equal. generalize (@nil term). induction qs as [|q rest IH]; intros acc; cbn [alt_eval]; [reflexivity|].
  destruct (eval_path wfuel g q inverse (S recursion) x); cbn [bind]; auto.
Qed.

(* Does every blank-node path reached at counter value r stay below the limit? *)
Fixpoint fits (p:path) (r:nat) : bool :=
  match p with
  | PPred _ => true
  | PInv q | PStar q | PPlus q | POpt q => (r <? MAX_PATH_RECURSION) && fits q (S r)
  | PSeq qs => (fix fs (qs:list path) (r:nat) : bool :=
                  match qs with
                  | [] => true
                  | q :: rest => (r <? MAX_PATH_RECURSION) && fits q (S r) && fs rest (S r)
                  end) qs r
  | PAlt qs => (r <? MAX_PATH_RECURSION) &&
               (fix fa (qs:list path) : bool := match qs with [] => true | q :: rest => fits q (S r) && fa rest end) qs
  end.

(* enough iterations for any worklist over the terms of g plus one focus node *)
Definition fuel_for (g:graph) : nat := (length (nodes g) + 2) * (length (nodes g) + 2).

Definition value_nodes (g:graph) (p:path) (x:term) : res (list term) :=
  eval_path (fuel_for g) g p false 0 x.
