(* C09: the value nodes of a path do not depend on the order (or multiplicity) in which the triples of the data graph are
   listed - only on which triples there are.  A corollary of the correctness theorem of Paths/PathProofs.v: the
   SPARQL path relation looks at the graph through membership only. *)
From Coq Require Import List NArith Bool Arith Relations Permutation.
From Verif Require Import Base.SetList Base.Terms Paths.Path Paths.PathProofs.
Import ListNotations.

Definition same_triples (g g':graph) : Prop := forall t, In t g <-> In t g'.

Lemma same_triples_sym g g' : same_triples g g' -> same_triples g' g.
Proof. intros H t. symmetry. apply H. Qed.

Lemma perm_same_triples g g' : Permutation g g' -> same_triples g g'.
Proof. intros H t. split; apply Permutation_in; [exact H|apply Permutation_sym; exact H]. Qed.

Lemma clos_rt_ext (R R':term -> term -> Prop) : (forall x y, R x y -> R' x y) ->
  forall x y, clos_refl_trans term R x y -> clos_refl_trans term R' x y.
Proof.
  intros H x y C. induction C as [x y Hxy|x|x y z _ IH1 _ IH2]; [apply rt_step; auto|apply rt_refl|eapply rt_trans; eauto].
Qed.
Lemma clos_t_ext (R R':term -> term -> Prop) : (forall x y, R x y -> R' x y) ->
  forall x y, clos_trans term R x y -> clos_trans term R' x y.
Proof.
  intros H x y C. induction C as [x y Hxy|x y z _ IH1 _ IH2]; [apply t_step; auto|eapply t_trans; eauto].
Qed.

Lemma path_rel_mono g g' : (forall t, In t g -> In t g') -> forall p x y, path_rel g p x y -> path_rel g' p x y.
Proof.
  intros Hsub p. induction p as [pr|q IH|qs IH|qs IH|q IH|q IH|q IH] using path_ind'; intros x y.
  - cbn [path_rel]. apply Hsub.
  - cbn [path_rel]. apply IH.
  - rewrite !path_rel_seq. revert x. induction IH as [|q r Hq _ IHr]; intros x; cbn [seq_rel]; [auto|].
    intros (z & Hz & Hr). exists z. split; [apply Hq; exact Hz|apply IHr; exact Hr].
  - rewrite !path_rel_alt. induction IH as [|q r Hq _ IHr]; cbn [alt_rel]; [auto|].
    intros [H|H]; [left; apply Hq; exact H|right; apply IHr; exact H].
  - cbn [path_rel]. apply clos_rt_ext. exact IH.
  - cbn [path_rel]. apply clos_t_ext. exact IH.
  - cbn [path_rel]. intros [H|H]; [left; exact H|right; apply IH; exact H].
Qed.

Lemma path_rel_same_triples g g' : same_triples g g' -> forall p x y, path_rel g p x y <-> path_rel g' p x y.
Proof. intros H p x y. split; apply path_rel_mono; intros t; apply H. Qed.

(* the evaluator's answers on two listings of the same triples have the same members (each without repetition) *)
Theorem value_nodes_order_free g g' p x :
  same_triples g g' -> wf_path p = true -> fits p 0 = true ->
  exists vs vs', value_nodes g p x = Ok vs /\ value_nodes g' p x = Ok vs' /\ NoDup vs /\ NoDup vs'
                 /\ forall y, In y vs <-> In y vs'.
Proof.
  intros Hs Hwf Hfit.
  destruct (eval_path_main g p x Hwf Hfit) as (vs & E & Hn & Hv).
  destruct (eval_path_main g' p x Hwf Hfit) as (vs' & E' & Hn' & Hv').
  exists vs, vs'. repeat split; auto.
  - intros H. apply Hv'. apply (path_rel_same_triples g g' Hs). apply Hv. exact H.
  - intros H. apply Hv. apply (path_rel_same_triples g g' Hs). apply Hv'. exact H.
Qed.

Corollary value_nodes_perm g g' p x :
  Permutation g g' -> wf_path p = true -> fits p 0 = true ->
  exists vs vs', value_nodes g p x = Ok vs /\ value_nodes g' p x = Ok vs' /\ Permutation vs vs'.
Proof.
  intros Hp Hwf Hfit. destruct (value_nodes_order_free g g' p x (perm_same_triples g g' Hp) Hwf Hfit) as (vs & vs' & E & E' & Hn & Hn' & Hv).
  exists vs, vs'. repeat split; auto. apply NoDup_Permutation; assumption.
Qed.
