(* eval_path (the model of value_nodes_from_path) computes exactly the SPARQL
   1.1 property-path relation, for every graph, path, focus and direction. *)
From Coq Require Import List NArith Bool Arith Relations Lia.
From Verif Require Import Base.SetList Base.Terms Paths.Path.
Import ListNotations.

(* ---------- induction principle for the nested path type ---------- *)
Section PathInd.
Variable P : path -> Prop.
Hypothesis Hpred : forall p, P (PPred p).
Hypothesis Hinv : forall q, P q -> P (PInv q).
Hypothesis Hseq : forall qs, Forall P qs -> P (PSeq qs).
Hypothesis Halt : forall qs, Forall P qs -> P (PAlt qs).
Hypothesis Hstar : forall q, P q -> P (PStar q).
Hypothesis Hplus : forall q, P q -> P (PPlus q).
Hypothesis Hopt : forall q, P q -> P (POpt q).
Fixpoint path_ind' (p:path) : P p :=
  match p with
  | PPred pr => Hpred pr
  | PInv q => Hinv q (path_ind' q)
  | PSeq qs => Hseq qs ((fix go (qs:list path) : Forall P qs :=
                 match qs with [] => Forall_nil P | q :: r => Forall_cons q (path_ind' q) (go r) end) qs)
  | PAlt qs => Halt qs ((fix go (qs:list path) : Forall P qs :=
                 match qs with [] => Forall_nil P | q :: r => Forall_cons q (path_ind' q) (go r) end) qs)
  | PStar q => Hstar q (path_ind' q)
  | PPlus q => Hplus q (path_ind' q)
  | POpt q => Hopt q (path_ind' q)
  end.
End PathInd.

(* the relation in the direction the evaluator is asked for *)
Definition rel (g:graph) (inv:bool) (p:path) (x y:term) : Prop :=
  if inv then path_rel g p y x else path_rel g p x y.

Definition seq_rel (g:graph) : list path -> term -> term -> Prop :=
  fix seq (qs:list path) : term -> term -> Prop :=
    match qs with
    | [] => fun x y => x = y
    | q :: rest => fun x y => exists z, path_rel g q x z /\ seq rest z y
    end.
Definition alt_rel (g:graph) : list path -> term -> term -> Prop :=
  fix alt (qs:list path) : term -> term -> Prop :=
    match qs with
    | [] => fun _ _ => False
    | q :: rest => fun x y => path_rel g q x y \/ alt rest x y
    end.
Lemma path_rel_seq g qs x y : path_rel g (PSeq qs) x y = seq_rel g qs x y.
Proof. reflexivity. Qed.
Lemma path_rel_alt g qs x y : path_rel g (PAlt qs) x y = alt_rel g qs x y.
Proof. reflexivity. Qed.

(* ---------- union_map ---------- *)
Definition good (vs:list term) (R : term -> Prop) := NoDup vs /\ forall y, In y vs <-> R y.

Lemma union_map_acc (f:term -> res (list term)) (xs:list term) : forall acc out,
  fold_left (fun acc x => bind acc (fun a => bind (f x) (fun ys => Ok (tunion a ys)))) xs acc = Ok out ->
  exists a0, acc = Ok a0 /\
    Forall (fun x => exists ys, f x = Ok ys) xs /\
    (NoDup a0 -> NoDup out) /\
    (forall y, In y out <-> In y a0 \/ exists x ys, In x xs /\ f x = Ok ys /\ In y ys).
Proof.
  induction xs as [|x xs IH]; simpl; intros acc out H.
  - exists out. subst. split; [reflexivity|]. split; [constructor|]. split; [auto|].
    intros y. split; [auto|]. intros [H|(x & ys & [] & _)]; auto.
  - apply IH in H as (a1 & E & HF & Hn & Hin).
    destruct acc as [a0|e]; simpl in E; [|discriminate].
    destruct (f x) as [ys|e] eqn:Ef; simpl in E; [|discriminate].
    injection E as <-. exists a0. split; [reflexivity|]. split; [|split].
    + constructor; eauto.
    + intros Ha. apply Hn. apply NoDup_union; auto. exact term_eqb_spec.
    + intros y. rewrite Hin, (In_union term_eqb_spec). split.
      * intros [[H|H]|(x' & ys' & Hx & E' & Hy)]; auto.
        -- right. exists x, ys. auto.
        -- right. exists x', ys'. auto.
      * intros [H|(x' & ys' & [<-|Hx] & E' & Hy)]; auto.
        -- rewrite Ef in E'. injection E' as <-. auto.
        -- right. exists x', ys'. auto.
Qed.

Lemma union_map_ok (f:term -> res (list term)) xs out : union_map f xs = Ok out ->
  Forall (fun x => exists ys, f x = Ok ys) xs /\ NoDup out /\
  (forall y, In y out <-> exists x ys, In x xs /\ f x = Ok ys /\ In y ys).
Proof.
  unfold union_map. intros H. apply union_map_acc in H as (a0 & E & HF & Hn & Hin).
  injection E as <-. split; [auto|]. split; [apply Hn; constructor|].
  intros y. split.
  - intros H. apply Hin in H as [[]|H]; auto.
  - intros H. apply Hin. auto.
Qed.

Lemma union_map_total (f:term -> res (list term)) xs :
  Forall (fun x => exists ys, f x = Ok ys) xs -> exists out, union_map f xs = Ok out.
Proof.
  unfold union_map. generalize (@nil term).
  induction xs as [|x xs IH]; simpl; intros acc HF; eauto.
  inversion HF as [|? ? [ys E] HF']; subst. rewrite E. simpl. apply IH; auto.
Qed.

(* ---------- the worklist computes the reflexive-transitive closure ---------- *)
Section Work.
Variable step : term -> res (list term).
Definition R1 (x y:term) : Prop := exists ys, step x = Ok ys /\ In y ys.

Lemma work_sound fuel : forall seen todo out (P : term -> Prop),
  (forall x y, P x -> R1 x y -> P y) ->
  (forall x, In x seen -> P x) -> (forall x, In x todo -> P x) ->
  work fuel step seen todo = Ok out -> forall x, In x out -> P x.
Proof.
  induction fuel as [|f IH]; intros seen todo out P Hcl Hs Ht; simpl.
  - destruct todo; [intros [= <-]; auto | discriminate].
  - destruct todo as [|a rest]; [intros [= <-]; auto|].
    destruct (tmem a seen) eqn:E.
    + apply IH; auto. intros; apply Ht; right; auto.
    + destruct (step a) as [ys|e] eqn:Es; [|discriminate].
      apply IH; auto.
      * intros x Hx. apply in_app_iff in Hx as [Hx|[<-|[]]]; auto. apply Ht; left; auto.
      * intros x Hx. apply in_app_or in Hx as [Hx|Hx].
        -- apply Hcl with a; [apply Ht; left; auto|]. exists ys. auto.
        -- apply Ht; right; auto.
Qed.

(* everything collected, except possibly members of the initial `seen`, has all
   its successors collected, and every collected node was expanded successfully *)
Lemma work_complete fuel : forall seen todo out,
  work fuel step seen todo = Ok out ->
  (forall x, In x seen -> In x out) /\ (forall x, In x todo -> In x out) /\
  (forall x, In x out -> In x seen \/ exists ys, step x = Ok ys /\ incl ys out).
Proof.
  induction fuel as [|f IH]; intros seen todo out; simpl.
  - destruct todo; [intros [= <-]|discriminate]. repeat split; auto. intros x [].
  - destruct todo as [|a rest]. { intros [= <-]. repeat split; auto. intros x []. }
    destruct (tmem a seen) eqn:E.
    + intros H; apply IH in H as (H1 & H2 & H3). repeat split; auto.
      intros x [<-|Hx]; auto. apply H1. apply (mem_In term_eqb_spec); auto.
    + destruct (step a) as [ys|e] eqn:Es; [|discriminate].
      intros H; apply IH in H as (H1 & H2 & H3). repeat split.
      * intros x Hx; apply H1, in_or_app; auto.
      * intros x [<-|Hx]. apply H1, in_or_app; right; left; auto. apply H2, in_or_app; auto.
      * intros x Hx. destruct (H3 x Hx) as [Hs|Hy]; auto.
        apply in_app_iff in Hs as [Hs|[<-|[]]]; auto.
        right. exists ys. split; auto. intros y Hy. apply H2, in_or_app; auto.
Qed.

Lemma work_nodup fuel : forall seen todo out,
  NoDup seen -> work fuel step seen todo = Ok out -> NoDup out.
Proof.
  induction fuel as [|f IH]; intros seen todo out Hn; simpl.
  - destruct todo; [intros [= <-]; auto|discriminate].
  - destruct todo as [|a rest]; [intros [= <-]; auto|].
    destruct (tmem a seen) eqn:E.
    + apply IH; auto.
    + destruct (step a) as [ys|e]; [|discriminate]. apply IH.
      apply NoDup_app_single; auto. apply (mem_false term_eqb_spec); auto.
Qed.

(* termination: the loop ends within |todo| + (|U|-|seen|)(|U|+1) iterations when
   every node stays inside the finite universe U *)
Lemma work_total U fuel : forall seen todo k,
  (forall x, In x U -> exists ys, step x = Ok ys /\ NoDup ys /\ incl ys U) ->
  NoDup seen -> incl seen U -> incl todo U ->
  length U <= length seen + k ->
  length todo + k * S (length U) <= fuel ->
  exists out, work fuel step seen todo = Ok out.
Proof.
  induction fuel as [|f IH]; intros seen todo k Hstep Hn Hs Ht Hk Hf; simpl.
  - destruct todo; simpl in Hf; [eauto|lia].
  - destruct todo as [|a rest]; [eauto|].
    destruct (tmem a seen) eqn:E.
    + apply IH with k; auto.
      * intros y Hy; apply Ht; right; auto.
      * simpl in Hf. lia.
    + apply (mem_false term_eqb_spec) in E.
      assert (HaU : In a U) by (apply Ht; left; auto).
      destruct (Hstep a HaU) as (ys & Es & Hny & Hiy). rewrite Es.
      assert (Hlt : length seen < length U) by (eapply NoDup_incl_lt; eauto).
      assert (Hly : length ys <= length U) by (apply NoDup_incl_length; auto).
      destruct k as [|k']; [lia|].
      apply IH with k'; auto.
      * apply NoDup_app_single; auto.
      * intros y Hy. apply in_app_iff in Hy as [Hy|[<-|[]]]; auto.
      * intros y Hy. apply in_app_iff in Hy as [Hy|Hy]; auto. apply Ht; right; auto.
      * rewrite app_length. simpl. lia.
      * rewrite app_length. simpl in *. lia.
Qed.
End Work.

(* closure facts *)
Lemma rt_closed (Rq : term -> term -> Prop) (out : list term) :
  (forall a b, In a out -> Rq a b -> In b out) ->
  forall x y, clos_refl_trans term Rq x y -> In x out -> In y out.
Proof.
  intros Hc x y H. apply clos_rt_rt1n in H. induction H as [|a b c Hab Hbc IH]; auto.
  intros Ha. apply IH. eapply Hc; eauto.
Qed.

Lemma t_incl_rt (Rq : term -> term -> Prop) x y : clos_trans term Rq x y -> clos_refl_trans term Rq x y.
Proof. induction 1; [apply rt_step; auto|eapply rt_trans; eauto]. Qed.

Lemma t_step_rt (Rq : term -> term -> Prop) x y :
  clos_trans term Rq x y <-> exists z, Rq x z /\ clos_refl_trans term Rq z y.
Proof.
  split.
  - intros H. apply clos_trans_t1n in H. destruct H as [y H|y z H1 H2].
    + exists y. split; auto. apply rt_refl.
    + exists y. split; auto. apply clos_t1n_trans in H2. apply t_incl_rt; auto.
  - intros (z & H1 & H2). apply clos_rt_rt1n in H2. revert x H1.
    induction H2 as [|a b c Hab Hbc IH]; intros x0 H1.
    + apply t_step; auto.
    + eapply t_trans; [apply t_step; eauto|]. apply IH; auto.
Qed.

Lemma rel_star_inv g q x y :
  clos_refl_trans term (path_rel g q) y x <-> clos_refl_trans term (fun a b => path_rel g q b a) x y.
Proof.
  split; intros H.
  - induction H; [apply rt_step; auto|apply rt_refl|eapply rt_trans; eauto].
  - induction H; [apply rt_step; auto|apply rt_refl|eapply rt_trans; eauto].
Qed.

Lemma rel_plus_inv g q x y :
  clos_trans term (path_rel g q) y x <-> clos_trans term (fun a b => path_rel g q b a) x y.
Proof.
  split; intros H.
  - induction H; [apply t_step; auto|eapply t_trans; eauto].
  - induction H; [apply t_step; auto|eapply t_trans; eauto].
Qed.

Definition dir (g:graph) (inv:bool) (q:path) : term -> term -> Prop := fun a b => rel g inv q a b.

Lemma rel_star g inv q x y : rel g inv (PStar q) x y <-> clos_refl_trans term (dir g inv q) x y.
Proof. unfold rel, dir. destruct inv; simpl; [apply rel_star_inv|tauto]. Qed.
Lemma rel_plus g inv q x y : rel g inv (PPlus q) x y <-> clos_trans term (dir g inv q) x y.
Proof. unfold rel, dir. destruct inv; simpl; [apply rel_plus_inv|tauto]. Qed.

(* sequences, read in the direction of travel *)
Lemma seq_rel_snoc g qs q x y :
  seq_rel g (qs ++ [q]) x y <-> exists z, seq_rel g qs x z /\ path_rel g q z y.
Proof.
  revert x. induction qs as [|a qs IH]; intros x; simpl.
  - split.
    + intros (z & H & <-). eauto.
    + intros (z & <- & H). eauto.
  - split.
    + intros (z & H1 & H2). apply IH in H2 as (w & H2 & H3). exists w. split; eauto.
    + intros (w & (z & H1 & H2) & H3). exists z. split; auto. apply IH. eauto.
Qed.

(* ---------- soundness and completeness whenever the evaluator answers ---------- *)
Definition sound_at (wfuel:nat) (g:graph) (p:path) : Prop :=
  forall inv r x vs, eval_path wfuel g p inv r x = Ok vs -> good vs (rel g inv p x).

Lemma star_correct wfuel g q inv r x found out :
  sound_at wfuel g q ->
  eval_path wfuel g q inv (S r) x = Ok found ->
  work wfuel (fun y => eval_path wfuel g q inv (S r) y) [x] found = Ok out ->
  good out (rel g inv (PStar q) x).
Proof.
  intros IHq Ef Hw. split.
  - eapply work_nodup; eauto. repeat constructor. intros [].
  - intros y. rewrite rel_star.
    pose proof (work_complete _ _ _ _ _ Hw) as (H1 & H2 & H3).
    split.
    + revert y. eapply work_sound with (P := fun y => clos_refl_trans term (dir g inv q) x y); eauto.
      * intros a b Ha (ys & Es & Hb). apply IHq in Es as [_ Es]. apply Es in Hb.
        eapply rt_trans; [exact Ha|apply rt_step; exact Hb].
      * intros a [<-|[]]. apply rt_refl.
      * intros a Ha. apply IHq in Ef as [_ Ef]. apply Ef in Ha. apply rt_step; auto.
    + intros H. eapply rt_closed; [|exact H|apply H1; left; auto].
      intros a b Ha Hab. destruct (H3 a Ha) as [[<-|[]]|(ys & Es & Hi)].
      * apply H2. apply IHq in Ef as [_ Ef]. apply Ef. exact Hab.
      * apply Hi. apply IHq in Es as [_ Es]. apply Es. exact Hab.
Qed.

Lemma plus_correct wfuel g q inv r x found out :
  sound_at wfuel g q ->
  eval_path wfuel g q inv (S r) x = Ok found ->
  work wfuel (fun y => eval_path wfuel g q inv (S r) y) [] found = Ok out ->
  good out (rel g inv (PPlus q) x).
Proof.
  intros IHq Ef Hw. split.
  - eapply work_nodup; eauto. constructor.
  - intros y. rewrite rel_plus.
    pose proof (work_complete _ _ _ _ _ Hw) as (H1 & H2 & H3).
    split.
    + revert y. eapply work_sound with (P := fun y => clos_trans term (dir g inv q) x y); eauto.
      * intros a b Ha (ys & Es & Hb). apply IHq in Es as [_ Es]. apply Es in Hb.
        eapply t_trans; [exact Ha|apply t_step; exact Hb].
      * intros a [].
      * intros a Ha. apply IHq in Ef as [_ Ef]. apply Ef in Ha. apply t_step; auto.
    + intros H. apply t_step_rt in H as (z & Hxz & Hzy).
      eapply rt_closed; [|exact Hzy|].
      * intros a b Ha Hab. destruct (H3 a Ha) as [[]|(ys & Es & Hi)].
        apply Hi. apply IHq in Es as [_ Es]. apply Es. exact Hab.
      * apply H2. apply IHq in Ef as [_ Ef]. apply Ef. exact Hxz.
Qed.

Lemma seq_correct wfuel g qs :
  Forall (sound_at wfuel g) qs ->
  forall inv r x vs, seq_eval (eval_path wfuel g) inv qs r x = Ok vs ->
  good vs (rel g inv (PSeq qs) x).
Proof.
  intros HF. induction HF as [|q rest Hq Hrest IH]; intros inv r x vs; cbn [seq_eval].
  - destruct (MAX_PATH_RECURSION <=? r); discriminate.
  - destruct (MAX_PATH_RECURSION <=? r); [discriminate|].
    destruct rest as [|q2 rest2].
    + destruct (r =? 0); [discriminate|]. intros E. apply Hq in E as [Hn E]. split; auto.
      intros y. rewrite E. unfold rel. destruct inv; rewrite path_rel_seq; simpl.
      * split; [intros H; exists x; auto|intros (z & H & <-); auto].
      * split; [intros H; exists y; auto|intros (z & H & <-); auto].
    + remember (q2 :: rest2) as rest eqn:Er. destruct inv.
      * destruct (seq_eval (eval_path wfuel g) true rest (S r) x) as [mid|e] eqn:Em;
          cbn [bind]; [|discriminate].
        intros Hu. destruct (union_map_ok _ _ _ Hu) as (HFm & Hn & Hin). split; auto.
        rewrite Forall_forall in HFm.
        apply IH in Em as [_ Em]. intros y. rewrite Hin. unfold rel in *.
        rewrite path_rel_seq in *. cbn [seq_rel]. split.
        -- intros (z & ys & Hz & Ez & Hy). apply Em in Hz.
           apply Hq in Ez as [_ Ez]. apply Ez in Hy. unfold rel in Hy. eauto.
        -- intros (z & H1 & H2). apply Em in H2. destruct (HFm z H2) as [ys Ez].
           exists z, ys. repeat split; auto. apply Hq in Ez as [_ Ez']. apply Ez'. exact H1.
      * destruct (eval_path wfuel g q false (S r) x) as [mid|e] eqn:Em; cbn [bind]; [|discriminate].
        intros Hu. destruct (union_map_ok _ _ _ Hu) as (HFm & Hn & Hin). split; auto.
        rewrite Forall_forall in HFm.
        apply Hq in Em as [_ Em]. intros y. rewrite Hin. unfold rel in *.
        rewrite path_rel_seq in *. cbn [seq_rel]. split.
        -- intros (z & ys & Hz & Ez & Hy). apply Em in Hz.
           apply IH in Ez as [_ Ez]. apply Ez in Hy. rewrite path_rel_seq in Hy. eauto.
        -- intros (z & H1 & H2). apply Em in H1. destruct (HFm z H1) as [ys Ez].
           exists z, ys. repeat split; auto. apply IH in Ez as [_ Ez']. apply Ez'.
           rewrite path_rel_seq. exact H2.
Qed.

Lemma alt_correct wfuel g qs inv r x :
  Forall (sound_at wfuel g) qs ->
  forall acc out, NoDup acc ->
  alt_eval (eval_path wfuel g) inv qs r x acc = Ok out ->
  NoDup out /\ forall y, In y out <-> In y acc \/ rel g inv (PAlt qs) x y.
Proof.
  intros HF. induction HF as [|q rest Hq Hrest IH]; intros acc out Hn; cbn [alt_eval].
  - intros [= <-]. split; auto. intros y. unfold rel. destruct inv; simpl; tauto.
  - destruct (eval_path wfuel g q inv (S r) x) as [ys|e] eqn:Eq; cbn [bind]; [|discriminate].
    intros H. apply IH in H as [Hn' H]; [|apply NoDup_union; auto; exact term_eqb_spec].
    split; auto. intros y. rewrite H, (In_union term_eqb_spec).
    apply Hq in Eq as [_ Eq]. rewrite Eq. unfold rel. destruct inv; rewrite !path_rel_alt; simpl; tauto.
Qed.

Theorem eval_path_sound wfuel g p : sound_at wfuel g p.
Proof.
  induction p as [pr|q IH|qs IH|qs IH|q IH|q IH|q IH] using path_ind'; intros inv r x vs.
  - cbn [eval_path]. intros [= <-]. unfold rel. destruct inv; split;
      try apply NoDup_subjects; try apply NoDup_objects; intros y; simpl.
    + apply In_subjects.
    + apply In_objects.
  - cbn [eval_path]. destruct (MAX_PATH_RECURSION <=? r); [discriminate|].
    intros E. apply IH in E as [Hn E]. split; auto. intros y. rewrite E.
    unfold rel. destruct inv; simpl; tauto.
  - rewrite eval_path_seq. apply seq_correct; auto.
  - rewrite eval_path_alt. destruct (MAX_PATH_RECURSION <=? r); [discriminate|].
    destruct (alt_eval _ _ _ _ _ _) as [all|e] eqn:Ea; cbn [bind]; [|discriminate].
    destruct (length qs <? 2); [discriminate|]. intros [= <-].
    apply alt_correct in Ea as [Hn Ea]; auto; [|constructor]. split; auto.
    intros y. rewrite Ea. simpl. tauto.
  - cbn [eval_path]. destruct (MAX_PATH_RECURSION <=? r); [discriminate|].
    destruct (eval_path wfuel g q inv (S r) x) as [found|e] eqn:Ef; cbn [bind]; [|discriminate].
    intros Hw. eapply star_correct; eauto.
  - cbn [eval_path]. destruct (MAX_PATH_RECURSION <=? r); [discriminate|].
    destruct (eval_path wfuel g q inv (S r) x) as [found|e] eqn:Ef; cbn [bind]; [|discriminate].
    intros Hw. eapply plus_correct; eauto.
  - cbn [eval_path]. destruct (MAX_PATH_RECURSION <=? r); [discriminate|].
    destruct (eval_path wfuel g q inv (S r) x) as [found|e] eqn:Ef; cbn [bind]; [|discriminate].
    intros [= <-]. apply IH in Ef as [Hn Ef]. split.
    + apply NoDup_union; [exact term_eqb_spec|]. repeat constructor. intros [].
    + intros y. rewrite (In_union term_eqb_spec), Ef. unfold rel. destruct inv; simpl; intuition.
Qed.

(* ---------- totality: well-formed paths within the supported depth always evaluate ---------- *)
Lemma path_rel_range g p : forall x y, path_rel g p x y -> x = y \/ (In x (nodes g) /\ In y (nodes g)).
Proof.
  induction p as [pr|q IH|qs IH|qs IH|q IH|q IH|q IH] using path_ind'; intros x y.
  - simpl. intros H. right. split; [eapply In_nodes_subj|eapply In_nodes_obj]; eauto.
  - simpl. intros H. apply IH in H. intuition.
  - rewrite path_rel_seq. revert x. induction IH as [|q rest Hq _ IHr]; intros x; simpl.
    + auto.
    + intros (z & H1 & H2). apply Hq in H1. apply IHr in H2. intuition; subst; auto.
  - rewrite path_rel_alt. induction IH as [|q rest Hq _ IHr]; simpl; [tauto|].
    intros [H|H]; auto.
  - simpl. induction 1 as [a b H| |a b c _ IH1 _ IH2]; auto. intuition; subst; auto.
  - simpl. induction 1 as [a b H|a b c _ IH1 _ IH2]; auto. intuition; subst; auto.
  - simpl. intros [H|H]; auto.
Qed.

Lemma rel_range g inv p x y : rel g inv p x y -> In y (x :: nodes g).
Proof.
  unfold rel. destruct inv; intros H; apply path_rel_range in H; simpl; intuition.
Qed.

Definition wf_all (qs:list path) : bool := forallb wf_path qs.
Lemma wf_seq qs : wf_path (PSeq qs) = (2 <=? length qs) && wf_all qs.
Proof. reflexivity. Qed.
Lemma wf_alt qs : wf_path (PAlt qs) = (2 <=? length qs) && wf_all qs.
Proof. reflexivity. Qed.
Lemma fits_seq_cons q rest r :
  fits (PSeq (q :: rest)) r = (r <? MAX_PATH_RECURSION) && fits q (S r) && fits (PSeq rest) (S r).
Proof. reflexivity. Qed.
Lemma fits_alt qs r : fits (PAlt qs) r = (r <? MAX_PATH_RECURSION) && forallb (fun q => fits q (S r)) qs.
Proof. reflexivity. Qed.

Definition total_at (g:graph) (q:path) : Prop :=
  forall inv r x, fits q r = true -> exists vs, eval_path (fuel_for g) g q inv r x = Ok vs.

Lemma leb_ltb_false r : (r <? MAX_PATH_RECURSION) = true -> (MAX_PATH_RECURSION <=? r) = false.
Proof. intros H. apply Nat.ltb_lt in H. apply Nat.leb_gt. exact H. Qed.

Lemma seq_total g qs :
  Forall (total_at g) qs -> qs <> [] ->
  forall inv r x, fits (PSeq qs) r = true -> (r <> 0 \/ 2 <= length qs) ->
  exists vs, seq_eval (eval_path (fuel_for g) g) inv qs r x = Ok vs.
Proof.
  intros HF. induction HF as [|q rest Hq Hrest IH]; intros Hne inv r x Hfit Hlen; [congruence|].
  rewrite fits_seq_cons in Hfit. apply andb_true_iff in Hfit as [Hfit Hfr].
  apply andb_true_iff in Hfit as [Hr Hfq].
  cbn [seq_eval]. rewrite (leb_ltb_false _ Hr).
  destruct rest as [|q2 rest2].
  - destruct (Nat.eqb_spec r 0) as [->|Hr0]; [simpl in Hlen; lia|]. apply Hq; auto.
  - remember (q2 :: rest2) as rest eqn:Er.
    assert (Hne' : rest <> []) by (subst; discriminate).
    destruct inv.
    + destruct (IH Hne' true (S r) x Hfr) as [mid Em]; [left; lia|]. rewrite Em. cbn [bind].
      apply union_map_total. apply Forall_forall. intros z _. apply Hq; auto.
    + destruct (Hq false (S r) x Hfq) as [mid Em]. rewrite Em. cbn [bind].
      apply union_map_total. apply Forall_forall. intros z _. apply IH; auto.
Qed.

Lemma alt_total g qs inv r x :
  Forall (total_at g) qs -> forallb (fun q => fits q (S r)) qs = true ->
  forall acc, exists out, alt_eval (eval_path (fuel_for g) g) inv qs r x acc = Ok out.
Proof.
  intros HF. induction HF as [|q rest Hq Hrest IH]; intros Hfit acc; cbn [alt_eval]; [eauto|].
  simpl in Hfit. apply andb_true_iff in Hfit as [Hfq Hfr].
  destruct (Hq inv (S r) x Hfq) as [ys E]. rewrite E. cbn [bind]. apply IH; auto.
Qed.

Lemma closure_total g q inv r x seen found :
  total_at g q -> fits q (S r) = true ->
  (seen = [x] \/ seen = []) ->
  eval_path (fuel_for g) g q inv (S r) x = Ok found ->
  exists out, work (fuel_for g) (fun y => eval_path (fuel_for g) g q inv (S r) y) seen found = Ok out.
Proof.
  intros Hq Hfq Hseen Ef.
  set (U := x :: nodes g).
  assert (Hstep : forall y, In y U -> exists ys,
             eval_path (fuel_for g) g q inv (S r) y = Ok ys /\ NoDup ys /\ incl ys U).
  { intros y Hy. destruct (Hq inv (S r) y Hfq) as [ys E]. exists ys. split; auto.
    destruct (eval_path_sound _ _ _ _ _ _ _ E) as [Hn Hin]. split; auto.
    intros z Hz. apply Hin in Hz. apply rel_range in Hz. destruct Hz as [<-|Hz]; auto.
    right. exact Hz. }
  destruct (Hstep x (or_introl eq_refl)) as (ys & E & Hn & Hi). rewrite Ef in E. injection E as <-.
  assert (Hlf : length found <= length U) by (apply NoDup_incl_length; auto).
  unfold fuel_for. simpl in Hlf.
  destruct Hseen as [-> | ->].
  - apply work_total with (U := U) (k := length (nodes g)); auto; simpl; try lia; try nia.
    all: try (repeat constructor; intros []).
    all: try (intros y [<-|[]]; left; reflexivity).
  - apply work_total with (U := U) (k := S (length (nodes g))); auto; simpl; try lia; try nia.
    all: try (intros y []).
    all: try (constructor).
    all: try match goal with H : In _ [] |- _ => destruct H end.
Qed.

Theorem eval_path_total g p : wf_path p = true -> total_at g p.
Proof.
  induction p as [pr|q IH|qs IH|qs IH|q IH|q IH|q IH] using path_ind'; intros Hwf inv r x Hfit.
  - simpl. eauto.
  - cbn [fits wf_path eval_path] in *. apply andb_true_iff in Hfit as [Hr Hfq]. rewrite (leb_ltb_false _ Hr). apply IH; auto.
  - rewrite wf_seq in Hwf. apply andb_true_iff in Hwf as [Hlen Hall].
    apply Nat.leb_le in Hlen. rewrite eval_path_seq. apply seq_total; auto.
    + unfold wf_all in Hall. rewrite forallb_forall in Hall. rewrite Forall_forall in *.
      intros q Hq. apply IH; auto.
    + destruct qs; simpl in Hlen; [lia|discriminate].
  - rewrite wf_alt in Hwf. apply andb_true_iff in Hwf as [Hlen Hall].
    apply Nat.leb_le in Hlen. rewrite eval_path_alt. rewrite fits_alt in Hfit.
    apply andb_true_iff in Hfit as [Hr Hfq]. rewrite (leb_ltb_false _ Hr).
    assert (HF : Forall (total_at g) qs).
    { unfold wf_all in Hall. rewrite forallb_forall in Hall. rewrite Forall_forall in *.
      intros q Hq. apply IH; auto. }
    destruct (alt_total g qs inv r x HF Hfq []) as [out E]. rewrite E. cbn [bind].
    destruct (Nat.ltb_spec (length qs) 2); [lia|eauto].
  - cbn [fits wf_path] in Hwf, Hfit. apply andb_true_iff in Hfit as [Hr Hfq]. cbn [eval_path].
    rewrite (leb_ltb_false _ Hr). destruct (IH Hwf inv (S r) x Hfq) as [found Ef]. rewrite Ef. cbn [bind].
    eapply closure_total; eauto.
  - cbn [fits wf_path] in Hwf, Hfit. apply andb_true_iff in Hfit as [Hr Hfq]. cbn [eval_path].
    rewrite (leb_ltb_false _ Hr). destruct (IH Hwf inv (S r) x Hfq) as [found Ef]. rewrite Ef. cbn [bind].
    eapply closure_total; eauto.
  - cbn [fits wf_path] in Hwf, Hfit. apply andb_true_iff in Hfit as [Hr Hfq]. cbn [eval_path].
    rewrite (leb_ltb_false _ Hr). destruct (IH Hwf inv (S r) x Hfq) as [found Ef]. rewrite Ef. cbn [bind].
    eauto.
Qed.

(* Evaluation never runs out of worklist fuel, whatever the path (cyclic data included):
   an error is always the depth limit or a malformed list. *)
Theorem eval_path_main g p x :
  wf_path p = true -> fits p 0 = true ->
  exists vs, value_nodes g p x = Ok vs /\ NoDup vs /\ forall y, In y vs <-> path_rel g p x y.
Proof.
  intros Hwf Hfit. destruct (eval_path_total g p Hwf false 0 x Hfit) as [vs E].
  exists vs. split; auto. apply (eval_path_sound _ _ _ _ _ _ _ E).
Qed.

(* zero-length paths relate every term to itself, in the graph or not *)
Corollary zero_length_star g q x vs :
  value_nodes g (PStar q) x = Ok vs -> In x vs.
Proof. intros E. apply (eval_path_sound _ _ _ _ _ _ _ E). simpl. apply rt_refl. Qed.
Corollary zero_length_opt g q x vs :
  value_nodes g (POpt q) x = Ok vs -> In x vs.
Proof. intros E. apply (eval_path_sound _ _ _ _ _ _ _ E). simpl. auto. Qed.

(* ---------- termination for every path, malformed ones included ---------- *)
Definition not_oof {A} (r:res A) : Prop := r <> Err OutOfFuel.

Lemma bind_not_oof {A B} (r:res A) (k:A -> res B) :
  not_oof r -> (forall a, r = Ok a -> not_oof (k a)) -> not_oof (bind r k).
Proof. unfold not_oof. intros Hr Hk. destruct r as [a|e]; simpl; [apply Hk; auto|]. intros [= ->]. apply Hr. reflexivity. Qed.

Lemma union_map_not_oof (f:term -> res (list term)) xs :
  (forall x, In x xs -> not_oof (f x)) -> not_oof (union_map f xs).
Proof.
  unfold union_map. intros H.
  assert (G : forall acc, not_oof acc ->
     not_oof (fold_left (fun acc x => bind acc (fun a => bind (f x) (fun ys => Ok (tunion a ys)))) xs acc)).
  { induction xs as [|x xs IH]; simpl; intros acc Ha; [exact Ha|].
    apply IH; [intros y Hy; apply H; right; auto|].
    apply bind_not_oof; auto. intros a _. apply bind_not_oof; [apply H; left; auto|]. intros ys _. discriminate. }
  apply G. discriminate.
Qed.

Section WorkNoOof.
Variable step : term -> res (list term).
Lemma work_not_oof U fuel : forall seen todo k,
  (forall x, In x U -> (exists ys, step x = Ok ys /\ NoDup ys /\ incl ys U) \/ (exists e, step x = Err e /\ e <> OutOfFuel)) ->
  NoDup seen -> incl seen U -> incl todo U ->
  length U <= length seen + k ->
  length todo + k * S (length U) <= fuel ->
  not_oof (work fuel step seen todo).
Proof.
  induction fuel as [|f IH]; intros seen todo k Hstep Hn Hs Ht Hk Hf; simpl.
  - destruct todo; simpl in Hf; [discriminate|lia].
  - destruct todo as [|a rest]; [discriminate|].
    destruct (tmem a seen) eqn:E.
    + apply IH with k; auto.
      * intros y Hy; apply Ht; right; auto.
      * simpl in Hf. lia.
    + apply (mem_false term_eqb_spec) in E.
      assert (HaU : In a U) by (apply Ht; left; auto).
      destruct (Hstep a HaU) as [(ys & Es & Hny & Hiy)|(e & Es & He)]; rewrite Es;
        [|intros [= ->]; congruence].
      assert (Hlt : length seen < length U) by (eapply NoDup_incl_lt; eauto).
      assert (Hly : length ys <= length U) by (apply NoDup_incl_length; auto).
      destruct k as [|k']; [lia|].
      apply IH with k'; auto.
      * apply NoDup_app_single; auto.
      * intros y Hy. apply in_app_iff in Hy as [Hy|[<-|[]]]; auto.
      * intros y Hy. apply in_app_iff in Hy as [Hy|Hy]; auto. apply Ht; right; auto.
      * rewrite app_length. simpl. lia.
      * rewrite app_length. simpl in *. lia.
Qed.
End WorkNoOof.

Definition never_oof (g:graph) (q:path) : Prop :=
  forall inv r x, not_oof (eval_path (fuel_for g) g q inv r x).

Lemma closure_not_oof g q inv r x seen found :
  never_oof g q -> (seen = [x] \/ seen = []) ->
  eval_path (fuel_for g) g q inv (S r) x = Ok found ->
  not_oof (work (fuel_for g) (fun y => eval_path (fuel_for g) g q inv (S r) y) seen found).
Proof.
  intros Hq Hseen Ef.
  set (U := x :: nodes g).
  assert (Hrange : forall y ys, In y U -> eval_path (fuel_for g) g q inv (S r) y = Ok ys -> NoDup ys /\ incl ys U).
  { intros y ys Hy E. destruct (eval_path_sound _ _ _ _ _ _ _ E) as [Hn Hin]. split; auto.
    intros z Hz. apply Hin in Hz. apply rel_range in Hz. destruct Hz as [<-|Hz]; auto. right. exact Hz. }
  assert (Hstep : forall y, In y U ->
     (exists ys, eval_path (fuel_for g) g q inv (S r) y = Ok ys /\ NoDup ys /\ incl ys U)
     \/ (exists e, eval_path (fuel_for g) g q inv (S r) y = Err e /\ e <> OutOfFuel)).
  { intros y Hy. destruct (eval_path (fuel_for g) g q inv (S r) y) as [ys|e] eqn:E.
    - left. exists ys. split; auto. eapply Hrange; eauto.
    - right. exists e. split; auto. intros ->. exact (Hq inv (S r) y E). }
  destruct (Hrange x found (or_introl eq_refl) Ef) as [Hn Hi].
  assert (Hlf : length found <= length U) by (apply NoDup_incl_length; auto).
  unfold fuel_for. simpl in Hlf.
  destruct Hseen as [-> | ->].
  - apply work_not_oof with (U := U) (k := length (nodes g)); auto; simpl; try lia; try nia.
    all: try (repeat constructor; intros []).
    all: try (intros y [<-|[]]; left; reflexivity).
  - apply work_not_oof with (U := U) (k := S (length (nodes g))); auto; simpl; try lia; try nia.
    all: try (intros y []).
    all: try (constructor).
    all: try match goal with H : In _ [] |- _ => destruct H end.
Qed.

Theorem eval_path_never_oof g p : never_oof g p.
Proof.
  induction p as [pr|q IH|qs IH|qs IH|q IH|q IH|q IH] using path_ind'; intros inv r x.
  - discriminate.
  - cbn [eval_path]. destruct (MAX_PATH_RECURSION <=? r); [discriminate|apply IH].
  - rewrite eval_path_seq. revert inv r x.
    induction IH as [|q rest Hq Hrest IHr]; intros inv r x; cbn [seq_eval].
    + destruct (MAX_PATH_RECURSION <=? r); discriminate.
    + destruct (MAX_PATH_RECURSION <=? r); [discriminate|].
      destruct rest as [|q2 rest2].
      * destruct (r =? 0); [discriminate|apply Hq].
      * destruct inv.
        -- apply bind_not_oof; [apply IHr|]. intros mid _. apply union_map_not_oof. intros z _. apply Hq.
        -- apply bind_not_oof; [apply Hq|]. intros mid _. apply union_map_not_oof. intros z _. apply IHr.
  - rewrite eval_path_alt. destruct (MAX_PATH_RECURSION <=? r); [discriminate|].
    apply bind_not_oof.
    + generalize (@nil term). induction IH as [|q rest Hq Hrest IHr]; intros acc; cbn [alt_eval]; [discriminate|].
      apply bind_not_oof; [apply Hq|]. intros ys _. apply IHr.
    + intros all _. destruct (length qs <? 2); discriminate.
  - cbn [eval_path]. destruct (MAX_PATH_RECURSION <=? r); [discriminate|].
    apply bind_not_oof; [apply IH|]. intros found Ef. eapply closure_not_oof; eauto.
  - cbn [eval_path]. destruct (MAX_PATH_RECURSION <=? r); [discriminate|].
    apply bind_not_oof; [apply IH|]. intros found Ef. eapply closure_not_oof; eauto.
  - cbn [eval_path]. destruct (MAX_PATH_RECURSION <=? r); [discriminate|].
    apply bind_not_oof; [apply IH|]. intros found _. discriminate.
Qed.
