(* Executable comparison used by the correspondence run of C03/C07. *)
From Coq Require Import List NArith Bool.
From Verif Require Import Base.SetList Base.Terms Paths.Path.
Import ListNotations.

Definition exn_eqb (a b : exn) : bool :=
  match a, b with
  | Reportable, Reportable | ShapeLoad, ShapeLoad | ConstraintLoad, ConstraintLoad
  | TooDeep, TooDeep | OutOfFuel, OutOfFuel | ValFailure, ValFailure => true
  | _, _ => false
  end.

Definition res_set_eqb (a b : res (list term)) : bool :=
  match a, b with
  | Ok vs, Ok ws => tset_eqb vs ws
  | Err e, Err e' => exn_eqb e e'
  | _, _ => false
  end.

(* the implementation's answer `observed` agrees with the model *)
Definition check_path (g:graph) (p:path) (x:term) (observed : res (list term)) : bool :=
  res_set_eqb (value_nodes g p x) observed.
