(* Algebraic laws of the path evaluator, as corollaries of its correctness theorem
   (eval_path_main): whenever two paths denote the same SPARQL relation the model of
   value_nodes_from_path answers with the same set; the laws below are the ones that
   realistic slips in the evaluator break (direction toggling under nested inverses,
   the order of a sequence under an inverse, the first hop of a one-or-more closure,
   the zero-length step) - and monotonicity in the data graph. *)
From Coq Require Import List NArith Bool Arith Relations.
From Verif Require Import Base.SetList Base.Terms Paths.Path Paths.PathProofs Paths.PathOrder.
Import ListNotations.

Definition path_equiv (g:graph) (p p':path) : Prop := forall x y, path_rel g p x y <-> path_rel g p' x y.

Lemma value_nodes_equiv g p p' x :
  path_equiv g p p' -> wf_path p = true -> fits p 0 = true -> wf_path p' = true -> fits p' 0 = true ->
  exists vs vs', value_nodes g p x = Ok vs /\ value_nodes g p' x = Ok vs' /\ NoDup vs /\ NoDup vs'
                 /\ forall y, In y vs <-> In y vs'.
Proof.
  intros He Hwf Hfit Hwf' Hfit'.
  destruct (eval_path_main g p x Hwf Hfit) as (vs & E & Hn & Hv).
  destruct (eval_path_main g p' x Hwf' Hfit') as (vs' & E' & Hn' & Hv').
  exists vs, vs'. repeat split; auto.
  - intros H. apply Hv'. apply He. apply Hv. exact H.
  - intros H. apply Hv. apply He. apply Hv'. exact H.
Qed.

(* ---- the relational laws ---- *)

Lemma equiv_inv_inv g p : path_equiv g (PInv (PInv p)) p.
Proof. intros x y. simpl. tauto. Qed.

(* a sequence read backwards: the reversed list of the members' inverses *)
Lemma seq_rel_rev_inv g qs : forall x y,
  seq_rel g (rev (map PInv qs)) x y <-> seq_rel g qs y x.
Proof.
  induction qs as [|q qs IH]; intros x y.
  - simpl. split; intros H; subst; reflexivity.
  - cbn [map rev]. rewrite seq_rel_snoc. cbn [seq_rel]. split.
    + intros (z & H1 & H2). exists z. split; [exact H2|]. apply IH. exact H1.
    + intros (z & H1 & H2). exists z. split; [apply IH; exact H2|exact H1].
Qed.

Lemma equiv_inv_seq g qs : path_equiv g (PInv (PSeq qs)) (PSeq (rev (map PInv qs))).
Proof.
  intros x y.
  change (seq_rel g qs y x <-> seq_rel g (rev (map PInv qs)) x y).
  symmetry. apply seq_rel_rev_inv.
Qed.

Lemma alt_rel_map_inv g qs : forall x y, alt_rel g (map PInv qs) x y <-> alt_rel g qs y x.
Proof.
  induction qs as [|q qs IH]; intros x y; cbn [map alt_rel]; [tauto|].
  rewrite IH. simpl. tauto.
Qed.

Lemma equiv_inv_alt g qs : path_equiv g (PInv (PAlt qs)) (PAlt (map PInv qs)).
Proof.
  intros x y.
  change (alt_rel g qs y x <-> alt_rel g (map PInv qs) x y).
  symmetry. apply alt_rel_map_inv.
Qed.

(* one or more = one, then zero or more *)
Lemma equiv_plus_seq_star g q : path_equiv g (PPlus q) (PSeq [q; PStar q]).
Proof.
  intros x y. simpl. split.
  - intros H. apply clos_trans_t1n in H. destruct H as [y H|z y H Hr].
    + exists y. split; [exact H|]. exists y. split; [apply rt_refl|reflexivity].
    + exists z. split; [exact H|]. exists y. split; [|reflexivity].
      apply clos_t1n_trans in Hr. apply t_incl_rt. exact Hr.
  - intros (z & H1 & w & H2 & E). subst w.
    apply clos_rt_rt1n in H2. revert x H1. induction H2 as [|a b c Hab Hbc IH]; intros x0 H1.
    + apply t_step; auto.
    + eapply t_trans; [apply t_step; eauto|]. apply IH; auto.
Qed.

(* zero or more = zero or one of (one or more) *)
Lemma equiv_star_opt_plus g q : path_equiv g (PStar q) (POpt (PPlus q)).
Proof.
  intros x y. simpl. split.
  - intros H. apply clos_rt_rt1n in H. destruct H as [|z y H Hr]; [left; reflexivity|right].
    revert x H. induction Hr as [|a b c Hab Hbc IH]; intros x0 H.
    + apply t_step; auto.
    + eapply t_trans; [apply t_step; eauto|]. apply IH; auto.
  - intros [E|H]; [subst; apply rt_refl|apply t_incl_rt; exact H].
Qed.

(* closures of an inverse = inverse of the closure *)
Lemma equiv_star_inv g q : path_equiv g (PStar (PInv q)) (PInv (PStar q)).
Proof. intros x y. simpl. symmetry. apply rel_star_inv. Qed.
Lemma equiv_plus_inv g q : path_equiv g (PPlus (PInv q)) (PInv (PPlus q)).
Proof. intros x y. simpl. symmetry. apply rel_plus_inv. Qed.

(* ---- the same laws about the evaluator's answers ---- *)

Definition same_answers (g:graph) (p p':path) (x:term) : Prop :=
  exists vs vs', value_nodes g p x = Ok vs /\ value_nodes g p' x = Ok vs' /\ NoDup vs /\ NoDup vs'
                 /\ forall y, In y vs <-> In y vs'.

Theorem eval_inv_inv g p x :
  wf_path p = true -> fits (PInv (PInv p)) 0 = true -> fits p 0 = true -> same_answers g (PInv (PInv p)) p x.
Proof. intros Hwf Hf Hf'. apply value_nodes_equiv; auto. apply equiv_inv_inv. Qed.

Theorem eval_inv_seq g qs x :
  wf_path (PInv (PSeq qs)) = true -> fits (PInv (PSeq qs)) 0 = true ->
  wf_path (PSeq (rev (map PInv qs))) = true -> fits (PSeq (rev (map PInv qs))) 0 = true ->
  same_answers g (PInv (PSeq qs)) (PSeq (rev (map PInv qs))) x.
Proof. intros. apply value_nodes_equiv; auto. apply equiv_inv_seq. Qed.

Theorem eval_inv_alt g qs x :
  wf_path (PInv (PAlt qs)) = true -> fits (PInv (PAlt qs)) 0 = true ->
  wf_path (PAlt (map PInv qs)) = true -> fits (PAlt (map PInv qs)) 0 = true ->
  same_answers g (PInv (PAlt qs)) (PAlt (map PInv qs)) x.
Proof. intros. apply value_nodes_equiv; auto. apply equiv_inv_alt. Qed.

Theorem eval_plus_unfold g q x :
  wf_path q = true -> fits (PPlus q) 0 = true -> fits (PSeq [q; PStar q]) 0 = true ->
  same_answers g (PPlus q) (PSeq [q; PStar q]) x.
Proof.
  intros Hwf Hf Hf'. apply value_nodes_equiv; auto; [apply equiv_plus_seq_star|].
  cbn [wf_path length Nat.leb]. cbn. rewrite Hwf. reflexivity.
Qed.

Theorem eval_star_unfold g q x :
  wf_path q = true -> fits (PStar q) 0 = true -> fits (POpt (PPlus q)) 0 = true ->
  same_answers g (PStar q) (POpt (PPlus q)) x.
Proof. intros Hwf Hf Hf'. apply value_nodes_equiv; auto. apply equiv_star_opt_plus. Qed.

Theorem eval_closure_of_inverse g q x :
  wf_path q = true -> fits (PStar (PInv q)) 0 = true ->
  same_answers g (PStar (PInv q)) (PInv (PStar q)) x /\ same_answers g (PPlus (PInv q)) (PInv (PPlus q)) x.
Proof.
  intros Hwf Hf. split; apply value_nodes_equiv; auto; try apply equiv_star_inv; try apply equiv_plus_inv.
Qed.

(* Paths have no negation: adding triples to the data graph never removes a value node. *)
Theorem eval_monotone g g' p x :
  (forall t, In t g -> In t g') -> wf_path p = true -> fits p 0 = true ->
  exists vs vs', value_nodes g p x = Ok vs /\ value_nodes g' p x = Ok vs' /\ forall y, In y vs -> In y vs'.
Proof.
  intros Hs Hwf Hfit.
  destruct (eval_path_main g p x Hwf Hfit) as (vs & E & _ & Hv).
  destruct (eval_path_main g' p x Hwf Hfit) as (vs' & E' & _ & Hv').
  exists vs, vs'. repeat split; auto. intros y H. apply Hv'. apply (path_rel_mono g g' Hs). apply Hv. exact H.
Qed.
