(* What the generated list check decides: it accepts exactly the rest maps in which every rdf:rest chain ends
   (no chain runs into a circle - ring or rho shaped), and it never runs out of fuel. *)
From Coq Require Import List NArith Bool Arith Lia.
From Verif Require Import Base.SetList Base.Terms Closure.ListCheck.
Import ListNotations.

Lemma tmemb_In x l : tmemb x l = true <-> In x l.
Proof. apply (mem_In term_eqb_spec). Qed.
Lemma tmemb_false x l : tmemb x l = false <-> ~ In x l.
Proof. rewrite <- tmemb_In. destruct (tmemb x l); split; intros H; try congruence; try tauto. Qed.

Section Check.
Variable m : rest_map.
Notation f := (rest_of m).

(* a node is good when following rdf:rest from it leaves the map after finitely many steps *)
Inductive Good : term -> Prop :=
  | G_out x : f x = None -> Good x
  | G_step x y : f x = Some y -> Good y -> Good x.

(* one or more steps *)
Inductive plus : term -> term -> Prop :=
  | P_one x y : f x = Some y -> plus x y
  | P_more x y z : f x = Some y -> plus y z -> plus x z.

Lemma plus_snoc x y z : plus x y -> f y = Some z -> plus x z.
Proof. induction 1 as [x y H|x y w H _ IH]; intros Hz; [eapply P_more; [exact H|apply P_one; exact Hz]|eapply P_more; [exact H|apply IH; exact Hz]]. Qed.

Lemma good_no_cycle x : Good x -> ~ plus x x.
Proof.
  induction 1 as [x Hx|x y Hxy _ IH]; intros C.
  - inversion C as [a b Hab|a b c Hab _]; subst; congruence.
  - apply IH. inversion C as [a b Hab|a b c Hab Hbc]; subst.
    + assert (y = x) by congruence. subst. apply P_one. exact Hxy.
    + assert (b = y) by congruence. subst. eapply plus_snoc; [exact Hbc|exact Hxy].
Qed.

Lemma in_dom_spec x : in_dom m x = true <-> exists y, f x = Some y.
Proof. unfold in_dom. destruct (f x) as [y|]; split; intros H; [exists y; reflexivity|reflexivity|discriminate|destruct H; discriminate]. Qed.
Lemma in_dom_false x : in_dom m x = false <-> f x = None.
Proof. unfold in_dom. destruct (f x); split; intros H; congruence. Qed.

Lemma rest_of_key x y : f x = Some y -> In x (keys m).
Proof.
  unfold keys. rewrite (In_dedup term_eqb_spec). induction m as [|[k v] r IH]; cbn; [discriminate|].
  destruct (term_eqb_spec k x) as [->|Hne]; [intros _; left; reflexivity|intros H; right; apply IH; exact H].
Qed.
Lemma keys_in_dom x : In x (keys m) -> in_dom m x = true.
Proof.
  unfold keys. rewrite (In_dedup term_eqb_spec). unfold in_dom. induction m as [|[k v] r IH]; cbn; [intros []|].
  destruct (term_eqb_spec k x) as [->|Hne]; [reflexivity|]. intros [H|H]; [congruence|apply IH; exact H].
Qed.
Lemma keys_length : length (keys m) <= length m.
Proof.
  unfold keys. apply Nat.le_trans with (length (map fst m)); [|rewrite map_length; apply Nat.le_refl].
  apply NoDup_incl_length; [apply (NoDup_dedup term_eqb_spec)|].
  intros x Hx. exact (proj1 (In_dedup term_eqb_spec (map fst m) x) Hx).
Qed.

(* seen is a chain: every element steps to the next one, the last one to cur *)
Fixpoint chain (l:list term) (cur:term) : Prop :=
  match l with
  | [] => True
  | x :: r => f x = Some (match r with [] => cur | y :: _ => y end) /\ chain r cur
  end.

Lemma chain_snoc l cur n : chain l cur -> f cur = Some n -> chain (l ++ [cur]) n.
Proof.
  induction l as [|x r IH]; cbn [chain app]; intros H Hn; [split; [exact Hn|exact I]|].
  destruct H as [Hx Hr]. split; [|apply IH; assumption]. destruct r; exact Hx.
Qed.
Lemma chain_plus l cur : forall x, chain l cur -> In x l -> plus x cur.
Proof.
  induction l as [|y r IH]; cbn [chain]; intros x H Hin; [destruct Hin|]. destruct H as [Hy Hr].
  destruct Hin as [<-|Hin].
  - destruct r as [|z r']; [apply P_one; exact Hy|]. eapply P_more; [exact Hy|]. apply IH; [exact Hr|left; reflexivity].
  - apply IH; assumption.
Qed.
Lemma plus_good x y : plus x y -> Good y -> Good x.
Proof. induction 1 as [x y H|x y z H _ IH]; intros G; [eapply G_step; eauto|eapply G_step; [exact H|apply IH; exact G]]. Qed.

Record Inv (st:wstate) : Prop := {
  i_chain : chain (seen st) (current st);
  i_nodup : NoDup (seen st);
  i_dom : forall x, In x (seen st) -> in_dom m x = true
}.

Lemma walk_unfold fl s st : walk (S fl) canonical_check m s st =
  if in_dom m (current st) && negb (tmemb (current st) (checked st)) then
    if tmemb (current st) (seen st) then Some None
    else match f (current st) with
         | Some n => walk fl canonical_check m s {| checked := checked st; seen := seen st ++ [current st]; current := n |}
         | None => walk fl canonical_check m s {| checked := checked st; seen := seen st ++ [current st]; current := current st |}
         end
  else Some (Some st).
Proof.
  cbn [walk]. unfold cond. cbn [canonical_check l_cond_in_dom l_cond_not_checked l_body exec_body exec_w].
  destruct (in_dom m (current st) && negb (tmemb (current st) (checked st))); [|reflexivity].
  destruct (tmemb (current st) (seen st)); [reflexivity|]. cbn [seen current checked].
  destruct (f (current st)); reflexivity.
Qed.

(* the while loop of one start node *)
Lemma walk_spec s : forall fl st, Inv st -> length (keys m) + 2 <= fl + length (seen st) ->
  match walk fl canonical_check m s st with
  | None => False
  | Some None => exists x, in_dom m x = true /\ ~ Good x
  | Some (Some st') =>
      checked st' = checked st /\ Inv st' /\ incl (seen st) (seen st')
      /\ (in_dom m (current st') = false \/ In (current st') (checked st))
      /\ (in_dom m (current st) = true -> ~ In (current st) (checked st) -> In (current st) (seen st'))
  end.
Proof.
  induction fl as [|fl IH]; intros st I Hf.
  - exfalso. assert (length (seen st) <= length (keys m)).
    { apply NoDup_incl_length; [apply (i_nodup _ I)|]. intros x Hx. apply (i_dom _ I) in Hx. apply in_dom_spec in Hx as (y & Hy). eapply rest_of_key; eauto. }
    lia.
  - rewrite walk_unfold. destruct (in_dom m (current st)) eqn:Hd; cbn [andb].
    2:{ split; [reflexivity|]. split; [exact I|]. split; [intros x Hx; exact Hx|]. split; [left; exact Hd|intros H; congruence]. }
    destruct (tmemb (current st) (checked st)) eqn:Hc; cbn [negb].
    { apply tmemb_In in Hc. split; [reflexivity|]. split; [exact I|]. split; [intros x Hx; exact Hx|]. split; [right; exact Hc|intros _ Hn; contradiction]. }
    destruct (tmemb (current st) (seen st)) eqn:Hs.
    { apply tmemb_In in Hs. exists (current st). split; [exact Hd|]. intros G. apply (good_no_cycle _ G).
      eapply chain_plus; [apply (i_chain _ I)|exact Hs]. }
    apply tmemb_false in Hs. apply in_dom_spec in Hd as (n & Hn). rewrite Hn.
    set (st1 := {| checked := checked st; seen := seen st ++ [current st]; current := n |}).
    assert (I1 : Inv st1).
    { constructor; cbn [st1 seen current].
      - apply chain_snoc; [apply (i_chain _ I)|exact Hn].
      - apply NoDup_app_single; [apply (i_nodup _ I)|exact Hs].
      - intros x Hx. apply in_app_iff in Hx as [Hx|[<-|[]]]; [apply (i_dom _ I); exact Hx|apply in_dom_spec; exists n; exact Hn]. }
    specialize (IH st1 I1). cbn [st1 seen] in IH. rewrite app_length in IH. cbn [length] in IH.
    assert (Hf1 : length (keys m) + 2 <= fl + (length (seen st) + 1)) by lia. specialize (IH Hf1).
    destruct (walk fl canonical_check m s st1) as [[st'|]|]; [|exact IH|exact IH].
    destruct IH as (Hck & I' & Hincl & Hend & _). cbn [st1 checked] in Hck, Hend.
    split; [exact Hck|]. split; [exact I'|]. split; [intros x Hx; apply Hincl; cbn [st1 seen]; apply in_app_iff; left; exact Hx|].
    split; [exact Hend|]. intros _ _. apply Hincl. cbn [st1 seen]. apply in_app_iff. right. left. reflexivity.
Qed.

(* the loop over all start nodes *)
Lemma starts_spec : forall starts chk, (forall x, In x chk -> Good x) -> (forall x, In x starts -> in_dom m x = true) ->
  match starts_loop (length m + 2) canonical_check m starts chk with
  | OutOfFuel => False
  | Reject => exists x, in_dom m x = true /\ ~ Good x
  | Accept => forall x, In x starts -> Good x
  end.
Proof.
  induction starts as [|s r IH]; intros chk Hg Hd; cbn [starts_loop]; [intros x []|].
  change (l_skip_checked_start canonical_check) with true. cbn [andb].
  destruct (tmemb s chk) eqn:Hs.
  - apply tmemb_In in Hs. specialize (IH chk Hg (fun x Hx => Hd x (or_intror Hx))).
    destruct (starts_loop (length m + 2) canonical_check m r chk); [|exact IH|exact IH].
    intros x [<-|Hx]; [apply Hg; exact Hs|apply IH; exact Hx].
  - apply tmemb_false in Hs.
    set (st0 := {| checked := chk; seen := []; current := s |}).
    assert (I0 : Inv st0) by (constructor; cbn; [exact I|constructor|intros x []]).
    pose proof (walk_spec s (length m + 2) st0 I0) as W. cbn [st0 seen length] in W.
    assert (Hfuel : length (keys m) + 2 <= length m + 2 + 0) by (pose proof keys_length; lia). specialize (W Hfuel).
    destruct (walk (length m + 2) canonical_check m s st0) as [[st'|]|]; [|exact W|exact W].
    destruct W as (Hck & I' & _ & Hend & Hin). cbn [st0 checked current] in Hck, Hend, Hin.
    change (l_update_checked canonical_check) with true. cbn iota.
    assert (Gcur : Good (current st')).
    { destruct Hend as [H|H]; [apply G_out; apply in_dom_false; exact H|apply Hg; exact H]. }
    assert (Gseen : forall x, In x (seen st') -> Good x).
    { intros x Hx. eapply plus_good; [eapply chain_plus; [apply (i_chain _ I')|exact Hx]|exact Gcur]. }
    assert (Hg' : forall x, In x (checked st' ++ seen st') -> Good x).
    { intros x Hx. apply in_app_iff in Hx as [Hx|Hx]; [apply Hg; rewrite <- Hck; exact Hx|apply Gseen; exact Hx]. }
    specialize (IH (checked st' ++ seen st') Hg' (fun x Hx => Hd x (or_intror Hx))).
    destruct (starts_loop (length m + 2) canonical_check m r (checked st' ++ seen st')); [|exact IH|exact IH].
    intros x [<-|Hx]; [|apply IH; exact Hx]. apply Gseen. apply Hin; [apply Hd; left; reflexivity|exact Hs].
Qed.

Theorem check_decides :
  check canonical_check m <> OutOfFuel
  /\ (check canonical_check m = Accept <-> forall x, in_dom m x = true -> Good x).
Proof.
  pose proof (starts_spec (keys m) [] (fun x H => match H with end) keys_in_dom) as S. unfold check.
  destruct (starts_loop (length m + 2) canonical_check m (keys m) []) eqn:E.
  - split; [discriminate|]. split; [intros _ x Hx|reflexivity]. apply in_dom_spec in Hx as (y & Hy). apply S. eapply rest_of_key; eauto.
  - split; [discriminate|]. split; [discriminate|]. intros H. destruct S as (x & Hx & Hn). exfalso. apply Hn. apply H. exact Hx.
  - destruct S.
Qed.

End Check.

(* a good node's list can be enumerated: following rdf:rest from it ends after at most |map| steps *)
Fixpoint steps_out (fuel:nat) (m:rest_map) (x:term) : bool :=
  match fuel with
  | O => false
  | S fl => match rest_of m x with None => true | Some y => steps_out fl m y end
  end.

Lemma good_steps_mono m x : forall fl fl', fl <= fl' -> steps_out fl m x = true -> steps_out fl' m x = true.
Proof.
  intros fl. revert x. induction fl as [|fl IH]; intros x fl' Hle H; [discriminate|].
  destruct fl' as [|fl']; [lia|]. cbn [steps_out] in *. destruct (rest_of m x) as [y|]; [|reflexivity]. apply (IH y fl'); [lia|exact H].
Qed.
Lemma good_steps m x : Good m x -> exists fl, steps_out fl m x = true.
Proof.
  induction 1 as [x Hx|x y Hxy _ (fl & IH)]; [exists 1; cbn; rewrite Hx; reflexivity|].
  exists (S fl). cbn [steps_out]. rewrite Hxy. exact IH.
Qed.

(* the decision depends on the rest map as a function only (not on the order in which its pairs are listed) *)
Lemma good_ext m m' : (forall x, rest_of m x = rest_of m' x) -> forall x, Good m x -> Good m' x.
Proof.
  intros H x G. induction G as [x Hx|x y Hxy _ IH]; [apply G_out; rewrite <- H; exact Hx|eapply G_step; [rewrite <- H; exact Hxy|exact IH]].
Qed.
Theorem check_order_free m m' : (forall x, rest_of m x = rest_of m' x) ->
  (check canonical_check m = Accept <-> check canonical_check m' = Accept).
Proof.
  intros H. destruct (check_decides m) as (_ & D). destruct (check_decides m') as (_ & D'). rewrite D, D'.
  assert (Hd : forall x, in_dom m x = in_dom m' x) by (intros x; unfold in_dom; rewrite H; reflexivity).
  split; intros A x Hx.
  - apply (good_ext m m' H). apply A. rewrite Hd. exact Hx.
  - apply (good_ext m' m (fun y => eq_sym (H y))). apply A. rewrite <- Hd. exact Hx.
Qed.

(* after acceptance every list can be enumerated: following rdf:rest from any node ends *)
Theorem accepted_lists_end m : check canonical_check m = Accept -> forall x, exists fl, steps_out fl m x = true.
Proof.
  intros A x. destruct (check_decides m) as (_ & D). destruct (in_dom m x) eqn:Hx.
  - apply good_steps. apply D; assumption.
  - exists 1. cbn. apply in_dom_false in Hx. rewrite Hx. reflexivity.
Qed.
