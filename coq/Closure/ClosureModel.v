(* The generated closure programs compute what the evaluator model calls subclasses / superclasses. *)
From Coq Require Import List NArith Bool Relations.
From Verif Require Import Base.SetList Base.Terms Base.Vocab Paths.Path Shapes.AST Shapes.Leaf Shapes.Eval Shapes.TargetProofs
  Closure.Worklist Closure.WorklistProofs.
Import ListNotations.

Lemma subjects_closure_is_subclasses g c :
  exists r, run_on (canonical true) g t_subClassOf c = Some r /\ NoDup r /\ forall y, In y r <-> In y (subclasses g c).
Proof.
  destruct (subjects_closure g t_subClassOf c) as (r & Hr & Hn & Hs).
  exists r. split; [exact Hr|]. split; [exact Hn|]. intros y. rewrite Hs, subclasses_spec. reflexivity.
Qed.

Lemma objects_closure_is_superclasses g t :
  exists r, run_on (canonical false) g t_subClassOf t = Some r /\ NoDup r /\ forall y, In y r <-> In y (superclasses g t).
Proof.
  destruct (objects_closure g t_subClassOf t) as (r & Hr & Hn & Hs).
  exists r. split; [exact Hr|]. split; [exact Hn|]. intros y. rewrite Hs, superclasses_spec. reflexivity.
Qed.
