(* pyshacl/rdfutil/closure.py: transitive closure over one predicate with a work list.

   The two Python functions are translated (translator/t4.py, fail-closed) into programs of the
   small language below: three containers (the set `seen`, the lists `found` and `todo`), an
   outer `while todo:` loop that pops a node, an inner `for s in graph.subjects/objects(...)`
   loop whose body is a list of statements.  [run] is the interpreter; Gen/T4.v holds the two
   generated programs; WorklistProofs.v shows what the generated programs compute. *)
From Coq Require Import List NArith Bool Arith.
From Verif Require Import Base.SetList Base.Terms.
Import ListNotations.

Inductive stmt :=
  | SAddSeen                      (* seen.add(s) *)
  | SAppendFound                  (* found.append(s) *)
  | SAppendTodo                   (* todo.append(s) *)
  | SBreak
  | SContinue
  | SIf (in_seen:bool) (body:list stmt).   (* if s in seen: / if s not in seen: *)

Record prog := {
  p_backward : bool;       (* true: graph.subjects(predicate, current); false: graph.objects(current, predicate) *)
  p_seen_start : bool;     (* seen = {start} *)
  p_found_start : bool;    (* found = [start] *)
  p_todo_start : bool;     (* todo = [start] *)
  p_pop_last : bool;       (* todo.pop() takes the last element; false: todo.pop(0) *)
  p_body : list stmt
}.

Record state := { seen : list term; found : list term; todo : list term }.

Inductive ctl := Normal | Brk | Cont.

Definition tmem' (x:term) (l:list term) : bool := mem term_eqb x l.

Fixpoint exec_stmt (x:stmt) (s:term) (st:state) {struct x} : state * ctl :=
  match x with
  | SAddSeen => ({| seen := if tmem' s (seen st) then seen st else seen st ++ [s]; found := found st; todo := todo st |}, Normal)
  | SAppendFound => ({| seen := seen st; found := found st ++ [s]; todo := todo st |}, Normal)
  | SAppendTodo => ({| seen := seen st; found := found st; todo := todo st ++ [s] |}, Normal)
  | SBreak => (st, Brk)
  | SContinue => (st, Cont)
  | SIf b body =>
      if Bool.eqb (tmem' s (seen st)) b then
        (fix go (l:list stmt) (st:state) : state * ctl :=
           match l with
           | [] => (st, Normal)
           | y :: r => let '(st', c) := exec_stmt y s st in
                       match c with Normal => go r st' | _ => (st', c) end
           end) body st
      else (st, Normal)
  end.

Fixpoint exec_body (l:list stmt) (s:term) (st:state) : state * ctl :=
  match l with
  | [] => (st, Normal)
  | y :: r => let '(st', c) := exec_stmt y s st in
              match c with Normal => exec_body r s st' | _ => (st', c) end
  end.

(* for s in xs: body   (break leaves the loop, continue goes to the next element) *)
Fixpoint for_each (body:list stmt) (xs:list term) (st:state) : state :=
  match xs with
  | [] => st
  | s :: r => let '(st', c) := exec_body body s st in
              match c with Brk => st' | _ => for_each body r st' end
  end.

Definition pop (last:bool) (l:list term) : option (term * list term) :=
  if last then match rev l with [] => None | x :: r => Some (x, rev r) end
  else match l with [] => None | x :: r => Some (x, r) end.

(* while todo: current = todo.pop(); for s in adj(current): body *)
Fixpoint loop (fuel:nat) (P:prog) (adj:term -> list term) (st:state) : option (list term) :=
  match fuel with
  | O => None
  | S f =>
      match pop (p_pop_last P) (todo st) with
      | None => Some (found st)
      | Some (cur, rest) =>
          loop f P adj (for_each (p_body P) (adj cur) {| seen := seen st; found := found st; todo := rest |})
      end
  end.

Definition init (P:prog) (start:term) : state :=
  {| seen := if p_seen_start P then [start] else [];
     found := if p_found_start P then [start] else [];
     todo := if p_todo_start P then [start] else [] |}.

Definition run (fuel:nat) (P:prog) (adj:term -> list term) (start:term) : option (list term) :=
  loop fuel P adj (init P start).

(* the neighbours the program asks the graph for *)
Definition adj_of (P:prog) (g:graph) (pred:term) (x:term) : list term :=
  if p_backward P then subjects g pred x else objects g x pred.

(* enough fuel for every graph: each node enters `todo` at most once *)
Definition fuel_of (g:graph) : nat := 2 * (length (nodes g) + 1) + 1.

Definition run_on (P:prog) (g:graph) (pred start:term) : option (list term) :=
  run (fuel_of g) P (adj_of P g pred) start.

(* adjacency handed over as a table (the correspondence run passes what rdflib enumerated, in rdflib's order) *)
Definition adj_table (T:list (term * list term)) (x:term) : list term :=
  match find (fun kv => term_eqb (fst kv) x) T with Some kv => snd kv | None => [] end.

(* the program the proofs are about: closure.py as it is written today *)
Definition canonical (backward:bool) : prog :=
  {| p_backward := backward; p_seen_start := true; p_found_start := true; p_todo_start := true; p_pop_last := true;
     p_body := [SIf false [SAddSeen; SAppendFound; SAppendTodo]] |}.
