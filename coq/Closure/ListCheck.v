(* ShapesGraph._check_rdf_lists: every rdf:rest chain of the shapes graph is walked once; a chain that runs in a
   circle is a ShapeLoadError.  The cycle walk of the Python method is translated (translator/t5.py, fail-closed)
   into a program of the small language below; [check] is its interpreter; Gen/T5.v holds the generated program;
   ListCheckProofs.v shows what the generated program decides. *)
From Coq Require Import List NArith Bool Arith.
From Verif Require Import Base.SetList Base.Terms.
Import ListNotations.

Inductive wstmt :=
  | WIfSeenRaise        (* if current in seen: raise ShapeLoadError *)
  | WIfStartRaise       (* if current == start: raise ShapeLoadError *)
  | WAddSeen            (* seen.add(current) *)
  | WAddChecked         (* checked.add(current) *)
  | WAdvance.           (* current = rest_of[current] *)

Record lprog := {
  l_skip_checked_start : bool;    (* if start in checked: continue *)
  l_cond_in_dom : bool;           (* while current in rest_of ... *)
  l_cond_not_checked : bool;      (* ... and current not in checked *)
  l_body : list wstmt;
  l_update_checked : bool         (* checked.update(seen) after the walk *)
}.

Definition rest_map := list (term * term).     (* rest_of: first binding wins, as dict.setdefault *)
Fixpoint rest_of (m:rest_map) (x:term) : option term :=
  match m with [] => None | (k, v) :: r => if term_eqb k x then Some v else rest_of r x end.
Definition in_dom (m:rest_map) (x:term) : bool := match rest_of m x with Some _ => true | None => false end.

Record wstate := { checked : list term; seen : list term; current : term }.

Definition tmemb (x:term) (l:list term) : bool := mem term_eqb x l.

(* None: ShapeLoadError raised *)
Definition exec_w (m:rest_map) (start:term) (x:wstmt) (st:wstate) : option wstate :=
  match x with
  | WIfSeenRaise => if tmemb (current st) (seen st) then None else Some st
  | WIfStartRaise => if term_eqb (current st) start then None else Some st
  | WAddSeen => Some {| checked := checked st; seen := seen st ++ [current st]; current := current st |}
  | WAddChecked => Some {| checked := checked st ++ [current st]; seen := seen st; current := current st |}
  | WAdvance => match rest_of m (current st) with
                | Some n => Some {| checked := checked st; seen := seen st; current := n |}
                | None => Some st       (* KeyError cannot happen under the loop condition; modelled as no move *)
                end
  end.

Fixpoint exec_body (m:rest_map) (start:term) (l:list wstmt) (st:wstate) : option wstate :=
  match l with
  | [] => Some st
  | x :: r => match exec_w m start x st with Some st' => exec_body m start r st' | None => None end
  end.

Definition cond (P:lprog) (m:rest_map) (st:wstate) : bool :=
  (if l_cond_in_dom P then in_dom m (current st) else true)
  && (if l_cond_not_checked P then negb (tmemb (current st) (checked st)) else true).

Inductive outcome := Accept | Reject | OutOfFuel.

(* the while loop of one start node: Some (Some st) finished, Some None raised, None out of fuel *)
Fixpoint walk (fuel:nat) (P:lprog) (m:rest_map) (start:term) (st:wstate) : option (option wstate) :=
  match fuel with
  | O => None
  | S f =>
      if cond P m st then
        match exec_body m start (l_body P) st with
        | Some st' => walk f P m start st'
        | None => Some None
        end
      else Some (Some st)
  end.

Fixpoint starts_loop (fuel:nat) (P:lprog) (m:rest_map) (starts:list term) (chk:list term) : outcome :=
  match starts with
  | [] => Accept
  | s :: r =>
      if l_skip_checked_start P && tmemb s chk then starts_loop fuel P m r chk
      else match walk fuel P m s {| checked := chk; seen := []; current := s |} with
           | None => OutOfFuel
           | Some None => Reject
           | Some (Some st) =>
               starts_loop fuel P m r (if l_update_checked P then checked st ++ seen st else checked st)
           end
  end.

Definition keys (m:rest_map) : list term := dedup term_eqb (map fst m).

Definition check (P:lprog) (m:rest_map) : outcome :=
  starts_loop (length m + 2) P m (keys m) [].

(* the rest_of map of a graph: (subject, object) of every rdf:rest triple, in the graph's order *)
Definition rest_pairs (g:graph) (p_rest:term) : rest_map :=
  map (fun t => (tsubj t, tobj t)) (filter (fun t => term_eqb (tpred t) p_rest) g).

(* the program the proofs are about: _check_rdf_lists as it is written today *)
Definition canonical_check : lprog :=
  {| l_skip_checked_start := true; l_cond_in_dom := true; l_cond_not_checked := true;
     l_body := [WIfSeenRaise; WAddSeen; WAdvance]; l_update_checked := true |}.
