(* What the work-list programs of closure.py compute: exactly the nodes reachable from the start node,
   each once, whatever the order in which the graph enumerates neighbours - on every graph
   (chains of any length, diamonds, cycles, self loops). *)
From Coq Require Import List NArith Bool Arith Relations Lia.
From Verif Require Import Base.SetList Base.Terms Closure.Worklist.
Import ListNotations.

Lemma tmem'_In x l : tmem' x l = true <-> In x l.
Proof. apply (mem_In term_eqb_spec). Qed.
Lemma tmem'_false x l : tmem' x l = false <-> ~ In x l.
Proof. rewrite <- tmem'_In. destruct (tmem' x l); split; intros H; try congruence; try tauto. Qed.

Definition push (s:term) (st:state) : state :=
  {| seen := seen st ++ [s]; found := found st ++ [s]; todo := todo st ++ [s] |}.
Definition visit (s:term) (st:state) : state := if tmem' s (seen st) then st else push s st.

Lemma state_eta st : {| seen := seen st; found := found st; todo := todo st |} = st.
Proof. destruct st; reflexivity. Qed.

Lemma canonical_body b s st : exec_body (p_body (canonical b)) s st = (visit s st, Normal).
Proof.
  unfold visit, push. cbn. destruct (tmem' s (seen st)) eqn:E; cbn.
  - reflexivity.
  - reflexivity.
Qed.

Lemma canonical_for_each b xs : forall st, for_each (p_body (canonical b)) xs st = fold_left (fun st s => visit s st) xs st.
Proof.
  induction xs as [|s r IH]; intros st; [reflexivity|].
  cbn [for_each fold_left]. rewrite canonical_body. apply IH.
Qed.

Lemma pop_last_some l x l' : pop true l = Some (x, l') -> l = l' ++ [x].
Proof.
  unfold pop. destruct (rev l) as [|y r] eqn:E; [discriminate|]. intros H. inversion H; subst.
  rewrite <- (rev_involutive l), E. reflexivity.
Qed.
Lemma pop_last_none l : pop true l = None -> l = [].
Proof.
  unfold pop. destruct (rev l) as [|y r] eqn:E; [|discriminate]. intros _.
  rewrite <- (rev_involutive l), E. reflexivity.
Qed.

Section Closure.
Variable adj : term -> list term.
Variable start : term.
Variable U : list term.
Hypothesis start_in_U : In start U.
Hypothesis U_closed : forall x y, In x U -> In y (adj x) -> In y U.

Definition edge (a b:term) : Prop := In b (adj a).
Definition reach (y:term) : Prop := clos_refl_trans term edge start y.

Definition measure (st:state) : nat := 2 * (length U - length (seen st)) + length (todo st).

(* cur: the node whose neighbours are being scanned; done: the neighbours scanned so far *)
Record Inv (cur:option term) (done:list term) (st:state) : Prop := {
  i_same : forall x, In x (seen st) <-> In x (found st);
  i_nodup_found : NoDup (found st);
  i_nodup_seen : NoDup (seen st);
  i_todo : incl (todo st) (seen st);
  i_reach : forall x, In x (seen st) -> reach x;
  i_closed : forall x y, In x (seen st) -> ~ In x (todo st) -> In y (adj x) ->
               (Some x <> cur \/ In y done) -> In y (seen st);
  i_U : incl (seen st) U;
  i_start : In start (seen st)
}.

Lemma visit_inv cur done s st :
  Inv (Some cur) done st -> In cur (seen st) -> In s (adj cur) ->
  Inv (Some cur) (done ++ [s]) (visit s st) /\ measure (visit s st) <= measure st /\ In cur (seen (visit s st)).
Proof.
  intros I Hcur Hs. unfold visit. destruct (tmem' s (seen st)) eqn:E.
  - apply tmem'_In in E. split; [|split; auto].
    destruct I as [I1 I2 I3 I4 I5 I6 I7 I8]. constructor; auto.
    intros x y Hx Hnt Hy [Hne|Hd]; [eapply I6; eauto|].
    apply in_app_iff in Hd as [Hd|[<-|[]]]; [eapply I6; eauto|exact E].
  - apply tmem'_false in E. destruct I as [I1 I2 I3 I4 I5 I6 I7 I8].
    assert (HsU : In s U) by (eapply U_closed; [apply I7; exact Hcur|exact Hs]).
    assert (Hlt : length (seen st) < length U) by (eapply (NoDup_incl_lt s); eauto).
    split; [|split].
    + constructor; cbn [push seen found todo].
      * intros x. rewrite !in_app_iff, I1. tauto.
      * apply NoDup_app_single; auto. rewrite <- I1. exact E.
      * apply NoDup_app_single; auto.
      * intros x Hx. apply in_app_iff in Hx as [Hx|Hx]; apply in_app_iff; [left; auto|right; exact Hx].
      * intros x Hx. apply in_app_iff in Hx as [Hx|[<-|[]]]; [auto|].
        eapply rt_trans; [apply I5; exact Hcur|apply rt_step; exact Hs].
      * intros x y Hx Hnt Hy Hc. apply in_app_iff.
        apply in_app_iff in Hx as [Hx|[<-|[]]].
        -- assert (Hnt' : ~ In x (todo st)) by (intros H; apply Hnt; apply in_app_iff; auto).
           destruct Hc as [Hne|Hd]; [left; eapply I6; eauto|].
           apply in_app_iff in Hd as [Hd|[<-|[]]]; [left; eapply I6; eauto|right; left; reflexivity].
        -- exfalso. apply Hnt. apply in_app_iff. right. left. reflexivity.
      * intros x Hx. apply in_app_iff in Hx as [Hx|[<-|[]]]; auto.
      * apply in_app_iff. auto.
    + unfold measure. cbn [push seen todo]. rewrite !app_length. cbn [length]. lia.
    + cbn [push seen]. apply in_app_iff. auto.
Qed.

Lemma scan_inv cur : forall xs done st,
  Inv (Some cur) done st -> In cur (seen st) -> incl xs (adj cur) ->
  let st' := fold_left (fun st s => visit s st) xs st in
  Inv (Some cur) (done ++ xs) st' /\ measure st' <= measure st.
Proof.
  induction xs as [|s r IH]; intros done st I Hcur Hin; cbn [fold_left].
  - rewrite app_nil_r. split; [exact I|lia].
  - destruct (visit_inv cur done s st I Hcur) as (I' & Hm & Hcur'); [apply Hin; left; reflexivity|].
    destruct (IH (done ++ [s]) (visit s st) I' Hcur') as (I'' & Hm'); [intros y Hy; apply Hin; right; exact Hy|].
    rewrite <- app_assoc in I''. cbn [app] in I''. split; [exact I''|lia].
Qed.

(* one turn of the while loop *)
Lemma turn_inv st cur rest :
  Inv None [] st -> todo st = rest ++ [cur] ->
  let st' := fold_left (fun st s => visit s st) (adj cur) {| seen := seen st; found := found st; todo := rest |} in
  Inv None [] st' /\ measure st' < measure st.
Proof.
  intros I Ht.
  assert (Hcur : In cur (seen st)) by (apply (i_todo _ _ _ I); rewrite Ht; apply in_app_iff; right; left; reflexivity).
  set (st0 := {| seen := seen st; found := found st; todo := rest |}).
  assert (I0 : Inv (Some cur) [] st0).
  { destruct I as [I1 I2 I3 I4 I5 I6 I7 I8]. constructor; unfold st0; cbn [seen found todo]; auto.
    - intros x Hx. apply I4. rewrite Ht. apply in_app_iff. auto.
    - intros x y Hx Hnt Hy [Hne|[]]. apply (I6 x y Hx); [|exact Hy|left; discriminate].
      rewrite Ht. intros H. apply in_app_iff in H as [H|[<-|[]]]; [auto|]. apply Hne. reflexivity. }
  destruct (scan_inv cur (adj cur) [] st0 I0 Hcur (fun y Hy => Hy)) as (I' & Hm).
  cbn [app] in I'. split.
  - destruct I' as [I1 I2 I3 I4 I5 I6 I7 I8]. constructor; auto.
    intros x y Hx Hnt Hy _. eapply I6; eauto.
    destruct (term_eqb_spec x cur) as [->|Hne]; [right; exact Hy|left; congruence].
  - assert (measure st0 < measure st); [|lia].
    unfold measure. cbn [st0 seen todo]. rewrite Ht, app_length. cbn [length]. lia.
Qed.

Lemma loop_correct b : forall fuel st,
  Inv None [] st -> measure st < fuel ->
  exists r, loop fuel (canonical b) adj st = Some r /\ NoDup r /\ forall y, In y r <-> reach y.
Proof.
  induction fuel as [|f IH]; intros st I Hm; [lia|].
  cbn [loop]. change (p_pop_last (canonical b)) with true.
  destruct (pop true (todo st)) as [[cur rest]|] eqn:E.
  - apply pop_last_some in E. rewrite canonical_for_each.
    destruct (turn_inv st cur rest I E) as (I' & Hm'). apply IH; [exact I'|lia].
  - apply pop_last_none in E. exists (found st). split; [reflexivity|]. split; [apply (i_nodup_found _ _ _ I)|].
    intros y. rewrite <- (i_same _ _ _ I). split; [apply (i_reach _ _ _ I)|].
    intros Hr. unfold reach in Hr. apply clos_rt_rtn1 in Hr.
    induction Hr as [|y z Hyz _ IHy]; [apply (i_start _ _ _ I)|].
    eapply (i_closed _ _ _ I); [exact IHy|rewrite E; intros []|exact Hyz|left; discriminate].
Qed.

Lemma init_inv b : Inv None [] (init (canonical b) start) /\ measure (init (canonical b) start) < 2 * length U + 1.
Proof.
  split.
  - constructor; cbn; try tauto.
    + constructor; [intros []|constructor].
    + constructor; [intros []|constructor].
    + intros x Hx. exact Hx.
    + intros x [<-|[]]. apply rt_refl.
    + intros x [<-|[]]. exact start_in_U.
  - unfold measure. cbn. destruct U as [|u U']; [destruct start_in_U|]. cbn [length]. lia.
Qed.

Theorem run_correct b fuel : 2 * length U + 1 <= fuel ->
  exists r, run fuel (canonical b) adj start = Some r /\ NoDup r /\ forall y, In y r <-> reach y.
Proof.
  intros Hf. unfold run. destruct (init_inv b) as (I & Hm). apply loop_correct; [exact I|lia].
Qed.

End Closure.

(* ---------------- on graphs ---------------- *)
Lemma clos_rt_flip (R R':term -> term -> Prop) : (forall a b, R' a b <-> R b a) ->
  forall a b, clos_refl_trans term R' a b <-> clos_refl_trans term R b a.
Proof.
  intros H a b. split; intros C.
  - induction C as [x y Hxy|x|x y z _ IH1 _ IH2]; [apply rt_step; apply H; exact Hxy|apply rt_refl|apply rt_trans with y; assumption].
  - induction C as [x y Hxy|x|x y z _ IH1 _ IH2]; [apply rt_step; apply H; exact Hxy|apply rt_refl|apply rt_trans with y; assumption].
Qed.

Lemma clos_rt_equiv (R R':term -> term -> Prop) : (forall a b, R a b <-> R' a b) ->
  forall a b, clos_refl_trans term R a b <-> clos_refl_trans term R' a b.
Proof.
  intros H a b. split; intros C.
  - induction C as [x y Hxy|x|x y z _ IH1 _ IH2]; [apply rt_step; apply H; exact Hxy|apply rt_refl|apply rt_trans with y; assumption].
  - induction C as [x y Hxy|x|x y z _ IH1 _ IH2]; [apply rt_step; apply H; exact Hxy|apply rt_refl|apply rt_trans with y; assumption].
Qed.

Definition step_fwd (g:graph) (pred:term) (a b:term) : Prop := In (a, pred, b) g.

Lemma graph_universe (P:prog) g pred start :
  let U := start :: nodes g in
  In start U /\ forall x y, In x U -> In y (adj_of P g pred x) -> In y U.
Proof.
  split; [left; reflexivity|]. intros x y _ Hy. right. unfold adj_of in Hy.
  destruct (p_backward P).
  - apply In_subjects in Hy. eapply In_nodes_subj; eauto.
  - apply In_objects in Hy. eapply In_nodes_obj; eauto.
Qed.

(* transitive_subjects: start and every node from which start is reached through pred triples *)
Theorem subjects_closure g pred start :
  exists r, run_on (canonical true) g pred start = Some r /\ NoDup r
            /\ forall y, In y r <-> clos_refl_trans term (step_fwd g pred) y start.
Proof.
  destruct (graph_universe (canonical true) g pred start) as (H1 & H2).
  destruct (run_correct (adj_of (canonical true) g pred) start (start :: nodes g) H1 H2 true (fuel_of g)) as (r & Hr & Hn & Hs).
  { unfold fuel_of. cbn [length]. lia. }
  exists r. split; [exact Hr|]. split; [exact Hn|]. intros y. rewrite Hs. unfold reach.
  apply clos_rt_flip. intros a b. unfold edge, adj_of, step_fwd. cbn. apply In_subjects.
Qed.

(* transitive_objects: start and every node reached from it through pred triples *)
Theorem objects_closure g pred start :
  exists r, run_on (canonical false) g pred start = Some r /\ NoDup r
            /\ forall y, In y r <-> clos_refl_trans term (step_fwd g pred) start y.
Proof.
  destruct (graph_universe (canonical false) g pred start) as (H1 & H2).
  destruct (run_correct (adj_of (canonical false) g pred) start (start :: nodes g) H1 H2 false (fuel_of g)) as (r & Hr & Hn & Hs).
  { unfold fuel_of. cbn [length]. lia. }
  exists r. split; [exact Hr|]. split; [exact Hn|]. intros y. rewrite Hs. unfold reach.
  apply clos_rt_equiv. intros a b. unfold edge, adj_of, step_fwd. cbn. apply In_objects.
Qed.

(* the answer does not depend on how the triples are listed (insertion order, duplicates) *)
Lemma clos_rt_same_triples g g' pred : (forall t, In t g <-> In t g') ->
  forall a b, clos_refl_trans term (step_fwd g pred) a b <-> clos_refl_trans term (step_fwd g' pred) a b.
Proof.
  intros H. apply clos_rt_equiv. intros a b. unfold step_fwd. apply H.
Qed.

Theorem closure_order_free backward g g' pred start r r' :
  (forall t, In t g <-> In t g') ->
  run_on (canonical backward) g pred start = Some r -> run_on (canonical backward) g' pred start = Some r' ->
  forall y, In y r <-> In y r'.
Proof.
  intros Hg Hr Hr' y. destruct backward.
  - destruct (subjects_closure g pred start) as (x & Hx & _ & Sx). destruct (subjects_closure g' pred start) as (x' & Hx' & _ & Sx').
    rewrite Hr in Hx. rewrite Hr' in Hx'. inversion Hx; inversion Hx'; subst. rewrite Sx, Sx'. apply clos_rt_same_triples, Hg.
  - destruct (objects_closure g pred start) as (x & Hx & _ & Sx). destruct (objects_closure g' pred start) as (x' & Hx' & _ & Sx').
    rewrite Hr in Hx. rewrite Hr' in Hx'. inversion Hx; inversion Hx'; subst. rewrite Sx, Sx'. apply clos_rt_same_triples, Hg.
Qed.

(* both closures terminate with a result on every graph *)
Lemma closures_total g pred start :
  (exists r, run_on (canonical true) g pred start = Some r) /\ (exists r, run_on (canonical false) g pred start = Some r).
Proof.
  split.
  - destruct (subjects_closure g pred start) as (r & Hr & _). exists r. exact Hr.
  - destruct (objects_closure g pred start) as (r & Hr & _). exists r. exact Hr.
Qed.
