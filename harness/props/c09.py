"""C09 - validation is deterministic up to blank-node labels and result order."""
import os
import pickle
import shutil
import subprocess
import sys
import tempfile
import warnings
from concurrent.futures import ThreadPoolExecutor

import rdflib
from rdflib import BNode, Literal, URIRef

from .. import enc, framework as F, shapes as S, evalcheck as EC, leaves as LV
from ..enc import EX, SH
from rdflib.namespace import RDF, RDFS, XSD
from . import c02, c05, c15

c02_classes = S.CLASSES + [EX.C3, EX.C4]

PROP = "C09"
WORKER = os.path.join(F.VERIF, "harness", "c09_worker.py")
SEEDS = ["0", "1", "2", "7", "42", "12345", "random"]


def run_worker(case_path, out_path, hashseed):
    env = dict(os.environ, PYTHONPATH=os.environ.get("VERIF_REPO", "/repo"), PYTHONHASHSEED=hashseed)
    r = subprocess.run([sys.executable, WORKER, case_path, out_path], env=env, stdout=subprocess.DEVNULL, stderr=subprocess.PIPE, timeout=600)
    if r.returncode != 0:
        return ("worker-failed", r.stderr.decode()[-400:])
    return pickle.load(open(out_path, "rb"))


def well_kept(x):
    """rdflib keeps "maybe"^^xsd:boolean as a Literal that prints, compares and hashes as "false"^^xsd:boolean and differs from it only by
    a hidden ill-typed flag (which a pickle drops): a graph that is given both keeps whichever came first.  That is rdflib's conflation of
    two RDF terms, not an order dependence of the validator - such literals are replaced by an ill-typed literal rdflib keeps apart"""
    if isinstance(x, Literal) and x.datatype == XSD.boolean and x.ill_typed:
        return Literal("abc", datatype=XSD.integer)
    return x


def variant(rng, data, shapes, k):
    """another presentation of the same pair of graphs: insertion order, blank node labels, prefix bindings"""
    relabel = {}

    def m(t):
        if isinstance(t, BNode):
            if t not in relabel:
                relabel[t] = BNode("v%dx%06x" % (k, rng.getrandbits(24)))
            return relabel[t]
        return t
    d2 = [tuple(m(x) for x in t) for t in data]
    s2 = [tuple(m(x) for x in t) for t in shapes]
    rng.shuffle(d2)
    rng.shuffle(s2)
    pool = [[], [("ex", "http://ex.org/")], [("e", "http://ex.org/"), ("s", str(SH))], [("ex", "http://other.org/"), ("x", "http://ex.org/")],
            [("o", "http://other.org/"), ("ex", "http://ex.org/")], [("o", "http://ex.org/"), ("ex", "http://other.org/")], [("o", "http://other.org/")], [("p", "http://other.org/"), ("e", "http://ex.org/")]]
    # the two graphs have their own namespace managers: their bindings vary independently
    prefixes = (rng.choice(pool), rng.choice(pool))
    return d2, s2, prefixes


def main(tier, seed, replay=None):
    warnings.simplefilter("ignore")
    rep = F.Report(PROP, tier, seed)
    ob = F.coq_build(["Props/C09.v"], translators=["t4", "t5"], extra=list(EC.EXTRA_VO))
    rng = F.rng_for(seed, PROP)
    big = tier == "thorough"
    # ---- Tie B for the order theorem: the evaluator model against the real code with the shapes handed over in shuffled order
    mcases = []
    set_tmpls = [lambda r_, n_, l_: S.tmpl_qualified(r_, n_, l_, easy=True, n_pool=3), S.tmpl_qualified, S.tmpl_shared]
    for k_ in range(400 if big else 60):
        # every third case: components that iterate over a set of shapes (the model takes 'any' / 'all' over the set)
        c = EC.base_case(rng, p_focused=1.0, tmpls=set_tmpls) if k_ % 3 == 0 else EC.base_case(rng)
        rng.shuffle(c["shapes"])
        c["opts"] = {}
        mcases.append(c)
    if ob.ok:
        obs, failed, raw, errors, bodies = EC.model_vs_impl("c09", mcases)
    else:
        failed, raw, errors = [], [], ["coq build broken"]
    # ---- the property: separate processes, different hash seeds, permuted / relabelled / re-prefixed inputs
    n = 300 if big else 50
    nvar = 6 if big else 4
    d = tempfile.mkdtemp(prefix="c09_", dir="/var/tmp")
    jobs, cases = [], []
    try:
        for j in range(n):
            r = rng.random()
            if r < 0.12:
                c = EC.base_case(rng)
                if rng.random() < 0.7:
                    # a property shape with targets of its own whose focus nodes SHARE a value node that fails sh:node: each focus node's
                    # result carries the nested details, whichever of them the set of focus nodes yields first
                    iris_ = [n_ for n_ in c["nodes"] if isinstance(n_, URIRef)]
                    if len(iris_) >= 3:
                        fa_, fb_, v_ = rng.sample(iris_, 3)
                        inner_ = S.new_shape(EX["SVN%d" % j], None)
                        inner_["comps"].append(("property", [BNode("svq%d" % j)]))
                        innerp_ = S.new_shape(BNode("svq%d" % j), ("pred", str(EX.neverthere)))
                        innerp_["comps"].append(("mincount", 1))
                        ps_ = S.new_shape(EX["SVP%d" % j], ("pred", str(EX.p)))
                        ps_["targets"]["nodes"] = [fa_, fb_]
                        ps_["comps"].append(("node", [inner_["id"]]))
                        c["shapes"] += [ps_, inner_, innerp_]
                        c["data"].add((fa_, EX.p, v_))
                        c["data"].add((fb_, EX.p, v_))
                        c["sg"] = S.shapes_to_rdf(c["shapes"])
                opts, api, fam = rng.choice([{}, {}, {"abort_on_first": False, "allow_warnings": True}]), "validate", "nested shapes"
            elif r < 0.3:
                # components that iterate over a SET of shapes (qualified siblings, shared references): a last-wins or
                # first-wins slip there shows only when the set is enumerated in another order
                c = EC.base_case(rng, p_focused=1.0, tmpls=[lambda r_, n_, l_: S.tmpl_qualified(r_, n_, l_, easy=True, n_pool=3), lambda r_, n_, l_: S.tmpl_qualified(r_, n_, l_, easy=True, n_pool=3), S.tmpl_qualified, S.tmpl_shared])
                opts, api, fam = {}, "validate", "shape sets (qualified siblings, shared references)"
            elif r < 0.5:
                c = LV.gen_case(rng)
                if rng.random() < 0.5:
                    # value sets whose members are equal 'up to something' the component normalises (language tags that differ
                    # in case, numerals of different datatypes): which member is met first is a matter of set order
                    fn_ = rng.choice([n_ for n_ in c["nodes"] if isinstance(n_, URIRef)])
                    us = S.new_shape(EX.UL, ("pred", str(EX.p)))
                    us["targets"]["nodes"] = [fn_]
                    us["comps"].append(("uniquelang", True))
                    c["shapes"].append(us)
                    for lit in rng.sample([Literal("colour", lang="en-GB"), Literal("color", lang="en-gb"), Literal("Farbe", lang="de"), Literal("couleur", lang="FR"),
                                           Literal("teinte", lang="fr"), Literal("c", lang="EN-gb")], rng.randint(2, 5)):
                        c["data"].add((fn_, EX.p, lit))
                if rng.random() < 0.7:
                    # the same sh:pattern text under different sh:flags in two shapes: each shape keeps its own reading, whichever is built first
                    fn_ = rng.choice([n_ for n_ in c["nodes"] if isinstance(n_, URIRef)])
                    for nm_, fl_ in (("PTa", None), ("PTb", "i")):
                        ps_ = S.new_shape(EX[nm_], ("pred", str(EX.q)))
                        ps_["targets"]["nodes"] = [fn_]
                        ps_["comps"].append(("pattern", ["^ab+c$"], fl_))
                        c["shapes"].append(ps_)
                    for lit in rng.sample([Literal("abbc"), Literal("ABBC"), Literal("AbC"), Literal("xyz")], rng.randint(2, 4)):
                        c["data"].add((fn_, EX.q, lit))
                if rng.random() < 0.85:
                    # blank nodes (and IRIs) as the values compared by sh:lessThan / sh:lessThanOrEquals / sh:equals / sh:disjoint: whatever
                    # the component says about two blank nodes, it cannot be something read off their labels
                    fn_ = rng.choice([n_ for n_ in c["nodes"] if isinstance(n_, URIRef)])
                    kind_ = rng.choice(["lessthan", "lessthan", "lessthaneq", "lessthaneq", "equals", "disjoint"])
                    pp_ = S.new_shape(EX.BPAIR, ("pred", str(EX.r)))
                    pp_["targets"]["nodes"] = [fn_]
                    pp_["comps"].append((kind_, [EX.s]))
                    c["shapes"].append(pp_)
                    pool_ = [BNode("pv%d_%d" % (j, i_)) for i_ in range(4)] + [EX.n0, EX.n1]
                    for pr_ in (EX.r, EX.s):
                        for o_ in rng.sample(pool_[:4], 2) + rng.sample(pool_, rng.randint(0, 2)):
                            c["data"].add((fn_, pr_, o_))
                if rng.random() < 0.8:
                    # value nodes with SEVERAL rdf:type values of which one meets sh:class only through rdfs:subClassOf: which type the store
                    # lists first (or last) is an insertion-order effect, the answer of sh:class is not
                    fn_ = rng.choice([n_ for n_ in c["nodes"] if isinstance(n_, URIRef)])
                    cs_ = S.new_shape(EX.MTC, ("pred", str(EX.t)))
                    cs_["targets"]["nodes"] = [fn_]
                    cs_["comps"].append(("class", [EX.MTop]))
                    c["shapes"].append(cs_)
                    c["data"].add((EX.MSub, RDFS.subClassOf, EX.MTop))
                    c["data"].add((EX.MSubSub, RDFS.subClassOf, EX.MSub))
                    c["data"].add((EX.MOther2, RDFS.subClassOf, EX.MOther1))
                    for i_ in range(rng.randint(1, 3)):
                        v_ = rng.choice([EX["mtv%d" % i_], BNode("mtv%d_%d" % (j, i_))])
                        c["data"].add((fn_, EX.t, v_))
                        for ty_ in rng.sample([EX.MSub, EX.MSubSub, EX.MOther1, EX.MOther2, EX.MOther3], rng.randint(2, 3)):
                            c["data"].add((v_, RDF.type, ty_))
                c["sg"] = S.shapes_to_rdf(c["shapes"])
                opts, api, fam = {}, "validate", "core components"
            elif r < 0.62:
                c = c05.gen_case(rng)
                if rng.random() < 0.7:
                    # a $PATH constraint over a predicate of a namespace that no sh:declare mentions: it has to be written in full
                    # in the query, whatever prefixes the two graphs happen to bind for it
                    OTHER = rdflib.Namespace("http://other.org/")
                    c["sg"].parse(data="@prefix sh: <http://www.w3.org/ns/shacl#> . @prefix ex: <http://ex.org/> .\n"
                                       "ex:OP a sh:PropertyShape ; sh:path <http://other.org/p> ; sh:targetSubjectsOf <http://other.org/p> ;\n"
                                       "  sh:sparql [ sh:prefixes ex:prefixes ; sh:select \"SELECT $this ?value WHERE { $this $PATH ?value . FILTER (isLiteral(?value)) }\" ] .\n"
                                       "ex:prefixes a <http://www.w3.org/2002/07/owl#Ontology> ; sh:declare [ sh:prefix \"ex\" ; sh:namespace \"http://ex.org/\"^^<http://www.w3.org/2001/XMLSchema#anyURI> ] .", format="turtle")
                    for _ in range(rng.randint(1, 3)):
                        c["data"].add((rng.choice([EX.n0, EX.n1]), OTHER.p, rng.choice([Literal(1), EX.n0])))
                opts, api, fam = {}, "validate", "sparql constraints"
            elif r < 0.7:
                # an ill-formed list (a node with two rdf:rest or two rdf:first values) has no well-defined members:
                # whatever the outcome is, it must not depend on which of the two the store lists first
                c = EC.base_case(rng)
                kind_ = rng.choice(["rest", "rest", "first"])
                extra_ttl = ("@prefix sh: <http://www.w3.org/ns/shacl#> . @prefix ex: <http://ex.org/> . @prefix rdf: <http://www.w3.org/1999/02/22-rdf-syntax-ns#> .\n"
                             "ex:LL a sh:NodeShape ; sh:targetNode ex:n0, ex:n1 ; sh:in _:l .\n")
                if kind_ == "rest":
                    extra_ttl += "_:l rdf:first ex:n0 ; rdf:rest _:m , rdf:nil . _:m rdf:first ex:n1 ; rdf:rest rdf:nil .\n"
                else:
                    extra_ttl += "_:l rdf:first ex:n0 , ex:n1 ; rdf:rest rdf:nil .\n"
                c["sg"].parse(data=extra_ttl, format="turtle")
                opts, api, fam = {}, "validate", "ill-formed (branching) lists"
            elif r < 0.8:
                # class targets over subclass hierarchies with diamonds and cycles: the order in which the store lists
                # the subclasses of a class is an insertion-order effect
                c = c02.gen_case(rng)
                for _ in range(rng.randint(2, 5)):
                    c["data"].add((rng.choice(c02_classes), RDFS.subClassOf, rng.choice(c02_classes)))
                opts, api, fam = {}, "validate", "targets over class lattices"
            else:
                c = c15.gen_case(rng)
                opts = {"iterate_rules": c["opts"].get("iterate_rules", False)}
                api, fam = rng.choice(["rules", "validate-advanced"]), "rules (distinct sh:order)"
                if api == "validate-advanced":
                    opts, api = dict(opts, advanced=True), "validate"
            data, shapes = [tuple(well_kept(x) for x in t) for t in c["data"]], [tuple(well_kept(x) for x in t) for t in c["sg"]]
            cases.append({"family": fam, "shapes_ttl": c["sg"].serialize(format="nt"), "data_nt": c["data"].serialize(format="nt"), "options": opts, "api": api})
            for k in range(nvar + 1):
                if k == 0:
                    d2, s2, prefixes, hs = data, shapes, ([], []), "0"
                else:
                    d2, s2, prefixes = variant(rng, data, shapes, k)
                    hs = rng.choice(SEEDS)
                cp, op = os.path.join(d, "c%d_%d.pkl" % (j, k)), os.path.join(d, "o%d_%d.pkl" % (j, k))
                pickle.dump({"data": d2, "shapes": s2, "prefixes": prefixes, "options": opts, "api": api}, open(cp, "wb"))
                jobs.append((j, k, cp, op, hs, prefixes))
        with ThreadPoolExecutor(max_workers=14) as ex:
            outs = list(ex.map(lambda jb: run_worker(jb[2], jb[3], jb[4]), jobs))
    finally:
        shutil.rmtree(d, ignore_errors=True)
    base = {}
    diffs, stats = [], {"runs": len(jobs), "nonconforming": 0, "families": {}}
    for (j, k, cp, op, hs, prefixes), o in zip(jobs, outs):
        if k == 0:
            base[j] = o
            stats["families"][cases[j]["family"]] = stats["families"].get(cases[j]["family"], 0) + 1
            stats["nonconforming"] += 1 if o[0] == "ok" and not o[1] else 0
            if o[0] == "worker-failed":
                diffs.append((j, "the worker process failed: %s" % o[1], o, o, hs, prefixes))
            continue
        if o != base[j]:
            diffs.append((j, "another presentation of the same graphs (insertion order, blank node labels, prefixes %r, PYTHONHASHSEED=%s) gives another outcome" % (prefixes, hs), base[j], o, hs, prefixes))
    for j, what, a, b, hs, prefixes in diffs[:8]:
        dd = dict(cases[j])
        dd["what"] = what
        sa, sb = (set(a[2]), set(b[2])) if a[0] == "ok" and b[0] == "ok" else (set(), set())
        dd["baseline"] = a[:2] if a[0] == "ok" else a
        dd["variant"] = b[:2] if b[0] == "ok" else b
        dd["only_in_baseline"] = sorted(sa - sb)[:6]
        dd["only_in_variant"] = sorted(sb - sa)[:6]
        rep.violation(dd)
    for i in failed[:5]:
        dd = S.describe_case(mcases[i]["sg"], mcases[i]["data"], {}, obs[i])
        dd["what"] = "results differ from the evaluator model when the shapes are taken in another order"
        rep.violation(dd)
    if (not ob.ok or errors) and not rep.violations:
        rep.violation({"obligation": ob.broken or errors, "detail": ob.log[-1500:]}, no_input=True)
    cov = F.proof_coverage(ob, [
        "the theorems concern the evaluator model (order of shapes, environment as look-up table, picks from singleton sets); independence from triple insertion order, labels, prefixes and the hash seed in the real code is NOT a theorem: it is the multi-process differential of this run",
    ])
    cov.update({
        "evaluations": len(jobs) + len(mcases),
        "distinct_nontrivial": len(cases),
        "rule": "(1) Tie B: validate() against the evaluator model with the shapes given in shuffled order; (2) the property: each case (nested shapes, all core components, SPARQL constraints and components, class targets over subclass lattices with diamonds and cycles, rule sets with pairwise distinct sh:order through shacl_rules() and validate(advanced)) is run in a baseline process and in %d further processes with PYTHONHASHSEED in %r, triples inserted in shuffled order, blank nodes relabelled consistently in data and shapes, other prefix bindings: verdict, number of results in the text, and the multiset of results (focus, value, path, component, source shape, severity, nested details; blank nodes named by their descriptions) must be equal" % (nvar, SEEDS),
        "distribution": dict(stats, differences=len(diffs), model_disagreements=len(failed)),
        "samples": [{"family": cases[0]["family"], "options": cases[0]["options"]}],
        "exhaustive": False,
    })
    rep.coverage = cov
    rep.assumptions = ["default message wording is not compared (its order may differ, as the property allows)", "ties in sh:order are not generated"]
    return rep.finish()
