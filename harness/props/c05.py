"""C05 - SPARQL-based constraints report exactly their query's solutions, one result each."""
import rdflib
from rdflib import BNode, Literal, URIRef

from .. import enc, framework as F, shapes as S, evalcheck as EC, sparqlgen as SG, messagecheck as MC, localnamecheck as LN
from ..enc import EX, SH

PROP = "C05"


def gen_case(rng):
    data, nodes, lits = S.gen_typed_data(rng, n_iri=rng.randint(2, 4), n_bn=0, n_lit=rng.randint(1, 2), n_triples=rng.randint(4, 12))
    iri_nodes = [n for n in nodes if isinstance(n, URIRef)]
    if rng.random() < 0.35:
        # values whose text looks like regex group references or like placeholders: they are inserted verbatim
        for _ in range(rng.randint(1, 3)):
            awkward = Literal(rng.choice(["C:\\dir\\1", "\\g<0>", "a\\", "{$this}", "{?value}", "{?other} {$value}", "$0 {x}"]))
            data.add((rng.choice(iri_nodes), URIRef(rng.choice(S.PREDS)), awkward))
            if awkward not in lits:
                lits = lits + [awkward]
    shapes = []
    for i in range(rng.randint(1, 3)):
        is_prop = rng.random() < 0.5
        s = S.new_shape(EX["Q%d" % i], ("pred", rng.choice(S.PREDS)) if is_prop else None)
        s["sev"] = rng.choice([None, None, SH.Warning, SH.Info])
        if rng.random() < 0.3:
            s["msgs"] = [Literal("shape message %d" % i)]
        s["targets"]["nodes"] = rng.sample(iri_nodes, rng.randint(1, min(3, len(iri_nodes))))
        if rng.random() < 0.3:
            s["targets"]["subjects_of"] = [URIRef(rng.choice(S.PREDS))]
        r = rng.random()
        if r < 0.6:
            s["comps"].append(("sparql", [SG.gen_sparql_constraint(rng, is_prop) for _ in range(rng.randint(1, 2))]))
            for sc in s["comps"][-1][1]:
                # a second ontology binds the same prefix to another namespace: each query uses the declarations it points to
                sc["alt_ns"] = rng.random() < 0.2
        if r > 0.4:
            cc = SG.gen_custom(rng, i, iri_nodes + lits + [Literal("x")])
            cc["on_prop"] = is_prop
            cc["alt_ns"] = rng.random() < 0.2
            if cc["kind"] == "select" and cc.get("needs_prop") and not is_prop:
                cc["query"], cc["needs_prop"] = SG.CSELECTS[1]
            if not is_prop and rng.random() < 0.12:
                # a validator SHACL-SPARQL forbids, on a node shape (so that it is certainly run): MINUS / VALUES / re-binding
                # a pre-bound variable - $this, $value or the component's own parameter
                cc["query"] = rng.choice(SG.FORBIDDEN_ASKS if cc["kind"] == "ask" else SG.FORBIDDEN_CSELECTS).replace("$arg", "$" + cc["var"]).replace("?arg", "?" + cc["var"])
                cc["forbidden"] = True
            s["comps"].append(("custom", cc))
        if rng.random() < 0.3:
            s["comps"].insert(0, S.gen_leaf(rng, is_prop, nodes, lits))
        shapes.append(s)
    return {"shapes": shapes, "sg": S.shapes_to_rdf(shapes), "data": data, "opts": {}}


def metamorphic(cases, obs):
    bad = []
    for i, (c, o) in enumerate(zip(cases, obs)):
        forbidden = any(any(f in sc["select"] for f in ("MINUS", "VALUES", "SERVICE", "AS ?this", "{ SELECT")) and not sc["deact"]
                        for s in c["shapes"] for cmp in s["comps"] if cmp[0] == "sparql" for sc in cmp[1]) or \
            any(cmp[1].get("forbidden") for s in c["shapes"] for cmp in s["comps"] if cmp[0] == "custom")
        if forbidden and not (o[0] == "err" and o[1] == "ValFailure"):
            bad.append((i, "a query that SHACL-SPARQL forbids did not produce a validation failure: %r" % (o[:2],)))
    return bad


def compound_path_family(rng, n):
    """$PATH on property shapes with compound paths (inverse of an alternative / of a sequence, closures, nested): the results of a
    sh:sparql constraint and of a SELECT validator that use $PATH are the solutions of the query with the path written out (fully
    bracketed, by an independent printer) - one result per distinct solution"""
    import pyshacl
    stats, fails = {"compound_path_cases": 0, "compound_path_results": 0}, []
    preds = [URIRef(x) for x in S.PREDS[:3]]
    for j in range(n):
        data, nodes, lits = S.gen_typed_data(rng, n_iri=rng.randint(3, 5), n_bn=0, n_lit=1, n_triples=rng.randint(6, 14))
        iris = [x for x in nodes if isinstance(x, URIRef)]
        pa_, pb_ = ("pred", str(rng.choice(preds))), ("pred", str(rng.choice(preds)))
        path = rng.choice([("inv", ("alt", [pa_, pb_])), ("inv", ("seq", [pa_, pb_])), ("alt", [pa_, ("inv", pb_)]), ("seq", [("inv", pa_), pb_]), ("inv", ("star", pa_)),
                           ("inv", ("alt", [pa_, ("seq", [pb_, pa_])])), ("opt", ("inv", ("alt", [pa_, pb_])))])
        sg = rdflib.Graph()
        SG.add_prefix_decl(sg)
        sh_ = EX["CPS%d" % j]
        sg.add((sh_, rdflib.RDF.type, SH.PropertyShape))
        sg.add((sh_, SH.path, enc.path_to_rdf(sg, path)))
        foci = rng.sample(iris, rng.randint(1, min(3, len(iris))))
        for f_ in foci:
            sg.add((sh_, SH.targetNode, f_))
        kind = rng.choice(["sparql", "validator"])
        q = "SELECT $this ?value WHERE { $this $PATH ?value . FILTER (isIRI(?value)) }"
        if kind == "sparql":
            c_ = BNode("cpc%d" % j)
            sg.add((sh_, SH.sparql, c_))
            sg.add((c_, SH.select, Literal(q)))
            sg.add((c_, SH.prefixes, EX.prefixes))
        else:
            comp, par, val = EX["CPComp%d" % j], BNode("cpp%d" % j), BNode("cpv%d" % j)
            sg.add((comp, rdflib.RDF.type, SH.ConstraintComponent))
            sg.add((comp, SH.parameter, par))
            sg.add((par, SH.path, EX["cparg%d" % j]))
            sg.add((comp, SH.propertyValidator, val))
            sg.add((val, rdflib.RDF.type, SH.SPARQLSelectValidator))
            sg.add((val, SH.select, Literal(q)))
            sg.add((val, SH.prefixes, EX.prefixes))
            sg.add((sh_, EX["cparg%d" % j], Literal(1)))
        want = set()
        for f_ in foci:
            for row in data.query(SG.PFX + q.replace("$PATH", SG.path_text(path)), initBindings={"this": f_}):
                want.add((f_, row[1]))
        o = S.run_validate(data, sg)
        stats["compound_path_cases"] += 1
        if o[0] != "ok":
            fails.append({"what": "a %s with $PATH on a compound path failed: %r" % (kind, o[:3]), "shapes_ttl": sg.serialize(format="turtle"), "path": SG.path_text(path)})
            continue
        got = [(r[0], r[1]) for r in o[2]]
        stats["compound_path_results"] += len(got)
        if set(got) != want or len(got) != len(want):
            fails.append({"what": "$PATH on a compound path: the %s reports other (focus, value) pairs than the query with the path written out" % kind, "path": SG.path_text(path),
                          "shapes_ttl": sg.serialize(format="turtle"), "data_nt": sorted(" ".join(x.n3() for x in t) for t in data),
                          "reported": sorted("%s %s" % (a.n3(), b.n3() if b is not None else None) for a, b in got), "expected": sorted("%s %s" % (a.n3(), b.n3()) for a, b in want)})
    return stats, fails, []


def both_extra(seed, tier):
    a = MC.run(F.rng_for(seed, PROP + "/messages"), 600 if tier == "quick" else 8000)
    b = compound_path_family(F.rng_for(seed, PROP + "/paths"), 30 if tier == "quick" else 400)
    c = LN.run(F.rng_for(seed, PROP + "/localnames"), 400 if tier == "quick" else 5000)
    st = dict(a[0])
    st.update(b[0])
    st.update(c[0])
    return st, a[1] + b[1] + c[1], a[2] + b[2] + c[2]


def main(tier, seed, replay=None):
    rng = F.rng_for(seed, PROP)
    cases = [gen_case(rng) for _ in range(300 if tier == "quick" else 5000)]
    # cases with a forbidden query are decided by the metamorphic relation only (the text screens are not modelled)
    def is_forbidden(c):
        return any(any(f in sc["select"] for f in ("MINUS", "VALUES", "SERVICE", "AS ?this", "{ SELECT")) and not sc["deact"]
                   for s in c["shapes"] for cmp in s["comps"] if cmp[0] == "sparql" for sc in cmp[1]) or \
            any(cmp[1].get("forbidden") for s in c["shapes"] for cmp in s["comps"] if cmp[0] == "custom")
    modelled = [c for c in cases if not is_forbidden(c)]
    screened = [c for c in cases if is_forbidden(c)]
    obs_screened = [S.run_validate(c["data"], c["sg"]) for c in screened]
    bad = metamorphic(screened, obs_screened)

    def meta(cs, obs):
        out = []
        for i, desc in bad:
            out.append((0, "forbidden-syntax case: " + desc + " :: " + screened[i]["sg"].serialize(format="turtle")[:600]))
        return out

    return EC.standard_main(
        PROP, ["Props/C05.v"], tier, seed, modelled,
        rule="case = 1-3 node/property shapes with sh:sparql constraints (8 SELECT templates with $this/$PATH/?value/?path/?failure/extra variables, message templates with {$var}/{?var}, sh:prefixes, deactivated) and SPARQL-based constraint components (ASK and SELECT validators with a parameter), optionally next to a core component; the solutions of every query for every candidate focus/value node are obtained by running the declared query directly through rdflib with the SHACL-SPARQL pre-bindings and handed to the model as data; %d further cases carry a query SHACL-SPARQL forbids (MINUS, VALUES, SERVICE, AS ?this, nested SELECT, in sh:sparql constraints and in ASK/SELECT validators of components, including re-binding the component's own parameter) and must end in a validation failure; message templates: both substitution sites on random templates (brace and sigil soup, unterminated and empty placeholders) and bindings (values with braces, backslashes, placeholder-like text) = the model's one-pass verbatim substitution; the variable name of a parameter (SHACLParameter.localname) on random ASCII IRIs = Sparql/LocalName.v" % len(screened),
        what="results differ from 'one result per distinct solution, each with the messages of its own bindings' (Props.C05)",
        metamorphic=meta,
        extra_checks=lambda: both_extra(seed, tier),
        extra_assumptions=["the parameter-name model (Sparql/LocalName.v) is hand-written; it is tied to SHACLParameter.localname by running the property's getter on random ASCII IRIs (Coq strings are byte strings)",
                           "the message-template model (Sparql/Message.v) is hand-written; it is tied to SPARQLQueryHelper.bind_messages and ConstraintComponent._format_sparql_based_result_message by running both on random templates and bindings (Python's re module is the implementation's engine)",
                           "SPARQL evaluation is rdflib's (oracle); the regex screens for forbidden syntax are not modelled (differential only)"],
    )
