"""C13 - focus_nodes / use_shapes select a sub-report of the full validation."""
import rdflib
from rdflib import URIRef

from .. import enc, framework as F, shapes as S, evalcheck as EC
from ..enc import EX, SH

PROP = "C13"
TARGET_PREDS = [SH.targetNode, SH.targetClass, SH.targetSubjectsOf, SH.targetObjectsOf]


def curie(iri):
    s = str(iri)
    return "ex:" + s[len(str(EX)):] if s.startswith(str(EX)) else s


def gen_cases(rng, tier):
    n = 110 if tier == "quick" else 1800
    cases = []
    for gi in range(n):
        if gi % 4 == 3:
            # a qualified property shape with a target of its own, selected WITHOUT its parent: its siblings still count
            b = EC.base_case(rng, p_focused=1.0, tmpls=[lambda r_, n_, l_: S.tmpl_qualified(r_, n_, l_, easy=True, named_props=True)])
        elif gi % 4 == 1:
            # shapes that refer to each other in circles (self-loops, mutual recursion): loading the selected shapes must end
            b = EC.base_case(rng, p_deact=0.05, sev=False, p_focused=0.0, recursive=True)
        else:
            b = EC.base_case(rng, p_deact=0.05, sev=False)
        b["data"].bind("ex", EX)
        ont = None
        if rng.random() < 0.3:
            # an ontology that binds the data graph's namespace under another prefix (and says nothing the shapes look at):
            # CURIEs in focus_nodes are written with the data graph's prefixes and must keep their meaning
            ont = rdflib.Graph()
            ont.bind("other", EX)
            ont.add((EX.Unrelated, rdflib.RDF.type, rdflib.OWL.Class))
        iris = [x for x in b["nodes"] if isinstance(x, URIRef)]
        named = [s["id"] for s in b["shapes"] if isinstance(s["id"], URIRef)]
        Fs = rng.sample(iris, rng.randint(1, min(3, len(iris))))
        Us = rng.sample(named, rng.randint(1, min(2, len(named))))
        if gi % 4 == 3:
            qps = [x for x in named if "QPS" in str(x)]
            if qps:
                Us = rng.sample(qps, 1)
        for sel in ("F", "U", "FU"):
            o, meta = {}, {"F": [], "U": []}
            if "F" in sel:
                meta["F"] = Fs
                o["focus_nodes"] = [curie(x) if rng.random() < (0.7 if ont is not None else 0.3) else str(x) for x in Fs]
            if "U" in sel:
                meta["U"] = Us
                o["use_shapes"] = [str(x) for x in Us]
            if ont is not None:
                o["ont_graph"] = ont
            cases.append(dict(b, opts=o, group=gi, sel=meta))
    return cases


def rewritten(case):
    """the shapes graph the property says the selection is equivalent to"""
    from pyshacl.shapes_graph import ShapesGraph

    sg = rdflib.Graph()
    for t in case["sg"]:
        sg.add(t)
    Fs, Us = case["sel"]["F"], case["sel"]["U"]
    own = {}
    for sh in ShapesGraph(case["sg"]).shapes:
        own[sh.node] = set(sh.focus_nodes(case["data"]))
    for s in list(own):
        for p in TARGET_PREDS:
            sg.remove((s, p, None))
        if Us and s not in Us:
            continue
        if Fs and Us:
            new = set(Fs)
        elif Fs:
            new = own[s] & set(Fs)
        else:
            new = own[s]
        for x in new:
            sg.add((s, SH.targetNode, x))
    return sg


def metamorphic(cases, obs):
    bad = []
    for i, c in enumerate(cases):
        ref = S.run_validate(c["data"], rewritten(c), **({"ont_graph": c["opts"]["ont_graph"]} if "ont_graph" in c["opts"] else {}))
        o = obs[i]
        if o[0] != ref[0] or (o[0] == "err" and o[1] != ref[1]):
            bad.append((i, "selection gives %r but the target-rewritten shapes graph gives %r" % (o[:2], ref[:2])))
        elif o[0] == "ok" and (o[1] != ref[1] or EC.keys(o) != EC.keys(ref)):
            bad.append((i, "selection is not the sub-report of the target-rewritten shapes graph"))
    return bad


RULES_TTL = """@prefix sh: <http://www.w3.org/ns/shacl#> . @prefix ex: <http://ex.org/> .
ex:R1 a sh:NodeShape ; sh:targetClass ex:C0 ; sh:rule [ a sh:TripleRule ; sh:subject sh:this ; sh:predicate ex:marked ; sh:object ex:Yes ] .
ex:R2 a sh:NodeShape ; sh:targetSubjectsOf ex:p ; sh:rule [ a sh:TripleRule ; sh:subject sh:this ; sh:predicate ex:linked ; sh:object [ sh:path ex:p ] ] .
ex:R3 a sh:NodeShape ; sh:targetSubjectsOf ex:q ; sh:rule [ a sh:TripleRule ; sh:subject [ sh:path ex:q ] ; sh:predicate ex:marked ; sh:object ex:Yes ] .
ex:R4 a sh:NodeShape ; sh:targetSubjectsOf ex:p ; sh:rule [ a sh:TripleRule ; sh:subject sh:this ; sh:predicate ex:kept ; sh:object [ sh:filterShape [ sh:class ex:C0 ] ; sh:nodes [ sh:path ex:p ] ] ] .
ex:V3 a sh:NodeShape ; sh:targetNode %(nodes)s ; sh:property [ sh:path ex:kept ; sh:maxCount 0 ] .
ex:V1 a sh:NodeShape ; sh:targetNode %(nodes)s ; sh:property [ sh:path ex:marked ; sh:maxCount 0 ] .
ex:V2 a sh:NodeShape ; sh:targetNode %(nodes)s ; sh:property [ sh:path ex:linked ; sh:minCount 1 ] .
"""


def rules_family(rng, n):
    """advanced mode with focus_nodes only: every shape's rules fire on the nodes of F the shape targets, and on no others.
    The shapes that report have static targets (sh:targetNode), so the target-rewritten shapes graph is the reference."""
    import pyshacl
    stats, fails = {"rule_selection_cases": 0, "rule_selection_nonconforming": 0}, []
    for _ in range(n):
        data, nodes, lits = S.gen_typed_data(rng, n_iri=rng.randint(3, 5), n_bn=rng.randint(0, 2), n_lit=1, n_triples=rng.randint(4, 10))
        data.bind("ex", EX)
        iris = [x for x in nodes if isinstance(x, URIRef)]
        # nodes that cannot be named in focus_nodes (blank nodes) are targets of the rule shapes as well: never selected, their rules stay
        # silent - also the rule that writes about the node an ex:q edge leads to (which may be a selected one)
        for b_ in [x for x in nodes if isinstance(x, rdflib.BNode)]:
            data.add((b_, EX.q, rng.choice(iris)))
            if rng.random() < 0.5:
                data.add((b_, rdflib.RDF.type, EX.C0))
        sg = rdflib.Graph().parse(data=RULES_TTL % {"nodes": ", ".join(x.n3() for x in iris)}, format="turtle")
        Fs = rng.sample(iris, rng.randint(1, min(3, len(iris))))
        case = {"sg": sg, "data": data, "sel": {"F": Fs, "U": []}}
        # with iterate_rules the rules run again after a pass that added something: the later passes fire on the selected nodes only, too
        it_ = {"iterate_rules": True} if rng.random() < 0.5 else {}
        ref = S.run_validate(data, rewritten(case), advanced=True, **it_)
        got = S.run_validate(data, sg, advanced=True, focus_nodes=[curie(x) if rng.random() < 0.3 else str(x) for x in Fs], **it_)
        stats["rule_selection_cases"] += 1
        stats["rule_selection_cases_iterating"] = stats.get("rule_selection_cases_iterating", 0) + (1 if it_ else 0)
        stats["rule_selection_nonconforming"] += 1 if ref[0] == "ok" and not ref[1] else 0
        if got[0] != ref[0] or (got[0] == "ok" and (got[1] != ref[1] or EC.keys(got) != EC.keys(ref))) or (got[0] == "err" and got[1] != ref[1]):
            fails.append({"what": "advanced mode: focus_nodes=F gives another report than the shapes graph whose targets (of rule shapes too) are narrowed to F",
                          "focus_nodes": [x.n3() for x in Fs], "options": dict(it_, advanced=True), "shapes_ttl": sg.serialize(format="turtle"), "data_nt": sorted(" ".join(x.n3() for x in t) for t in data),
                          "restricted_run": (got[1], EC.keys(got)) if got[0] == "ok" else got[:2], "reference": (ref[1], EC.keys(ref)) if ref[0] == "ok" else ref[:2]})
    # use_shapes in advanced mode: shapes consulted by a selected shape are advanced as well (their sh:expression counts)
    EXPR_TTL = """@prefix sh: <http://www.w3.org/ns/shacl#> . @prefix ex: <http://ex.org/> .
ex:Sel a sh:NodeShape ; sh:targetClass ex:C0 ; sh:property [ sh:path ex:p ; sh:node ex:Nested ] ; sh:%(how)s .
ex:Nested a sh:NodeShape ; sh:expression [ sh:path ex:flag ] %(nested_extra)s .
ex:Nested2 a sh:NodeShape ; sh:property [ sh:path ex:q ; sh:expression [ sh:path ex:flag ] ] .
ex:OtherSel a sh:NodeShape ; sh:targetClass ex:C1 ; sh:expression [ sh:path ex:flag ] .
"""
    for _ in range(n):
        data, nodes, lits = S.gen_typed_data(rng, n_iri=rng.randint(3, 5), n_bn=0, n_lit=1, n_triples=rng.randint(5, 10))
        iris = [x for x in nodes if isinstance(x, URIRef)]
        for x in iris:
            if rng.random() < 0.7:
                data.add((x, EX.flag, rdflib.Literal(rng.random() < 0.5)))
        # the consulted shape may have targets and rules of its own: not selected, they stay silent
        nested_extra = rng.choice(["", "; sh:targetClass ex:C1 ; sh:rule [ a sh:TripleRule ; sh:subject sh:this ; sh:predicate ex:flag ; sh:object true ]",
                                   "; sh:targetSubjectsOf ex:p ; sh:rule [ a sh:TripleRule ; sh:subject sh:this ; sh:predicate ex:flag ; sh:object false ]"])
        sg = rdflib.Graph().parse(data=EXPR_TTL % {"how": rng.choice(["node ex:Nested2", "not ex:Nested", "or ( ex:Nested ex:Nested2 )"]), "nested_extra": nested_extra}, format="turtle")
        Us = [EX.Sel]
        Fs = rng.sample(iris, rng.randint(1, min(3, len(iris)))) if rng.random() < 0.5 else []
        case = {"sg": sg, "data": data, "sel": {"F": Fs, "U": Us}}
        ref = S.run_validate(data, rewritten(case), advanced=True)
        kw = {"use_shapes": [str(u) for u in Us]}
        if Fs:
            kw["focus_nodes"] = [str(x) for x in Fs]
        got = S.run_validate(data, sg, advanced=True, **kw)
        stats["advanced_use_shapes_cases"] = stats.get("advanced_use_shapes_cases", 0) + 1
        if got[0] != ref[0] or (got[0] == "ok" and (got[1] != ref[1] or EC.keys(got) != EC.keys(ref))) or (got[0] == "err" and got[1] != ref[1]):
            fails.append({"what": "advanced mode: use_shapes (%s focus_nodes) gives another report than the shapes graph with the other shapes' targets removed" % ("with" if Fs else "without"),
                          "options": kw, "shapes_ttl": sg.serialize(format="turtle"), "data_nt": sorted(" ".join(x.n3() for x in t) for t in data),
                          "restricted_run": (got[1], EC.keys(got)) if got[0] == "ok" else got[:2], "reference": (ref[1], EC.keys(ref)) if ref[0] == "ok" else ref[:2]})
    return stats, fails, []


def main(tier, seed, replay=None):
    rng = F.rng_for(seed, PROP)
    cases = gen_cases(rng, tier)
    # the model is told the expanded selection; the implementation gets IRIs and CURIEs
    groups = {}
    for c in cases:
        groups.setdefault(tuple(str(u) for u in c["sel"]["U"]), []).append(c)
    rep_total = None
    # one Coq check function per use_shapes value would need per-case closures: encode `use` in the check name instead
    for c in cases:
        c["model_opts"] = {"focus_nodes": [str(x) for x in c["sel"]["F"]]}
    return EC.standard_main(
        PROP, ["Props/C13.v"], tier, seed, cases,
        rule="case = random nested shapes graph (anonymous and named references) x data x {focus_nodes=F (IRIs and CURIEs), use_shapes=U, both}; relation on the real code: report equals the report of the target-rewritten shapes graph (targets narrowed to F / other shapes' targets removed / U x F); each run also compared with the model of the selection logic; advanced mode: rule shapes + reporting shapes with static targets x focus_nodes=F = the target-rewritten shapes graph (rules fire only on the nodes of F their shape targets)",
        what="outcome differs from the model of the selection logic (Props.C13)",
        metamorphic=metamorphic, check_fn="SEL",
        extra_checks=lambda: rules_family(F.rng_for(seed, PROP + "/rules"), 50 if tier == "quick" else 700),
    )
