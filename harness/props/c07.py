"""C07 - SPARQL remote-graph mode and in-memory mode give the same report."""
import re
import warnings

import rdflib
from rdflib import BNode, Literal, URIRef
from rdflib.namespace import RDF, RDFS, XSD

from .. import enc, framework as F, shapes as S, evalcheck as EC, leaves as LV, sparqlgen as SG
from ..enc import EX, SH
from . import c05, c08

PROP = "C07"
PREAMBLE = (
    "From Coq Require Import List NArith Bool String.\n"
    "From Verif Require Import Base.SetList Base.Terms Paths.Path Sparql.PathText Sparql.Optional.\n"
    "Import ListNotations.\n"
    "Definition oterm_eqb (a b:option term) := match a, b with Some x, Some y => term_eqb x y | None, None => true | _, _ => false end.\n"
    "Fixpoint row_eqb (a b:row) := match a, b with [], [] => true | x :: a', y :: b' => oterm_eqb x y && row_eqb a' b' | _, _ => false end.\n"
    "Definition count_row (r:row) (l:list row) := List.length (List.filter (row_eqb r) l).\n"
    "Definition bound_somewhere (r:row) := existsb (fun x => match x with Some _ => true | None => false end) r.\n"
    "(* rdflib omits the all-unbound solution from its result table: rows are compared without it *)\n"
    "Fixpoint terms_eqb (a b:list term) := match a, b with [], [] => true | x :: a', y :: b' => term_eqb x y && terms_eqb a' b' | _, _ => false end.\n"
    "Definition count_tuple (r:list term) (l:list (list term)) := List.length (List.filter (terms_eqb r) l).\n"
    "Definition tuples_perm (a b:list (list term)) := Nat.eqb (List.length a) (List.length b) && forallb (fun r => Nat.eqb (count_tuple r a) (count_tuple r b)) a.\n"
    "Definition rows_perm (a0 b0:list row) := let a := List.filter bound_somewhere a0 in let b := List.filter bound_somewhere b0 in\n"
    "  Nat.eqb (List.length a) (List.length b) && forallb (fun r => Nat.eqb (count_row r a) (count_row r b)) a.\n"
)

IRIS = ["http://ex.org/p", "http://ex.org/q", "http://ex.org/r", "http://ex.org/a/b", "http://ex.org/x.y", "http://ex.org/x(y",
        "http://other.org/ns#q", "http://ex.org/p-1", "http://ex.org/", "http://ex.org/a/a/b", "urn:x:y"]
PREFIXES = [None, {}, {"ex": "http://ex.org/"}, {"ex": "http://ex.org/", "exa": "http://ex.org/a/", "": "http://other.org/ns#"},
            {"a": "http://ex.org/a/", "ex": "http://ex.org/"}, {"o": "http://other.org/ns#", "u": "urn:x:"}]
TOKEN = re.compile(r"\s*(<[^>]*>|[A-Za-z_][\w\-]*:[^\s/|()^*+?]*|:[^\s/|()^*+?]*|[\^/|*+?()])")
SIMPLE = {"^": "TCaret", "/": "TSlash", "|": "TBar", "*": "TStar", "+": "TPlus", "?": "TQuest", "(": "TL", ")": "TR"}


def tokenize(text, prefixes, I):
    pos, out = 0, []
    text = text.strip()
    while pos < len(text):
        m = TOKEN.match(text, pos)
        if not m:
            return None
        t = m.group(1)
        pos = m.end()
        if t in SIMPLE:
            out.append(SIMPLE[t])
        elif t.startswith("<"):
            out.append("TIri %d" % I.iri_num(t[1:-1]))
        else:
            p, local = t.split(":", 1)
            if not prefixes or p not in prefixes:
                return None
            out.append("TIri %d" % I.iri_num(str(prefixes[p]) + local))
    return out


def rdflib_path_to_coq(I, p):
    from rdflib.paths import AlternativePath, InvPath, MulPath, SequencePath
    if isinstance(p, URIRef):
        return "PPred %d" % I.iri_num(str(p))
    if isinstance(p, SequencePath):
        return "PSeq [%s]" % "; ".join("(%s)" % rdflib_path_to_coq(I, a) for a in p.args)
    if isinstance(p, AlternativePath):
        return "PAlt [%s]" % "; ".join("(%s)" % rdflib_path_to_coq(I, a) for a in p.args)
    if isinstance(p, InvPath):
        return "PInv (%s)" % rdflib_path_to_coq(I, p.arg)
    if isinstance(p, MulPath):
        return "%s (%s)" % ({"*": "PStar", "+": "PPlus", "?": "POpt"}[p.mod], rdflib_path_to_coq(I, p.path))
    raise ValueError(p)


def rdflib_parse(text, prefixes):
    """rdflib's own parse of a SPARQL path text; None when rdflib rejects it"""
    from rdflib.plugins.sparql import prepareQuery
    try:
        q = prepareQuery("SELECT ?v WHERE { ?s %s ?v }" % text, initNs={k: v for k, v in (prefixes or {}).items()})
    except Exception:
        return None

    def find(n):
        if isinstance(n, dict):
            if "triples" in n:
                return n["triples"]
            for v in n.values():
                r = find(v)
                if r:
                    return r
        return None
    tr = find(q.algebra)
    return tr[0][1] if tr and len(tr) == 1 else None


class rdflib_mulpath_patched:
    """rdflib.paths.MulPath.eval decides 'is the subject/object given' by truthiness, so a path with * + ? treats the
    terms 0, false, "" as unbound. Inside this context the four tests read `is not None` (the source is rewritten;
    if rdflib's source no longer has these lines the context reports that it cannot be applied)."""
    # (old line, new line, number of occurrences) - all occurrences are rewritten
    EDITS = [("        if subj:\n", "        if subj is not None:\n", 1), ("        elif obj:\n", "        elif obj is not None:\n", 2),
             ("            if subj and obj:\n", "            if subj is not None and obj is not None:\n", 1),
             ("            elif subj:\n", "            elif subj is not None:\n", 1),
             ("                if not obj or o == obj:\n", "                if obj is None or o == obj:\n", 1),
             ("                if not subj or subj == s:\n", "                if subj is None or subj == s:\n", 1)]

    def __enter__(self):
        import inspect, textwrap
        import rdflib.paths as RP
        self.RP, self.orig, self.applied = RP, RP.MulPath.eval, False
        try:
            src = textwrap.dedent(inspect.getsource(RP.MulPath.eval))
        except Exception:
            return self
        for a, b, n in self.EDITS:
            a, b = a[4:], b[4:]
            if src.count(a) != n:
                return self
            src = src.replace(a, b)
        ns = dict(RP.__dict__)
        exec(compile("from __future__ import annotations\n" + src, "<rdflib MulPath.eval with is-not-None tests>", "exec"), ns)
        RP.MulPath.eval = ns["eval"]
        self.applied = True
        return self

    def __exit__(self, *exc):
        self.RP.MulPath.eval = self.orig
        return False


KNOWN_ID = "C07-rdflib-mulpath-truthiness"
KNOWN_LJ = "C07-rdflib-leftjoin-after-values"
LJ_WHAT = ("sparql_mode over a local rdflib graph loses focus nodes when a shape has two or more values of one target kind (VALUES clause) and an OPTIONAL of the target query "
           "has no match for a VALUES row: rdflib's evalLeftJoin re-checks the OPTIONAL with the VALUES variables forgotten and drops the row (SPARQL keeps it)")


class rdflib_leftjoin_patched:
    """rdflib.plugins.sparql.evaluate.evalLeftJoin with the plain SPARQL semantics: a solution of the left side without a
    compatible solution of the OPTIONAL is kept as it is"""

    def __enter__(self):
        import rdflib.plugins.sparql.evaluate as EV
        self.EV, self.orig = EV, EV.evalLeftJoin
        self.applied = all(hasattr(EV, n) for n in ("evalPart", "_ebv"))

        def evalLeftJoin(ctx, join):
            for a in EV.evalPart(ctx, join.p1):
                ok = False
                c = ctx.thaw(a)
                for b in EV.evalPart(c, join.p2):
                    if EV._ebv(join.expr, b.forget(ctx)):
                        ok = True
                        yield b
                if not ok:
                    yield a
        if self.applied:
            EV.evalLeftJoin = evalLeftJoin
        return self

    def __exit__(self, *exc):
        self.EV.evalLeftJoin = self.orig
        return False


def deep_path(kind, n):
    p = ("pred", IRIS[0])
    for i in range(n):
        k = kind if kind != "mix" else ["inv", "star", "opt", "plus"][i % 4]
        p = (k, p) if k not in ("seq", "alt") else (k, [p, ("pred", IRIS[1])])
    return p


def printer_cases(rng, n):
    """(path AST, prefixes) -> real printer output vs model; the printed text through rdflib's parser vs the model parser"""
    from pyshacl.helper.path_helper import shacl_path_to_sparql_path
    from pyshacl.shapes_graph import ShapesGraph
    bodies, meta = [], []
    paths = [enc.gen_path(rng, IRIS, rng.randint(1, 5), allow_short_lists=True) for _ in range(n)]
    paths += [deep_path(k, d) for k in ("inv", "star", "seq", "alt", "mix") for d in (9, 10, 11, 12, 13)]
    paths += [("star", ("plus", ("pred", IRIS[0]))), ("inv", ("inv", ("pred", IRIS[0]))), ("opt", ("star", ("inv", ("pred", IRIS[3])))),
              ("seq", [("pred", IRIS[3]), ("pred", IRIS[0])]), ("alt", [("inv", ("pred", IRIS[5])), ("star", ("pred", IRIS[4]))])]
    for p in paths:
        prefixes = rng.choice(PREFIXES)
        I = enc.Interner()
        g = rdflib.Graph()
        node = enc.path_to_rdf(g, p)
        g.add((EX.S, SH.path, node))
        try:
            text = shacl_path_to_sparql_path(ShapesGraph(g), node, prefixes=dict(prefixes) if prefixes is not None else None)
            toks = tokenize(text, prefixes, I)
            real = "Some [%s]" % "; ".join(toks) if toks is not None else "Some [TR; TR; TR]"
        except Exception as e:
            text, toks, real = "raised " + type(e).__name__, None, "None"
        pc = enc.path_to_coq(I, p)
        bodies.append("otoks_eqb (print_path (%s)) (%s)" % (pc, real))
        meta.append({"kind": "printer", "path": enc.path_str(p), "prefixes": prefixes, "real_text": text, "model": "print_path (%s)" % pc})
        if toks is not None:
            rp = rdflib_parse(text, prefixes)
            exp = "Some (%s)" % rdflib_path_to_coq(I, rp) if rp is not None else "None"
            bodies.append("opath_eqb (oflat (parse_path [%s])) (%s)" % ("; ".join(toks), exp))
            meta.append({"kind": "parser-on-printed", "path": enc.path_str(p), "text": text, "rdflib_parse": repr(rp), "model": "parse_path [%s]" % "; ".join(toks)})
    return bodies, meta


def gen_text(rng, depth, I):
    """a SPARQL path text drawn from the grammar (with redundant brackets) or lightly corrupted; returns (text, tokens)"""
    def iri():
        u = rng.choice(IRIS[:3])
        return "<%s>" % u, ["TIri %d" % I.iri_num(u)]

    def primary(d):
        if d <= 0 or rng.random() < 0.5:
            return iri()
        t, k = alt(d - 1)
        return "(" + t + ")", ["TL"] + k + ["TR"]

    def elt(d):
        t, k = primary(d)
        if rng.random() < 0.35:
            m = rng.choice("*+?")
            t, k = t + m, k + [SIMPLE[m]]
        if rng.random() < 0.25:
            t, k = "^" + t, ["TCaret"] + k
        return t, k

    def seq(d):
        parts = [elt(d) for _ in range(rng.choice([1, 1, 2, 3]))]
        toks = []
        for i, (_, k) in enumerate(parts):
            toks += (["TSlash"] if i else []) + k
        return "/".join(t for t, _ in parts), toks

    def alt(d):
        parts = [seq(d) for _ in range(rng.choice([1, 1, 1, 2, 3]))]
        toks = []
        for i, (_, k) in enumerate(parts):
            toks += (["TBar"] if i else []) + k
        return "|".join(t for t, _ in parts), toks

    return alt(depth)


def corrupt(rng, text, toks):
    """drop, duplicate or swap one token (keeps text and tokens in step by re-rendering)"""
    inv = {v: k for k, v in SIMPLE.items()}
    k = list(toks)
    i = rng.randrange(len(k))
    how = rng.choice(["drop", "dup", "swap", "mod"])
    if how == "drop":
        del k[i]
    elif how == "dup":
        k.insert(i, k[i])
    elif how == "swap" and i + 1 < len(k):
        k[i], k[i + 1] = k[i + 1], k[i]
    else:
        k.insert(i + 1, rng.choice(["TStar", "TPlus", "TQuest", "TCaret"]))
    return k, inv


def parser_cases(rng, n):
    bodies, meta = [], []
    for j in range(n):
        I = enc.Interner()
        text, toks = gen_text(rng, rng.randint(0, 3), I)
        if rng.random() < 0.3 and toks:
            toks, inv = corrupt(rng, text, toks)
            names = {"TIri %d" % I.iri_num(u): "<%s>" % u for u in IRIS[:3]}
            text = "".join(names.get(t, inv.get(t, "")) if not t.startswith("TIri") else " " + names[t] for t in toks)
        if not toks:
            continue
        rp = rdflib_parse(text, None)
        exp = "Some (%s)" % rdflib_path_to_coq(I, rp) if rp is not None else "None"
        bodies.append("opath_eqb (oflat (parse_path [%s])) (%s)" % ("; ".join(toks), exp))
        meta.append({"kind": "parser-on-grammar-text", "text": text, "rdflib_parse": repr(rp), "model": "parse_path [%s]" % "; ".join(toks)})
    return bodies, meta


# ------------------------------------------------------------------ batched OPTIONAL: rdflib's rows vs the algebra model
def batch_cases(rng, n):
    from pyshacl.helper.expression_helper import value_nodes_from_path
    from pyshacl.shapes_graph import ShapesGraph
    bodies, meta, py_bad = [], [], []
    preds = [str(EX.p), str(EX.q), str(EX.r)]
    for j in range(n):
        nodes, lits = enc.gen_nodes(rng, n_iri=rng.randint(2, 4), n_bn=rng.randint(0, 1), n_lit=rng.randint(0, 2))
        data = enc.gen_data(rng, preds, nodes, lits, rng.randint(2, 9))
        p = enc.gen_path(rng, preds, rng.randint(0, 3))
        g = rdflib.Graph()
        node = enc.path_to_rdf(g, p)
        g.add((EX.PS, RDF.type, SH.PropertyShape))
        g.add((EX.PS, SH.path, node))
        g.add((EX.PS, SH.minCount, Literal(0)))
        sg = ShapesGraph(g)
        _ = sg.shapes
        shape = sg.lookup_shape_from_node(EX.PS)
        foci = rng.sample(nodes, rng.randint(1, min(4, len(nodes))))
        captured = {}
        orig = data.query

        def spy(q, *a, **k):
            res = orig(q, *a, **k)
            captured["query"] = q
            captured["rows"] = [tuple(r) for r in res]
            return res
        data.query = spy
        try:
            got = shape.value_nodes(data, foci, sparql_mode=True)
        except Exception as e:
            py_bad.append({"what": "Shape.value_nodes raised in sparql_mode: %s" % type(e).__name__, "path": enc.path_str(p), "detail": str(e)[:200]})
            continue
        finally:
            del data.query
        I = enc.Interner()
        mem = {f: set(value_nodes_from_path(sg, f, node, data)) for f in foci}
        if {f: set(v) for f, v in got.items()} != mem:
            with rdflib_mulpath_patched() as pt:
                again = shape.value_nodes(data, foci, sparql_mode=True) if pt.applied else None
            if again is not None and {f: set(v) for f, v in again.items()} == mem:
                py_bad.append({"known": KNOWN_ID})
                continue
            py_bad.append({"what": "value nodes differ between sparql_mode and in-memory evaluation", "path": enc.path_str(p),
                           "data": sorted(" ".join(x.n3() for x in t) for t in data), "foci": [f.n3() for f in foci],
                           "sparql": {f.n3(): sorted(x.n3() for x in v) for f, v in got.items()},
                           "memory": {f.n3(): sorted(x.n3() for x in v) for f, v in mem.items()}})
        # the engine's answers pattern by pattern, and the table it returned for the batch
        text = re.search(r"\$f0 (.*) \?v0 \. \}", captured["query"]).group(1)
        solss = []
        for f in foci:
            rows = data.query("SELECT ?v WHERE { $f %s ?v . }" % text, initBindings={"f": f})
            solss.append([r[0] for r in rows])
        if max([1] + [len(s) for s in solss]) ** len(solss) > 600:
            continue
        obs = "[%s]" % "; ".join("[%s]" % "; ".join("None" if x is None else "Some (%s)" % I.term(x) for x in r) for r in captured["rows"])
        model = "optional_chain [%s]" % "; ".join(I.terms(s) for s in solss)
        bodies.append("rows_perm (%s) (%s)" % (model, obs))
        meta.append({"kind": "batched-optional", "query": captured["query"], "rows": len(captured["rows"]), "model": model})
    return bodies, meta, py_bad


def values_cases(rng, n):
    """the VALUES clause of the target query as the real code writes it vs the model's product of the multi-valued kinds"""
    from pyshacl.shape import Shape
    bodies, meta = [], []
    pool = [EX["t%d" % i] for i in range(6)]
    for j in range(n):
        sets = [set(rng.sample(pool, rng.choice([0, 1, 1, 2, 3]))) for _ in range(4)]
        clause, binds = Shape.make_focus_nodes_sparql_values(sets[0], sets[1], sets[3], sets[2])   # (classes, implicit, objectsOf, subjectsOf)
        I = enc.Interner()
        rows = [[URIRef(x[1:-1]) for x in re.findall(r"<[^>]*>", line)] for line in clause.split("\n") if line.strip().startswith("(")]
        if not clause.strip():
            rows = [[]]   # no VALUES clause: the unit row
        head = re.search(r"VALUES \(([^)]*)\)", clause)
        keys = head.group(1).split() if head else []
        order = {"$targetClass": sets[0], "$implicitClass": sets[1], "$targetSubjectsOf": sets[2], "$targetObjectsOf": sets[3]}
        # the model: product of the value lists of exactly the kinds with two or more values, in the clause's column order
        kinds = [sorted(order[k], key=str) for k in keys]
        expected_keys = [k for k in ("$targetClass", "$implicitClass", "$targetSubjectsOf", "$targetObjectsOf") if len(order[k]) > 1]
        ok_keys = keys == expected_keys and all((len(order["$" + b]) == 1 and v == next(iter(order["$" + b]))) or (len(order["$" + b]) == 0 and v == "UNDEF") for b, v in binds.items())
        bodies.append("%s && tuples_perm (rows_product [%s]) [%s]" % (enc.coq_bool(ok_keys), "; ".join(I.terms(k) for k in kinds), "; ".join(I.terms(r) for r in rows)))
        meta.append({"model": "rows_product [%s]" % "; ".join(I.terms(k) for k in kinds), "keys_ok": ok_keys, "kind": "values clause of the target query", "sets": [sorted(map(str, s_)) for s_ in sets], "clause": clause, "bindings": {k: str(v) for k, v in binds.items()}})
    return bodies, meta


# ------------------------------------------------------------------ the property on the real code: both modes on equal inputs
def mode_cases(rng, n):
    cases = []
    for j in range(n):
        r = rng.random()
        if r < 0.4:
            c = LV.gen_case(rng)
            for s in c["shapes"]:
                if s["path"] is not None and rng.random() < 0.4:
                    s["path"] = enc.gen_path(rng, [str(x) for x in S.PREDS], rng.randint(1, 3))
                    s["comps"] = [k for k in s["comps"] if k[0] not in ("closed",)] or [("mincount", 1)]
            c["sg"] = S.shapes_to_rdf(c["shapes"])
            c["opts"] = {}
            c["family"] = "core components"
        elif r < 0.52:
            # several values for several target kinds at once (the VALUES clause of the target query)
            data, nodes, lits = S.gen_typed_data(rng, n_iri=rng.randint(3, 6), n_bn=1, n_lit=1, n_triples=rng.randint(6, 14))
            sh_ = S.new_shape(EX["MT%d" % j], None)
            sh_["targets"]["classes"] = rng.sample(S.CLASSES, rng.randint(0, 3))
            sh_["targets"]["subjects_of"] = [URIRef(x) for x in rng.sample(S.PREDS, rng.randint(0, 3))]
            sh_["targets"]["objects_of"] = [URIRef(x) for x in rng.sample(S.PREDS, rng.randint(0, 3))]
            sh_["targets"]["nodes"] = rng.sample(nodes, rng.randint(0, 2))
            sh_["comps"].append(rng.choice([("in", []), ("class", [EX.NoSuchClass]), ("nodekind", "NKLiteral")]))
            c = {"shapes": [sh_], "sg": S.shapes_to_rdf([sh_]), "data": data, "opts": {}, "family": "multi-valued targets"}
        elif r < 0.58:
            # value nodes that are different terms with one spelling (an IRI and the plain literal of its text, "1" and 1, "a" and "a"@en):
            # whatever a component remembers about one of them says nothing about the other
            data, nodes, lits = S.gen_typed_data(rng, n_iri=rng.randint(3, 5), n_bn=1, n_lit=1, n_triples=rng.randint(5, 10))
            iris = [n_ for n_ in nodes if isinstance(n_, URIRef)]
            pr = URIRef(rng.choice(S.PREDS))
            twins = []
            for n_ in rng.sample(iris, 2):
                twins += [n_, Literal(str(n_))]
            twins += rng.choice([[Literal("1"), Literal(1)], [Literal("a"), Literal("a", lang="en")], []])
            foci = rng.sample(iris, 2)
            for t_ in twins:
                data.add((rng.choice(foci[:1] * 2 + foci), pr, t_))
            sh_ = S.new_shape(EX["TW%d" % j], ("pred", str(pr)))
            sh_["targets"]["nodes"] = foci
            sh_["comps"].append(rng.choice([("class", [rng.choice(S.CLASSES)]), ("class", [rng.choice(S.CLASSES)]), ("nodekind", "NKIRI"), ("in", rng.sample(twins, 2))]))
            nsh = S.new_shape(EX["TWN%d" % j], None)
            nsh["targets"]["objects_of"] = [pr]
            nsh["comps"].append(("class", [rng.choice(S.CLASSES)]))
            c = {"shapes": [sh_, nsh], "sg": S.shapes_to_rdf([sh_, nsh]), "data": data, "opts": {}, "family": "terms with one spelling"}
        elif r < 0.7:
            c = EC.base_case(rng)
            c["opts"] = rng.choice([{}, {}, {"abort_on_first": True}, {"allow_warnings": True}])
            c["family"] = "nested shapes"
        elif r < 0.88:
            c = c05.gen_case(rng)
            c["family"] = "sparql constraints"
        else:
            c = EC.base_case(rng)
            # a SPARQL target (SHACL-AF): focus nodes selected by a query
            sh = rng.choice([s for s in c["shapes"] if s["path"] is None] or c["shapes"][:1])
            t = BNode("tgt%d" % j)
            c["sg"].add((sh["id"], SH.target, t))
            c["sg"].add((t, RDF.type, SH.SPARQLTarget))
            c["sg"].add((t, SH.select, Literal(rng.choice([
                "SELECT ?this WHERE { ?this <http://ex.org/p> ?x }", "SELECT ?this WHERE { ?x <http://ex.org/q> ?this }",
                "SELECT DISTINCT ?this WHERE { ?this a ?c . FILTER (isIRI(?this)) }"]))))
            # further sh:target values on the same shape, some of which select nothing: each target contributes its own solutions
            for k_ in range(rng.randint(1, 3)):
                t2 = BNode("tgt%d_%d" % (j, k_))
                c["sg"].add((sh["id"], SH.target, t2))
                c["sg"].add((t2, RDF.type, SH.SPARQLTarget))
                c["sg"].add((t2, SH.select, Literal(rng.choice(["SELECT ?this WHERE { ?this <http://ex.org/nothing%d> ?x }" % k_, "SELECT ?this WHERE { ?this <http://ex.org/nothing%d> ?x }" % k_,
                                                               "SELECT ?this WHERE { ?this <http://ex.org/r> ?x }"]))))
            c["opts"] = {"advanced": True}
            c["family"] = "sparql targets"
        cases.append(c)
    return cases


def snapshot(g):
    return frozenset(g)


def main(tier, seed, replay=None):
    warnings.simplefilter("ignore")
    rep = F.Report(PROP, tier, seed)
    ob = F.coq_build(["Props/C07.v"], translators=["t1"])
    rng = F.rng_for(seed, PROP)
    big = tier == "thorough"
    b1, m1 = printer_cases(rng, 1500 if big else 220)
    b2, m2 = parser_cases(rng, 3000 if big else 400)
    b3, m3, py_bad = batch_cases(rng, 800 if big else 120)
    b5, m5 = values_cases(rng, 600 if big else 80)
    # Tie A for the no-write theorem: traces of the real Validator.run in sparql_mode
    b4, m4 = [], []
    vals = [dict(ont=False, inplace=i, preinf=False, multi=m, inference=None, advanced=a, sparql=True, functions=f, rules=r)
            for i in (False, True) for m in (False, True) for a in (False, True) for f in (False, True) for r in (False, True)]
    for v in vals:
        fault = rng.choice([None, None, 0, 1])
        ev, out = c08.real_trace("validate", v, fault)
        fs = "[]" if fault is None else "[%d%%nat]" % fault
        b4.append("trace_eqb (trace (snd (run_validator (%s) %s))) [%s]" % (c08.valuation_coq(v), fs, "; ".join(ev)))
        m4.append({"kind": "tie-a trace (sparql_mode)", "valuation": v, "fault": fault, "recorded": ev, "model": "trace (snd (run_validator (%s) %s))" % (c08.valuation_coq(v), fs)})
    bodies, meta = b1 + b2 + b3 + b5, m1 + m2 + m3 + m5
    if ob.ok:
        failed, errors = F.coq_eval("c07", PREAMBLE, bodies, shard=150)
        failed4, errors4 = F.coq_eval("c07t", c08.PREAMBLE, b4, shard=40)
        errors += errors4
    else:
        failed, failed4, errors = [], [], ["coq build broken"]

    cases = mode_cases(rng, 2500 if big else 260)
    diff, fam, outcomes, wrote, makers = [], {}, {}, [], {}
    for i, c in enumerate(cases):
        before = snapshot(c["data"])
        if i % 7 == 3 and not c["opts"].get("inplace"):
            # the caller's own Dataset (default_union as rdflib creates it), triples spread over named graphs: a fresh object per call
            def as_ds(g, k=i):
                ds = rdflib.Dataset()
                for j_, t_ in enumerate(sorted(g)):
                    (ds.default_context if (j_ + k) % 3 == 0 else ds.graph(URIRef("urn:g%d" % ((j_ + k) % 2)))).add(t_)
                return ds
            makers[i] = (lambda g=c["data"], f_=as_ds: f_(g))
            o_mem = S.run_validate(makers[i](), c["sg"], **c["opts"])
            o_sp = S.run_validate(makers[i](), c["sg"], sparql_mode=True, **c["opts"])
            fam["(as caller-built Dataset)"] = fam.get("(as caller-built Dataset)", 0) + 1
        else:
            makers[i] = (lambda g=c["data"]: g)
            o_mem = S.run_validate(c["data"], c["sg"], **c["opts"])
            o_sp = S.run_validate(c["data"], c["sg"], sparql_mode=True, **c["opts"])
        if snapshot(c["data"]) != before:
            wrote.append(i)
        fam[c["family"]] = fam.get(c["family"], 0) + 1
        k = "%s/%s" % (o_mem[0] if o_mem[0] == "err" else ("conforms" if o_mem[1] else "violations"), o_sp[0] if o_sp[0] == "err" else "ok")
        outcomes[k] = outcomes.get(k, 0) + 1
        if o_mem[0] != o_sp[0] or (o_mem[0] == "err" and o_mem[1] != o_sp[1]):
            diff.append((i, "one mode fails, the other answers: memory=%r sparql=%r" % (o_mem[:3] if o_mem[0] == "err" else o_mem[:2], o_sp[:3] if o_sp[0] == "err" else o_sp[:2]), o_mem, o_sp))
        elif o_mem[0] == "ok" and (o_mem[1] != o_sp[1] or EC.keys(o_mem) != EC.keys(o_sp)):
            diff.append((i, "verdict or result set differs between the modes", o_mem, o_sp))
    known = {k.get("id") for k in F.load_known_findings(PROP)}
    unexplained = []
    for i, desc, o_mem, o_sp in diff:
        def agrees(o2):
            return o2 is not None and o2[0] == o_mem[0] and ((o2[0] == "err" and o2[1] == o_mem[1]) or (o2[0] == "ok" and o2[1] == o_mem[1] and EC.keys(o2) == EC.keys(o_mem)))
        with rdflib_leftjoin_patched() as pl:
            o3 = S.run_validate(makers[i](), cases[i]["sg"], sparql_mode=True, **cases[i]["opts"]) if pl.applied else None
        if agrees(o3) and KNOWN_LJ in known:
            rep.known_finding(KNOWN_LJ, LJ_WHAT)
            continue
        with rdflib_mulpath_patched() as pt:
            o2 = S.run_validate(makers[i](), cases[i]["sg"], sparql_mode=True, **cases[i]["opts"]) if pt.applied else None
        same = agrees(o2)
        if not same and KNOWN_LJ in known and KNOWN_ID in known:
            with rdflib_leftjoin_patched() as pl, rdflib_mulpath_patched() as pt:
                o4 = S.run_validate(makers[i](), cases[i]["sg"], sparql_mode=True, **cases[i]["opts"]) if (pl.applied and pt.applied) else None
            if agrees(o4):
                rep.known_finding(KNOWN_LJ, LJ_WHAT)
                same = True
        if same and KNOWN_ID in known:
            rep.known_finding(KNOWN_ID, "sparql_mode differs from in-memory evaluation where a term that is false in Python (0, false, \"\") meets a path with * + ?: rdflib.paths.MulPath.eval tests `if subj:` (the difference vanishes with `is not None`)")
        else:
            unexplained.append((i, desc, o_mem, o_sp))
    for d in list(py_bad):
        if d.get("known"):
            py_bad.remove(d)
            if KNOWN_ID in known:
                rep.known_finding(KNOWN_ID, "sparql_mode differs from in-memory evaluation where a term that is false in Python (0, false, \"\") meets a path with * + ?: rdflib.paths.MulPath.eval tests `if subj:` (the difference vanishes with `is not None`)")
            else:
                py_bad.append({"what": "unlisted: value nodes differ between the modes because of rdflib MulPath truthiness"})
    for i, desc, o_mem, o_sp in unexplained[:8]:
        d = S.describe_case(cases[i]["sg"], cases[i]["data"], cases[i]["opts"], o_mem)
        d["what"] = desc
        d["observed_sparql_mode"] = S.describe_case(cases[i]["sg"], cases[i]["data"], cases[i]["opts"], o_sp)["observed"]
        rep.violation(d)
    for i in wrote[:3]:
        d = S.describe_case(cases[i]["sg"], cases[i]["data"], cases[i]["opts"], ("err", "-", "-"))
        d["what"] = "the data graph holds different triples after a sparql_mode run"
        rep.violation(d)
    for d in py_bad[:5]:
        rep.violation(d)
    for k in failed[:8]:
        d = dict(meta[k])
        d["what"] = "model and real code disagree (%s)" % d["kind"]
        d["model_value"] = F.coq_show("c07", PREAMBLE, d["model"])
        rep.violation(d)
    for k in failed4[:3]:
        d = dict(m4[k])
        d["what"] = "Tie A: recorded trace of Validator.run in sparql_mode differs from the generated program's"
        rep.violation(d)
    if (not ob.ok or errors) and not rep.violations:
        rep.violation({"obligation": ob.broken or errors, "detail": ob.log[-1500:]}, no_input=True)

    cov = F.proof_coverage(ob, [
        "ASSUMPTION of C07_value_nodes_same / pair_lookup / class: the SPARQL engine (rdflib here, the remote endpoint in production) answers `$f PATH ?v` by the SPARQL 1.1 path relation and evaluates OPTIONAL as LeftJoin; "
        "checked against rdflib by this run (value nodes of both modes; the returned table against the algebra model)",
        "coq/Sparql/PathText.v is a hand-written model of shacl_path_to_sparql_path and of the SPARQL path grammar: tied by the printer/parser correspondence of this run (real printer output; rdflib's parser)",
        "translator/t1.py + PyMini for C07_never_writes (as C08)",
        "the per-component *_sparql twins (closed, equals, disjoint, lessThan) beyond their look-up and the VALUES-based target query are covered by the two-mode differential only",
    ])
    cov.update({
        "evaluations": len(bodies) + len(b4) + 2 * len(cases),
        "distinct_nontrivial": len({m.get("text") or m.get("path") or m.get("query") for m in meta}) + sum(1 for c in cases if True),
        "rule": "(1) printer: random and deliberately deep/short-listed path ASTs x prefix tables x awkward IRIs -> real shacl_path_to_sparql_path text, tokenised, = model print_path (errors included); (2) parser: the printed text and independent grammar-drawn or corrupted texts through rdflib's SPARQL parser = model parse_path up to flattening; "
                "(3) batch: Shape.value_nodes(sparql_mode=True) on random graphs/paths/batches = in-memory value nodes, and the table rdflib returned = optional_chain of the per-pattern answers (as multisets of rows); (4) recorded traces of Validator.run in sparql_mode = generated program; "
                "(5) the property: validate() twice on equal inputs (core components with complex paths, nested shapes, SPARQL constraints/components, SPARQL targets), sparql_mode off/on: same outcome kind, verdict and result multiset (focus, value, path, component, source shape, severity, nested details); data graph snapshot unchanged",
        "distribution": {"printer_cases": len(b1), "parser_cases": len(b2), "batch_cases": len(b3), "trace_cases": len(b4), "two_mode_cases": len(cases),
                         "families": fam, "outcomes(memory/sparql)": outcomes, "model_disagreements": len(failed) + len(failed4),
                         "mode_differences": len(diff), "mode_differences_not_explained_by_known_finding": len(unexplained), "writes": len(wrote), "value_node_differences": len(py_bad)},
        "samples": meta[:2] + [{"family": cases[0]["family"]}],
        "exhaustive": False,
    })
    rep.coverage = cov
    rep.assumptions = ["in-memory evaluation fails on paths nested deeper than 10 (and on long sequences) where the SPARQL text is still produced (limit 12): such paths are outside 'supported in both modes' and are not generated for the two-mode comparison",
                       "messages are not part of the compared result key"]
    return rep.finish()
