"""C10 - validate() depends only on its current arguments, not on process history."""
import json
import os
import pickle
import shutil
import subprocess
import sys
import tempfile
import warnings
from concurrent.futures import ThreadPoolExecutor

from .. import framework as F
from . import c08

PROP = "C10"
WORKER = os.path.join(F.VERIF, "harness", "c10_worker.py")
PREAMBLE = (
    "From Coq Require Import List NArith Bool String.\n"
    "From Verif Require Import Mini.PyMini Gen.T1 Gen.T2 Mini.Pipeline Mini.GlobalState.\n"
    "Import ListNotations.\nOpen Scope string_scope.\n"
)


def run_py(args, timeout=600):
    env = dict(os.environ, PYTHONPATH=os.environ.get("VERIF_REPO", "/repo"), PYTHONHASHSEED="0")
    return subprocess.run([sys.executable, WORKER] + args, env=env, stdout=subprocess.DEVNULL, stderr=subprocess.PIPE, timeout=timeout)


def one_history(seed, index, scratch):
    """history in one process; every non-injected call again in a fresh process; returns a dict of findings"""
    out = os.path.join(scratch, "h%d" % index)
    os.makedirs(out, exist_ok=True)
    r = run_py(["history", str(seed), str(index), out])
    if r.returncode != 0:
        return {"index": index, "error": "history process failed: " + r.stderr.decode()[-600:]}
    long = pickle.load(open(os.path.join(out, "long.pkl"), "rb"))
    problems, compared, fresh_globals = [], 0, None
    for entry in long["log"]:
        k = entry["call"]
        if entry["injected"] is None:
            o = os.path.join(out, "one_%d.pkl" % k)
            r = run_py(["oneshot", os.path.join(out, "call_%d.pkl" % k), o])
            if r.returncode != 0:
                return {"index": index, "error": "one-shot process failed: " + r.stderr.decode()[-600:]}
            one = pickle.load(open(o, "rb"))
            fresh_globals = one["globals_before"]
            compared += 1
            if one["result"] != entry["result"]:
                problems.append({"what": "call %d of the history returns something else than the same call in a fresh process" % k,
                                 "call": k, "in_history": entry["result"], "fresh_process": one["result"]})
        if entry["globals_after"] != long["globals_before"]:
            problems.append({"what": "after call %d the process-global state differs from the one the process started with" % k, "call": k,
                             "injected_failure": entry["injected"], "outcome": entry["result"][:2],
                             "globals_after": entry["globals_after"], "globals_at_start": long["globals_before"]})
    if fresh_globals is not None and fresh_globals != long["globals_before"]:
        problems.append({"what": "harness: history process did not start with fresh globals", "a": fresh_globals, "b": long["globals_before"]})
    kinds = []
    for e in long["log"]:
        kinds.append("injected:" + e["injected"][1] if e["injected"] else (e["result"][1] if e["result"][0] == "exc" else "ok"))
    shutil.rmtree(out, ignore_errors=True)
    return {"index": index, "ops": long["ops"], "problems": problems, "compared": compared, "calls": len(long["log"]),
            "reuse": long["address_reuse"], "kinds": kinds,
            "edits": sum(1 for o in long["ops"] if o.startswith("('edit"))}


# ------------------------------------------------------------------ Tie A for the shapes-loading slice of entrypoints
def load_slice_trace(api, fault):
    """events of the real `if shacl_graph is not None: ...` statement: the patch/unpatch calls and the load between them"""
    import pyshacl
    import pyshacl.entrypoints as E
    events, state = [], {"patched": False, "raised": False}
    saved = (E.rdflib_bool_patch, E.rdflib_bool_unpatch, E.load_from_source)

    def patch():
        saved[0]()
        state["patched"] = True
        events.append('Flip "rdflib_bool" true')

    def unpatch():
        saved[1]()
        state["patched"] = False
        events.append('Flip "rdflib_bool" false')

    def load(*a, **k):
        r = saved[2](*a, **k)
        if state["patched"]:
            pos = len(events)
            events.append('Noted "load_from_source"')
            if fault == pos:
                events.append('Raised "RuntimeError"')
                state["raised"] = True
                raise RuntimeError("injected")
        return r

    E.rdflib_bool_patch, E.rdflib_bool_unpatch, E.load_from_source = patch, unpatch, load
    try:
        sg = c08.shapes_graph(False, api == "shacl_rules")
        data = c08.make_data("Graph")
        try:
            if api == "validate":
                pyshacl.validate(data, shacl_graph=sg)
            else:
                pyshacl.shacl_rules(data, shacl_graph=sg)
        except Exception:
            pass
    finally:
        E.rdflib_bool_patch, E.rdflib_bool_unpatch, E.load_from_source = saved
    return events


def summaries_hold():
    """the callee summaries of PyMini.call_summary that C10 adds, compared with the real callees"""
    import rdflib
    from rdflib.namespace import XSD
    from rdflib.term import _toPythonMapping
    from pyshacl.monkey import rdflib_bool_patch, rdflib_bool_unpatch
    from pyshacl.run_type import PySHACLRunType
    from pyshacl.rdfutil.stringify import stringify_blank_node
    from pyshacl.constraints.sparql.sparql_based_constraint_components import SPARQLConstraintComponentValidator as V
    import c10_worker as W
    bad = []
    fresh = W.globals_snapshot()
    rdflib_bool_patch()
    mid = W.globals_snapshot()
    rdflib_bool_unpatch()
    after = W.globals_snapshot()
    if mid == fresh or mid["NORMALIZE_LITERALS"] is not False:
        bad.append("rdflib_bool_patch does not flip the switch")
    if after != fresh:
        bad.append("rdflib_bool_unpatch does not restore a fresh process's literal parsing: %r vs %r" % (after, fresh))
    stringify_blank_node.dict_cache[(1, "x")] = "stale"
    V.validator_cache[(1, "x")] = object()
    forget = getattr(PySHACLRunType, "_forget_cached_graph_contents", None)
    if forget is not None:
        # (when the callee does not exist the generated programs cannot mention it either)
        forget()
        if stringify_blank_node.dict_cache or V.validator_cache:
            bad.append("_forget_cached_graph_contents leaves entries in an id(graph)-keyed cache")
    stringify_blank_node.dict_cache.clear()
    V.validator_cache.clear()
    return bad


def constructors_clear():
    """Validator(...) / RuleExpandRunner(...) reach the cache clearing (Forget event of the generated init heads)"""
    import rdflib
    from pyshacl.validator import Validator
    from pyshacl.rule_expand_runner import RuleExpandRunner
    from pyshacl.rdfutil.stringify import stringify_blank_node
    from pyshacl.constraints.sparql.sparql_based_constraint_components import SPARQLConstraintComponentValidator as V
    out = {}
    for name, cls in (("false", Validator), ("true", RuleExpandRunner)):
        stringify_blank_node.dict_cache[(1, "x")] = "stale"
        V.validator_cache[(1, "x")] = object()
        try:
            cls(c08.make_data("Graph"), shacl_graph=c08.shapes_graph(False, True), options={"advanced": True})
        except Exception:
            pass
        out[name] = not stringify_blank_node.dict_cache and not V.validator_cache
        stringify_blank_node.dict_cache.clear()
        V.validator_cache.clear()
    return out


def main(tier, seed, replay=None):
    warnings.simplefilter("ignore")
    sys.path.insert(0, os.path.join(F.VERIF, "harness"))
    rep = F.Report(PROP, tier, seed)
    ob = F.coq_build(["Props/C10.v"], translators=["t1", "t2"])
    rng = F.rng_for(seed, PROP)

    # ---- Tie A: generated programs vs recorded behaviour of the real code
    bodies, meta = [], []
    for api, rules in (("validate", "false"), ("shacl_rules", "true")):
        for fault in (None, 1):
            ev = load_slice_trace(api, fault)
            fs = "[]" if fault is None else "[%d%%nat]" % fault
            bodies.append("trace_eqb (snd (load_trace %s %s)) [%s]" % (rules, fs, "; ".join(ev)))
            meta.append(("load slice of entrypoints.%s" % api, fault, ev, "snd (load_trace %s %s)" % (rules, fs)))
    clears = constructors_clear()
    for rules, real in clears.items():
        bodies.append("Bool.eqb (head_clears %s) %s" % (rules, "true" if real else "false"))
        meta.append(("constructor clears the caches (rules=%s)" % rules, None, [str(real)], "head_clears %s" % rules))
    vals = [dict(ont=a, inplace=b, preinf=False, multi=d, inference=e, advanced=True, sparql=False, functions=h, rules=i)
            for a in (False, True) for b in (False, True) for d in (False, True) for e in (None, "rdfs")
            for h in (False, True) for i in (False, True)]
    for v in (vals if tier == "thorough" else rng.sample(vals, 24)):
        for api in ("validate", "rules"):
            fault = rng.choice([None, 0, 1, 2, 3, 4])
            ev, out = c08.real_trace(api, v, fault)
            run = "run_validator" if api == "validate" else "run_rules"
            fs = "[]" if fault is None else "[%d%%nat]" % fault
            bodies.append("trace_eqb (trace (snd (%s (%s) %s))) [%s]" % (run, c08.valuation_coq(v), fs, "; ".join(ev)))
            meta.append(("run of %s %r" % (api, v), fault, ev, "trace (snd (%s (%s) %s))" % (run, c08.valuation_coq(v), fs)))
    failed, errors = F.coq_eval("c10", PREAMBLE, bodies, shard=60) if ob.ok else ([], ["coq build broken"])
    summary_bad = summaries_hold()

    # ---- the property on the real code: histories in one process vs every call again in a fresh process
    n = 320 if tier == "thorough" else 40
    indices = list(range(n))
    if replay:
        d = json.load(open(os.path.join(F.VERIF, replay) if not os.path.isabs(replay) else replay))
        seed, indices = d.get("history_seed", seed), [d["history_index"]] if "history_index" in d else indices
    scratch = tempfile.mkdtemp(prefix="c10_", dir=os.environ.get("VERIF_SCRATCH", "/var/tmp"))
    try:
        with ThreadPoolExecutor(max_workers=14) as ex:
            results = list(ex.map(lambda i: one_history(seed, i, scratch), indices))
    finally:
        shutil.rmtree(scratch, ignore_errors=True)
    nviol = 0
    for r in results:
        if "error" in r:
            rep.violation({"what": "harness error", "detail": r["error"], "history_index": r["index"], "history_seed": seed})
            nviol += 1
            continue
        for pb in r["problems"][:2]:
            if nviol < 10:
                pb.update({"history_seed": seed, "history_index": r["index"], "ops": r["ops"],
                           "how": "harness/c10_worker.py history <seed> <index> <dir>; then oneshot on call_<k>.pkl"})
                rep.violation(pb)
            nviol += 1
    for k in failed[:6]:
        what, fault, ev, show = meta[k]
        rep.violation({"what": "Tie A: the real code's recorded behaviour differs from the program generated from the source: " + what,
                       "fault_at_effect": fault, "recorded": ev, "model": F.coq_show("c10", PREAMBLE, show)})
    for b in summary_bad:
        rep.violation({"what": "callee summary of coq/Mini/PyMini.v does not hold of the real callee", "detail": b})
    if (not ob.ok or errors) and not rep.violations:
        rep.violation({"obligation": ob.broken or errors, "detail": ob.log[-1500:]}, no_input=True)

    ok_results = [r for r in results if "error" not in r]
    kinds = {}
    for r in ok_results:
        for k in r["kinds"]:
            kinds[k] = kinds.get(k, 0) + 1
    cov = F.proof_coverage(ob, [
        "translator/t1.py, translator/t2.py + translator/py2mini.py (fail-closed Python-ast -> PyMini)",
        "coq/Mini/PyMini.v semantics and callee summaries (rdflib_bool_patch/unpatch, load_from_source, apply_functions/unapply_functions, _forget_cached_graph_contents), each compared with the real callee by this check",
        "coq/Mini/GlobalState.v: hand-written abstraction of the two id(graph)-keyed caches (look / cache_get); what a run consults is abstracted to a list of nodes",
    ])
    cov.update({
        "evaluations": len(bodies) + sum(r["compared"] for r in ok_results),
        "distinct_nontrivial": sum(1 for r in ok_results if r["calls"] >= 2),
        "rule": "(1) Tie A: recorded Flip/Noted/Raised events of the real `if shacl_graph is not None` statement of validate()/shacl_rules() (with and without an injected load failure), the constructors' cache clearing, and recorded Clone/Write/Reg traces of Validator.run/RuleExpandRunner.run must equal the generated programs' traces; (2) the property on the real code: seeded histories (2-5 calls of validate()/shacl_rules() over shared graph objects; calls failing naturally at data/shapes/ontology parsing, meta-SHACL, shape/constraint/rule/function loading, forbidden SPARQL, or by injection after apply_functions/apply_rules/load_from_source/Shape.validate; edits inside blank-node descriptions and validator definitions; collection and re-allocation preferring formerly used addresses) run in one process; every non-injected call is pickled with the then-current graph objects and repeated in a one-shot process: result tuples (verdict, canonical report graph, report text with result sections sorted) must be equal, and the snapshot of rdflib.NORMALIZE_LITERALS, the xsd:boolean parser's behaviour and _CUSTOM_FUNCTIONS after every call must equal a fresh process's",
        "distribution": {"histories": len(ok_results), "calls": sum(r["calls"] for r in ok_results), "compared_with_fresh_process": sum(r["compared"] for r in ok_results),
                         "edits": sum(r["edits"] for r in ok_results), "allocations_at_reused_address": sum(r["reuse"] for r in ok_results),
                         "call_outcomes": kinds, "tie_a_cases": len(bodies), "tie_a_disagreements": len(failed)},
        "samples": [{"ops": r["ops"][:6], "outcomes": r["kinds"]} for r in ok_results[:2]],
        "exhaustive": False,
    })
    rep.coverage = cov
    rep.assumptions = [
        "the fault model is 'a white-listed callee raises after its effect' at one position per call (fault_sets of coq/Mini/Pipeline.v)",
        "module state outside the anchors (logging handlers, rdflib plugin registries, the meta-SHACL graph cache) is covered only by the fresh-process comparison, not by the theorems",
        "extras/js caches (pyduktape2 is not installed here) are not modelled",
    ]
    return rep.finish()
