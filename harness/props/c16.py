"""C16 - outcomes use only the documented channels (exception families, exit codes)."""
import io
import os
import shutil
import subprocess
import sys
import tempfile
import warnings
from concurrent.futures import ThreadPoolExecutor

import rdflib
from rdflib import BNode, Literal, URIRef
from rdflib.namespace import RDF, XSD

from .. import enc, framework as F, shapes as S, evalcheck as EC, c16_cases as CS
from ..enc import EX, SH

PROP = "C16"
PREAMBLE = ("From Coq Require Import List NArith String Bool.\nFrom Verif Require Import Gen.T3 Mini.Cli.\nImport ListNotations.\nOpen Scope string_scope.\n")
KNOWN_CYCLE = "C16-cyclic-rdf-list"
KNOWN_CHAIN = "C16-rdflib-transitive-recursion"


def classify(fn):
    """runs fn() = validate(...) and names the channel: ok / failure / doc:<class> / raw:<class>"""
    from pyshacl.errors import ReportableRuntimeError
    try:
        r = fn()
    except (ReportableRuntimeError, NotImplementedError) as e:
        return "doc:" + type(e).__name__, e
    except Exception as e:
        return "raw:" + type(e).__name__, e
    if len(r) != 3:
        return "raw:shape-of-result", None
    if isinstance(r[1], rdflib.Graph):
        return ("ok:conforms" if r[0] else "ok:violations"), r
    return "failure", r


def expected_status(channel):
    if channel == "ok:conforms":
        return 0
    if channel in ("ok:violations", "failure"):
        return 1
    if channel == "doc:NotImplementedError":
        return 3
    return 2


# ------------------------------------------------------------------ Tie A: the real dispatch of cli.main() vs the generated table
class Custom1(Exception):
    pass


class Custom2(KeyError):
    pass


def cli_dispatch_cases():
    import pyshacl.cli as CLI
    import pyshacl.errors as E
    import decimal, re
    classes = [E.ReportableRuntimeError, E.ShapeLoadError, E.ConstraintLoadError, E.RuleLoadError, E.ValidationFailure, NotImplementedError, RuntimeError,
               RecursionError, TypeError, ValueError, AssertionError, KeyError, IndexError, OSError, StopIteration, decimal.InvalidOperation, re.error, Custom1, Custom2,
               type("LocalFailure", (E.ValidationFailure,), {}), type("LocalNotImpl", (NotImplementedError,), {})]
    bodies, meta = [], []
    d = tempfile.mkdtemp(prefix="c16_", dir="/var/tmp")
    data = os.path.join(d, "d.ttl")
    open(data, "w").write("@prefix ex: <http://ex.org/> . ex:a ex:p ex:b .")
    orig = CLI.validate
    try:
        def run_with(behaviour):
            CLI.validate = behaviour
            out = os.path.join(d, "out.txt")
            argv = sys.argv
            sys.argv = ["pyshacl", "-o", out, data]
            err, sys.stderr = sys.stderr, io.StringIO()
            try:
                CLI.main()
                code = "no-exit"
            except SystemExit as e:
                code = e.code
            except BaseException as e:
                code = "escaped:" + type(e).__name__
            finally:
                sys.stderr = err
                sys.argv = argv
            import gc
            gc.collect()   # the output file opened by argparse is flushed when main()'s frame is released (at process exit in real use)
            written = os.path.exists(out) and os.path.getsize(out) > 0
            if os.path.exists(out):
                os.remove(out)
            return code, written
        for cls in classes:
            def raiser(*a, cls=cls, **k):
                try:
                    raise cls("boom", "link")
                except TypeError:
                    raise cls("boom")
            code, written = run_with(raiser)
            mro = "[%s]" % "; ".join('"%s"' % c.__name__ for c in cls.__mro__ if c is not object)
            if isinstance(code, int):
                # (whether the failure text reached the output is observed through the real command line below: in-process the
                #  output file of argparse is only flushed at interpreter exit)
                bodies.append("N.eqb (exit_status (Raised %s)) %d" % (mro, code))
            else:
                bodies.append("false")
            meta.append({"kind": "cli dispatch", "exception": cls.__name__, "mro": mro, "real_exit": code, "report_written": written})
        g = rdflib.Graph()
        for conforms in (True, False):
            code, written = run_with(lambda *a, conforms=conforms, **k: (conforms, g, "Validation Report\nConforms: %s\n" % conforms))
            bodies.append("N.eqb (exit_status (Returned %s)) %s && Bool.eqb (report_written (Returned %s)) %s" % (enc.coq_bool(conforms), code if isinstance(code, int) else 99, enc.coq_bool(conforms), enc.coq_bool(written)))
            meta.append({"kind": "cli dispatch", "returned": conforms, "real_exit": code, "report_written": written})
        # the in-band ValidationFailure object
        code, written = run_with(lambda *a, **k: (False, E.ValidationFailure("inband"), "Validation Failure - inband"))
        bodies.append("N.eqb (exit_status (Raised (mro_of 8 \"ValidationFailure\"))) %s" % (code if isinstance(code, int) else 99))
        meta.append({"kind": "cli dispatch", "returned": "in-band ValidationFailure", "real_exit": code, "report_written": written})
    finally:
        CLI.validate = orig
        shutil.rmtree(d, ignore_errors=True)
    return bodies, meta


# ------------------------------------------------------------------ failure causes
def mutate_shapes(rng, sg):
    """replace the value of one SHACL-vocabulary triple by a term of another kind, or damage a list"""
    g = rdflib.Graph()
    for t in sg:
        g.add(t)
    cands = [t for t in g if str(t[1]).startswith(str(SH)) or t[1] in (RDF.first, RDF.rest)]
    if not cands:
        return g, "nothing to mutate"
    # (blank node labels differ from run to run: order the candidates by their label-free parts first)
    lab = lambda t: "_" if isinstance(t, BNode) else t.n3()
    s, p, o = rng.choice(sorted(cands, key=lambda t: (lab(t[0]), t[1].n3(), lab(t[2]), t[0].n3(), t[2].n3())))
    how = rng.choice(["literal", "iri", "bnode", "list", "drop", "dup", "selfloop", "number", "bool"])
    g.remove((s, p, o))
    if how == "literal":
        g.add((s, p, Literal("oops")))
    elif how == "iri":
        g.add((s, p, EX.Nowhere))
    elif how == "bnode":
        g.add((s, p, BNode()))
    elif how == "list":
        g.add((s, p, enc.rdf_list(g, [Literal(1), EX.x])))
    elif how == "dup":
        g.add((s, p, o))
        g.add((s, p, Literal(7)))
    elif how == "selfloop":
        g.add((s, p, s))
    elif how == "number":
        g.add((s, p, Literal(-3)))
    elif how == "bool":
        g.add((s, p, Literal(True)))
    return g, "%s of (%s %s %s)" % (how, s.n3(), p.n3(), o.n3())


def cli_run(args):
    env = dict(os.environ, PYTHONPATH=os.environ.get("VERIF_REPO", "/repo"), PYTHONHASHSEED="0")
    r = subprocess.run([sys.executable, "-m", "pyshacl"] + args, env=env, stdout=subprocess.PIPE, stderr=subprocess.PIPE, timeout=300)
    return r.returncode, r.stdout.decode("utf-8", "replace"), r.stderr.decode("utf-8", "replace")


def main(tier, seed, replay=None):
    warnings.simplefilter("ignore")
    import pyshacl
    rep = F.Report(PROP, tier, seed)
    ob = F.coq_build(["Props/C16.v"], translators=["t3", "t4", "t5", "t6"])
    rng = F.rng_for(seed, PROP)
    big = tier == "thorough"
    known = {k.get("id") for k in F.load_known_findings(PROP)}
    bodies, meta = cli_dispatch_cases()
    failed, errors = F.coq_eval("c16", PREAMBLE, bodies, shard=60) if ob.ok else ([], ["coq build broken"])

    # ---- API: enumerated causes + random damage of well-formed shapes graphs
    api_cases = []
    for name, body in CS.CASES.items():
        api_cases.append((name, CS.PFX + body, {}))
        if name.startswith(("pattern", "minCount", "in ", "sparql", "component", "path")):
            api_cases.append(("meta:" + name, CS.PFX + body, {"meta_shacl": True}))
    for name, body in CS.ADV.items():
        api_cases.append(("adv:" + name, CS.PFX + body, {"advanced": True}))
        api_cases.append(("adv+iterate:" + name, CS.PFX + body, {"advanced": True, "iterate_rules": True}))
    # the advanced-feature shapes once more WITHOUT advanced mode, after the advanced runs of this process: SHACL-AF vocabulary is then
    # ignored (or rejected through a documented channel), whatever earlier calls left behind
    for name, body in CS.ADV.items():
        api_cases.append(("plain after advanced:" + name, CS.PFX + body, {}))
    channels, raw, cli_jobs = {}, [], []
    data_ttl = CS.DATA

    def note_raw(name, ch, e, shapes_ttl, opts, data_text=None):
        if ch == "raw:ValueError" and "recursive rdf:rest" in str(e):
            if KNOWN_CYCLE in known:
                rep.known_finding(KNOWN_CYCLE, "a cyclic rdf:rest chain in a list-valued parameter escapes as rdflib's ValueError('List contains a recursive rdf:rest reference') from Graph.items()")
                return
        raw.append({"what": "an undocumented exception escaped validate(): %s: %s" % (ch[4:], str(e)[:200]), "case": name, "shapes_graph": shapes_ttl, "data": "harness/c16_cases.py DATA" if not name.startswith("damaged") else data_text, "options": opts})

    # the same shapes with the data handed over as Turtle text (validated as a Dataset): messages and report building take
    # other code paths there
    api_cases = api_cases + [("data as text:" + name, ttl, dict(opts, _data_as_text=True)) for k_, (name, ttl, opts) in enumerate(list(api_cases))
                             if not name.startswith(("meta:", "adv+iterate:")) and (k_ % 3 == 0 or "targetNode" in ttl.split("sh:targetClass ex:P ;")[-1])]
    for name, ttl, opts in api_cases:
        as_text = opts.pop("_data_as_text", False) if "_data_as_text" in opts else False
        try:
            sg = rdflib.Graph().parse(data=ttl, format="turtle")
            dg = rdflib.Graph().parse(data=data_ttl, format="turtle")
        except Exception:
            continue
        if as_text:
            ch, e = classify(lambda: pyshacl.validate(data_ttl, shacl_graph=sg, data_graph_format="turtle", **opts))
            ch_g, _ = classify(lambda: pyshacl.validate(dg, shacl_graph=sg, **opts))
            if ch.split(":")[0] != ch_g.split(":")[0] or (ch.startswith(("doc", "raw")) and ch != ch_g):
                raw.append({"what": "the outcome channel depends on how the data graph is handed over: %s as Turtle text, %s as a Graph object" % (ch, ch_g), "case": name, "shapes_graph": ttl, "options": opts})
        else:
            ch, e = classify(lambda: pyshacl.validate(dg, shacl_graph=sg, **opts))
        channels[ch.split(":")[0] + (":" + ch.split(":")[1] if ch.startswith(("doc", "raw")) else "")] = channels.get(ch.split(":")[0] + (":" + ch.split(":")[1] if ch.startswith(("doc", "raw")) else ""), 0) + 1
        if ch.startswith("raw"):
            note_raw(name, ch, e, ttl, opts)
        if not name.startswith(("meta:", "adv+iterate:")) and (big or ch == "failure" or ch == "doc:NotImplementedError" or rng.random() < 0.35):
            cli_jobs.append((name, ttl, opts, ch))
    n_mut = 2500 if big else 260
    for j in range(n_mut):
        c = EC.base_case(rng)
        g2, how = mutate_shapes(rng, c["sg"])
        opts = rng.choice([{}, {}, {"advanced": True}, {"abort_on_first": True}, {"meta_shacl": True}])
        ch, e = classify(lambda: pyshacl.validate(c["data"], shacl_graph=g2, **opts))
        key = ch if ch.startswith(("doc", "raw")) else ch.split(":")[0]
        channels[key] = channels.get(key, 0) + 1
        if ch.startswith("raw"):
            note_raw("damaged shapes graph: " + how, ch, e, "\n".join(sorted(g2.serialize(format="nt").split("\n"))), opts, "\n".join(sorted(c["data"].serialize(format="nt").split("\n"))))
    # the known rdflib recursion finding: re-observe it (or notice that it is gone)
    chain = rdflib.Graph()
    for i in range(1500):
        chain.add((EX["K%d" % i], rdflib.RDFS.subClassOf, EX["K%d" % (i + 1)]))
    chain.add((EX.a, RDF.type, EX.K0))
    sgc = rdflib.Graph().parse(data=CS.PFX + "ex:S a sh:NodeShape ; sh:targetClass ex:K1500 ; sh:nodeKind sh:IRI .", format="turtle")
    ch, e = classify(lambda: pyshacl.validate(chain, shacl_graph=sgc))
    if ch == "raw:RecursionError":
        if KNOWN_CHAIN in known:
            rep.known_finding(KNOWN_CHAIN, "a 1500-long rdfs:subClassOf chain under sh:targetClass escapes as RecursionError from rdflib's recursive transitive_subjects")
        else:
            raw.append({"what": "RecursionError escaped validate() on a 1500-long subclass chain", "case": "long chain"})
    elif ch.startswith("raw"):
        raw.append({"what": "undocumented exception on a long subclass chain: " + ch, "case": "long chain"})

    # a cyclic rdf:rest chain in the DATA graph is not a cause of failure at all: every shape that reports on (or walks
    # into) such a blank node must still produce a report
    cyc_data = CS.PFX + "ex:a a ex:Person ; ex:p _:l ; ex:q _:m . _:l rdf:first 1 ; rdf:rest _:l . _:m rdf:first ex:x ; rdf:rest [ rdf:first ex:y ; rdf:rest _:m ] ."
    for nm, body in (("nodeKind", "sh:property [ sh:path ex:p ; sh:nodeKind sh:IRI ]"), ("in", "sh:property [ sh:path ex:q ; sh:in ( ex:x ) ]"),
                     ("closed", "sh:closed true"), ("node", "sh:property [ sh:path ex:p ; sh:node [ sh:property [ sh:path rdf:first ; sh:datatype xsd:string ] ] ]"),
                     ("rest*", "sh:property [ sh:path ( ex:q [ sh:zeroOrMorePath rdf:rest ] rdf:first ) ; sh:nodeKind sh:Literal ]"),
                     ("sparql", 'sh:sparql [ sh:message "v {?value}" ; sh:select "SELECT $this ?value WHERE { $this <http://ex.org/p> ?value }" ]')):
        try:
            sgx = rdflib.Graph().parse(data=CS.PFX + "ex:CS a sh:NodeShape ; sh:targetClass ex:Person ; " + body + " .", format="turtle")
            dgx = rdflib.Graph().parse(data=cyc_data, format="turtle")
        except Exception as ex_:
            raw.append({"what": "harness: cyclic-list data case did not parse: %s" % ex_, "case": nm})
            continue
        for opts in ({}, {"inplace": True}, {"advanced": True}):
            ch, e = classify(lambda: pyshacl.validate(dgx, shacl_graph=sgx, **opts))
            channels["cyclic-data:" + ch.split(":")[0]] = channels.get("cyclic-data:" + ch.split(":")[0], 0) + 1
            if not ch.startswith("ok:"):
                if ch.startswith("raw"):
                    note_raw("cyclic rdf:rest chain in the data graph, shape " + nm, ch, e, CS.PFX + "ex:CS a sh:NodeShape ; sh:targetClass ex:Person ; " + body + " .", opts, cyc_data)
                else:
                    raw.append({"what": "a data graph with a cyclic rdf:rest chain made validate() fail (%s) instead of reporting" % ch, "case": nm, "data": cyc_data, "options": opts})

    # unusual but legal literal values in the DATA graph (decimal / double NaN, infinities, huge and ill-typed numbers,
    # naive and zoned times) under every ordering component: comparing them is never a cause of failure
    odd_data = CS.PFX + """ex:a a ex:Person ; ex:p "NaN"^^xsd:decimal , 5 , "NaN"^^xsd:double , "INF"^^xsd:float , "-INF"^^xsd:double , "1e400"^^xsd:double ,
      "abc"^^xsd:integer , "2020-01-01T00:00:00"^^xsd:dateTime , "2020-01-01T00:00:00Z"^^xsd:dateTime , "99999999999999999999999999999999999999.5"^^xsd:decimal ;
      ex:q "NaN"^^xsd:decimal , 7 , "sNaN"^^xsd:decimal , "12:00:00"^^xsd:time , "12:00:00+01:00"^^xsd:time , "x"@en ."""
    for nm, body in (("minInclusive", "sh:property [ sh:path ex:p ; sh:minInclusive 3 ]"), ("maxExclusive", "sh:property [ sh:path ex:p ; sh:maxExclusive 3.5 ]"),
                     ("minExclusive double", "sh:property [ sh:path ex:q ; sh:minExclusive 1e0 ]"), ("maxInclusive dateTime", 'sh:property [ sh:path ex:p ; sh:maxInclusive "2021-01-01T00:00:00Z"^^xsd:dateTime ]'),
                     ("lessThan", "sh:property [ sh:path ex:p ; sh:lessThan ex:q ]"), ("lessThanOrEquals", "sh:property [ sh:path ex:q ; sh:lessThanOrEquals ex:p ]"),
                     ("equals/disjoint", "sh:property [ sh:path ex:p ; sh:equals ex:q ; sh:disjoint ex:q ]"), ("hasValue/in", 'sh:property [ sh:path ex:p ; sh:hasValue "NaN"^^xsd:decimal ; sh:in ( 5 "NaN"^^xsd:double ) ]'),
                     ("datatype/length", "sh:property [ sh:path ex:p ; sh:datatype xsd:decimal ; sh:minLength 2 ; sh:maxLength 4 ; sh:pattern \"N\" ]"),
                     ("uniqueLang", "sh:property [ sh:path ex:q ; sh:uniqueLang true ; sh:languageIn ( \"de\" ) ]")):
        try:
            sgx = rdflib.Graph().parse(data=CS.PFX + "ex:CS a sh:NodeShape ; sh:targetClass ex:Person ; " + body + " .", format="turtle")
            dgx = rdflib.Graph().parse(data=odd_data, format="turtle")
        except Exception as ex_:
            raw.append({"what": "harness: odd-literal data case did not parse: %s" % ex_, "case": nm})
            continue
        for opts in ({}, {"abort_on_first": True}, {"sparql_mode": True} if nm.startswith(("min", "max")) else {"advanced": True}):
            ch, e = classify(lambda: pyshacl.validate(dgx, shacl_graph=sgx, **opts))
            channels["odd-literals:" + ch.split(":")[0]] = channels.get("odd-literals:" + ch.split(":")[0], 0) + 1
            if ch.startswith("raw"):
                note_raw("unusual literal values in the data graph, shape " + nm, ch, e, CS.PFX + "ex:CS a sh:NodeShape ; sh:targetClass ex:Person ; " + body + " .", opts, odd_data)
            elif not ch.startswith("ok:"):
                raw.append({"what": "a data graph with unusual literal values made validate() fail (%s: %s) instead of reporting" % (ch, str(e)[:200]), "case": nm, "data": odd_data, "options": opts})

    # ---- Tie A for the list check: the real ShapesGraph constructor against the interpreter of the generated program
    from .. import listcheck as LC
    lc_stats, lc_fails, lc_errors = LC.run(F.rng_for(seed, PROP + "/lists"), 1500 if big else 150)
    for d_ in lc_fails[:5]:
        raw.append(d_)
    if ob.ok:
        errors = list(errors) + list(lc_errors)

    # ---- CLI: the same causes through `python -m pyshacl`
    d = tempfile.mkdtemp(prefix="c16_", dir="/var/tmp")
    cli_bad, cli_runs = [], 0
    try:
        open(os.path.join(d, "data.ttl"), "w").write(data_ttl)
        jobs = []
        for k, (name, ttl, opts, ch) in enumerate(cli_jobs):
            sp = os.path.join(d, "s%d.ttl" % k)
            open(sp, "w").write(ttl)
            args = ["-s", sp, "-f", rng.choice(["human", "turtle", "json-ld", "table"])] + (["-a"] if opts.get("advanced") else []) + [os.path.join(d, "data.ttl")]
            jobs.append((name, args, ch))
        jobs.append(("missing data file", ["-s", os.path.join(d, "s0.ttl"), os.path.join(d, "nosuch.ttl")], "doc:input"))
        jobs.append(("unparsable data file", ["-s", os.path.join(d, "s0.ttl"), os.path.join(d, "broken.ttl")], "any-error"))
        open(os.path.join(d, "broken.ttl"), "w").write("@prefix ex: <http://ex.org/> . ex:a ex:p ;;; .")
        jobs.append(("unparsable shapes file", ["-s", os.path.join(d, "broken.ttl"), os.path.join(d, "data.ttl")], "any-error"))
        with ThreadPoolExecutor(max_workers=12) as ex:
            outs = list(ex.map(lambda j: cli_run(j[1]), jobs))
        for (name, args, ch), (code, out, err) in zip(jobs, outs):
            cli_runs += 1
            if ch == "any-error" or ch == "doc:input":
                want = 2
            elif ch.startswith("raw"):
                want = 2   # also for the listed findings: the command line must not answer 0/1 for a crash
            else:
                want = expected_status(ch)
            ok = code == want and (code != 1 or len(out.strip()) > 0) and (code != 0 or len(out.strip()) > 0)
            if not ok:
                cli_bad.append({"what": "command line exit status %s (expected %s) for: %s" % (code, want, name), "api_channel": ch, "args": [a.replace(d, "<tmp>") for a in args],
                                "stdout": out[-400:], "stderr": err[-600:]})
    finally:
        shutil.rmtree(d, ignore_errors=True)

    for r in raw[:8]:
        rep.violation(r)
    for r in cli_bad[:6]:
        rep.violation(r)
    for k in failed[:6]:
        dd = dict(meta[k])
        dd["what"] = "Tie A: cli.main() handles this outcome differently from the handler table generated from its source"
        rep.violation(dd)
    if (not ob.ok or errors) and not rep.violations:
        info = {"obligation": ob.broken or errors, "detail": ob.log[-1500:]}
        if any("RaisesProofs" in b for b in ob.broken):
            # name the raise statements / helper calls that are out of order (Gen/T6 and Mini/Raises still compile)
            info["raise_statements_out_of_order"] = F.coq_show(
                "c16census", "From Coq Require Import List String Bool NArith.\nFrom Verif Require Import Gen.T3 Gen.T6 Mini.Cli Mini.Raises.",
                "(filter (fun s => negb (site_ok s)) raise_sites, filter (fun c => negb (call_ok c)) helper_calls, filter (fun a => negb (assert_ok a)) assert_sites)")
            info["what"] = ("a raise statement on the validate() path raises a class outside the documented families (and is not handled in place, not a guarded helper "
                            "signal, not a listed internal guard) or an assert statement that is not among the listed ones - theorem C16_raise_census / C16_helper_calls_guarded / C16_assert_census no longer checks; no input reaching it was found by the enumeration")
        rep.violation(info, no_input=True)
    cov = F.proof_coverage(ob, [
        "translator/t3.py (fail-closed extraction of the except clauses, their exit_code assignments, the finally block, the final sys.exit and the early exits of cli.main(); class table of errors.py)",
        "coq/Mini/Cli.v: Python's except-clause dispatch modelled as 'first clause whose class occurs in the raised class's MRO'; an uncaught exception ends the interpreter with status 1",
        "translator/t4.py, t5.py (closure loops and the rdf list check of the shapes graph constructor), translator/t6.py (fail-closed census of every raise statement and of the calls of the caller-handled helpers in the modules of pyshacl/ on the validate() path; out of scope: cli.py, cli_rules.py, sh_http.py, __main__.py, validator_conformance.py, extras/)",
        "coq/Mini/Raises.v listed_asserts: the 20 assert statements on the validate() path (each with the reason why its condition holds) are accepted by C16_assert_census",
        "coq/Mini/Raises.v internal_guards: 28 listed raise statements that check Python argument types of the API or invariants of the code (each with its reason in the file) are accepted by C16_raise_census as not reachable from RDF input",
        "exceptions raised IMPLICITLY (a failing expression, an rdflib or re error) are outside the census: for them the API half of the property is NOT a theorem, it is decided by the enumeration of failure causes of this run",
    ])
    cov.update({
        "evaluations": len(bodies) + len(api_cases) + n_mut + cli_runs,
        "distinct_nontrivial": len(api_cases) + cli_runs,
        "rule": "(1) Tie A: cli.main() run in-process with validate() replaced by a function raising each of 21 exception classes (documented, builtin, subclasses defined on the spot) or returning conforming / non-conforming / in-band failure results: real exit status and whether the report file was written = exit_status / report_written of the generated table; "
                "(2) API: %d enumerated ill-formed shapes graphs (wrong node kinds/datatypes for every core parameter, malformed lists and paths, bad regex and flags, broken/misplaced SPARQL, dangling references, malformed rules/functions/targets/expressions) x options, plus %d randomly damaged well-formed shapes graphs (one SHACL triple's value replaced by a literal/IRI/blank node/list/duplicate/self-loop): outcome must be a result tuple, a ValidationFailure or a documented exception class; "
                "(2b) Tie A for the list check: random rest maps (proper lists, shared tails, rings, rho shapes, self loops) as rdf:rest triples of a shapes graph: the ShapesGraph constructor's decision = the interpreter's run of the program generated from _check_rdf_lists = 'every chain ends', and the same in two other insertion orders; (3) CLI: a sample of the same causes through `python -m pyshacl` with -f human/turtle/json-ld/table: exit status = 0/1/2/3 as the API outcome dictates, 0 and 1 only with output written" % (len(api_cases), n_mut),
        "distribution": {"api_channels": channels, "cli_runs": cli_runs, "cli_wrong_status": len(cli_bad), "raw_exceptions_not_listed": len(raw), "dispatch_cases": len(bodies), "dispatch_disagreements": len(failed), **lc_stats},
        "samples": meta[:2],
        "exhaustive": False,
    })
    rep.coverage = cov
    rep.assumptions = ["syntactically invalid RDF (parser errors of rdflib) is outside the property's API clause; the command line maps it to status 2",
                       "KeyboardInterrupt / SystemExit (BaseException) are not 'outcomes'"]
    return rep.finish()
