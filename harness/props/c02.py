"""C02 - a shape validates exactly the focus nodes its target declarations select."""
import rdflib
from rdflib import BNode, Literal, URIRef
from rdflib.namespace import OWL, RDF, RDFS

from .. import enc, framework as F, shapes as S, evalcheck as EC, closurecheck as CC
from ..enc import EX, SH

PROP = "C02"


def gen_case(rng):
    data, nodes, lits = S.gen_typed_data(rng, n_iri=rng.randint(2, 6), n_bn=rng.randint(0, 2), n_lit=rng.randint(0, 2), n_triples=rng.randint(2, 12))
    # longer subclass chains, cycles, diamonds
    classes = S.CLASSES + [EX.C3, EX.C4]
    for _ in range(rng.randint(0, 5)):
        data.add((rng.choice(classes), RDFS.subClassOf, rng.choice(classes)))
    for n in nodes:
        if rng.random() < 0.5:
            data.add((n, RDF.type, rng.choice(classes)))
    extra = []
    shapes = []
    for i in range(rng.randint(1, 4)):
        named = rng.random() < 0.8
        s = S.new_shape(EX["T%d" % i] if named else BNode("t%d" % i), None)
        t = s["targets"]
        iri_nodes = [x for x in nodes if isinstance(x, URIRef)]
        for kind in ("nodes", "classes", "subjects_of", "objects_of"):
            for _ in range(rng.choice([0, 0, 1, 1, 2, 3])):
                if kind == "nodes":
                    t[kind].append(rng.choice(iri_nodes + lits + [EX.absent, Literal("absent")]))
                elif kind == "classes":
                    t[kind].append(rng.choice(classes))
                else:
                    t[kind].append(URIRef(rng.choice(S.PREDS + [str(RDF.type)])))
        r = rng.random()
        if named and r < 0.45:
            # implicit class target: the shape is (transitively) an instance of rdfs:Class, and data nodes are typed with it
            how = rng.choice(["rdfs", "owl", "meta1", "meta2", "notclass"])
            if how == "rdfs":
                s["types"].append(RDFS.Class)
            elif how == "owl":
                s["types"].append(OWL.Class)
            elif how == "meta1":
                s["types"].append(EX.Meta1)
                extra.append((EX.Meta1, RDFS.subClassOf, RDFS.Class))
            elif how == "meta2":
                s["types"].append(EX.Meta2)
                extra += [(EX.Meta2, RDFS.subClassOf, EX.Meta1), (EX.Meta1, RDFS.subClassOf, RDFS.Class)]
            else:
                s["types"].append(EX.NotAClass)
            for n in rng.sample(nodes, min(2, len(nodes))):
                data.add((n, RDF.type, s["id"]))
            if rng.random() < 0.5:
                data.add((rng.choice(classes), RDFS.subClassOf, s["id"]))
        if rng.random() < 0.3:
            # a property shape with targets of its own: every focus node (a literal too, whose value set is empty) is reported
            s["path"] = ("pred", rng.choice(S.PREDS)) if rng.random() < 0.7 else ("inv", ("pred", rng.choice(S.PREDS)))
            s["comps"].append(("mincount", 7))
        else:
            s["comps"].append(("in", []))  # fails on every focus node
        if not named:
            # an anonymous shape must be reachable: its target triples make it a shape
            pass
        shapes.append(s)
    sg = S.shapes_to_rdf(shapes, explicit_types=rng.random() < 0.7)
    for tr in extra:
        sg.add(tr)
    return {"shapes": shapes, "sg": sg, "data": data, "opts": {}}


def metamorphic(cases, obs):
    """sh:focusNode of the report = union over shapes of Shape.focus_nodes; each (shape, node) exactly once"""
    bad = []
    for i, (c, o) in enumerate(zip(cases, obs)):
        if o[0] != "ok":
            continue
        seen = {}
        for r in o[2]:
            k = (r[3], r[0])
            seen[k] = seen.get(k, 0) + 1
        dup = [k for k, n in seen.items() if n > 1]
        if dup:
            bad.append((i, "a selected node was validated more than once against a shape: %r" % (dup[:2],)))
        for s in c["shapes"]:
            if not any(s["targets"].values()) and not s["types"] and any(r[3] == s["id"] for r in o[2]):
                bad.append((i, "a shape without targets validated a node on its own account"))
    return bad


def direct_focus(cases, rep, ob):
    """Shape.focus_nodes called directly, compared with the model's focus_nodes"""
    from pyshacl.shapes_graph import ShapesGraph

    bodies, meta = [], []
    for ci, c in enumerate(cases):
        sgo = ShapesGraph(c["sg"])
        byid = {sh.node: sh for sh in sgo.shapes}
        I = enc.Interner()
        sgc, gc = I.graph(S.class_triples(sgo.graph)), I.graph(c["data"])
        for s in c["shapes"]:
            if s["id"] not in byid:
                continue
            fs = set(byid[s["id"]].focus_nodes(c["data"]))
            bodies.append("check_focus (%s) (%s) (%s) %s" % (sgc, gc, S.shape_to_coq(I, s), I.terms(sorted(fs, key=str))))
            meta.append((ci, s["id"], fs))
    failed, errors = F.coq_eval("c02f", EC.PREAMBLE, bodies, shard=200)
    return bodies, meta, failed, errors


def combine(*parts):
    st, fl, er = {}, [], []
    for a, b, c in parts:
        st.update(a); fl.extend(b); er.extend(c)
    return st, fl, er


def sparql_focus(cases, limit):
    """Shape.focus_nodes_sparql (the target query of sparql_mode) against Shape.focus_nodes, with rdflib's two listed engine
    defects (C07-rdflib-leftjoin-after-values, C07-rdflib-mulpath-truthiness) corrected in-process: the target semantics
    is the same in both modes"""
    from pyshacl.shapes_graph import ShapesGraph
    from .c07 import rdflib_leftjoin_patched, rdflib_mulpath_patched
    fails, n = [], 0
    with rdflib_leftjoin_patched() as pl, rdflib_mulpath_patched() as pt:
        if not (pl.applied and pt.applied):
            return {"sparql_focus_cases": 0, "sparql_focus_skipped": "rdflib source changed: corrections not applicable"}, [], []
        for c in cases[:limit]:
            sgo = ShapesGraph(c["sg"])
            for sh in sgo.shapes:
                try:
                    mem = set(sh.focus_nodes(c["data"]))
                    spq = set(sh.focus_nodes_sparql(c["data"]))
                except Exception as e:
                    fails.append({"what": "Shape.focus_nodes_sparql raised %s: %s" % (type(e).__name__, str(e)[:200]), "shape": sh.node.n3(),
                                  "shapes_ttl": c["sg"].serialize(format="turtle"), "data_nt": sorted(" ".join(x.n3() for x in t) for t in c["data"])})
                    continue
                n += 1
                if mem != spq and len(fails) < 6:
                    fails.append({"what": "the target query of sparql_mode selects other focus nodes than the in-memory target resolution", "shape": sh.node.n3(),
                                  "only_in_memory": sorted(x.n3() for x in mem - spq), "only_sparql": sorted(x.n3() for x in spq - mem),
                                  "shapes_ttl": c["sg"].serialize(format="turtle"), "data_nt": sorted(" ".join(x.n3() for x in t) for t in c["data"])})
    return {"sparql_focus_cases": n}, fails, []


def bare_shapes_family(rng, n):
    """shapes that are recognised as shapes ONLY through one target declaration: untyped, without any built-in constraint parameter (their
    constraint is a custom SPARQL-based component that always fails), not referenced by any other shape - one target kind each; the focus
    nodes reported are those the declaration selects"""
    import rdflib
    from rdflib import URIRef, Literal, RDF
    from ..enc import EX
    stats, fails = {"bare_shape_cases": 0}, []
    TTL = """@prefix sh: <http://www.w3.org/ns/shacl#> . @prefix ex: <http://ex.org/> . @prefix owl: <http://www.w3.org/2002/07/owl#> . @prefix xsd: <http://www.w3.org/2001/XMLSchema#> .
ex:prefixes a owl:Ontology ; sh:declare [ sh:prefix "ex" ; sh:namespace "http://ex.org/"^^xsd:anyURI ] .
ex:AlwaysFails a sh:ConstraintComponent ; sh:parameter [ sh:path ex:never ] ; sh:validator [ a sh:SPARQLAskValidator ; sh:prefixes ex:prefixes ; sh:ask "ASK { FILTER (!bound($value)) }" ] .
ex:ByNode ex:never true ; sh:targetNode %(nodes)s .
ex:ByClass ex:never true ; sh:targetClass ex:C0 .
ex:BySubjects ex:never true ; sh:targetSubjectsOf ex:p .
ex:ByObjects ex:never true ; sh:targetObjectsOf ex:p .
"""
    for _ in range(n):
        data, nodes, lits = S.gen_typed_data(rng, n_iri=rng.randint(2, 4), n_bn=rng.randint(0, 1), n_lit=1, n_triples=rng.randint(4, 10))
        iris = [x for x in nodes if isinstance(x, URIRef)]
        tn = rng.sample(iris, rng.randint(1, len(iris))) + ([Literal("lit")] if rng.random() < 0.5 else [])
        sg = rdflib.Graph().parse(data=TTL % {"nodes": ", ".join(x.n3() for x in tn)}, format="turtle")
        o = S.run_validate(data, sg)
        stats["bare_shape_cases"] += 1
        want = {EX.ByNode: set(tn), EX.ByClass: {r_[0] for r_ in data.query("SELECT DISTINCT ?x WHERE { ?x <http://www.w3.org/1999/02/22-rdf-syntax-ns#type>/<http://www.w3.org/2000/01/rdf-schema#subClassOf>* <http://ex.org/C0> }")}, EX.BySubjects: set(data.subjects(EX.p, None)), EX.ByObjects: set(data.objects(None, EX.p))}
        if o[0] != "ok":
            fails.append({"what": "validate() over shapes recognised only by their target declaration failed: %r" % (o[:3],), "shapes_ttl": TTL})
            continue
        for sh_, w in want.items():
            got = {r[0] for r in o[2] if r[3] == sh_}
            if got != w:
                fails.append({"what": "a shape that is a shape only by virtue of its target declaration (%s) validates other focus nodes than the declaration selects" % sh_.n3(),
                              "reported": sorted(x.n3() for x in got), "expected": sorted(x.n3() for x in w), "data_nt": sorted(" ".join(x.n3() for x in t) for t in data)})
                break
    return stats, fails, []


def main(tier, seed, replay=None):
    rng = F.rng_for(seed, PROP)
    cases = [gen_case(rng) for _ in range(350 if tier == "quick" else 6000)]
    extra = {}

    def meta_and_direct(cs, obs):
        bad = metamorphic(cs, obs)
        bodies, meta, failed, errors = direct_focus(cs, None, None)
        extra.update(n=len(bodies), failed=len(failed), errors=errors)
        for k in failed[:10]:
            ci, sid, fs = meta[k]
            bad.append((ci, "Shape.focus_nodes(%s) = %r differs from the target semantics (model focus_nodes, Props.C02)" % (sid.n3(), sorted(x.n3() for x in fs))))
        for e in errors[:1]:
            bad.append((0, "correspondence run of focus_nodes broke: %s" % e))
        return bad

    return EC.standard_main(
        PROP, ["Props/C02.v"], tier, seed, cases,
        rule="case = 1-4 shapes with 0-3 declarations of each of the five target kinds (implicit class targets through rdfs:Class, owl:Class and one- and two-step metaclasses; explicitly or implicitly typed shapes) x data with subclass chains, cycles, diamonds, literal and blank-node objects, absent target nodes; each shape carries sh:in () so sh:focusNode enumerates the focus set; validate() compared with the model end to end and Shape.focus_nodes compared with the model's focus_nodes directly; Tie A for closure.py: transitive_subjects / transitive_objects on random chains (up to 1500 long in the thorough tier), diamonds, cycles and random graphs = interpreter run of the generated programs (exact list, rdflib's neighbour order) = independent reachability = the same triples in 3 other insertion orders; shapes recognised only through one target declaration (untyped, a custom component as only constraint) x the four explicit target kinds; sparql_mode: Shape.focus_nodes_sparql = Shape.focus_nodes for every shape (rdflib's two listed engine defects corrected in-process)",
        what="focus nodes differ from the target semantics (model, Props.C02)",
        metamorphic=meta_and_direct, translators=["t4"],
        extra_checks=lambda: combine(CC.run(F.rng_for(seed, PROP + "/closure"), 120 if tier == "quick" else 1500, big=tier != "quick"),
                                     sparql_focus(cases, 200 if tier == "quick" else 2500),
                                     bare_shapes_family(F.rng_for(seed, PROP + "/bare"), 20 if tier == "quick" else 300)),
        extra_assumptions=["translator/t4.py (fail-closed translation of pyshacl/rdfutil/closure.py into the work-list language of coq/Closure/Worklist.v; rdflib's Graph.subjects / Graph.objects are taken to enumerate exactly the matching triples' terms, each once, in some order)"],
    )
