"""C17 - advanced-mode targets, functions and expression constraints follow their queries."""
import itertools
import warnings

import rdflib
from rdflib import BNode, Literal, URIRef
from rdflib.namespace import OWL, RDF, RDFS, XSD

from .. import enc, framework as F, shapes as S, evalcheck as EC
from ..enc import EX, SH

PROP = "C17"
PREAMBLE = ("From Coq Require Import List NArith ZArith Bool Arith String.\n"
            "From Verif Require Import Base.SetList Base.Terms Paths.Path Shapes.Advanced Shapes.AdvancedCheck.\n"
            "Import ListNotations.\nOpen Scope string_scope.\n")
PFX = """@prefix sh: <http://www.w3.org/ns/shacl#> . @prefix ex: <http://ex.org/> . @prefix xsd: <http://www.w3.org/2001/XMLSchema#> .
@prefix rdf: <http://www.w3.org/1999/02/22-rdf-syntax-ns#> . @prefix rdfs: <http://www.w3.org/2000/01/rdf-schema#> . @prefix owl: <http://www.w3.org/2002/07/owl#> .
ex:prefixes a owl:Ontology ; sh:declare [ sh:prefix "ex" ; sh:namespace "http://ex.org/"^^xsd:anyURI ] .
"""
NAMES = ["zeta", "alpha", "mid", "b2", "a10", "op", "x9", "Beta"]


# ------------------------------------------------------------------ generators
def gen_data(rng):
    g = rdflib.Graph()
    nodes = [EX["n%d" % i] for i in range(rng.randint(3, 5))] + [BNode("bn%d" % rng.randrange(1000))]
    for n in nodes:
        for p in (EX.n, EX.m):
            if rng.random() < 0.8:
                g.add((n, p, Literal(rng.choice([0, 1, 2, 3, 5, 8, 13]))))
            if rng.random() < 0.3:
                g.add((n, p, Literal(rng.choice([0, 4, 6, 21]))))   # a second value: node expressions yield sets
        if rng.random() < 0.5:
            g.add((n, EX.k, rng.choice(nodes)))
        if rng.random() < 0.6:
            g.add((n, RDF.type, EX.P))
    return g, nodes


def gen_function(rng, idx):
    k = rng.randint(1, 3)
    names = rng.sample(NAMES, k)
    mode = rng.choice(["all_ordered", "all_ordered", "none", "partial"]) if k > 1 else rng.choice(["all_ordered", "none"])
    orders = rng.sample([-1, 0, 1, 2, 5, 9], k)
    params = []
    for i, n in enumerate(names):
        o = orders[i] if mode == "all_ordered" or (mode == "partial" and i == 0) else None
        # an explicit `sh:optional false` says what its absence says (SHACL-AF 5.2.1: parameters are mandatory unless sh:optional is true)
        params.append({"name": n, "order": o, "optfalse": rng.random() < 0.45})
    kind = rng.choice(["arith", "arith", "ask_gt", "lookup", "lookup2"]) if k >= 2 else rng.choice(["arith", "lookup", "lookup2", "ask_has"])
    f = {"node": EX["fn%d" % idx], "params": params, "kind": kind}
    return f


def call_order(f):
    """SHACL-AF parameter order (an independent restatement): by sh:order when every parameter has one, else by local name"""
    ps = f["params"]
    if all(p["order"] is not None for p in ps):
        return sorted(ps, key=lambda p: p["order"])
    return sorted(ps, key=lambda p: p["name"])


def function_query(f):
    """the query text: written over the parameter NAMES, positional meaning given by the call order"""
    o = [p["name"] for p in call_order(f)]
    if f["kind"] == "arith":
        expr = " + ".join("($%s * %d)" % (n, 10 ** (len(o) - 1 - i)) for i, n in enumerate(o))
        return "select", "SELECT (%s AS ?result) WHERE { }" % expr
    if f["kind"] == "ask_gt":
        return "ask", "ASK { FILTER ($%s > $%s) }" % (o[0], o[1])
    if f["kind"] == "ask_has":
        return "ask", "ASK { $%s ex:n ?x }" % o[0]
    if f["kind"] == "lookup2":
        # two projected variables, the second one bound first (and the first one maybe not at all): the result is the FIRST projected one
        return "select", "SELECT ?r ?x WHERE { $%s ex:k ?x . OPTIONAL { ?x ex:k ?r } }" % o[0]
    return "select", "SELECT ?r WHERE { $%s ex:k ?r }" % o[0]


def function_ttl(f):
    kind, q = function_query(f)
    ps = " , ".join("[ sh:path ex:%s %s%s]" % (p["name"], ("; sh:order %d " % p["order"]) if p["order"] is not None else "", "; sh:optional false " if p.get("optfalse") else "") for p in f["params"])
    return "%s a sh:SPARQLFunction ; sh:parameter %s ; sh:prefixes ex:prefixes ; sh:%s \"%s\" .\n" % (f["node"].n3(), ps, kind, q)


def run_function_directly(g, f, args):
    """the declared query, run through rdflib with the call's arguments bound in SHACL-AF parameter order"""
    kind, q = function_query(f)
    binds = {p["name"]: a for p, a in zip(call_order(f), args)}
    res = g.query("PREFIX ex: <http://ex.org/>\n" + q, initBindings=binds)
    if kind == "ask":
        return Literal(bool(res.askAnswer))
    rows = list(res)
    if not rows or rows[0][0] is None:
        return None
    return rows[0][0]


# filter shapes of sh:filterShape expressions: (Turtle, independent Python predicate over (data graph, node))
FILTER_SHAPES = [
    ("[ sh:nodeKind sh:IRI ]", lambda g, n: isinstance(n, URIRef)),
    ("[ sh:nodeKind sh:Literal ]", lambda g, n: isinstance(n, Literal)),
    ("[ sh:class ex:P ]", lambda g, n: not isinstance(n, Literal) and (n, RDF.type, EX.P) in g),
    ("[ sh:property [ sh:path ex:n ; sh:minCount 1 ] ]", lambda g, n: not isinstance(n, Literal) and any(True for _ in g.objects(n, EX.n))),
    ("[ sh:not [ sh:property [ sh:path ex:k ; sh:minCount 1 ] ] ]", lambda g, n: isinstance(n, Literal) or not any(True for _ in g.objects(n, EX.k))),
]


def gen_expr(rng, fns, nodes, depth=1, rich=False):
    """node expression AST: ("this",) | ("const", term) | ("path", pred) | ("fn", f, [args]) |
    ("union", [e..]) | ("inter", [e..]) | ("filter", index into FILTER_SHAPES, e)"""
    r = rng.random()
    if depth <= 0 or r < 0.15:
        return rng.choice([("this",), ("const", Literal(rng.choice([0, 1, 4, 7]))), ("path", rng.choice([EX.n, EX.m, EX.k])), ("const", rng.choice([x for x in nodes if isinstance(x, URIRef)]))])
    if rich and r < 0.6:
        k = rng.choice(["union", "inter", "filter", "filter"])
        if k == "filter":
            return ("filter", rng.randrange(len(FILTER_SHAPES)), gen_expr(rng, fns, nodes, depth - 1, rich))
        return (k, [gen_expr(rng, fns, nodes, depth - 1, rich) for _ in range(rng.randint(1, 3))])
    f = rng.choice(fns)
    return ("fn", f, [gen_expr(rng, fns, nodes, depth - 1, rich) for _ in f["params"]])


def expr_ttl(e):
    if e[0] == "this":
        return "sh:this"
    if e[0] == "const":
        return e[1].n3()
    if e[0] == "path":
        return "[ sh:path %s ]" % e[1].n3()
    if e[0] == "union":
        return "[ sh:union ( %s ) ]" % " ".join(expr_ttl(a) for a in e[1])
    if e[0] == "inter":
        return "[ sh:intersection ( %s ) ]" % " ".join(expr_ttl(a) for a in e[1])
    if e[0] == "filter":
        return "[ sh:filterShape %s ; sh:nodes %s ]" % (FILTER_SHAPES[e[1]][0], expr_ttl(e[2]))
    return "[ %s ( %s ) ]" % (e[1]["node"].n3(), " ".join(expr_ttl(a) for a in e[2]))


def oracle_eval(g, e, a, table):
    """values of the node expression for focus a; fills the function table with every call that is made"""
    if e[0] == "this":
        return {a}
    if e[0] == "const":
        return {e[1]}
    if e[0] == "path":
        return set(g.objects(a, e[1]))
    if e[0] == "union":
        out = set()
        for x in e[1]:
            out |= oracle_eval(g, x, a, table)
        return out
    if e[0] == "inter":
        sets = [oracle_eval(g, x, a, table) for x in e[1]]
        out = set(sets[0]) if sets else set()
        for s_ in sets[1:]:
            out &= s_
        return out
    if e[0] == "filter":
        vals = oracle_eval(g, e[2], a, table)
        keep = set()
        for n in vals:
            ok = bool(FILTER_SHAPES[e[1]][1](g, n))
            table[(EX["filtershape%d" % e[1]], (n,))] = Literal(True) if ok else None
            if ok:
                keep.add(n)
        return keep
    sets = [oracle_eval(g, x, a, table) for x in e[2]]
    if any(len(s) == 0 for s in sets):
        return set()
    out = set()
    for tup in itertools.product(*[sorted(s, key=lambda t: t.n3()) for s in sets]):
        try:
            r = run_function_directly(g, e[1], tup)
        except Exception:
            r = None
        table[(e[1]["node"], tup)] = r
        if r is not None:
            out.add(r)
    return out


def expr_coq(I, e):
    if e[0] == "this":
        return "NThis"
    if e[0] == "const":
        return "NConst (%s)" % I.term(e[1])
    if e[0] == "path":
        return "NPath (PPred %d)" % I.iri_num(str(e[1]))
    if e[0] == "union":
        return "NUnion [%s]" % "; ".join("(%s)" % expr_coq(I, a) for a in e[1])
    if e[0] == "inter":
        return "NInter [%s]" % "; ".join("(%s)" % expr_coq(I, a) for a in e[1])
    if e[0] == "filter":
        return "NFilter %d (%s)" % (I.iri_num(str(EX["filtershape%d" % e[1]])), expr_coq(I, e[2]))
    return "NFunc %d [%s]" % (I.iri_num(str(e[1]["node"])), "; ".join("(%s)" % expr_coq(I, a) for a in e[2]))


def table_coq(I, table):
    return "[%s]" % "; ".join("(%d%%N, %s, %s)" % (I.iri_num(str(fn)), I.terms(list(tup)), "None" if r is None else "Some (%s)" % I.term(r)) for (fn, tup), r in table.items())


TARGET_SELECTS = ["SELECT ?this WHERE { ?this ex:n ?v . FILTER (?v > 2) }", "SELECT ?this WHERE { ?x ex:k ?this }", "SELECT DISTINCT ?this WHERE { ?this a ex:P ; ex:m ?v }",
                  "SELECT ?this WHERE { ?this ex:nosuch ?v }"]


def results_of(o):
    return sorted((r[0].n3(), r[1].n3() if r[1] is not None else None, str(r[2]).rsplit("#")[-1], r[3].n3()) for r in o[2]) if o[0] == "ok" else o[:2]


def main(tier, seed, replay=None):
    warnings.simplefilter("ignore")
    import pyshacl
    from pyshacl.shapes_graph import ShapesGraph
    from pyshacl.functions import gather_functions
    rep = F.Report(PROP, tier, seed)
    ob = F.coq_build(["Props/C17.v"], extra=["Shapes/AdvancedCheck.v"])
    rng = F.rng_for(seed, PROP)
    big = tier == "thorough"
    n = 900 if big else 110
    bodies, meta, diffs = [], [], []
    stats = {"functions": 0, "param_modes": {}, "expression_cases": 0, "target_cases": 0, "sparql_call_cases": 0, "rule_call_cases": 0, "advanced_off_cases": 0, "reported": 0}
    for j in range(n):
        data, nodes = gen_data(rng)
        fns = [gen_function(rng, i) for i in range(rng.randint(1, 3))]
        fn_ttl = "".join(function_ttl(f) for f in fns)
        I = enc.Interner()
        kindsel = rng.random()
        # ---- (a) parameter order as the real loader sees it
        sg0 = rdflib.Graph().parse(data=PFX + fn_ttl, format="turtle")
        try:
            class _Ex:  # gather_functions only reads the shapes graph
                pass
            real = {str(fo.node): [p.localname for p in fo.get_params_in_order()] for fo in gather_functions(_Ex(), ShapesGraph(sg0))}
        except Exception as e:
            diffs.append({"what": "gather_functions raised %s: %s" % (type(e).__name__, str(e)[:200]), "shapes_ttl": PFX + fn_ttl})
            continue
        for f in fns:
            stats["functions"] += 1
            mode = "all sh:order" if all(p["order"] is not None for p in f["params"]) else ("no sh:order" if all(p["order"] is None for p in f["params"]) else "some sh:order")
            stats["param_modes"][mode] = stats["param_modes"].get(mode, 0) + 1
            ps = "[%s]" % "; ".join('{| p_name := "%s"; p_order := %s; p_optional := false |}' % (p["name"], "None" if p["order"] is None else "Some (%d)%%Z" % p["order"]) for p in f["params"])
            bodies.append("check_param_order %s [%s]" % (ps, "; ".join('"%s"' % x for x in real[str(f["node"])])))
            meta.append({"kind": "parameter order", "function": function_ttl(f), "real_order": real[str(f["node"])]})
        if kindsel < 0.45:
            # ---- (b) sh:expression
            rich = rng.random() < 0.4
            e = gen_expr(rng, fns, nodes, depth=rng.choice([1, 1, 2]) + (1 if rich else 0), rich=rich)
            stats["expressions_with_union_intersection_filter"] = stats.get("expressions_with_union_intersection_filter", 0) + (1 if rich else 0)
            if not rich and rng.random() < 0.35:
                # a comparison over a possibly multi-valued path: the value set may be {true}, {false}, {true, false} or empty
                gt = {"node": EX.gtfn, "params": [{"name": "lhs", "order": 1}, {"name": "rhs", "order": 2}], "kind": "ask_gt"}
                if not any(f_["node"] == EX.gtfn for f_ in fns):
                    fns.append(gt)
                    fn_ttl += function_ttl(gt)
                e = ("fn", gt, [("path", rng.choice([EX.n, EX.m])), ("const", Literal(rng.choice([0, 2, 4])))])
            if not rich and e[0] != "fn" and rng.random() < 0.7:
                e = ("fn", fns[0], [e] + [("const", Literal(3))] * (len(fns[0]["params"]) - 1))
            foci = rng.sample(nodes, rng.randint(1, len(nodes)))
            ttl = PFX + fn_ttl + "ex:S a sh:NodeShape ; sh:expression %s .\n" % expr_ttl(e)
            sg = rdflib.Graph().parse(data=ttl, format="turtle")
            for fnode in foci:
                sg.add((EX.S, SH.targetNode, fnode))
            o = S.run_validate(data, sg, advanced=True)
            stats["expression_cases"] += 1
            table = {}
            expected = sorted((f_ for f_ in foci if oracle_eval(data, e, f_, table) != {Literal(True)}), key=lambda t: t.n3())
            if o[0] != "ok":
                diffs.append({"what": "validate(advanced=True) with sh:expression failed: %r" % (o[:3],), "shapes_ttl": ttl, "data": sorted(data.serialize(format="nt").split("\n"))})
                continue
            got = sorted({r[0] for r in o[2] if str(r[2]).endswith("ExpressionConstraintComponent")}, key=lambda t: t.n3())
            stats["reported"] += len(got)
            if got != expected:
                diffs.append({"what": "sh:expression reports other nodes than direct evaluation of the declared queries", "shapes_ttl": ttl, "data": sorted(data.serialize(format="nt").split("\n")),
                              "reported": [x.n3() for x in got], "expected": [x.n3() for x in expected]})
            bodies.append("check_expression %s %s (%s) (%s) %s %s" % (table_coq(I, table), I.graph(data), I.term(Literal(True)), expr_coq(I, e), I.terms(foci), I.terms(got)))
            meta.append({"kind": "expression", "shapes_ttl": ttl, "reported": [x.n3() for x in got]})
            if rng.random() < 0.5:
                # several sh:expression values on one shape are several constraints: next to an expression that always holds (the constant
                # true) the other one reports what it reports alone, the verdict follows the results, and a shape that consults this one
                # through sh:not sees the same conformance
                ttl2 = PFX + fn_ttl + "ex:S a sh:NodeShape ; sh:expression %s , true .\nex:N a sh:NodeShape ; sh:not ex:S .\n" % expr_ttl(e)
                sg2 = rdflib.Graph().parse(data=ttl2, format="turtle")
                for fnode in foci:
                    sg2.add((EX.S, SH.targetNode, fnode))
                    sg2.add((EX.N, SH.targetNode, fnode))
                o2 = S.run_validate(data, sg2, advanced=True)
                stats["two_expression_cases"] = stats.get("two_expression_cases", 0) + 1
                if o2[0] == "ok":
                    got2 = sorted({r[0] for r in o2[2] if str(r[2]).endswith("ExpressionConstraintComponent")}, key=lambda t: t.n3())
                    nots = sorted({r[0] for r in o2[2] if str(r[2]).endswith("NotConstraintComponent")}, key=lambda t: t.n3())
                    want_not = sorted((f_ for f_ in foci if f_ not in expected), key=lambda t: t.n3())
                    if got2 != expected or nots != want_not or o2[1] != (not o2[2]):
                        diffs.append({"what": "a shape with two sh:expression values (one of them the constant true): reported nodes, the verdict or the conformance seen by sh:not differ from those of the other expression alone",
                                      "shapes_ttl": ttl2, "data": sorted(data.serialize(format="nt").split("\n")), "reported": [x.n3() for x in got2], "expected": [x.n3() for x in expected],
                                      "sh_not_reports": [x.n3() for x in nots], "sh_not_expected": [x.n3() for x in want_not], "conforms": o2[1]})
                else:
                    diffs.append({"what": "validate(advanced=True) with two sh:expression values failed: %r" % (o2[:3],), "shapes_ttl": ttl2})
            off = S.run_validate(data, sg)
            stats["advanced_off_cases"] += 1
            if off[0] != "ok" or any(str(r[2]).endswith("ExpressionConstraintComponent") for r in off[2]):
                diffs.append({"what": "advanced=False still evaluates sh:expression", "shapes_ttl": ttl})
            if rich:
                # the value set itself, observed through a TripleRule whose object is the expression
                ttl_r = PFX + fn_ttl + "ex:S a sh:NodeShape ; sh:rule [ a sh:TripleRule ; sh:subject sh:this ; sh:predicate ex:derived ; sh:object %s ] .\n" % expr_ttl(e)
                sgr = rdflib.Graph().parse(data=ttl_r, format="turtle")
                for fnode in foci:
                    sgr.add((EX.S, SH.targetNode, fnode))
                try:
                    outg = pyshacl.shacl_rules(data, shacl_graph=sgr)
                    err_ = None
                except Exception as ex_:
                    outg, err_ = None, "%s: %s" % (type(ex_).__name__, str(ex_)[:200])
                stats["expression_value_set_cases"] = stats.get("expression_value_set_cases", 0) + 1
                if err_:
                    diffs.append({"what": "shacl_rules() with a union/intersection/filterShape object expression failed: " + err_, "shapes_ttl": ttl_r, "data": sorted(data.serialize(format="nt").split("\n"))})
                else:
                    for fnode in foci:
                        tb = {}
                        want = oracle_eval(data, e, fnode, tb)
                        got_set = set(outg.objects(fnode, EX.derived))
                        if got_set != want:
                            diffs.append({"what": "the values of a union/intersection/filterShape node expression (derived by a TripleRule) differ from its definition", "shapes_ttl": ttl_r,
                                          "data": sorted(data.serialize(format="nt").split("\n")), "focus": fnode.n3(), "derived": sorted(x.n3() for x in got_set), "expected": sorted(x.n3() for x in want)})
                            break
                        bodies.append("check_nexpr %s %s (%s) (%s) %s" % (table_coq(I, tb), I.graph(data), expr_coq(I, e), I.term(fnode), I.terms(sorted(got_set, key=lambda t: t.n3()))))
                        meta.append({"kind": "expression value set", "shapes_ttl": ttl_r, "focus": fnode.n3()})
            # the same expression on a PROPERTY shape: it is evaluated for each value node (sh:this = the value node)
            vpath = rng.choice([EX.k, EX.k, EX.n, EX.m])
            ttl_p = PFX + fn_ttl + "ex:S a sh:PropertyShape ; sh:path %s ; sh:expression %s .\n" % (vpath.n3(), expr_ttl(e))
            sgp = rdflib.Graph().parse(data=ttl_p, format="turtle")
            for fnode in foci:
                sgp.add((EX.S, SH.targetNode, fnode))
            op_ = S.run_validate(data, sgp, advanced=True)
            stats["expression_on_property_shape_cases"] = stats.get("expression_on_property_shape_cases", 0) + 1
            table_p = {}
            vals = sorted({v_ for f_ in foci for v_ in data.objects(f_, vpath)}, key=lambda t: t.n3())
            bad_vals = {v_ for v_ in vals if oracle_eval(data, e, v_, table_p) != {Literal(True)}}
            exp_pairs = sorted((f_.n3(), v_.n3()) for f_ in foci for v_ in data.objects(f_, vpath) if v_ in bad_vals)
            if op_[0] != "ok":
                diffs.append({"what": "validate(advanced=True) with sh:expression on a property shape failed: %r" % (op_[:3],), "shapes_ttl": ttl_p, "data": sorted(data.serialize(format="nt").split("\n"))})
            else:
                got_pairs = sorted({(r[0].n3(), r[1].n3() if r[1] is not None else None) for r in op_[2] if str(r[2]).endswith("ExpressionConstraintComponent")})
                stats["reported"] += len(got_pairs)
                if got_pairs != exp_pairs:
                    diffs.append({"what": "sh:expression on a property shape reports other (focus, value) pairs than direct evaluation of the declared queries for each value node",
                                  "shapes_ttl": ttl_p, "data": sorted(data.serialize(format="nt").split("\n")), "reported": got_pairs, "expected": exp_pairs})
                got_vals = sorted({r[1] for r in op_[2] if str(r[2]).endswith("ExpressionConstraintComponent") and r[1] is not None}, key=lambda t: t.n3())
                bodies.append("check_expression %s %s (%s) (%s) %s %s" % (table_coq(I, table_p), I.graph(data), I.term(Literal(True)), expr_coq(I, e), I.terms(vals), I.terms(got_vals)))
                meta.append({"kind": "expression on a property shape", "shapes_ttl": ttl_p, "reported": [x.n3() for x in got_vals]})
        elif kindsel < 0.7:
            # ---- (c) custom targets
            sels = rng.sample(TARGET_SELECTS, rng.randint(1, 2))
            use_type = rng.random() < 0.55
            ttl = PFX + "ex:S a sh:NodeShape ; sh:nodeKind sh:Literal "
            tsols = []
            if use_type:
                # one or two declarations of the same parameterised target type, with different parameter values
                for lim in rng.sample([0, 2, 5, 9], rng.choice([1, 2, 2])):
                    ttl += "; sh:target [ a ex:BigN ; ex:limit %d ] " % lim
                    tsols.append([r[0] for r in data.query("PREFIX ex: <http://ex.org/> SELECT ?this WHERE { ?this ex:n ?v . FILTER (?v > $limit) }", initBindings={"limit": Literal(lim)})])
                if rng.random() < 0.4:
                    # and a second parameterised type (selects by another property)
                    lim2 = rng.choice([1, 4])
                    ttl += "; sh:target [ a ex:BigM ; ex:limit %d ] " % lim2
                    tsols.append([r[0] for r in data.query("PREFIX ex: <http://ex.org/> SELECT ?this WHERE { ?this ex:m ?v . FILTER (?v > $limit) }", initBindings={"limit": Literal(lim2)})])
            for sq in sels:
                ttl += "; sh:target [ a sh:SPARQLTarget ; sh:prefixes ex:prefixes ; sh:select \"%s\" ] " % sq
                tsols.append([r[0] for r in data.query("PREFIX ex: <http://ex.org/> " + sq)])
            core = rng.sample(nodes, rng.randint(0, 2))
            ttl += ".\n" + "".join("ex:S sh:targetNode %s .\n" % c.n3() for c in core if isinstance(c, URIRef))
            core = [c for c in core if isinstance(c, URIRef)]
            if use_type:
                ttl += "ex:BigN a sh:SPARQLTargetType ; rdfs:subClassOf sh:Target ; sh:parameter [ sh:path ex:limit ] ; sh:prefixes ex:prefixes ; sh:select \"SELECT ?this WHERE { ?this ex:n ?v . FILTER (?v > $limit) }\" .\n"
                ttl += "ex:BigM a sh:SPARQLTargetType ; rdfs:subClassOf sh:Target ; sh:parameter [ sh:path ex:limit ] ; sh:prefixes ex:prefixes ; sh:select \"SELECT ?this WHERE { ?this ex:m ?v . FILTER (?v > $limit) }\" .\n"
            sg = rdflib.Graph().parse(data=ttl, format="turtle")
            o = S.run_validate(data, sg, advanced=True)
            off = S.run_validate(data, sg)
            stats["target_cases"] += 1
            stats["advanced_off_cases"] += 1
            if o[0] != "ok" or off[0] != "ok":
                diffs.append({"what": "validate with custom targets failed: %r / %r" % (o[:3], off[:3]), "shapes_ttl": ttl})
                continue
            # sh:nodeKind sh:Literal fails for every IRI / blank node focus: the reported focus nodes are the focus set (literals pass silently)
            got = sorted({r[0] for r in o[2]}, key=lambda t: t.n3())
            got_off = sorted({r[0] for r in off[2]}, key=lambda t: t.n3())
            nonlit = lambda l: [x for x in l if not isinstance(x, Literal)]
            expected = sorted(set(core) | {x for s_ in tsols for x in nonlit(s_)}, key=lambda t: t.n3())
            stats["reported"] += len(got)
            if got != expected or got_off != sorted(core, key=lambda t: t.n3()):
                diffs.append({"what": "focus nodes with custom targets differ from core targets + ?this solutions of the declared queries (advanced on) or from core targets (advanced off)",
                              "shapes_ttl": ttl, "data": sorted(data.serialize(format="nt").split("\n")), "advanced": [x.n3() for x in got], "expected": [x.n3() for x in expected], "advanced_off": [x.n3() for x in got_off]})
            bodies.append("check_adv_focus %s [%s] %s" % (I.terms(core), "; ".join(I.terms(nonlit(s_)) for s_ in tsols), I.terms(got)))
            meta.append({"kind": "targets", "shapes_ttl": ttl})
        else:
            # ---- (d) a function called from a SPARQL constraint and from a rule's node expression
            f = rng.choice([x for x in fns if x["kind"] == "arith"] or [None])
            if f is None:
                continue
            k = len(f["params"])
            argpreds = [EX.n, EX.m, EX.n][:k]
            limit = rng.choice([5, 20, 60])
            varz = ["?a", "?b", "?c"][:k]
            extra_where = ""
            if rng.random() < 0.5:
                # the calling query happens to use variables named like the function's parameters, for OTHER values: the call's
                # arguments are what the function gets, not the caller's variables of the same name
                pn = ["?" + p_["name"] for p_ in call_order(f)]
                if k >= 2:
                    varz = pn[1:] + pn[:1]
                else:
                    extra_where = " . $this %s %s" % (EX.m.n3(), pn[0])
            where = " ; ".join("%s %s" % (p.n3(), v) for p, v in zip(argpreds, varz)) + extra_where
            q = "SELECT $this ?value WHERE { $this %s . BIND (%s(%s) AS ?value) FILTER (?value > %d) }" % (where, f["node"].n3(), ", ".join(varz), limit)
            ttl = PFX + fn_ttl + "ex:S a sh:NodeShape ; sh:targetClass ex:P ; sh:sparql [ sh:prefixes ex:prefixes ; sh:select \"%s\" ] ;\n" % q
            ttl += " sh:rule [ a sh:TripleRule ; sh:subject sh:this ; sh:predicate ex:computed ; sh:object [ %s ( %s ) ] ] .\n" % (f["node"].n3(), " ".join("[ sh:path %s ]" % p.n3() for p in argpreds))
            sg = rdflib.Graph().parse(data=ttl, format="turtle")
            o = S.run_validate(data, sg, advanced=True)
            stats["sparql_call_cases"] += 1
            expected = set()
            computed = set()
            for x in data.subjects(RDF.type, EX.P):
                for tup in itertools.product(*[sorted(data.objects(x, p), key=lambda t: t.n3()) for p in argpreds]):
                    r = run_function_directly(data, f, tup)
                    if r is not None:
                        computed.add((x, EX.computed, r))
                        # the extra pattern `$this ex:m ?param` of the colliding-names variant only asks for SOME ex:m value
                        if r.value > limit and (not extra_where or (x, EX.m, None) in data):
                            expected.add((x.n3(), r.n3()))
            if o[0] != "ok":
                diffs.append({"what": "validate(advanced=True) with a function call in sh:sparql failed: %r" % (o[:3],), "shapes_ttl": ttl})
                continue
            got = {(r[0].n3(), r[1].n3() if r[1] is not None else None) for r in o[2] if str(r[2]).endswith("SPARQLConstraintComponent")}
            stats["reported"] += len(got)
            if got != expected:
                diffs.append({"what": "a function called from sh:sparql does not return what its declared query returns for the arguments in SHACL-AF parameter order",
                              "shapes_ttl": ttl, "data": sorted(data.serialize(format="nt").split("\n")), "reported": sorted(map(str, got)), "expected": sorted(map(str, expected))})
            try:
                out = pyshacl.shacl_rules(data, shacl_graph=sg)
                got_tr = {t for t in out if t[1] == EX.computed}
                stats["rule_call_cases"] += 1
                if got_tr != computed:
                    diffs.append({"what": "a function called from a rule's node expression does not return what its declared query returns", "shapes_ttl": ttl,
                                  "data": sorted(data.serialize(format="nt").split("\n")), "derived": sorted(" ".join(x.n3() for x in t) for t in got_tr), "expected": sorted(" ".join(x.n3() for x in t) for t in computed)})
            except Exception as e:
                diffs.append({"what": "shacl_rules() with a function call raised %s: %s" % (type(e).__name__, str(e)[:150]), "shapes_ttl": ttl})
            off = S.run_validate(data, sg)
            stats["advanced_off_cases"] += 1
            if off[0] == "ok" and any(str(r[2]).endswith("SPARQLConstraintComponent") for r in off[2]):
                diffs.append({"what": "advanced=False: the function is still registered (the sh:sparql constraint that calls it reports results)", "shapes_ttl": ttl})
    # functions whose SELECT projects two variables, the second one bound first by the pattern and the first one possibly unbound: the
    # result is the value of the FIRST projected variable of the (here unique) solution, or nothing
    for j in range(120 if tier == "thorough" else 14):
        data = rdflib.Graph()
        ns_ = [EX["pn%d" % i] for i in range(rng.randint(3, 6))]
        for x in ns_:
            data.add((x, RDF.type, EX.P))
            if rng.random() < 0.75:
                data.add((x, EX.k, rng.choice(ns_ + [Literal(7)])))     # at most one ex:k value each: one solution at most
        f = {"node": EX["fnp%d" % j], "params": [{"name": rng.choice(["alpha", "node", "x1"]), "order": rng.choice([None, 3]), "optfalse": j % 2 == 1}], "kind": "lookup2"}
        ttl = PFX + function_ttl(f) + ("ex:S a sh:NodeShape ; sh:targetClass ex:P ; sh:rule [ a sh:TripleRule ; sh:subject sh:this ; sh:predicate ex:computed ; sh:object [ %s ( sh:this ) ] ] ;\n"
                                        " sh:sparql [ sh:prefixes ex:prefixes ; sh:select \"SELECT $this ?value WHERE { BIND (%s($this) AS ?value) FILTER (bound(?value)) }\" ] .\n" % (f["node"].n3(), f["node"].n3()))
        sg = rdflib.Graph().parse(data=ttl, format="turtle")
        want = {}
        for x in ns_:
            r_ = run_function_directly(data, f, (x,))
            if r_ is not None:
                want[x] = r_
        stats["projection_order_cases"] = stats.get("projection_order_cases", 0) + 1
        try:
            out = pyshacl.shacl_rules(data, shacl_graph=sg)
            got_tr = {(t[0], t[2]) for t in out if t[1] == EX.computed}
        except Exception as e:
            diffs.append({"what": "shacl_rules() with a two-variable function raised %s: %s" % (type(e).__name__, str(e)[:150]), "shapes_ttl": ttl})
            continue
        o = S.run_validate(data, sg, advanced=True)
        got_sp = {(r[0], r[1]) for r in o[2] if str(r[2]).endswith("SPARQLConstraintComponent")} if o[0] == "ok" else o[:2]
        if got_tr != set(want.items()) or got_sp != set(want.items()):
            diffs.append({"what": "a function whose SELECT projects two variables does not return the value of the first projected variable of its solution (or nothing when that one is unbound)",
                          "shapes_ttl": ttl, "data": sorted(data.serialize(format="nt").split("\n")), "from_rule": sorted("%s %s" % (a.n3(), b.n3()) for a, b in got_tr),
                          "from_sparql_constraint": sorted(map(str, got_sp)) if isinstance(got_sp, set) else list(got_sp), "expected": sorted("%s %s" % (a.n3(), b.n3()) for a, b in want.items())})
    failed, errors = F.coq_eval("c17", PREAMBLE, bodies, shard=80) if ob.ok else ([], ["coq build broken"])
    for d in diffs[:8]:
        rep.violation(d)
    for k in failed[:6]:
        dd = dict(meta[k])
        dd["what"] = "the real code differs from the model of advanced mode (%s)" % dd["kind"]
        rep.violation(dd)
    if (not ob.ok or errors) and not rep.violations:
        rep.violation({"obligation": ob.broken or errors, "detail": ob.log[-1500:]}, no_input=True)
    cov = F.proof_coverage(ob, [
        "SPARQL evaluation is rdflib's: ?this solutions of targets and function results are data computed by the harness by running the declared queries directly with the arguments bound in SHACL-AF parameter order (an independent restatement of that order in harness/props/c17.py)",
        "function calls inside SPARQL text (sh:sparql, CONSTRUCT rules) are checked differentially only; the model covers node expressions, parameter order, expression constraints and the focus set",
    ])
    cov.update({
        "evaluations": len(bodies) + stats["expression_cases"] + stats["target_cases"] + 2 * stats["sparql_call_cases"] + stats["advanced_off_cases"],
        "distinct_nontrivial": stats["expression_cases"] + stats["target_cases"] + stats["sparql_call_cases"],
        "rule": "case = 1-3 SPARQL functions (1-3 parameters named so that name order and sh:order disagree; all / none / some with sh:order; SELECT arithmetic that is not commutative in its parameters, ASK comparisons, look-ups that may have no solution) + one of: "
                "(b) sh:expression over sh:this / constants / paths / nested function calls / sh:union / sh:intersection / sh:filterShape on IRI and blank-node focus nodes, on node shapes and on property shapes (evaluated per value node): reported nodes = direct evaluation and = Coq model with the function table; "
                "(c) sh:target with SPARQLTarget(s) and a parameterised SPARQLTargetType: reported focus nodes = core targets + ?this solutions (advanced on), = core targets (advanced off), = model; "
                "(d) the function called from a sh:sparql constraint and from a TripleRule object expression: results / derived triples = the declared query run directly; advanced=False ignores functions, rules, targets and expressions; "
                "(a) for every function the loader's parameter order = model",
        "distribution": dict(stats, model_cases=len(bodies), model_disagreements=len(failed), differences=len(diffs)),
        "samples": meta[:1],
        "exhaustive": False,
    })
    rep.coverage = cov
    rep.assumptions = ["parameters with sh:optional true and JS functions are not generated (an explicit `sh:optional false` is, on 45 % of the parameters); conformance to a sh:filterShape is an oracle row (computed by an independent Python predicate per filter shape)"]
    return rep.finish()
