"""C20 - the report does not depend on how the graphs are handed over."""
import io
import os
import shutil
import tempfile
import warnings

import rdflib
from rdflib import BNode, Literal, URIRef
from rdflib.namespace import RDF, RDFS, XSD

from .. import enc, framework as F, shapes as S, evalcheck as EC
from ..enc import EX, SH

PROP = "C20"
PREAMBLE = ("From Coq Require Import String Ascii List Bool Arith.\nFrom Verif Require Import Load.Source.\nImport ListNotations.\nOpen Scope string_scope.\n")
FMT = {"turtle": "FTurtle", "nt": "FNt", "n3": "FN3", "json-ld": "FJsonLd", "nquads": "FNquads", "trig": "FTrig", "xml": "FXml", "hext": "FHext"}


def coq_string(s):
    """a Gallina string term for an ASCII python string (line breaks via the constant nl)"""
    parts = s.split("\n")
    lit = lambda t: '"%s"' % t.replace('"', '""')
    out = lit(parts[0])
    for p in parts[1:]:
        out = '(%s ++ String nl %s)' % (out, lit(p))
    return out


class Probe:
    """observes what load_from_source decides, without reading files that do not exist and without parsing"""

    class Opened(Exception):
        pass

    def __enter__(self):
        import pyshacl.rdfutil.load as L
        self.L = L
        self.format = "unset"
        self.opened = None
        probe = self
        self.orig_parse = rdflib.Graph.parse

        def parse(g, source=None, format=None, **kw):
            probe.format = format
            return g
        rdflib.Graph.parse = parse

        def fake_open(name, mode="r", *a, **k):
            probe.opened = name
            if os.path.exists(name):
                return open(name, mode, *a, **k)
            raise Probe.Opened(name)
        L.open = fake_open
        return self

    def __exit__(self, *exc):
        rdflib.Graph.parse = self.orig_parse
        del self.L.open
        return False


class Hang(Exception):
    pass


def observe(source, rdf_format=None):
    import signal
    from pyshacl.rdfutil.load import load_from_source

    def on_alarm(signum, frame):
        raise Hang()
    old = signal.signal(signal.SIGALRM, on_alarm)
    signal.alarm(5)   # the loader must answer: a probe that runs for 5 s is reported as a hang
    try:
        return _observe(source, rdf_format)
    except Hang:
        return "RAW:Hang(no answer within 5 s)", "unset"
    finally:
        signal.alarm(0)
        signal.signal(signal.SIGALRM, old)


def _observe(source, rdf_format=None):
    from pyshacl.rdfutil.load import load_from_source
    with Probe() as p:
        try:
            load_from_source(source, rdf_format=rdf_format)
            kind = "KFile" if p.opened else "KData"
        except Probe.Opened:
            kind = "KFile"
        except (ValueError, IndexError) as e:
            kind = "KError"
        except RuntimeError as e:
            # the sniffer's refusal of HTML happens after the source was classified as data
            kind = "KData" if "HTML" in str(e) else "RAW:RuntimeError"
        except Exception as e:
            kind = "RAW:" + type(e).__name__
        return kind, p.format


def small_graph(rng):
    g = rdflib.Graph()
    g.bind("ex", EX)
    nodes = [EX["n%d" % i] for i in range(3)] + [BNode("b%d" % rng.randrange(99))]
    for _ in range(rng.randint(1, 6)):
        o = rng.choice(nodes + [Literal("a b"), Literal(5), Literal("x", lang="en"), Literal(True)])
        g.add((rng.choice(nodes), rng.choice([EX.p, EX.q, RDF.type]), o))
    return g


def text_variants(rng, g):
    """serialisations and perturbed headers (all ASCII)"""
    out = []
    ttl = g.serialize(format="turtle")
    nt = g.serialize(format="nt")
    xml = g.serialize(format="xml")
    jl = g.serialize(format="json-ld")
    out += [("turtle", ttl), ("nt", nt), ("xml", xml), ("json-ld", jl)]
    out.append(("turtle", ttl.replace("@prefix ex: <http://ex.org/> .", "PREFIX ex: <http://ex.org/>")))
    out.append(("turtle", "# baseURI: http://ex.org/base/\n" + ttl))
    out.append(("turtle", "\n\n   \t" + ttl))
    out.append(("turtle", "@PREFIX sh: <http://www.w3.org/ns/shacl#> .\n" + ttl) if False else ("turtle", "BASE <http://ex.org/>\n" + ttl))
    out.append(("turtle", "PREFIX longprefixname: <http://www.example.org/a/rather/long/namespace#>\n" + ttl))
    out.append(("nt", "\n".join(sorted(nt.strip().split("\n"), key=lambda l: 0 if l.startswith("_:") else 1)) + "\n"))
    out.append(("xml", "  \n" + xml))
    out.append(("none", ""))
    out.append(("none", "   \n\n"))
    out.append(("none", "<!DOCTYPE html><html></html>"))
    return [(f, t) for f, t in out if all(ord(ch) < 128 for ch in t)]


def classification_cases(rng, n):
    bodies, meta = [], []
    names = ["data.ttl", "/tmp/no/such/file.ttl", "./rel/path.nt", "file:///tmp/no/such.ttl", "shapes", "x" * 150, "ex:a ex:p ex:b .",
             "_:b0 <http://ex.org/p> <http://ex.org/o> .", "C:\\data\\x.ttl", "stdin-like-name", "a" * 139, "a" * 140]
    for nm in names:
        for as_bytes in (False, True):
            if as_bytes and nm.startswith("file:"):
                continue
            kind, fmt = observe(nm.encode() if as_bytes else nm)
            if nm.startswith("file:") and kind == "KFile":
                kind = "KFileUri"   # a file: reference ends in open() as well
            fn = "classify_bytes" if as_bytes else "classify_str"
            bodies.append("kind_eqb (%s %s) %s" % (fn, coq_string(nm), kind if not kind.startswith("RAW") else "KData"))
            meta.append({"kind": "classification", "source": nm, "bytes": as_bytes, "observed": kind, "model": "%s %s" % (fn, coq_string(nm))})
    for j in range(n):
        g = small_graph(rng)
        for f, text in text_variants(rng, g):
            for as_bytes in (False, True):
                kind, fmt = observe(text.encode() if as_bytes else text)
                fn = "classify_bytes" if as_bytes else "classify_str"
                if kind.startswith("RAW"):
                    bodies.append("false")
                else:
                    bodies.append("kind_eqb (%s %s) %s" % (fn, coq_string(text), kind))
                meta.append({"kind": "classification", "source": text[:300], "bytes": as_bytes, "observed": kind, "model": "%s %s" % (fn, coq_string(text))})
            # the sniffer, through an open stream without a name
            if text.strip().lower().startswith("<!doctype html"):
                exp = "SHtml"
                try:
                    from pyshacl.rdfutil.load import load_from_source
                    with Probe():
                        load_from_source(io.BytesIO(text.encode()))
                    seen = "no error"
                except RuntimeError:
                    seen = "SHtml"
                bodies.append("sniffed_eqb (sniff %s) %s" % (coq_string(text), "SHtml" if seen == "SHtml" else "(SFormat None)"))
                meta.append({"kind": "sniff", "source": text[:300], "observed": seen, "model": "sniff %s" % coq_string(text)})
                continue
            kind, fmt = observe(io.BytesIO(text.encode()))
            obs = "SFormat None" if fmt in (None, "unset") else "SFormat (Some %s)" % FMT[fmt]
            if kind.startswith("RAW"):
                obs = "SHtml"   # never equal to the model's answer here: the probe failed (hang or raw exception)
            bodies.append("sniffed_eqb (sniff %s) (%s)" % (coq_string(text), obs))
            meta.append({"kind": "sniff", "source": text[:300], "observed": fmt, "model": "sniff %s" % coq_string(text)})
    for ext in (".ttl", ".nt", ".n3", ".json", ".nq", ".nquads", ".trig", ".xml", ".rdf", ".hext", ".txt", ""):
        nm = "/tmp/no/such/dir/file" + ext
        from pyshacl.rdfutil.load import load_from_source
        # the extension table is applied before the file is opened: observe through a real temp file
        d = tempfile.mkdtemp(prefix="c20_", dir="/var/tmp")
        try:
            path = os.path.join(d, "file" + ext)
            open(path, "w").write("")
            kind, fmt = observe(path)
        finally:
            shutil.rmtree(d, ignore_errors=True)
        obs = "None" if fmt in (None, "unset") else "Some %s" % FMT[fmt]
        bodies.append("ofmt_eqb (ext_format %s) (%s)" % (coq_string("file" + ext), obs))
        meta.append({"kind": "extension", "source": "file" + ext, "observed": fmt, "model": "ext_format %s" % coq_string("file" + ext)})
    return bodies, meta


# ------------------------------------------------------------------ the property: every way of handing a graph over
def canonical(g):
    """graphs of the property's domain: literals in canonical lexical form"""
    for s, p, o in g:
        if isinstance(o, Literal) and o.datatype is not None and o.datatype != XSD.string:
            if str(Literal(o.value, datatype=o.datatype)) != str(o) or o.ill_typed:
                return False
    return True


def forms_of(rng, g, d, tag):
    """list of (description, constructor returning (argument, format kwarg or None, closer))"""
    out = []
    sers = {}
    from rdflib.compare import isomorphic
    for fmt, ext in (("turtle", ".ttl"), ("nt", ".nt"), ("xml", ".rdf"), ("json-ld", ".json")):
        text = g.serialize(format=fmt)
        # the forms must describe the same graph: rdflib's own round trip has to be faithful (its JSON-LD
        # writer loses triples of self-referencing blank nodes, RDF/XML cannot write some predicates)
        try:
            if not isomorphic(rdflib.Graph().parse(data=text, format=fmt), g):
                forms_of.skipped[fmt] = forms_of.skipped.get(fmt, 0) + 1
                continue
        except Exception:
            forms_of.skipped[fmt] = forms_of.skipped.get(fmt, 0) + 1
            continue
        sers[fmt] = (text, ext)
    for fmt, (text, ext) in sers.items():
        detectable = fmt in ("turtle", "xml") and len(g) > 0
        path = os.path.join(d, "%s_%s%s" % (tag, fmt.replace("-", ""), ext))
        open(path, "w", encoding="utf-8").write(text)
        bare = os.path.join(d, "%s_%s_noext" % (tag, fmt.replace("-", "")))
        open(bare, "w", encoding="utf-8").write(text)
        out.append(("%s str, format given" % fmt, lambda text=text, fmt=fmt: (text, fmt, None)))
        out.append(("%s bytes, format given" % fmt, lambda text=text, fmt=fmt: (text.encode("utf-8"), fmt, None)))
        out.append(("%s path with extension" % fmt, lambda path=path: (path, None, None)))
        out.append(("%s file: URI" % fmt, lambda path=path: ("file://" + path, None, None)))
        out.append(("%s open binary file, format given" % fmt, lambda bare=bare, fmt=fmt: (lambda fh: (fh, fmt, fh.close))(open(bare, "rb"))))
        out.append(("%s open text file with extension" % fmt, lambda path=path: (lambda fh: (fh, None, fh.close))(open(path, "r", encoding="utf-8"))))
        out.append(("%s StringIO, format given" % fmt, lambda text=text, fmt=fmt: (io.StringIO(text), fmt, None)))
        if fmt == "xml" and len(g) > 0 and text.startswith("<?xml"):
            bare_root = "\n\n  \n" + text.split("?>", 1)[1].lstrip()
            out.append(("xml str after blank lines (no XML declaration), format omitted", lambda t=bare_root: (t, None, None)))
            out.append(("xml BytesIO after blank lines, format omitted", lambda t=bare_root: (io.BytesIO(t.encode("utf-8")), None, None)))
        if fmt in ("nt", "turtle") and len(g) > 0:
            out.append(("%s str after blank lines, format given" % fmt, lambda t="\n\n" + text, fmt=fmt: (t, fmt, None)))
            shared = io.StringIO(text)
            out.append(("%s StringIO used for the first time" % fmt, lambda sh_=shared, fmt=fmt: (sh_, fmt, None)))
            out.append(("%s the same StringIO used again" % fmt, lambda sh_=shared, fmt=fmt: (sh_, fmt, None)))
        if fmt == "turtle" and len(g) > 0 and "@prefix ex: <http://ex.org/> ." in text:
            # the document states its base in a '# baseURI:' header line and writes every ex: term relative to it
            based = "# baseURI: http://ex.org/\n" + text.replace("@prefix ex: <http://ex.org/> .", "@prefix ex: <> .")
            bpath = os.path.join(d, "%s_based.ttl" % tag)
            open(bpath, "w", encoding="utf-8").write(based)
            out.append(("turtle with '# baseURI:' header and relative IRIs, str", lambda t=based: (t, "turtle", None)))
            out.append(("turtle with '# baseURI:' header and relative IRIs, bytes, format omitted", lambda t=based: (t.encode("utf-8"), None, None)))
            out.append(("turtle with '# baseURI:' header and relative IRIs, path", lambda p_=bpath: (p_, None, None)))
            out.append(("turtle with '# baseURI:' header and relative IRIs, file: URI", lambda p_=bpath: ("file://" + p_, None, None)))
            out.append(("turtle with '# baseURI:' header and relative IRIs, open binary file", lambda p_=bpath: (lambda fh: (fh, None, fh.close))(open(p_, "rb"))))
            out.append(("turtle with '# baseURI:' header and relative IRIs, open text file", lambda p_=bpath: (lambda fh: (fh, None, fh.close))(open(p_, "r", encoding="utf-8"))))
            out.append(("turtle with '# baseURI:' header and relative IRIs, BytesIO", lambda t=based: (io.BytesIO(t.encode("utf-8")), "turtle", None)))
        if detectable:
            out.append(("%s str, format omitted" % fmt, lambda text=text: (text, None, None)))
            out.append(("%s bytes, format omitted" % fmt, lambda text=text: (text.encode("utf-8"), None, None)))
            out.append(("%s path without extension, format omitted" % fmt, lambda bare=bare: (bare, None, None)))
            out.append(("%s BytesIO, format omitted" % fmt, lambda text=text: (io.BytesIO(text.encode("utf-8")), None, None)))
    return out


forms_of.skipped = {}


def keys_iso(o):
    """result keys with blank node labels replaced (parsing relabels blank nodes)"""
    import re
    return sorted(re.sub(r"_:[A-Za-z0-9_]+", "_:b", repr(k)) for k in EC.keys(o))


def main(tier, seed, replay=None):
    warnings.simplefilter("ignore")
    rep = F.Report(PROP, tier, seed)
    ob = F.coq_build(["Props/C20.v"])
    rng = F.rng_for(seed, PROP)
    big = tier == "thorough"
    bodies, meta = classification_cases(rng, 60 if big else 8)
    failed, errors = F.coq_eval("c20", PREAMBLE, bodies, shard=80) if ob.ok else ([], ["coq build broken"])

    empty_diffs = []
    diffs, stats = [], {"cases": 0, "forms": 0, "by_argument": {"data": 0, "shapes": 0, "ontology": 0}, "nonconforming": 0}
    n = 120 if big else 14
    d = tempfile.mkdtemp(prefix="c20_", dir="/var/tmp")
    try:
        tried = 0
        while stats["cases"] < n and tried < 10 * n:
            tried += 1
            c = EC.base_case(rng)
            if any(isinstance(t, BNode) for s in c["shapes"] for t in s["targets"]["nodes"]) or not canonical(c["data"]) or not canonical(c["sg"]):
                continue
            ont = rdflib.Graph()
            ont.add((EX.C0, RDFS.subClassOf, EX.C1))
            ont.add((EX.C2, RDFS.subClassOf, EX.C0))
            ont.add((EX.p, RDFS.domain, EX.C1))
            opts = {"inference": rng.choice(["none", "rdfs"])}
            base = S.run_validate(c["data"], c["sg"], ont_graph=ont, **opts)
            if base[0] != "ok":
                continue
            stats["cases"] += 1
            stats["nonconforming"] += 0 if base[1] else 1
            for arg, graph in (("data", c["data"]), ("shapes", c["sg"]), ("ontology", ont)):
                forms = forms_of(rng, graph, d, "%s%d" % (arg, stats["cases"]))
                chosen = forms if big else sorted(rng.sample(range(len(forms)), min(12, len(forms))))
                for desc, make in (forms if big else [forms[i] for i in chosen]):
                    src, fmt, closer = make()
                    kw = dict(opts)
                    a = {"data": c["data"], "shapes": c["sg"], "ontology": ont}
                    a[arg] = src
                    if fmt:
                        kw[{"data": "data_graph_format", "shapes": "shacl_graph_format", "ontology": "ont_graph_format"}[arg]] = fmt
                    try:
                        got = S.run_validate(a["data"], a["shapes"], ont_graph=a["ontology"], **kw)
                    finally:
                        if closer:
                            closer()
                    stats["forms"] += 1
                    stats["by_argument"][arg] += 1
                    ok = got[0] == "ok" and got[1] == base[1] and keys_iso(got) == keys_iso(base)
                    if not ok:
                        diffs.append((c, "%s graph handed over as [%s]: report differs from the one for the Graph object" % (arg, desc), base, got,
                                      src if isinstance(src, str) and len(src) < 3000 else repr(src)[:300]))
        # ---- forms of TWO arguments varied together: a format stated for one argument says nothing about the others
        cross_cases = 0
        tried = 0
        while cross_cases < (25 if big else 4) and tried < 200:
            tried += 1
            c = EC.base_case(rng)
            if any(isinstance(t, BNode) for s_ in c["shapes"] for t in s_["targets"]["nodes"]) or not canonical(c["data"]) or not canonical(c["sg"]):
                continue
            ont = rdflib.Graph()
            ont.add((EX.C0, RDFS.subClassOf, EX.C1))
            ont.add((EX.p, RDFS.domain, EX.C1))
            base = S.run_validate(c["data"], c["sg"], ont_graph=ont, inference="rdfs")
            if base[0] != "ok":
                continue
            cross_cases += 1
            fd = {k_: v_ for k_, v_ in forms_of(rng, c["data"], d, "xd%d" % cross_cases)}
            fs = {k_: v_ for k_, v_ in forms_of(rng, c["sg"], d, "xs%d" % cross_cases)}
            fo = {k_: v_ for k_, v_ in forms_of(rng, ont, d, "xo%d" % cross_cases)}
            stated = [k_ for k_ in fd if "format given" in k_ and ("str" in k_ or "bytes" in k_)]
            omitted = lambda f_: [k_ for k_ in f_ if ("path with extension" in k_ or "format omitted" in k_ or "file: URI" in k_)]
            for _ in range(12 if big else 8):
                kd = rng.choice(stated)
                ks, ko = rng.choice(omitted(fs) + ["graph"]), rng.choice(omitted(fo) + ["graph"])
                srcd, fmtd, cd_ = fd[kd]()
                srcs, fmts, cs_ = fs[ks]() if ks != "graph" else (c["sg"], None, None)
                srco, fmto, co_ = fo[ko]() if ko != "graph" else (ont, None, None)
                kw = {"inference": "rdfs", "data_graph_format": fmtd}
                if fmts:
                    kw["shacl_graph_format"] = fmts
                if fmto:
                    kw["ont_graph_format"] = fmto
                try:
                    got = S.run_validate(srcd, srcs, ont_graph=srco, **kw)
                finally:
                    for cl_ in (cd_, cs_, co_):
                        if cl_:
                            cl_()
                stats["forms"] += 1
                stats["cross_argument_forms"] = stats.get("cross_argument_forms", 0) + 1
                if not (got[0] == "ok" and got[1] == base[1] and keys_iso(got) == keys_iso(base)):
                    diffs.append((c, "data as [%s], shapes as [%s], ontology as [%s]: report differs from the one for three Graph objects (%s)" % (kd, ks, ko, got[:3] if got[0] != "ok" else "other results"), base, got, None))
        # ---- the EMPTY graph in every form, for the shapes and for the ontology argument: the data graph carries a shape of its
        # own which it violates, so "no shapes graph given" (shapes are then taken from the data graph) and "an empty shapes
        # graph given" are told apart
        mixed = rdflib.Graph().parse(data="@prefix sh: <http://www.w3.org/ns/shacl#> . @prefix ex: <http://ex.org/> .\n"
                                          "ex:Own a sh:NodeShape ; sh:targetNode ex:a ; sh:property [ sh:path ex:p ; sh:minCount 1 ] .\nex:a ex:q 1 .\n", format="turtle")
        onlyshape = rdflib.Graph().parse(data="@prefix sh: <http://www.w3.org/ns/shacl#> . @prefix ex: <http://ex.org/> .\n"
                                              "ex:T a sh:NodeShape ; sh:targetNode ex:a ; sh:property [ sh:path ex:q ; sh:maxCount 0 ] .\n", format="turtle")
        ep = os.path.join(d, "empty.ttl")
        open(ep, "w").write("")
        cp_ = os.path.join(d, "comment.ttl")
        open(cp_, "w").write("# nothing here\n@prefix ex: <http://ex.org/> .\n")
        empties = [("Graph()", lambda: (rdflib.Graph(), None, None)), ("Dataset()", lambda: (rdflib.Dataset(), None, None)),
                   ("'' with format", lambda: ("", "turtle", None)), ("b'' with format", lambda: (b"", "turtle", None)),
                   ("comment-only text", lambda: ("# nothing here\n@prefix ex: <http://ex.org/> .\n", "turtle", None)),
                   ("comment-only bytes", lambda: (b"# nothing here\n@prefix ex: <http://ex.org/> .\n", "turtle", None)),
                   ("empty file path", lambda: (ep, None, None)), ("comment-only file path", lambda: (cp_, None, None)),
                   ("open empty file", lambda: (lambda fh: (fh, "turtle", fh.close))(open(ep, "rb"))), ("empty StringIO", lambda: (io.StringIO(""), "turtle", None))]
        for arg, dataq, shapesq in (("shapes", mixed, None), ("ontology", mixed, onlyshape)):
            outs = []
            for desc, make in empties:
                src, fmt, closer = make()
                kw = {}
                if fmt:
                    kw["shacl_graph_format" if arg == "shapes" else "ont_graph_format"] = fmt
                try:
                    got = S.run_validate(dataq, src if arg == "shapes" else shapesq, ont_graph=(src if arg == "ontology" else None), **kw)
                finally:
                    if closer:
                        closer()
                stats["forms"] += 1
                stats["empty_graph_forms"] = stats.get("empty_graph_forms", 0) + 1
                outs.append((desc, got[:2] + (keys_iso(got),) if got[0] == "ok" else got[:2]))
            ref_desc, ref = outs[0]
            for desc, o_ in outs[1:]:
                if o_ != ref:
                    empty_diffs.append({"what": "the empty graph as %s argument: handed over as [%s] gives %r, as [%s] gives %r" % (arg, ref_desc, ref, desc, o_),
                                        "data_ttl": dataq.serialize(format="turtle")})
        # ---- a document that owl:imports another one, handed over in every form with do_owl_imports=True (shapes and ontology argument)
        imp_path = os.path.join(d, "imported.ttl")
        open(imp_path, "w").write("@prefix sh: <http://www.w3.org/ns/shacl#> . @prefix ex: <http://ex.org/> . @prefix rdfs: <http://www.w3.org/2000/01/rdf-schema#> .\n"
                                  "ex:Imp a sh:NodeShape ; sh:targetClass ex:T ; sh:property [ sh:path ex:name ; sh:minCount 1 ] .\nex:Sub rdfs:subClassOf ex:T .\n")
        main_ttl = ("@prefix owl: <http://www.w3.org/2002/07/owl#> . @prefix sh: <http://www.w3.org/ns/shacl#> . @prefix ex: <http://ex.org/> .\n"
                    "<urn:main> a owl:Ontology ; owl:imports <file://%s> .\nex:Main a sh:NodeShape ; sh:targetClass ex:T ; sh:property [ sh:path ex:age ; sh:maxCount 1 ] .\n" % imp_path)
        main_path = os.path.join(d, "main.ttl")
        open(main_path, "w").write(main_ttl)
        idata = rdflib.Graph().parse(data="@prefix ex: <http://ex.org/> . ex:a a ex:T ; ex:age 1, 2 . ex:b a ex:Sub .", format="turtle")
        ishape = rdflib.Graph().parse(data="@prefix sh: <http://www.w3.org/ns/shacl#> . @prefix ex: <http://ex.org/> . ex:Own a sh:NodeShape ; sh:targetClass ex:T ; sh:property [ sh:path ex:name ; sh:minCount 1 ] .", format="turtle")
        importers = [("Graph object", lambda: (rdflib.Graph().parse(data=main_ttl, format="turtle"), None, None)), ("path", lambda: (main_path, None, None)),
                     ("file: URI", lambda: ("file://" + main_path, None, None)), ("Turtle text", lambda: (main_ttl, "turtle", None)), ("Turtle bytes", lambda: (main_ttl.encode("utf-8"), "turtle", None)),
                     ("open binary file", lambda: (lambda fh: (fh, "turtle", fh.close))(open(main_path, "rb"))), ("open text file", lambda: (lambda fh: (fh, None, fh.close))(open(main_path, "r", encoding="utf-8")))]
        for arg in ("shapes", "ontology"):
            outs = []
            for desc, make in importers:
                src, fmt, closer = make()
                kw = {"do_owl_imports": True, "inference": "rdfs" if arg == "ontology" else "none"}
                if fmt:
                    kw["shacl_graph_format" if arg == "shapes" else "ont_graph_format"] = fmt
                try:
                    got = S.run_validate(idata, src if arg == "shapes" else ishape, ont_graph=(src if arg == "ontology" else None), **kw)
                finally:
                    if closer:
                        closer()
                stats["forms"] += 1
                stats["importing_document_forms"] = stats.get("importing_document_forms", 0) + 1
                outs.append((desc, got[:2] + (keys_iso(got),) if got[0] == "ok" else got[:2]))
            ref_desc, ref = outs[1]     # the file path form is the reference
            for desc, o_ in outs:
                if o_ != ref:
                    empty_diffs.append({"what": "a document with owl:imports as %s argument (do_owl_imports=True): handed over as [%s] gives %r, as [%s] gives %r" % (arg, ref_desc, ref, desc, o_),
                                        "document": main_ttl, "imported": open(imp_path).read()})
        # ---- documents WITHOUT a stated base whose nodes are relative IRIs: they resolve against the location of the file, whichever
        # legitimate spelling of that location the caller uses (path, file:///p, file:/p, file://localhost/p, percent escapes in either case)
        from urllib.parse import quote
        rdir = os.path.join(d, "caf\u00e9 dir")
        os.makedirs(rdir, exist_ok=True)
        rel_data, rel_shapes = os.path.join(rdir, "rdata.ttl"), os.path.join(rdir, "rshapes.ttl")
        open(rel_data, "w", encoding="utf-8").write("<alice> a <Person> ; <name> \"A\" .\n<bob> a <Person> .\n<carol> a <Person> ; <name> \"C\" , \"CC\" .\n")
        open(rel_shapes, "w", encoding="utf-8").write("@prefix sh: <http://www.w3.org/ns/shacl#> .\n<PersonShape> a sh:NodeShape ; sh:targetClass <Person> ; sh:property [ sh:path <name> ; sh:minCount 1 ; sh:maxCount 1 ] .\n")
        esc = quote(rel_data)                               # upper-case hex escapes, as Path.as_uri() writes them
        esc_lower = "".join(ch.lower() if i_ > 0 and "%" in esc[max(0, i_ - 2):i_] else ch for i_, ch in enumerate(esc))
        spellings = [("path", rel_data), ("file:/// URI", "file://" + esc), ("file:/ URI", "file:" + esc), ("file://localhost/ URI", "file://localhost" + esc),
                     ("file:/// URI with lower-case escapes", "file://" + esc_lower)]
        for arg in ("data", "shapes"):
            outs = []
            for desc, sp in spellings:
                other = rel_shapes if arg == "data" else rel_data
                src = sp if arg == "data" else sp.replace("rdata.ttl", "rshapes.ttl")
                got = S.run_validate(src if arg == "data" else other, src if arg == "shapes" else other)
                stats["forms"] += 1
                stats["location_spelling_forms"] = stats.get("location_spelling_forms", 0) + 1
                outs.append((desc, got[:2] + (len(got[2]),) if got[0] == "ok" else got[:2]))
            ref_desc, ref = outs[0]
            for desc, o_ in outs[1:]:
                if o_ != ref:
                    empty_diffs.append({"what": "a document with relative IRIs and no stated base as %s argument: named by [%s] it gives %r, by [%s] it gives %r" % (arg, ref_desc, ref, desc, o_),
                                        "document": open(rel_data if arg == "data" else rel_shapes, encoding="utf-8").read(), "spellings": [x[1] for x in spellings]})
    finally:
        shutil.rmtree(d, ignore_errors=True)
    for dd_ in empty_diffs[:4]:
        rep.violation(dd_)
    for c, what, o1, o2, src in diffs[:8]:
        dsc = S.describe_case(c["sg"], c["data"], {}, o1)
        dsc["what"] = what
        dsc["source_given"] = src
        dsc["other_observed"] = S.describe_case(c["sg"], c["data"], {}, o2)["observed"]
        rep.violation(dsc)
    for k in failed[:8]:
        dd = dict(meta[k])
        dd["what"] = "the loader's decision differs from the model (%s)" % dd["kind"]
        dd["model_value"] = F.coq_show("c20", PREAMBLE, dd["model"])
        dd["model"] = dd["model"][:600]
        rep.violation(dd)
    if (not ob.ok or errors) and not rep.violations:
        rep.violation({"obligation": ob.broken or errors, "detail": ob.log[-1500:]}, no_input=True)

    cov = F.proof_coverage(ob, [
        "coq/Load/Source.v: hand-written model of the str/bytes classification, the extension table and the first-line sniffer of load_from_source, over character strings (ASCII); tied by this run's correspondence (decisions observed with open() and Graph.parse intercepted)",
        "parsing and serialisation are rdflib's; base-URI resolution and owl:imports are not modelled (covered by the end-to-end differential only)",
    ])
    kinds = {}
    for m in meta:
        kinds[m["kind"]] = kinds.get(m["kind"], 0) + 1
    cov.update({
        "evaluations": len(bodies) + stats["forms"] + stats["cases"],
        "distinct_nontrivial": stats["forms"],
        "rule": "(1) decisions: serialisations of random graphs in turtle/nt/xml/json-ld and perturbed headers (PREFIX/BASE upper case, '# baseURI:' comment, leading blank lines, long prefix lines, blank-node-first N-Triples, empty and blank documents, HTML), path-like and short strings, as str and bytes; two or three arguments varied together (data with a stated format, shapes and ontology with theirs omitted); the empty graph as shapes / ontology argument in ten forms (Graph(), Dataset(), '', b'', comment-only text and bytes, empty and comment-only files, open file, StringIO) against a data graph carrying its own violated shape; a document with owl:imports of a local file as shapes / ontology argument in seven forms with do_owl_imports=True: observed source kind / sniffed format / extension format = model; "
                "(2) the property: random shapes/data (canonical literals) + ontology, each of the three graph arguments handed over as str, bytes, path with extension, file: URI, open binary/text file, StringIO/BytesIO, in four formats, with the format stated or omitted where a standard header or extension determines it: same verdict and result keys (blank node labels erased) as with Graph objects",
        "distribution": dict(stats, empty_graph_differences=len(empty_diffs), serialisations_skipped_because_rdflib_round_trip_is_not_isomorphic=dict(forms_of.skipped), decision_cases=kinds, model_disagreements=len(failed), differences=len(diffs)),
        "samples": [{k: (v[:200] if isinstance(v, str) else v) for k, v in meta[0].items()}],
        "exhaustive": False,
    })
    rep.coverage = cov
    rep.assumptions = ["JSON-LD and N-Triples text have no standard header: the format is always stated for them unless a file extension gives it",
                       "non-ASCII content is not generated for the model comparison (Coq strings are byte strings)"]
    return rep.finish()
