"""C11 - allow_infos / allow_warnings only relax the verdict."""
from .. import framework as F, shapes as S, evalcheck as EC
from ..enc import SH

PROP = "C11"
OPTS = [{}, {"allow_infos": True}, {"allow_warnings": True}, {"allow_infos": True, "allow_warnings": True}]


def gen_cases(rng, tier):
    n = 150 if tier == "quick" else 2500
    cases = []
    for gi in range(n):
        b = EC.base_case(rng, p_deact=0.05)
        for o in OPTS:
            cases.append(dict(b, opts=dict(o), group=gi))
    return cases


def metamorphic(cases, obs):
    bad = []
    for k in range(0, len(cases), len(OPTS)):
        grp = obs[k : k + len(OPTS)]
        if any(o[0] != "ok" for o in grp):
            if len({o[0:2] for o in grp}) != 1:
                bad.append((k, "outcome kind differs between severity options: %r" % [o[0:2] for o in grp]))
            continue
        base = EC.keys(grp[0])
        verdicts = []
        for j, o in enumerate(grp):
            if EC.keys(o) != base:
                bad.append((k + j, "allow_infos/allow_warnings changed the reported results"))
            waived = set()
            if cases[k + j]["opts"].get("allow_infos"):
                waived |= {SH.Info}
            if cases[k + j]["opts"].get("allow_warnings"):
                waived |= {SH.Info, SH.Warning}
            expect = all(r[4] in waived for r in o[2])
            if o[1] != expect:
                bad.append((k + j, "verdict %s but every-top-level-result-waived is %s" % (o[1], expect)))
            verdicts.append(o[1])
        d, i, w, iw = verdicts
        if (d and not i) or (i and not w) or (w != iw):
            bad.append((k, "verdicts not monotone default=%s infos=%s warnings=%s both=%s" % (d, i, w, iw)))
    return bad


def main(tier, seed, replay=None):
    rng = F.rng_for(seed, PROP)
    cases = gen_cases(rng, tier)
    return EC.standard_main(
        PROP, ["Props/C11.v"], tier, seed, cases,
        rule="case = random nested shapes graph with sh:severity in {absent, Violation, Warning, Info, custom} at every level x data x the four allow_infos/allow_warnings combinations; relation checked on the real code: same result multiset, verdict = all top-level results waived, monotone; each run also compared with the model",
        what="results/verdict differ from the model of the severity waiver (Props.C11)",
        metamorphic=metamorphic,
    )
