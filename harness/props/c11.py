"""C11 - allow_infos / allow_warnings only relax the verdict."""
from .. import framework as F, shapes as S, evalcheck as EC
from ..enc import SH

PROP = "C11"
OPTS = [{}, {"allow_infos": True}, {"allow_warnings": True}, {"allow_infos": True, "allow_warnings": True}]


def gen_cases(rng, tier):
    n = 150 if tier == "quick" else 2500
    cases = []
    for gi in range(n):
        b = EC.base_case(rng, p_deact=0.05)
        for o in OPTS:
            cases.append(dict(b, opts=dict(o), group=gi))
    return cases


def text_body(text):
    """the report text without its verdict line, as a multiset of lines (result order is free)"""
    return sorted(l for l in (text or "").splitlines() if not l.startswith("Conforms:"))


def metamorphic(cases, obs):
    bad = []
    for k in range(0, len(cases), len(OPTS)):
        grp = obs[k : k + len(OPTS)]
        if any(o[0] != "ok" for o in grp):
            if len({o[0:2] for o in grp}) != 1:
                bad.append((k, "outcome kind differs between severity options: %r" % [o[0:2] for o in grp]))
            continue
        base = EC.keys(grp[0])
        base_text = text_body(grp[0][3])
        verdicts = []
        for j, o in enumerate(grp):
            if EC.keys(o) != base:
                bad.append((k + j, "allow_infos/allow_warnings changed the reported results"))
            elif text_body(o[3]) != base_text:
                bad.append((k + j, "allow_infos/allow_warnings changed the results listed in the report text (beyond the Conforms line)"))
            waived = set()
            if cases[k + j]["opts"].get("allow_infos"):
                waived |= {SH.Info}
            if cases[k + j]["opts"].get("allow_warnings"):
                waived |= {SH.Info, SH.Warning}
            expect = all(r[4] in waived for r in o[2])
            if o[1] != expect:
                bad.append((k + j, "verdict %s but every-top-level-result-waived is %s" % (o[1], expect)))
            verdicts.append(o[1])
        d, i, w, iw = verdicts
        if (d and not i) or (i and not w) or (w != iw):
            bad.append((k, "verdicts not monotone default=%s infos=%s warnings=%s both=%s" % (d, i, w, iw)))
    return bad


RULES_TTL = """@prefix sh: <http://www.w3.org/ns/shacl#> . @prefix ex: <http://ex.org/> . @prefix owl: <http://www.w3.org/2002/07/owl#> . @prefix xsd: <http://www.w3.org/2001/XMLSchema#> .
ex:Cond a sh:NodeShape ; %(csev)s sh:class ex:C1 .
ex:Cond2 a sh:NodeShape ; %(csev2)s sh:property [ %(psev)s sh:path ex:p ; sh:minCount 1 ] .
ex:R a sh:NodeShape ; sh:targetClass ex:C0 ; %(rsev)s
  sh:rule [ a sh:TripleRule ; sh:condition ex:Cond %(second)s ; sh:subject sh:this ; sh:predicate ex:marked ; sh:object ex:Yes ] .
ex:V a sh:NodeShape ; sh:targetSubjectsOf ex:marked ; %(vsev)s sh:property [ sh:path ex:q ; sh:minCount %(vmin)d ] .
ex:W a sh:NodeShape ; sh:targetClass ex:C0 ; sh:severity sh:Warning ; sh:property [ sh:path ex:marked ; sh:maxCount 0 ] .
"""


def rules_family(rng, n):
    """advanced mode: rules whose sh:condition shapes have waivable severities - the options must not change which rules fire"""
    import rdflib
    stats, fails = {"rule_condition_cases": 0, "rule_condition_nonconforming": 0}, []
    sevs = ["", "", "sh:severity sh:Info ;", "sh:severity sh:Warning ;", "sh:severity sh:Violation ;"]
    for _ in range(n):
        data, nodes, lits = S.gen_typed_data(rng, n_iri=rng.randint(3, 5), n_bn=0, n_lit=1, n_triples=rng.randint(4, 10))
        ttl = RULES_TTL % {"csev": rng.choice(sevs), "csev2": rng.choice(sevs), "psev": rng.choice(sevs), "rsev": rng.choice(sevs), "vsev": rng.choice(sevs),
                           "second": rng.choice(["", "", ", ex:Cond2"]), "vmin": rng.choice([1, 1, 3])}
        if _ % 3 == 0:
            # a run whose results are all of waivable severity, after an odd or even number of condition evaluations (1-4 instances of the
            # rule shape's class, all of which meet the condition): what the rules did to decide must leave the waiver as the caller set it
            from rdflib import RDF as _RDF
            for x_ in [n_ for n_ in nodes if not isinstance(n_, rdflib.Literal)]:
                data.remove((x_, _RDF.type, None))
            for x_ in rng.sample([n_ for n_ in nodes if isinstance(n_, rdflib.URIRef)], rng.randint(1, min(4, len([n_ for n_ in nodes if isinstance(n_, rdflib.URIRef)])))):
                data.add((x_, _RDF.type, S.CLASSES[0]))
                data.add((x_, _RDF.type, S.CLASSES[1]))
            wsev = rng.choice(["sh:severity sh:Info ;", "sh:severity sh:Warning ;"])
            ttl = (RULES_TTL % {"csev": rng.choice(sevs), "csev2": "", "psev": "", "rsev": rng.choice(sevs), "vsev": wsev, "second": "", "vmin": rng.choice([1, 3])}) \
                .replace("sh:property [ sh:path ex:q ;", "sh:property [ %s sh:path ex:q ;" % wsev).replace("sh:property [ sh:path ex:marked ;", "sh:property [ sh:severity sh:Warning ; sh:path ex:marked ;")
        sg = rdflib.Graph().parse(data=ttl, format="turtle")
        grp = [S.run_validate(data, sg, advanced=True, **o) for o in OPTS]
        stats["rule_condition_cases"] += 1
        if any(o[0] != "ok" for o in grp):
            if len({o[0:2] for o in grp}) != 1:
                fails.append({"what": "advanced mode: outcome kind differs between severity options: %r" % [o[0:2] for o in grp], "shapes_ttl": ttl, "data_nt": sorted(data.serialize(format="nt").split("\n"))})
            continue
        stats["rule_condition_nonconforming"] += 0 if grp[0][1] else 1
        base = EC.keys(grp[0])
        for o, opt in zip(grp, OPTS):
            waived = ({SH.Info} if opt.get("allow_infos") else set()) | ({SH.Info, SH.Warning} if opt.get("allow_warnings") else set())
            if EC.keys(o) != base:
                fails.append({"what": "advanced mode (rules with sh:condition): %r changed the reported results" % (opt,), "shapes_ttl": ttl, "data_nt": sorted(data.serialize(format="nt").split("\n")),
                              "default_results": base, "results": EC.keys(o)})
                break
            if o[1] != all(r[4] in waived for r in o[2]):
                fails.append({"what": "advanced mode: verdict %s under %r but every-top-level-result-waived is %s" % (o[1], opt, not o[1]), "shapes_ttl": ttl, "data_nt": sorted(data.serialize(format="nt").split("\n"))})
                break
    return stats, fails, []


def selection_family(rng, n):
    """the waiver options together with use_shapes / focus_nodes: a shape the validator runs directly is top-level however its
    focus nodes were chosen"""
    from rdflib import URIRef
    stats, fails = {"waiver_with_selection_cases": 0}, []
    for _ in range(n):
        b = EC.base_case(rng, p_deact=0.05, p_focused=0.6, tmpls=[S.tmpl_severity, S.tmpl_nested_severity, S.tmpl_custom])
        iris = [x for x in b["nodes"] if isinstance(x, URIRef)]
        named = [s["id"] for s in b["shapes"] if isinstance(s["id"], URIRef) and (s["targets"]["nodes"] or s["targets"]["classes"])]
        if not named or not iris:
            continue
        sel = {}
        how = rng.choice(["use_shapes", "focus_nodes", "both", "both"])
        if how in ("use_shapes", "both"):
            sel["use_shapes"] = [str(rng.choice(named))]
        if how in ("focus_nodes", "both"):
            sel["focus_nodes"] = [str(x) for x in rng.sample(iris, rng.randint(1, min(3, len(iris))))]
        grp = [S.run_validate(b["data"], b["sg"], **dict(o, **sel)) for o in OPTS]
        stats["waiver_with_selection_cases"] += 1
        if any(o[0] != "ok" for o in grp):
            if len({o[0:2] for o in grp}) != 1:
                fails.append({"what": "outcome kind differs between severity options (with %r): %r" % (sel, [o[0:2] for o in grp]), "shapes_ttl": b["sg"].serialize(format="turtle"), "data_nt": sorted(" ".join(x.n3() for x in t) for t in b["data"])})
            continue
        base = EC.keys(grp[0])
        for o, opt in zip(grp, OPTS):
            waived = ({SH.Info} if opt.get("allow_infos") else set()) | ({SH.Info, SH.Warning} if opt.get("allow_warnings") else set())
            if EC.keys(o) != base:
                fails.append({"what": "%r changed the reported results (selection %r)" % (opt, sel), "shapes_ttl": b["sg"].serialize(format="turtle"), "data_nt": sorted(" ".join(x.n3() for x in t) for t in b["data"])})
                break
            if o[1] != all(r[4] in waived for r in o[2]):
                fails.append({"what": "verdict %s under %r with selection %r, but every-top-level-result-waived is %s (severities %s)" % (o[1], opt, sel, not o[1], sorted({str(r[4]).rsplit('#')[-1] for r in o[2]})),
                              "shapes_ttl": b["sg"].serialize(format="turtle"), "data_nt": sorted(" ".join(x.n3() for x in t) for t in b["data"])})
                break
    return stats, fails, []


def both_families(seed, tier):
    a = rules_family(F.rng_for(seed, PROP + "/rules"), 60 if tier == "quick" else 900)
    b = selection_family(F.rng_for(seed, PROP + "/selection"), 60 if tier == "quick" else 900)
    return dict(a[0], **b[0]), a[1] + b[1], a[2] + b[2]


def main(tier, seed, replay=None):
    rng = F.rng_for(seed, PROP)
    cases = gen_cases(rng, tier)
    return EC.standard_main(
        PROP, ["Props/C11.v"], tier, seed, cases,
        rule="case = random nested shapes graph with sh:severity in {absent, Violation, Warning, Info, custom} at every level x data x the four allow_infos/allow_warnings combinations; relation checked on the real code: same result multiset, verdict = all top-level results waived, monotone; each run also compared with the model; advanced mode: rule sets whose sh:condition shapes (and the shapes they feed) carry waivable severities x the four combinations: same results, verdict = all top-level results waived; the four combinations together with use_shapes / focus_nodes selections",
        what="results/verdict differ from the model of the severity waiver (Props.C11)",
        metamorphic=metamorphic,
        extra_checks=lambda: both_families(seed, tier),
    )
