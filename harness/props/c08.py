"""C08 - caller's data and ontology graphs are not modified unless inplace is set."""
import itertools
import os
import warnings

import rdflib
from rdflib import BNode, Literal, URIRef
from rdflib.namespace import OWL, RDF, RDFS, XSD

from .. import enc, framework as F
from ..enc import EX, SH

PROP = "C08"
PREAMBLE = (
    "From Coq Require Import List NArith Bool String.\n"
    "From Verif Require Import Mini.PyMini Gen.T1 Mini.Pipeline.\n"
    "Import ListNotations.\nOpen Scope string_scope.\n"
    "Definition strip (tr:list event) := filter (fun e => match e with Noted _ => false | _ => true end) tr.\n"
)

SHAPES_TTL = """
@prefix sh: <http://www.w3.org/ns/shacl#> . @prefix ex: <http://ex.org/> . @prefix rdfs: <http://www.w3.org/2000/01/rdf-schema#> .
@prefix xsd: <http://www.w3.org/2001/XMLSchema#> . @prefix owl: <http://www.w3.org/2002/07/owl#> .
ex:PersonShape a sh:NodeShape ; sh:targetClass ex:Person ;
  sh:property [ sh:path ex:name ; sh:minCount 1 ] %(rules)s .
%(functions)s
"""
RULES = """;
  sh:rule [ a sh:TripleRule ; sh:subject sh:this ; sh:predicate ex:inferred ; sh:object ex:Marked ] ;
  sh:rule [ a sh:SPARQLRule ; sh:construct "CONSTRUCT { $this <http://ex.org/also> <http://ex.org/Constructed> } WHERE { $this a <http://ex.org/Person> }" ]"""
FUNCTIONS = """
ex:double a sh:SPARQLFunction ; sh:parameter [ sh:path ex:op1 ; sh:datatype xsd:integer ] ; sh:returnType xsd:integer ;
  sh:select "SELECT ($op1 + $op1 AS ?result) WHERE { }" .
"""
DATA = [
    (EX.alice, RDF.type, EX.Student), (EX.alice, EX.name, Literal("Alice")), (EX.bob, RDF.type, EX.Person),
    (EX.Student, RDFS.subClassOf, EX.Person), (EX.carol, EX.knows, EX.bob),
]
_l1, _l2, _l3, _anon = BNode("ontl1"), BNode("ontl2"), BNode("ontl3"), BNode("ontanon")
ONT = [(EX.Person, RDFS.subClassOf, EX.Agent), (EX.knows, RDFS.domain, EX.Person), (EX.Agent, RDF.type, OWL.Class),
       # individuals, an enumeration of them (RDF list cells are blank nodes that point at individuals) and an anonymous node about one
       (EX.Red, RDF.type, OWL.NamedIndividual), (EX.Red, RDF.type, EX.Colour), (EX.Green, RDF.type, OWL.NamedIndividual), (EX.Blue, RDF.type, OWL.NamedIndividual),
       (EX.Colour, RDF.type, OWL.Class), (EX.Colour, OWL.oneOf, _l1), (_l1, RDF.first, EX.Red), (_l1, RDF.rest, _l2), (_l2, RDF.first, EX.Green), (_l2, RDF.rest, _l3),
       (_l3, RDF.first, EX.Blue), (_l3, RDF.rest, RDF.nil), (_anon, EX.colour, EX.Green), (_anon, EX.note, Literal("anonymous"))]


RULES_ONLY = {
    "triple": """;
  sh:rule [ a sh:TripleRule ; sh:subject sh:this ; sh:predicate ex:inferred ; sh:object ex:Marked ]""",
    "sparql": """;
  sh:rule [ a sh:SPARQLRule ; sh:construct "CONSTRUCT { $this <http://ex.org/also> <http://ex.org/Constructed> } WHERE { $this a <http://ex.org/Person> }" ]""",
}


def shapes_graph(functions, rules):
    """rules: False | True (a triple rule and a SPARQL rule) | "triple" | "sparql" (only that kind of writer)"""
    rtext = RULES_ONLY[rules] if rules in RULES_ONLY else (RULES if rules else "")
    return rdflib.Graph().parse(data=SHAPES_TTL % {"rules": rtext, "functions": FUNCTIONS if functions else ""}, format="turtle")


def make_data(kind, split=0):
    if kind == "Graph":
        g = rdflib.Graph()
        for t in DATA:
            g.add(t)
        return g
    g = rdflib.Dataset() if kind == "Dataset" else rdflib.ConjunctiveGraph()
    for i, t in enumerate(DATA):
        ctx = g.default_context if (i + split) % 3 == 0 else g.get_context(URIRef("urn:g%d" % ((i + split) % 3)))
        ctx.add(t)
    # a container that has been through pySHACL before (e.g. what an earlier shacl_rules() returned): it already holds named graphs
    # with the names pySHACL uses for what it mixes in and infers - they are the caller's graphs like any other
    if split % 3 == 1:
        g.get_context(URIRef("urn:pyshacl:inoculation")).add(ONT[0])
    if split % 5 == 2:
        g.get_context(URIRef("urn:pyshacl:inference")).add(DATA[0])
    return g


def make_ont(kind):
    if kind is None:
        return None
    if kind == "empty Graph":
        return rdflib.Graph()      # an ontology document without any triple is still an ontology argument
    if kind == "empty Dataset":
        return rdflib.Dataset()
    if kind == "Graph":
        g = rdflib.Graph()
        for t in ONT:
            g.add(t)
        return g
    g = rdflib.Dataset()
    for i, t in enumerate(ONT):
        (g.default_context if i % 2 == 0 else g.get_context(URIRef("urn:o1"))).add(t)
    return g


def snapshot(g):
    if g is None:
        return None
    if isinstance(g, (rdflib.Dataset, rdflib.ConjunctiveGraph)):
        return frozenset((s, p, o, str(getattr(c, "identifier", c))) for s, p, o, c in g.quads((None, None, None, None)))
    return frozenset(g)


# ------------------------------------------------------------------ recording of the real callees' effects
class Recorder:
    NAMES = ["clone_graph", "inoculate", "inoculate_dataset", "mix_graphs", "mix_datasets", "apply_rules",
             "apply_functions", "unapply_functions"]

    def __init__(self, module, cls, data, ont, fault=None):
        self.module, self.cls, self.fault = module, cls, fault
        self.ids = {id(data): 0}
        if ont is not None:
            self.ids[id(ont)] = 1
        self.next = 10
        self.events = []
        self.cevents = []   # the same steps in the content view (C14): Mix / Infer instead of Write
        self.saved = {}
        self.raised = False
        self.in_validation = False

    def oid(self, obj, new=False):
        if id(obj) not in self.ids:
            self.ids[id(obj)] = self.next
            self.next += 1
        return self.ids[id(obj)]

    def effect(self, ev, content=None):
        k = len(self.events)
        self.events.extend(ev)
        self.cevents.extend(content if content is not None else ev)
        if self.fault is not None and k == self.fault:
            self.events.append('Raised "RuntimeError"')
            self.cevents.append('Raised "RuntimeError"')
            self.raised = True
            raise RuntimeError("injected fault at effect %d" % k)

    def __enter__(self):
        m = self.module
        rec = self

        def w_clone(orig):
            def f(g, *a, **k):
                r = orig(g, *a, **k)
                rec.effect(["Clone %d %d" % (rec.oid(g), rec.oid(r))])
                return r
            return f

        def w_inoculate(orig):
            def f(to_graph, ont, *a, **k):
                r = orig(to_graph, ont, *a, **k)
                rec.effect(["Write %d" % rec.oid(r)], ["Mix %d" % rec.oid(r)])
                return r
            return f

        def w_inoculate_dataset(orig):
            def f(base, ont, target=None, *a, **k):
                r = orig(base, ont, target, *a, **k)
                if target is None:
                    rec.effect(["Clone %d %d" % (rec.oid(base), rec.oid(r)), "Write %d" % rec.oid(r)],
                               ["Clone %d %d" % (rec.oid(base), rec.oid(r)), "Mix %d" % rec.oid(r)])
                else:
                    rec.effect(["Write %d" % rec.oid(r)], ["Mix %d" % rec.oid(r)])
                return r
            return f

        def w_rules(orig):
            def f(executor, rules, g, *a, **k):
                r = orig(executor, rules, g, *a, **k)
                rec.effect(["Write %d" % rec.oid(g)])
                return r
            return f

        def w_apply(orig):
            def f(*a, **k):
                r = orig(*a, **k)
                rec.effect(["Reg true"])
                return r
            return f

        def w_unapply(orig):
            def f(*a, **k):
                r = orig(*a, **k)
                rec.events.append("Reg false")
                rec.cevents.append("Reg false")
                return r
            return f

        def w_preinf(orig):
            def f(g, *a, **k):
                r = orig(g, *a, **k)
                rec.effect(["Write %d" % rec.oid(g)], ["Infer %d" % rec.oid(g)])
                return r
            return f

        wrappers = {"clone_graph": w_clone, "inoculate": w_inoculate, "inoculate_dataset": w_inoculate_dataset,
                    "apply_rules": w_rules, "apply_functions": w_apply, "unapply_functions": w_unapply}
        for n, w in wrappers.items():
            if hasattr(m, n):
                self.saved[n] = getattr(m, n)
                setattr(m, n, w(self.saved[n]))
        # the shape loop of Validator.run: its first Shape.validate call marks the (fallible) validation step
        import pyshacl.shape as SHM
        self.saved_validate = SHM.Shape.validate

        def validate(shape, executor, target_graph, focus=None, _evaluation_path=None):
            if _evaluation_path is None and not rec.in_validation and rec.cls.__name__ == "Validator":
                rec.in_validation = True
                rec.effect(['Noted "validate_shapes"'])
            return rec.saved_validate(shape, executor, target_graph, focus=focus, _evaluation_path=_evaluation_path)

        SHM.Shape.validate = validate
        self.saved_preinf = self.cls.__dict__.get("_run_pre_inference")
        orig_pre = self.cls._run_pre_inference
        setattr(self.cls, "_run_pre_inference", staticmethod(w_preinf(orig_pre)))
        return self

    def __exit__(self, *exc):
        import pyshacl.shape as SHM
        SHM.Shape.validate = self.saved_validate
        for n, o in self.saved.items():
            setattr(self.module, n, o)
        if self.saved_preinf is None:
            delattr(self.cls, "_run_pre_inference")
        else:
            setattr(self.cls, "_run_pre_inference", self.saved_preinf)
        return False


def valuation_coq(v):
    inf = "None" if v["inference"] is None else '(Some "%s")' % v["inference"]
    b = enc.coq_bool
    return ("{| v_ont := %s; v_inplace := %s; v_preinf := %s; v_multi := %s; v_inference := %s; v_advanced := %s; "
            "v_sparql := %s; v_functions := %s; v_rules := %s |}" % (b(v["ont"]), b(v["inplace"]), b(v["preinf"]), b(v["multi"]), inf,
                                                                      b(v["advanced"]), b(v["sparql"]), b(v["functions"]), b(v["rules"])))


def real_trace(api, v, fault):
    """runs the real Validator / RuleExpandRunner with recording wrappers; returns (events, outcome)"""
    import pyshacl.validator as VM
    import pyshacl.rule_expand_runner as RM
    module, cls = (VM, VM.Validator) if api == "validate" else (RM, RM.RuleExpandRunner)
    data = make_data("Dataset" if v["multi"] else "Graph")
    ont = make_ont("Graph") if v["ont"] else None
    sg = shapes_graph(v["functions"], v["rules"])
    opts = {"inference": v["inference"], "advanced": v["advanced"], "sparql_mode": v["sparql"], "inplace": v["inplace"]}
    with Recorder(module, cls, data, ont, fault) as rec:
        try:
            runner = cls(data, shacl_graph=sg, ont_graph=ont, options=opts, pre_inferenced=v["preinf"])
            runner.run()
            out = "ok"
        except Exception as e:
            out = type(e).__name__
            if not rec.raised:
                rec.events.append('Raised "%s"' % type(e).__name__)
                rec.cevents.append('Raised "%s"' % type(e).__name__)
    real_trace.last_content = rec.cevents
    return rec.events, out


def main(tier, seed, replay=None):
    warnings.simplefilter("ignore")
    rep = F.Report(PROP, tier, seed)
    ob = F.coq_build(["Props/C08.v"], translators=["t1"])
    rng = F.rng_for(seed, PROP)
    # ---- Tie A correspondence: the recorded event trace of the real code equals the trace of the generated program
    vals = [dict(ont=a, inplace=b, preinf=c, multi=d, inference=e, advanced=f, sparql=g, functions=h, rules=i)
            for a in (False, True) for b in (False, True) for c in (False, True) for d in (False, True)
            for e in (None, "none", "rdfs", "owlrl", "both") for f in (False, True) for g in (False, True)
            for h in (False, True) for i in (False, True)]
    sample = vals if tier == "thorough" else rng.sample(vals, 220)
    bodies, meta = [], []
    for v in sample:
        for api in ("validate", "rules"):
            if api == "rules" and (v["sparql"] or not v["advanced"]):
                continue  # shacl_rules() has no such modes
            fault = rng.choice([None, None, 0, 1, 2, 3])
            ev, out = real_trace(api, v, fault)
            run = "run_validator" if api == "validate" else "run_rules"
            fs = "[]" if fault is None else "[%d%%nat]" % fault
            bodies.append("trace_eqb (trace (snd (%s (%s) %s))) [%s]" % (run, valuation_coq(v), fs, "; ".join(ev)))
            meta.append((api, v, fault, ev, out, "trace (snd (%s (%s) %s))" % (run, valuation_coq(v), fs)))
    failed, errors = F.coq_eval("c08", PREAMBLE, bodies, shard=150) if ob.ok else ([], ["coq build broken"])

    # ---- the property itself on the real code: quad-level snapshots around the public calls, with injected failures
    import pyshacl
    import pyshacl.validator as VM
    import pyshacl.rule_expand_runner as RM
    table = list(itertools.product(["Graph", "Dataset", "ConjunctiveGraph"], [None, "Graph", "Dataset", "empty Graph", "empty Dataset"], ["none", "rdfs", "owlrl", "both"],
                                   [False, True], [False, True], ["validate", "shacl_rules"], [None, 0, 1, 2, 3]))
    if tier == "quick":
        table = rng.sample(table, 360)
    snap_viol, runs, changed_inplace = [], 0, 0
    for cont, ontk, inf, adv, iterate, api, fault in table:
        if api == "shacl_rules" and not adv:
            continue
        data, ont = make_data(cont, split=runs), make_ont(ontk)
        sg = shapes_graph(runs % 2 == 0, [True, "sparql", "triple", True][runs % 4])
        before = (snapshot(data), snapshot(ont))
        module, cls = (VM, VM.Validator) if api == "validate" else (RM, RM.RuleExpandRunner)
        with Recorder(module, cls, data, ont, fault):
            try:
                if api == "validate":
                    pyshacl.validate(data, shacl_graph=sg, ont_graph=ont, inference=inf, advanced=adv, iterate_rules=iterate)
                else:
                    pyshacl.shacl_rules(data, shacl_graph=sg, ont_graph=ont, inference=inf, iterate_rules=iterate)
            except Exception:
                pass
        runs += 1
        after = (snapshot(data), snapshot(ont))
        if after != before:
            snap_viol.append({"container": cont, "ontology": ontk, "inference": inf, "advanced": adv, "iterate_rules": iterate,
                              "api": api, "fault_at_effect": fault,
                              "data_added": sorted(map(str, (after[0] or set()) - (before[0] or set())))[:6],
                              "data_removed": sorted(map(str, (before[0] or set()) - (after[0] or set())))[:6],
                              "ont_changed": after[1] != before[1]})
    # the shapes live in the data graph itself (no shacl_graph argument), with and without the SHACL-SHACL pre-check: the caller's one
    # graph object plays both roles and is still not written to
    for cont in ("Graph", "Dataset", "ConjunctiveGraph"):
        for inf in ("none", "rdfs", "owlrl", "both"):
            for meta_ in (False, True):
                for adv in (False, True):
                    data = make_data(cont, split=runs)
                    target = data if cont == "Graph" else data.get_context(URIRef("urn:g1"))
                    for t in shapes_graph(False, adv and "sparql"):
                        target.add(t)
                    before = snapshot(data)
                    try:
                        pyshacl.validate(data, meta_shacl=meta_, inference=inf, advanced=adv)
                    except Exception:
                        pass
                    runs += 1
                    if snapshot(data) != before:
                        after = snapshot(data)
                        snap_viol.append({"container": cont, "ontology": None, "inference": inf, "advanced": adv, "meta_shacl": meta_, "shapes": "inside the data graph (no shacl_graph argument)",
                                          "api": "validate", "fault_at_effect": None, "data_added": sorted(map(str, after - before))[:6], "data_removed": sorted(map(str, before - after))[:6], "ont_changed": False})
    # sparql_mode over a caller's graph OBJECT: whatever the mode does with rules and inference (skips them, refuses them), the caller's
    # objects keep their quads
    for cont in ("Graph", "Dataset", "ConjunctiveGraph"):
        for inf in ("none", "rdfs", "owlrl"):
            for adv in (False, True):
                for ontk in (None, "Graph"):
                    data, ont = make_data(cont, split=runs), make_ont(ontk)
                    sg = shapes_graph(adv, adv)
                    before = (snapshot(data), snapshot(ont))
                    try:
                        pyshacl.validate(data, shacl_graph=sg, ont_graph=ont, inference=inf, advanced=adv, sparql_mode=True)
                    except Exception:
                        pass
                    runs += 1
                    after = (snapshot(data), snapshot(ont))
                    if after != before:
                        snap_viol.append({"container": cont, "ontology": ontk, "inference": inf, "advanced": adv, "sparql_mode": True, "api": "validate", "fault_at_effect": None,
                                          "data_added": sorted(map(str, (after[0] or set()) - (before[0] or set())))[:6], "data_removed": sorted(map(str, (before[0] or set()) - (after[0] or set())))[:6],
                                          "ont_changed": after[1] != before[1]})
    # owl:imports: with do_owl_imports=True the documents an ontology (or shapes graph) imports are loaded as well - into copies, the
    # caller's graph objects keep their triples.  Imports are local files here (no network).
    import shutil, tempfile
    known_imports = "C08-owl-imports-loaded-into-callers-ontology-graph"
    listed = {k.get("id") for k in F.load_known_findings(PROP)}
    imp_dir = tempfile.mkdtemp(prefix="c08imp_", dir="/var/tmp")
    imports_runs, imports_seen = 0, 0
    try:
        imp_file = os.path.join(imp_dir, "imported.ttl")
        open(imp_file, "w").write("@prefix ex: <http://ex.org/> . @prefix rdfs: <http://www.w3.org/2000/01/rdf-schema#> .\nex:ImportedClass rdfs:subClassOf ex:P .\nex:imported a ex:ImportedClass .\n")
        for cont in ("Graph", "Dataset"):
            for ontk in ("Graph", "Dataset"):
                for opts_ in ({}, {"inference": "rdfs"}, {"advanced": True}):
                    for api in ("validate", "shacl_rules"):
                        if api == "shacl_rules" and not opts_.get("advanced"):
                            continue
                        data, ont = make_data(cont, split=runs), make_ont(ontk)
                        head = ont if ontk == "Graph" else ont.default_context
                        head.add((URIRef("http://ex.org/ont"), RDF.type, OWL.Ontology))
                        head.add((URIRef("http://ex.org/ont"), OWL.imports, URIRef("file://" + imp_file)))
                        sg = shapes_graph(False, bool(opts_.get("advanced")))
                        before = (snapshot(data), snapshot(ont))
                        try:
                            if api == "validate":
                                pyshacl.validate(data, shacl_graph=sg, ont_graph=ont, do_owl_imports=True, **opts_)
                            else:
                                pyshacl.shacl_rules(data, shacl_graph=sg, ont_graph=ont, do_owl_imports=True)
                        except Exception:
                            pass
                        runs += 1
                        imports_runs += 1
                        after = (snapshot(data), snapshot(ont))
                        if after[0] != before[0]:
                            snap_viol.append({"container": cont, "ontology": ontk + " with owl:imports of a local file", "do_owl_imports": True, "options": opts_, "api": api,
                                              "data_added": sorted(map(str, after[0] - before[0]))[:6], "data_removed": sorted(map(str, before[0] - after[0]))[:6], "ont_changed": after[1] != before[1]})
                        elif after[1] != before[1]:
                            added = after[1] - before[1]
                            only_imported = not (before[1] - after[1]) and all("Imported" in str(q) or "imported" in str(q) for q in added)
                            if only_imported and known_imports in listed:
                                imports_seen += 1
                                rep.known_finding(known_imports, "validate()/shacl_rules() with do_owl_imports=True and the ontology given as a graph object: the imported documents' triples are loaded into the caller's ontology graph object (load_from_source: target_g = source)")
                            else:
                                snap_viol.append({"container": cont, "ontology": ontk + " with owl:imports of a local file", "do_owl_imports": True, "options": opts_, "api": api,
                                                  "ont_added": sorted(map(str, added))[:6], "ont_removed": sorted(map(str, before[1] - after[1]))[:6], "ont_changed": True})
    finally:
        shutil.rmtree(imp_dir, ignore_errors=True)
    # one graph object in two roles: the caller hands the SAME object as shapes graph and as data (or ontology) graph
    known_alias = "C08-system-triples-in-a-graph-that-is-also-the-shapes-graph"
    SYSTEM = {(OWL.Class, RDFS.subClassOf, RDFS.Class), (OWL.DatatypeProperty, RDFS.subClassOf, RDF.Property)}
    for role in ("data", "ontology"):
        for opts_ in ({}, {"inference": "rdfs"}, {"advanced": True}):
            g_ = make_data("Graph", split=runs)
            for t in shapes_graph(False, bool(opts_.get("advanced")) and "triple"):
                g_.add(t)
            other = make_data("Graph", split=runs + 1)
            before = (snapshot(g_), snapshot(other))
            try:
                if role == "data":
                    pyshacl.validate(g_, shacl_graph=g_, **opts_)
                else:
                    pyshacl.validate(other, shacl_graph=g_, ont_graph=g_, **opts_)
            except Exception:
                pass
            runs += 1
            after = (snapshot(g_), snapshot(other))
            added = {tuple(q)[:3] for q in (after[0] - before[0])}
            if after[1] != before[1] or (before[0] - after[0]):
                snap_viol.append({"container": "Graph", "ontology": None, "options": opts_, "api": "validate", "shapes": "the same object as the %s graph" % role,
                                  "data_added": sorted(map(str, after[0] - before[0]))[:6], "data_removed": sorted(map(str, before[0] - after[0]))[:6], "ont_changed": after[1] != before[1]})
            elif after[0] != before[0]:
                if added <= SYSTEM and known_alias in listed:
                    rep.known_finding(known_alias, "validate() with the same graph object as shacl_graph and as data (or ontology) graph: ShapesGraph writes its two system triples (owl:Class rdfs:subClassOf rdfs:Class, owl:DatatypeProperty rdfs:subClassOf rdf:Property) into that object")
                else:
                    snap_viol.append({"container": "Graph", "ontology": None, "options": opts_, "api": "validate", "shapes": "the same object as the %s graph" % role,
                                      "data_added": sorted(map(str, after[0] - before[0]))[:6], "data_removed": [], "ont_changed": False})
    for d in snap_viol[:10]:
        d["what"] = "the caller's graph object holds different quads after the call (inplace was not requested)"
        rep.violation(d)
    for k in failed[:10]:
        api, v, fault, ev, out, show = meta[k]
        d = {"what": "the real callees' event trace differs from the trace of the program generated from the source (Tie A)",
             "api": api, "valuation": v, "fault_at_effect": fault, "recorded": ev, "outcome": out,
             "model": F.coq_show("c08", PREAMBLE, show)}
        rep.violation(d)
    if (not ob.ok or errors) and not rep.violations:
        rep.violation({"obligation": ob.broken or errors, "detail": ob.log[-1500:]}, no_input=True)
    cov = F.proof_coverage(ob, ["translator/t1.py + translator/py2mini.py (fail-closed Python-ast -> PyMini)", "coq/Mini/PyMini.v semantics and callee summaries (clone_graph, inoculate, inoculate_dataset, _run_pre_inference, apply_rules, apply_functions)"])
    cov.update({
        "evaluations": len(bodies) + runs, "distinct_nontrivial": len({tuple(m[3]) for m in meta if m[3]}) + runs,
        "rule": "(1) Tie A: for sampled valuations of the 1280-element domain x {validate, shacl_rules} x {no fault, fault at effect 0-3} the real Validator/RuleExpandRunner runs with recording wrappers around the white-listed callees and the recorded Clone/Write/Reg/Raised trace must equal the trace of the generated PyMini program; (2) the property on the real code: {Graph, Dataset, ConjunctiveGraph} x {no ontology, Graph, Dataset, empty Graph, empty Dataset} x {none, rdfs, owlrl, both} x advanced x iterate_rules x {validate, shacl_rules} x {normal return, failure injected after the k-th effect} x rule sets {triple + SPARQL rule, only SPARQL rules, only triple rules}, plus shapes kept inside the data graph (no shacl_graph argument) x meta_shacl on/off x inference x advanced, plus sparql_mode runs over graph objects x inference x advanced x ontology, plus ontologies (Graph, Dataset) that owl:import a local file with do_owl_imports=True through both APIs, plus containers that already hold graphs named urn:pyshacl:inoculation / urn:pyshacl:inference; quad-level snapshot of the caller's objects before/after; non-trivial = a run in which a writer ran",
        "distribution": {"tie_a_traces": len(bodies), "tie_a_disagreements": len(failed), "snapshot_runs": runs, "snapshot_violations": len(snap_viol),
                         "distinct_traces": len({tuple(m[3]) for m in meta})},
        "samples": [{"api": m[0], "valuation": m[1], "fault": m[2], "recorded": m[3]} for m in meta[:3]],
        "exhaustive": tier == "thorough",
    })
    rep.coverage = cov
    rep.assumptions = ["rdflib/owlrl write only into the graph object they are handed (checked by the snapshot table)", "Dataset.default_union is an attribute, not a triple: its flip on the caller's Dataset is not counted"]
    return rep.finish()
