"""C03 - property-path value nodes follow SPARQL 1.1 property-path semantics."""
import rdflib
from rdflib import BNode, Literal, URIRef

from .. import enc, framework as F
from ..enc import EX, SH

PROP = "C03"
PROP_FILES = ["Props/C03.v"]
PREAMBLE = (
    "From Coq Require Import List NArith Bool.\n"
    "From Verif Require Import Base.SetList Base.Terms Paths.Path Paths.PathCheck.\n"
    "Import ListNotations.\nOpen Scope N_scope.\n"
)
PREDS = [str(EX.p), str(EX.q), str(EX.r)]


def deepen(rng, p, n):
    """wrap p in n unary operators (to cross the recursion limit of 10)"""
    for _ in range(n):
        p = (rng.choice(["inv", "star", "plus", "opt"]), p)
    return p


def gen_cases(rng, tier):
    n_graphs = 12 if tier == "quick" else 60
    n_random = 700 if tier == "quick" else 12000
    graphs = []
    for gi in range(n_graphs):
        nodes, lits = enc.gen_nodes(rng, n_iri=rng.randint(2, 5), n_bn=rng.randint(0, 2), n_lit=rng.randint(0, 2))
        g = enc.gen_data(rng, PREDS, nodes, lits, rng.randint(0, 9))
        graphs.append((g, nodes, lits))
    cases = []
    # exhaustive small paths on the first graphs
    small = enc.all_paths(PREDS[:2], 1 if tier == "quick" else 2)
    for gi in range(2 if tier == "quick" else 3):
        g, nodes, lits = graphs[gi]
        foci = nodes[:3] + lits[:1] + [EX.absent]
        for p in small:
            for f in (foci if tier == "quick" or len(cases) < 40000 else foci[:2]):
                cases.append({"g": gi, "path": p, "focus": f, "kind": "exhaustive"})
    # sequences that pass THROUGH a literal: the literal is an intermediate node, the next step is an inverse or a
    # path that may have length zero (a literal is no subject, but it is an object and it is a node)
    for extra in range(2 if tier == "quick" else 6):
        nodes, lits = enc.gen_nodes(rng, n_iri=rng.randint(2, 4), n_bn=1, n_lit=2)
        g = enc.gen_data(rng, PREDS, nodes, lits, rng.randint(1, 5))
        for n_ in nodes:
            for pr in PREDS[:2]:
                if rng.random() < 0.6:
                    g.add((n_, URIRef(pr), rng.choice(lits)))
        graphs.append((g, nodes, lits))
        gi = len(graphs) - 1
        for first in PREDS[:2]:
            for second in ([("inv", ("pred", q)) for q in PREDS[:2]] + [("star", ("pred", PREDS[0])), ("opt", ("pred", PREDS[1])),
                           ("plus", ("inv", ("pred", PREDS[0]))), ("alt", [("inv", ("pred", PREDS[1])), ("pred", PREDS[0])]),
                           ("star", ("inv", ("pred", PREDS[1])))]):
                for f in nodes + lits[:1]:
                    cases.append({"g": gi, "path": ("seq", [("pred", first), second]), "focus": f, "kind": "through-literal"})
                    if rng.random() < 0.3:
                        cases.append({"g": gi, "path": ("seq", [("pred", first), second, ("inv", ("pred", first))]), "focus": f, "kind": "through-literal"})
    n_graphs = len(graphs)
    for i in range(n_random):
        gi = rng.randrange(n_graphs)
        g, nodes, lits = graphs[gi]
        r = rng.random()
        if r < 0.06:
            p = deepen(rng, enc.gen_path(rng, PREDS, 2), rng.randint(7, 11))
            kind = "deep"
        elif r < 0.14:
            p = enc.gen_path(rng, PREDS, 3, allow_short_lists=True)
            kind = "maybe-malformed"
        else:
            p = enc.gen_path(rng, PREDS, rng.randint(1, 4))
            kind = "random"
        f = rng.choice(nodes + lits + [EX.absent])
        cases.append({"g": gi, "path": p, "focus": f, "kind": kind})
        # the algebraic rewritings of Paths/PathAlgebra.v (same relation, other syntax): both sides are cases
        if kind == "random" and rng.random() < 0.25:
            for q in rewritings(p):
                cases.append({"g": gi, "path": q, "focus": f, "kind": "algebra"})
    return graphs, cases


def rewritings(p):
    """paths that denote the same relation as p by the laws proved in Paths/PathAlgebra.v"""
    out = [("inv", ("inv", p))]
    if p[0] == "seq":
        out.append(("inv", ("seq", [("inv", q) for q in reversed(p[1])])))
    if p[0] == "alt":
        out.append(("inv", ("alt", [("inv", q) for q in p[1]])))
    if p[0] == "plus":
        out.append(("seq", [p[1], ("star", p[1])]))
        out.append(("inv", ("plus", ("inv", p[1]))))
    if p[0] == "star":
        out.append(("opt", ("plus", p[1])))
        out.append(("inv", ("star", ("inv", p[1]))))
    return out


def run_direct(graphs, cases):
    """value_nodes_from_path called directly on a real ShapesGraph."""
    from pyshacl.helper.expression_helper import value_nodes_from_path
    from pyshacl.shapes_graph import ShapesGraph

    out = []
    for c in cases:
        sgg = rdflib.Graph()
        node = enc.path_to_rdf(sgg, c["path"])
        sg = ShapesGraph(sgg)
        try:
            vs = value_nodes_from_path(sg, c["focus"], node, graphs[c["g"]][0])
            out.append(("ok", set(vs)))
        except RecursionError:
            raise
        except Exception as e:  # documented or raw exception: recorded, compared with the model
            out.append(("err", enc.exn_name(e)))
    return out


def run_e2e(graphs, cases):
    """validate() with a property shape whose constraint (sh:in ()) fails on every value node."""
    import pyshacl

    out = []
    for c in cases:
        sgg = rdflib.Graph()
        node = enc.path_to_rdf(sgg, c["path"])
        shape, ps = EX.Shape, BNode()
        sgg.add((shape, rdflib.RDF.type, SH.NodeShape))
        sgg.add((shape, SH.targetNode, c["focus"]))
        sgg.add((shape, SH.property, ps))
        sgg.add((ps, SH.path, node))
        sgg.add((ps, SH["in"], rdflib.RDF.nil))
        try:
            conforms, rg, _ = pyshacl.validate(graphs[c["g"]][0], shacl_graph=sgg)
            vals = set()
            for r in rg.subjects(rdflib.RDF.type, SH.ValidationResult):
                vals.update(rg.objects(r, SH.value))
            if conforms != (len(vals) == 0):
                out.append(("err", "RAW:verdict-mismatch"))
            else:
                out.append(("ok", vals))
        except Exception as e:
            out.append(("err", enc.exn_name(e)))
    return out


def observed_to_coq(I, obs):
    if obs[0] == "ok":
        return "Ok %s" % I.terms(sorted(obs[1], key=str))
    name = obs[1]
    if name.startswith("RAW:"):
        return None
    return "Err %s" % name


def main(tier, seed, replay=None):
    rep = F.Report(PROP, tier, seed)
    ob = F.coq_build(PROP_FILES, extra=["Paths/PathCheck.v"])
    rng = F.rng_for(seed, PROP)
    graphs, cases = gen_cases(rng, tier)
    # end-to-end subset: IRI / literal foci only (a blank node of the data graph cannot be named in the shapes graph)
    e2e_idx = [i for i, c in enumerate(cases) if not isinstance(c["focus"], BNode)]
    step = max(1, len(e2e_idx) // (400 if tier == "quick" else 4000))
    e2e_idx = e2e_idx[::step]
    direct = run_direct(graphs, cases)
    e2e = run_e2e(graphs, [cases[i] for i in e2e_idx])

    I = enc.Interner()
    gdefs = "".join("Definition g%d : graph := %s.\n" % (i, I.graph(g)) for i, (g, _, _) in enumerate(graphs))
    bodies, meta = [], []
    raw = []
    for tag, idxs, obs in (("direct", range(len(cases)), direct), ("e2e", e2e_idx, e2e)):
        for i, o in zip(idxs, obs):
            c = cases[i]
            oc = observed_to_coq(I, o)
            if oc is None:
                raw.append((tag, i, o))
                continue
            bodies.append(
                "check_path g%d (%s) (%s) (%s)" % (c["g"], enc.path_to_coq(I, c["path"]), I.term(c["focus"]), oc)
            )
            meta.append((tag, i, o))
    failed, errors = ([], ["coq build broken"]) if not ob.ok else F.coq_eval("c03", PREAMBLE + gdefs, bodies)

    def describe(tag, i, o):
        c = cases[i]
        g = graphs[c["g"]][0]
        return {
            "via": "value_nodes_from_path" if tag == "direct" else "validate()",
            "path": enc.path_str(c["path"]),
            "path_ast": c["path"],
            "focus": c["focus"].n3(),
            "data": sorted(" ".join(t.n3() for t in tr) for tr in g),
            "observed": sorted(x.n3() for x in o[1]) if o[0] == "ok" else o[1],
        }

    for tag, i, o in raw:
        d = describe(tag, i, o)
        d["what"] = "implementation raised an undocumented exception where the model prescribes an answer"
        rep.violation(d)
    for k in failed[:20]:
        tag, i, o = meta[k]
        d = describe(tag, i, o)
        d["model"] = F.coq_show("c03", PREAMBLE + gdefs, bodies[k].replace("check_path", "(fun g p x _ => value_nodes g p x)", 1))
        d["what"] = "value nodes differ from the SPARQL 1.1 path relation (model proved equal to it: Props.C03)"
        rep.violation(d)
    if not ob.ok or errors:
        if not rep.violations:
            rep.violation({"obligation": ob.broken or errors, "detail": ob.log[-1500:]}, no_input=True)

    kinds = {}
    for c in cases:
        kinds[c["kind"]] = kinds.get(c["kind"], 0) + 1
    distinct = len({(c["g"], enc.path_str(c["path"]), str(c["focus"])) for c, o in zip(cases, direct) if not (o[0] == "ok" and not o[1])})
    cov = F.proof_coverage(ob, ["rdflib Graph.objects/subjects (modelled as list filters)", "Turtle-free: shapes graphs are built as rdflib graphs by the harness encoder"])
    cov.update(
        {
            "evaluations": len(bodies),
            "distinct_nontrivial": distinct,
            "rule": "case = (data graph, path AST, focus); exhaustive paths up to depth %d over 2 predicates on %d graphs x all foci, plus random paths depth<=4, deep (>10) and malformed-list paths; non-trivial = non-empty answer or error; each case run through value_nodes_from_path, a subsample also through validate()"
            % (1 if tier == "quick" else 2, 2 if tier == "quick" else 3),
            "distribution": {
                "by_kind": kinds,
                "graphs": len(graphs),
                "e2e_cases": len(e2e_idx),
                "errors_observed": sum(1 for o in direct if o[0] == "err"),
                "nonempty_answers": sum(1 for o in direct if o[0] == "ok" and o[1]),
                "model_disagreements": len(failed),
            },
            "samples": [describe("direct", i, direct[i]) for i in (0, len(cases) // 2, len(cases) - 1)],
        }
    )
    rep.coverage = cov
    rep.assumptions = ["rdflib's triple store returns exactly the stored triples", "the harness encoder renders the path AST as standard SHACL path syntax"]
    return rep.finish()
