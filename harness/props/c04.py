"""C04 - logical/shape-based components compose by conformance, not by leaked results."""
from .. import enc, framework as F, shapes as S, evalcheck as EC

PROP = "C04"
PROP_FILES = ["Props/C04.v"]


def gen_cases(rng, tier):
    n = 400 if tier == "quick" else 6000
    cases = []
    for i in range(n):
        data, nodes, lits = S.gen_typed_data(rng, n_iri=rng.randint(2, 5), n_bn=rng.randint(0, 1), n_lit=rng.randint(0, 2), n_triples=rng.randint(2, 12))
        shapes = S.gen_shapes(rng, nodes, lits, n_shapes=rng.randint(2, 7))
        S.add_templates(rng, shapes, nodes, lits)
        cases.append({"shapes": shapes, "sg": S.shapes_to_rdf(shapes), "data": data, "opts": {}})
    return cases


def main(tier, seed, replay=None):
    rep = F.Report(PROP, tier, seed)
    ob = F.coq_build(PROP_FILES, extra=EC.EXTRA_VO)
    if not EC.vocab_fresh():
        ob.broken.append("gate: coq/Base/Vocab.v is stale w.r.t. harness/enc.py")
    rng = F.rng_for(seed, PROP)
    cases = gen_cases(rng, tier)
    obs, failed, raw, errors, bodies = EC.model_vs_impl("c04", cases) if ob.ok else ([], [], [], ["coq build broken"], {})
    for i in raw:
        d = S.describe_case(cases[i]["sg"], cases[i]["data"], cases[i]["opts"], obs[i])
        d["what"] = "undocumented exception"
        rep.violation(d)
    for i in failed[:10]:
        d = S.describe_case(cases[i]["sg"], cases[i]["data"], cases[i]["opts"], obs[i])
        d["model"] = EC.show_model("c04", bodies[i])
        d["what"] = "results differ from the conformance-compositional semantics (model proved to satisfy Props.C04)"
        rep.violation(d)
    if (not ob.ok or errors) and not rep.violations:
        rep.violation({"obligation": ob.broken or errors, "detail": ob.log[-1500:]}, no_input=True)
    kinds = {}
    for c in cases:
        for s in c["shapes"]:
            for comp in s["comps"]:
                kinds[comp[0]] = kinds.get(comp[0], 0) + 1
    nontrivial = {str(S.describe_case(cases[i]["sg"], cases[i]["data"], {}, o)["observed"]) + cases[i]["sg"].serialize(format="nt") for i, o in enumerate(obs) if o[0] == "ok" and o[2]}
    cov = F.proof_coverage(ob)
    cov.update({
        "evaluations": len(cases),
        "distinct_nontrivial": len(nontrivial),
        "rule": "case = random layered shapes graph (2-7 shapes, six logical/shape-based components over leaf shapes, deactivation, severities, anonymous/named members) x random typed data graph, default options; non-trivial = at least one validation result; compared as multisets of (focus,value,component,sourceShape,severity,details) inside Coq",
        "distribution": {"components": kinds, "nonconforming": sum(1 for o in obs if o[0] == "ok" and not o[1]), "errors": sum(1 for o in obs if o[0] == "err"), "with_details": sum(1 for o in obs if o[0] == "ok" and any(r[5] for r in o[2])), "model_disagreements": len(failed)},
        "samples": [S.describe_case(cases[i]["sg"], cases[i]["data"], cases[i]["opts"], obs[i]) for i in range(min(2, len(obs)))],
    })
    rep.coverage = cov
    rep.assumptions = ["leaf components outside the six modelled kinds are exercised by C01, not here"]
    return rep.finish()
