"""C12 - abort_on_first changes how much is reported, never what is decided."""
from .. import framework as F, shapes as S, evalcheck as EC

PROP = "C12"
SEV = [{}, {"allow_infos": True}, {"allow_warnings": True}]


def gen_cases(rng, tier):
    n = 130 if tier == "quick" else 2200
    cases = []
    for gi in range(n):
        # counting constraints decided by several values are where an early exit can go wrong: half of the cases are focused,
        # and qualified value shapes (with a value shape that everything conforms to) are over-represented among them
        b = EC.base_case(rng, p_deact=0.05, p_focused=0.5, tmpls=[S.tmpl_several_lists, S.tmpl_several_lists, S.tmpl_several_lists, S.tmpl_custom, S.tmpl_custom_alone, S.tmpl_custom_alone, S.tmpl_custom_alone, S.tmpl_severity, S.tmpl_nested_severity, S.tmpl_shared, S.tmpl_shared, S.tmpl_shared, S.tmpl_multi_logical, S.tmpl_multi_logical, S.tmpl_multi_logical, S.tmpl_qualified, S.tmpl_qualified,
                                                                  lambda r, n, l: S.tmpl_qualified(r, n, l, easy=True), lambda r, n, l: S.tmpl_qualified(r, n, l, easy=True)])
        for so in SEV:
            for ab in (False, True):
                o = dict(so)
                if ab:
                    o["abort_on_first"] = True
                cases.append(dict(b, opts=o, group=gi))
    return cases


def sub_result(a, b):
    """a is b with possibly fewer nested details"""
    if a[:5] != b[:5]:
        return False
    rest = list(b[5])
    for d in a[5]:
        for j, e in enumerate(rest):
            if sub_result(d, e):
                del rest[j]
                break
        else:
            return False
    return True


def metamorphic(cases, obs):
    bad = []
    for k in range(0, len(cases), 2):
        full, ab = obs[k], obs[k + 1]
        if full[0] == "err":
            # the aborted run may stop before the failing part, but then it must be a non-conforming report
            if ab[0] == "ok" and (ab[1] or not ab[2]):
                bad.append((k + 1, "complete run fails with %s but abort_on_first run conforms" % full[1]))
            elif ab[0] == "err" and ab[1] != full[1]:
                bad.append((k + 1, "different failure under abort_on_first: %s vs %s" % (ab[1], full[1])))
            continue
        if ab[0] != "ok":
            bad.append((k + 1, "abort_on_first run fails (%s) but the complete run does not" % ab[1]))
            continue
        if ab[1] != full[1]:
            bad.append((k + 1, "verdict differs: abort_on_first=%s complete=%s" % (ab[1], full[1])))
        if not ab[1] and not ab[2]:
            bad.append((k + 1, "non-conforming verdict without any result"))
        rest = list(full[2])
        for r in ab[2]:
            for j, e in enumerate(rest):
                if sub_result(r, e):
                    del rest[j]
                    break
            else:
                bad.append((k + 1, "abort_on_first reported a result the complete run does not have: %r" % (S.result_key(r),)))
                break
    return bad


def rules_family(rng, n):
    """advanced mode: SHACL rules (with one or two sh:condition shapes) run before the shapes are validated - abort_on_first says how much
    of the VALIDATION is reported, the rules derive what they derive in a complete run"""
    import rdflib
    from rdflib import RDF as _RDF
    from .c11 import RULES_TTL
    stats, fails = {"rule_abort_cases": 0, "rule_abort_nonconforming": 0}, []
    for _ in range(n):
        data, nodes, lits = S.gen_typed_data(rng, n_iri=rng.randint(3, 5), n_bn=0, n_lit=1, n_triples=rng.randint(4, 10))
        iris = [x for x in nodes if isinstance(x, rdflib.URIRef)]
        # instances of the rule shape's class that meet the first condition (class C1), the second one (an ex:p value), both or neither
        for x_ in iris:
            data.add((x_, _RDF.type, S.CLASSES[0]))
            if rng.random() < 0.5:
                data.add((x_, _RDF.type, S.CLASSES[1]))
            else:
                data.remove((x_, _RDF.type, S.CLASSES[1]))
            if rng.random() < 0.5:
                data.remove((x_, rdflib.URIRef(S.PREDS[0]), None))
        ttl = RULES_TTL % {"csev": "", "csev2": "", "psev": "", "rsev": "", "vsev": rng.choice(["", "sh:severity sh:Warning ;"]), "second": rng.choice([", ex:Cond2", ", ex:Cond2", ""]), "vmin": rng.choice([1, 3])}
        sg = rdflib.Graph().parse(data=ttl, format="turtle")
        for so in SEV:
            full = S.run_validate(data, sg, advanced=True, **so)
            ab = S.run_validate(data, sg, advanced=True, abort_on_first=True, **so)
            stats["rule_abort_cases"] += 1
            stats["rule_abort_nonconforming"] += 1 if full[0] == "ok" and not full[1] else 0
            bad = None
            if full[0] != ab[0]:
                bad = "outcome kind differs: complete %r, abort_on_first %r" % (full[:2], ab[:2])
            elif full[0] == "ok":
                if full[1] != ab[1]:
                    bad = "verdict differs: abort_on_first=%s complete=%s" % (ab[1], full[1])
                elif not ab[1] and not ab[2]:
                    bad = "non-conforming verdict without any result"
                else:
                    rest = list(full[2])
                    for r in ab[2]:
                        hit = [j for j, e in enumerate(rest) if sub_result(r, e)]
                        if not hit:
                            bad = "abort_on_first reported a result the complete run does not have: %r" % (S.result_key(r),)
                            break
                        del rest[hit[0]]
            if bad:
                fails.append({"what": "advanced mode with rules: " + bad, "options": so, "shapes_ttl": ttl, "data_nt": sorted(data.serialize(format="nt").split("\n"))})
    return stats, fails, []


def main(tier, seed, replay=None):
    rng = F.rng_for(seed, PROP)
    cases = gen_cases(rng, tier)
    return EC.standard_main(
        PROP, ["Props/C12.v"], tier, seed, cases,
        rule="case = random nested shapes graph x data x {abort_on_first off,on} x {no waiver, allow_infos, allow_warnings}; relation on the real code: same verdict, aborted results are results of the complete run (possibly fewer details), non-conforming => at least one result; each run also compared with the model (aborted runs against the model's complete run); plus advanced-mode runs with SHACL rules that have one or two sh:condition shapes (the rules run before validation): the same relation between the complete and the aborted run",
        what="outcome differs from the model (Props.C12)",
        metamorphic=metamorphic,
        extra_checks=lambda: rules_family(F.rng_for(seed, PROP + "/rules"), 25 if tier == "quick" else 400),
    )
