"""C12 - abort_on_first changes how much is reported, never what is decided."""
from .. import framework as F, shapes as S, evalcheck as EC

PROP = "C12"
SEV = [{}, {"allow_infos": True}, {"allow_warnings": True}]


def gen_cases(rng, tier):
    n = 130 if tier == "quick" else 2200
    cases = []
    for gi in range(n):
        # counting constraints decided by several values are where an early exit can go wrong: half of the cases are focused,
        # and qualified value shapes (with a value shape that everything conforms to) are over-represented among them
        b = EC.base_case(rng, p_deact=0.05, p_focused=0.5, tmpls=[S.tmpl_custom, S.tmpl_custom_alone, S.tmpl_custom_alone, S.tmpl_custom_alone, S.tmpl_severity, S.tmpl_nested_severity, S.tmpl_shared, S.tmpl_shared, S.tmpl_shared, S.tmpl_multi_logical, S.tmpl_multi_logical, S.tmpl_multi_logical, S.tmpl_qualified, S.tmpl_qualified,
                                                                  lambda r, n, l: S.tmpl_qualified(r, n, l, easy=True), lambda r, n, l: S.tmpl_qualified(r, n, l, easy=True)])
        for so in SEV:
            for ab in (False, True):
                o = dict(so)
                if ab:
                    o["abort_on_first"] = True
                cases.append(dict(b, opts=o, group=gi))
    return cases


def sub_result(a, b):
    """a is b with possibly fewer nested details"""
    if a[:5] != b[:5]:
        return False
    rest = list(b[5])
    for d in a[5]:
        for j, e in enumerate(rest):
            if sub_result(d, e):
                del rest[j]
                break
        else:
            return False
    return True


def metamorphic(cases, obs):
    bad = []
    for k in range(0, len(cases), 2):
        full, ab = obs[k], obs[k + 1]
        if full[0] == "err":
            # the aborted run may stop before the failing part, but then it must be a non-conforming report
            if ab[0] == "ok" and (ab[1] or not ab[2]):
                bad.append((k + 1, "complete run fails with %s but abort_on_first run conforms" % full[1]))
            elif ab[0] == "err" and ab[1] != full[1]:
                bad.append((k + 1, "different failure under abort_on_first: %s vs %s" % (ab[1], full[1])))
            continue
        if ab[0] != "ok":
            bad.append((k + 1, "abort_on_first run fails (%s) but the complete run does not" % ab[1]))
            continue
        if ab[1] != full[1]:
            bad.append((k + 1, "verdict differs: abort_on_first=%s complete=%s" % (ab[1], full[1])))
        if not ab[1] and not ab[2]:
            bad.append((k + 1, "non-conforming verdict without any result"))
        rest = list(full[2])
        for r in ab[2]:
            for j, e in enumerate(rest):
                if sub_result(r, e):
                    del rest[j]
                    break
            else:
                bad.append((k + 1, "abort_on_first reported a result the complete run does not have: %r" % (S.result_key(r),)))
                break
    return bad


def main(tier, seed, replay=None):
    rng = F.rng_for(seed, PROP)
    cases = gen_cases(rng, tier)
    return EC.standard_main(
        PROP, ["Props/C12.v"], tier, seed, cases,
        rule="case = random nested shapes graph x data x {abort_on_first off,on} x {no waiver, allow_infos, allow_warnings}; relation on the real code: same verdict, aborted results are results of the complete run (possibly fewer details), non-conforming => at least one result; each run also compared with the model (aborted runs against the model's complete run)",
        what="outcome differs from the model (Props.C12)",
        metamorphic=metamorphic,
    )
