"""C06 - verdict, report graph and report text agree and the report is well-formed."""
import re

import rdflib
from rdflib import BNode, Literal, URIRef
from rdflib.namespace import RDF

from .. import enc, framework as F, shapes as S, evalcheck as EC, leaves as LV
from ..enc import EX, SH

PROP = "C06"
OPTS = [
    {}, {"abort_on_first": True}, {"allow_infos": True}, {"allow_warnings": True},
    {"allow_warnings": True, "abort_on_first": True}, {"advanced": True}, {"sparql_mode": True},
    {"inference": "rdfs"}, {"dataset": True}, {"inference": "owlrl", "advanced": True},
]
PREDS = [SH.result, SH.detail, SH.focusNode, SH.value, SH.resultPath, SH.sourceShape, SH.sourceConstraintComponent,
         SH.resultSeverity, SH.conforms]


def to_dataset(g, rng):
    ds = rdflib.Dataset()
    names = [None, URIRef("urn:g1"), URIRef("urn:g2")]
    for tr in g:
        n = rng.choice(names)
        (ds.default_context if n is None else ds.graph(n)).add(tr)
    return ds


def structural(case, data, conforms, rg, text):
    """the well-formedness the property states, checked on the real output; returns a list of complaints"""
    bad = []
    reports = list(rg.subjects(RDF.type, SH.ValidationReport))
    if len(reports) != 1:
        return ["%d sh:ValidationReport nodes" % len(reports)]
    vr = reports[0]
    cl = list(rg.objects(vr, SH.conforms))
    if len(cl) != 1 or not isinstance(cl[0], Literal) or cl[0].value is not conforms:
        bad.append("sh:conforms %r does not equal the verdict %r" % (cl, conforms))
    m = re.search(r"^Conforms: (True|False)$", text, re.M)
    if not m or (m.group(1) == "True") != conforms:
        bad.append("the text's Conforms line does not state the verdict")
    top = list(rg.objects(vr, SH.result))
    m = re.search(r"^Results \((\d+)\):$", text, re.M)
    n_text = int(m.group(1)) if m else 0
    if n_text != len(top):
        bad.append("text says %d results, the graph links %d" % (n_text, len(top)))
    if len(re.findall(r"^(?:Constraint Violation|Validation Result) in ", text, re.M)) != len(top):
        bad.append("number of result blocks in the text differs from the number of sh:result links")
    waived = set()
    if case["opts"].get("allow_infos"):
        waived |= {SH.Info}
    if case["opts"].get("allow_warnings"):
        waived |= {SH.Info, SH.Warning}
    sevs = [s for r in top for s in rg.objects(r, SH.resultSeverity)]
    if conforms != all(s in waived for s in sevs):
        bad.append("verdict %s but top-level severities are %s with waived %s" % (conforms, sorted(set(map(str, sevs))), sorted(map(str, waived))))
    data_terms = set()
    for tr in data:
        data_terms.update(tr)
    sg_terms = set()
    for tr in case["sg"]:
        sg_terms.update(tr)
    todo, seen = list(top), set()
    while todo:
        r = todo.pop()
        if r in seen:
            continue
        seen.add(r)
        if (r, RDF.type, SH.ValidationResult) not in rg:
            bad.append("a result node is not typed sh:ValidationResult")
        for p in (SH.focusNode, SH.resultSeverity, SH.sourceConstraintComponent, SH.sourceShape):
            k = len(list(rg.objects(r, p)))
            if k != 1:
                bad.append("a result has %d values for %s" % (k, p.rsplit("#")[-1]))
        for p in (SH.value, SH.resultPath):
            if len(list(rg.objects(r, p))) > 1:
                bad.append("a result has more than one %s" % p.rsplit("#")[-1])
        for pth in rg.objects(r, SH.resultPath):
            if pth not in sg_terms and pth not in data_terms:      # sh:closed reports the offending predicate of the data graph
                bad.append("sh:resultPath %s occurs in neither validated graph" % pth.n3())
            if isinstance(pth, BNode):
                for p_, o_ in case["sg"].predicate_objects(pth):
                    if not isinstance(o_, BNode) and (pth, p_, o_) not in rg:
                        bad.append("blank-node path without its description in the report: missing %s %s" % (p_.n3(), o_.n3()))
        for f in list(rg.objects(r, SH.focusNode)) + list(rg.objects(r, SH.value)):
            if f not in data_terms and f not in sg_terms:
                bad.append("focus/value term %s occurs in neither validated graph" % f.n3())
            if isinstance(f, BNode):
                src = data if f in data_terms else case["sg"]
                for p, o in src.predicate_objects(f):
                    if not isinstance(o, BNode) and (f, p, o) not in rg:
                        bad.append("blank-node term without its description in the report: missing %s %s" % (p.n3(), o.n3()))
        for sh in rg.objects(r, SH.sourceShape):
            if sh not in sg_terms:
                bad.append("sourceShape %s is not a node of the shapes graph" % sh.n3())
            if isinstance(sh, BNode):
                for p, o in case["sg"].predicate_objects(sh):
                    if not isinstance(o, BNode) and (sh, p, o) not in rg:
                        bad.append("blank-node source shape without its description: missing %s" % p.n3())
        todo.extend(rg.objects(r, SH.detail))
    return bad


def main(tier, seed, replay=None):
    rng = F.rng_for(seed, PROP)
    n = 70 if tier == "quick" else 1200
    cases = []
    for gi in range(n):
        b = EC.base_case(rng, p_deact=0.05)
        for o in OPTS:
            c = dict(b, opts={k: v for k, v in o.items() if k != "dataset"}, group=gi)
            if o.get("dataset"):
                c["data_run"] = to_dataset(b["data"], rng)
            cases.append(c)
    # every core component (ranges, property pairs, string constraints, closed, ...) in both evaluation modes:
    # only the well-formedness of the real report is checked for these (no model comparison)
    for gi in range(n, n + (40 if tier == "quick" else 700)):
        b = LV.gen_case(rng)
        if rng.random() < 0.6:
            # property-pair components have mode-specific evaluators whose verdict flag and result list are kept separately
            for _try in range(8):
                if any(cmp[0] in ("equals", "disjoint", "lessthan", "lessthaneq") for sh_ in b["shapes"] for cmp in sh_["comps"]):
                    break
                b = LV.gen_case(rng)
        b["sg"] = S.shapes_to_rdf(b["shapes"])
        for o in ({}, {"sparql_mode": True}, {"sparql_mode": True, "abort_on_first": True}, {"allow_warnings": True}):
            cases.append(dict(b, opts=dict(o), group=gi, structural_only=True))
    # a grid for the property-pair components: one focus node, the value sets of the two properties in every subset relation
    GRID_PFX = "@prefix sh: <http://www.w3.org/ns/shacl#> . @prefix ex: <http://ex.org/> .\n"
    rel = {"A subset of B": ([1], [1, 2]), "B subset of A": ([1, 2], [1]), "equal": ([1, 2], [1, 2]), "disjoint": ([1], [2]), "overlap": ([1, 2], [2, 3]), "A empty": ([], [1]), "B empty": ([1], [])}
    gi = len(cases)
    for comp in ("equals", "disjoint", "lessThan", "lessThanOrEquals"):
        for rname, (A, B) in rel.items():
            for two in (False, True):
                dttl = GRID_PFX + "".join("ex:a ex:p %d .\n" % v for v in A) + "".join("ex:a ex:q %d .\n" % v for v in B) + "ex:a a ex:T .\n"
                if two:
                    dttl += "ex:b a ex:T ; ex:p 1 ; ex:q 1 .\n"   # a second focus node without any discrepancy
                sgx = rdflib.Graph().parse(data=GRID_PFX + "ex:G a sh:NodeShape ; sh:targetClass ex:T ; sh:property [ sh:path ex:p ; sh:%s ex:q ] ." % comp, format="turtle")
                dgx = rdflib.Graph().parse(data=dttl, format="turtle")
                gi += 1
                for o in ({}, {"sparql_mode": True}, {"sparql_mode": True, "abort_on_first": True}):
                    cases.append({"shapes": [], "sg": sgx, "data": dgx, "opts": dict(o), "group": gi, "structural_only": True, "nodes": [], "lits": []})
    # blank nodes that head RDF lists, as value nodes, focus nodes and sequence paths: they keep their identity in the report
    LIST_PFX = "@prefix sh: <http://www.w3.org/ns/shacl#> . @prefix ex: <http://ex.org/> . @prefix rdf: <http://www.w3.org/1999/02/22-rdf-syntax-ns#> .\n"
    list_data = rdflib.Graph().parse(data=LIST_PFX + "ex:a a ex:T ; ex:p ( 1 2 ) , [ ex:name \"n\" ] , ( ex:x ) ; ex:q ( \"s\" ) . ex:b a ex:T ; ex:p ex:c . ex:c ex:q ( 3 ) .", format="turtle")
    for body in ("sh:property [ sh:path ex:p ; sh:nodeKind sh:IRI ]", "sh:property [ sh:path ( ex:p ex:q ) ; sh:maxCount 0 ]", "sh:property [ sh:path ( ex:p [ sh:zeroOrMorePath ex:q ] ) ; sh:nodeKind sh:Literal ]",
                 "sh:property [ sh:path [ sh:alternativePath ( ex:p ex:q ) ] ; sh:class ex:Nope ]", "sh:property [ sh:path ex:p ; sh:node [ sh:property [ sh:path rdf:first ; sh:maxCount 0 ] ] ]"):
        sgx = rdflib.Graph().parse(data=LIST_PFX + "ex:LS a sh:NodeShape ; sh:targetClass ex:T ; " + body + " .\nex:LO a sh:NodeShape ; sh:targetObjectsOf ex:p ; sh:nodeKind sh:IRI .", format="turtle")
        gi += 1
        for o in ({}, {"abort_on_first": True}, {"allow_warnings": True}):
            cases.append({"shapes": [], "sg": sgx, "data": list_data, "opts": dict(o), "group": gi, "structural_only": True, "nodes": [], "lits": []})
    # property shapes with targets of their own whose focus nodes SHARE value nodes, for every shape-expecting component:
    # each (focus node, value node) pair has its own result node, linked from the report exactly once
    shared_data = rdflib.Graph().parse(data=LIST_PFX + "ex:a a ex:T ; ex:p ex:v1 , ex:v2 . ex:b a ex:T ; ex:p ex:v1 , ex:v3 . ex:c a ex:T ; ex:p ex:v1 .\n"
                                                       "ex:v1 ex:z 5 ; a ex:Bad . ex:v2 ex:z \"ok\" . ex:v3 ex:z 7 , 8 .", format="turtle")
    inner = "ex:Inner a sh:PropertyShape ; sh:path ex:z ; sh:datatype <http://www.w3.org/2001/XMLSchema#string> ; sh:maxCount 1 .\nex:InnerN a sh:NodeShape ; sh:property ex:Inner .\n"
    for body in ("sh:property ex:Inner", "sh:node ex:InnerN", "sh:not ex:InnerN", "sh:or ( ex:InnerN [ sh:class ex:Nope ] )", "sh:and ( ex:InnerN )", "sh:xone ( ex:InnerN [ sh:class ex:Bad ] )",
                 "sh:qualifiedValueShape ex:InnerN ; sh:qualifiedMinCount 2", "sh:class ex:Good", "sh:nodeKind sh:Literal"):
        sgx = rdflib.Graph().parse(data=LIST_PFX + inner + "ex:Outer a sh:PropertyShape ; sh:targetClass ex:T ; sh:path ex:p ; " + body + " .", format="turtle")
        gi += 1
        for o in ({}, {"abort_on_first": True}, {"allow_warnings": True}, {"sparql_mode": True}):
            cases.append({"shapes": [], "sg": sgx, "data": shared_data, "opts": dict(o), "group": gi, "structural_only": True, "nodes": [], "lits": []})
    rep = F.Report(PROP, tier, seed)
    ob = F.coq_build(["Props/C06.v"], extra=EC.EXTRA_VO)
    import pyshacl
    complaints, bodies, idx, errs = [], [], [], 0
    from pyshacl.shapes_graph import ShapesGraph
    stats = {"nonconforming": 0, "with_details": 0, "failures": 0, "by_option": {}}
    for i, c in enumerate(cases):
        data = c.get("data_run", c["data"])
        try:
            try:
                conforms, rg, text = pyshacl.validate(data, shacl_graph=c["sg"], **c["opts"])
            except Exception as e0:
                # sparql_mode runs the target query through rdflib's engine; rdflib's MulPath.eval treats the terms
                # 0 / false / "" as unbound (listed under C07: C07-rdflib-mulpath-truthiness) and can end in its own
                # AssertionError. That is C07's matter, not a report-shape question: when the exception disappears
                # with that one rdflib function corrected, the report of the corrected run is what is checked here.
                if not c["opts"].get("sparql_mode") or not enc.exn_name(e0).startswith("RAW:"):
                    raise
                from .c07 import rdflib_mulpath_patched
                with rdflib_mulpath_patched() as pt:
                    if not pt.applied:
                        raise
                    conforms, rg, text = pyshacl.validate(data, shacl_graph=c["sg"], **c["opts"])
                stats["rdflib_mulpath_engine_errors_rerun"] = stats.get("rdflib_mulpath_engine_errors_rerun", 0) + 1
        except Exception as e:
            errs += 1
            stats["failures"] += 1
            if enc.exn_name(e).startswith("RAW:"):
                complaints.append((i, "undocumented exception %r" % e))
            continue
        if not isinstance(rg, rdflib.Graph):
            stats["failures"] += 1
            continue
        key = ",".join(sorted(c["opts"])) or "default"
        stats["by_option"][key] = stats["by_option"].get(key, 0) + 1
        stats["nonconforming"] += (not conforms)
        stats["with_details"] += bool(list(rg.subject_objects(SH.detail)))
        for msg in structural(c, c["data"], conforms, rg, text):
            complaints.append((i, msg))
        # histogram correspondence with the model's report graph (modes the model covers)
        if not (set(c["opts"]) & {"advanced", "sparql_mode", "inference"}) and ob.ok and not c.get("structural_only"):
            I = enc.Interner()
            hist = [len(list(rg.subject_objects(p))) for p in PREDS]
            sgx = ShapesGraph(c["sg"]).graph
            ctx = None
            if any(cmp[0] in ("sparql", "custom") for sh in c["shapes"] for cmp in sh["comps"]):
                foci = set()
                for tr in c["data"]:
                    foci.add(tr[0]); foci.add(tr[2])
                for sh in c["shapes"]:
                    foci.update(sh["targets"]["nodes"])
                foci.update(c.get("nodes", []))   # also nodes that occur in no triple (explicit focus_nodes may name them)
                foci.update(c.get("lits", []))
                ctx = {"data": c["data"], "foci": sorted(foci, key=lambda t: t.n3())}
            if c["opts"].get("abort_on_first"):
                continue  # the aborted report depends on iteration order; its structure is checked above
            bodies.append("check_report empty_world (%s) (%s) (%s) (%s) %s [%s]" % (
                S.opts_to_coq(I, c["opts"]), I.graph(S.class_triples(sgx)), I.graph(c["data"]),
                S.env_to_coq(I, c["shapes"], ctx=ctx), enc.coq_bool(conforms), "; ".join("%d%%nat" % h for h in hist)))
            idx.append(i)
            # row level: every result node (at any sh:detail depth) with its focus, value, source shape, component, severity
            rows = []
            for rn in set(rg.subjects(RDF.type, SH.ValidationResult)):
                try:
                    vals = list(rg.objects(rn, SH.value))
                    rows.append("(%s, %s, %s, %d%%N, %s)" % (I.term(next(rg.objects(rn, SH.focusNode))), enc.coq_opt(I.term(vals[0])) if vals else "None",
                                I.term(next(rg.objects(rn, SH.sourceShape))), I.iri_num(next(rg.objects(rn, SH.sourceConstraintComponent))),
                                I.term(next(rg.objects(rn, SH.resultSeverity)))))
                except StopIteration:
                    rows = None
                    break
            if rows is not None:
                bodies.append("check_report_rows empty_world (%s) (%s) (%s) (%s) [%s]" % (
                    S.opts_to_coq(I, c["opts"]), I.graph(S.class_triples(sgx)), I.graph(c["data"]),
                    S.env_to_coq(I, c["shapes"], ctx=ctx), "; ".join(rows)))
                idx.append(i)
    failed, errors = F.coq_eval("c06", EC.PREAMBLE, bodies, shard=100) if ob.ok else ([], ["coq build broken"])
    seen = set()
    for i, msg in complaints[:10]:
        if (i, msg) in seen:
            continue
        seen.add((i, msg))
        rep.violation({"what": msg, "options": cases[i]["opts"], "shapes_ttl": cases[i]["sg"].serialize(format="turtle"),
                       "data_nt": sorted(" ".join(t.n3() for t in tr) for tr in cases[i]["data"])})
    for k in failed[:10]:
        i = idx[k]
        rep.violation({"what": "the report graph differs from the model's report_graph (Props.C06): triple counts per predicate, or the rows (focus, value, source shape, component, severity) of its result nodes",
                       "options": cases[i]["opts"], "shapes_ttl": cases[i]["sg"].serialize(format="turtle"),
                       "data_nt": sorted(" ".join(t.n3() for t in tr) for tr in cases[i]["data"])})
    if (not ob.ok or errors) and not rep.violations:
        rep.violation({"obligation": ob.broken or errors, "detail": ob.log[-1500:]}, no_input=True)
    cov = F.proof_coverage(ob)
    cov.update({
        "evaluations": len(cases), "distinct_nontrivial": stats["nonconforming"],
        "rule": "case = shapes/data from the evaluator-level generators (nested shapes, templates for qualified siblings, severity mixes, SPARQL components) x 10 option settings (abort_on_first, allow_infos, allow_warnings, advanced, sparql_mode, inference rdfs/owlrl, Dataset input); plus shapes over every core component (C01's generator) in default mode and sparql_mode, RDF-list heads as value nodes, focus nodes and sequence paths, targeted property shapes whose focus nodes share value nodes (every shape-expecting component), and a grid of the four property-pair components over every subset relation of the two value sets; on every real report: one report node, sh:conforms = verdict = text, text count = #sh:result, verdict <-> all top-level severities waived, every (nested) result well-formed, terms denote terms of the validated graphs, blank-node terms come with their description; non-trivial = non-conforming; for the modes the model covers the per-predicate triple counts and the multiset of result rows (focus, value, source shape, component, severity at every sh:detail depth) are compared with the model's report_graph",
        "distribution": dict(stats, histogram_cases=len(bodies), model_disagreements=len(failed), structural_complaints=len(complaints)),
        "samples": [{"options": cases[i]["opts"], "shapes_ttl": cases[i]["sg"].serialize(format="turtle")[:1500]} for i in (0, len(cases) // 2)],
    })
    rep.coverage = cov
    rep.assumptions = ["the copy of deeper blank-node descriptions (clone_blank_node beyond one level) is checked one level deep only"]
    return rep.finish()
