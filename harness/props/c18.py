"""C18 - a serialized report is the report; CLI and API agree."""
import io
import os
import re
import shutil
import sys
import tempfile
import warnings
from concurrent.futures import ThreadPoolExecutor

import rdflib
from rdflib import BNode, Literal, URIRef
from rdflib.compare import isomorphic
from rdflib.namespace import RDF

from .. import enc, framework as F, shapes as S, evalcheck as EC, leaves as LV
from ..enc import EX, SH
from . import c16

PROP = "C18"
PREAMBLE = c16.PREAMBLE
GRAPH_FORMATS = ["turtle", "xml", "json-ld", "nt", "n3"]


def keys_iso(o):
    return sorted(re.sub(r"_:[A-Za-z0-9_]+", "_:b", repr(k)) for k in EC.keys(o))


KNOWN_SHORTHAND = "C18-rdflib-turtle-shorthand-of-ill-typed-literals"


def has_ill_typed_shorthand(g):
    from rdflib.namespace import XSD
    return any(isinstance(o, Literal) and o.datatype in (XSD.boolean, XSD.integer, XSD.decimal, XSD.double) and o.ill_typed for o in g.objects())


KNOWN_NATIVE = "C18-rdflib-native-literal-forms"
NATIVE_WHAT = ("a non-canonical or ill-typed lexical form of xsd:integer/decimal/double/boolean (\"05\", \"5.0e0\", \"maybe\"^^xsd:boolean) does not survive rdflib's "
               "Turtle/N3 parser (numeric and boolean shorthand is read through Python values) nor its JSON-LD serialiser (native JSON numbers and booleans)")


def canon_literals(g):
    from rdflib.namespace import XSD
    out = rdflib.Graph()
    for s_, p_, o_ in g:
        if isinstance(o_, Literal) and o_.datatype in (XSD.boolean, XSD.integer, XSD.decimal, XSD.double) and o_.value is not None:
            o_ = Literal(o_.value, datatype=o_.datatype)
        out.add((s_, p_, o_))
    return out


KNOWN_LISTS = "C18-rdflib-turtle-duplicates-shared-lists"
LISTS_WHAT = ("an RDF list that two results share (the copied description of a shape with sh:in / sh:or ...) is written once per reference by rdflib's Turtle/N3 serialiser: "
              "the parsed report has extra rdf:first/rdf:rest cells and is not isomorphic (same verdict and results)")


def order_free_messages(g):
    """the wording ORDER of generated default messages (members of Python sets) may differ between two runs on equal
    inputs (C09 allows that): each sh:resultMessage is replaced by the sorted bag of its characters"""
    out = rdflib.Graph()
    for s_, p_, o_ in g:
        if p_ == SH.resultMessage and isinstance(o_, Literal):
            o_ = Literal("".join(sorted(str(o_))), lang=o_.language)
        out.add((s_, p_, o_))
    return out


BNODE_LABEL = re.compile(r"\b[Nn][0-9a-f]{32}(?:b[0-9]+)?\b")


def label_free_messages(g):
    """a declared sh:message may quote a blank node ({$value}, {$this}): what it then shows is the label the parser gave that
    node in this load of the file, which no second load repeats (C09: reports differ at most in blank-node labels).  Labels
    of rdflib's form are replaced by one token, then the wording order is neutralised as well"""
    out = rdflib.Graph()
    for s_, p_, o_ in g:
        if p_ == SH.resultMessage and isinstance(o_, Literal):
            o_ = Literal(BNODE_LABEL.sub("BNODE", str(o_)), lang=o_.language)
        out.add((s_, p_, o_))
    return order_free_messages(out)


def collapse_lists(g):
    """every RDF list is replaced by one literal naming its members: graphs that differ only in how often a shared
    list was written become equal"""
    heads = {s_ for s_ in g.subjects(RDF.first, None) if (None, RDF.rest, s_) not in g}
    cells = set()
    token = {}
    for h in heads:
        members, cur, guard = [], h, 0
        while cur != RDF.nil and cur is not None and guard < 1000:
            cells.add(cur)
            m = g.value(cur, RDF.first)
            members.append("_:b" if isinstance(m, BNode) else (m.n3() if m is not None else "?"))
            cur = g.value(cur, RDF.rest)
            guard += 1
        token[h] = Literal("LIST(" + " ".join(members) + ")")
    out = rdflib.Graph()
    for s_, p_, o_ in g:
        if s_ in cells:
            continue
        out.add((s_, p_, token.get(o_, o_)))
    return out


def only_extra_list_cells(g0, g1):
    return isomorphic(collapse_lists(g0), collapse_lists(g1))


class plain_parse:
    """re-parse the serialised report without rdflib's lexical normalisation: the bytes are what is compared"""

    def __enter__(self):
        self.old = rdflib.NORMALIZE_LITERALS
        rdflib.NORMALIZE_LITERALS = False

    def __exit__(self, *exc):
        rdflib.NORMALIZE_LITERALS = self.old
        return False


def report_of(graph):
    return ("ok", None, S.parse_report(graph))


def option_cases():
    """cli.main() with validate() replaced by a recorder: which keywords arrive for which flags"""
    import pyshacl.cli as CLI
    d = tempfile.mkdtemp(prefix="c18_", dir="/var/tmp")
    data = os.path.join(d, "d.ttl")
    open(data, "w").write("@prefix ex: <http://ex.org/> . ex:a ex:p ex:b .")
    flagsets = [[], ["-s", data], ["-e", data], ["-i", "rdfs"], ["-m"], ["-im"], ["-a"], ["-a", "-it"], ["--abort"], ["--allow-info"], ["-w"], ["--max-depth", "4"], ["-d"],
                ["--focus", "http://ex.org/a, ex:b"], ["--shape", "http://ex.org/S"], ["-f", "turtle"], ["-f", "table"], ["-df", "turtle"], ["-sf", "nt"], ["-ef", "xml"],
                ["-s", data, "-a", "-it", "--abort", "-w", "--max-depth", "7", "-f", "json-ld", "-i", "both"]]
    # every pair of independent flags: a flag must arrive whatever other flag is given next to it
    singles = [["-m"], ["-a"], ["--abort"], ["--allow-info"], ["-w"], ["--max-depth", "4"], ["-i", "rdfs"], ["-d"], ["-a", "-it"], ["-f", "turtle"], ["--focus", "http://ex.org/a, ex:b"]]
    for i_ in range(len(singles)):
        for j_ in range(i_ + 1, len(singles)):
            if singles[i_][0] == "-a" and singles[j_][0] == "-a":
                continue
            flagsets.append(singles[i_] + singles[j_])
            if (i_ + j_) % 3 == 0:
                flagsets.append(singles[j_] + singles[i_])
    bodies, meta, bad = [], [], []
    orig = CLI.validate
    try:
        for fl in flagsets:
            seen = {}

            def rec(dg, **kw):
                seen.update(kw)
                return True, (b"# report" if kw.get("serialize_report_graph") else rdflib.Graph()), "Validation Report\nConforms: True\n"
            CLI.validate = rec
            argv, sys.argv = sys.argv, ["pyshacl"] + fl + ["-o", os.path.join(d, "o.txt"), data]
            err, sys.stderr = sys.stderr, io.StringIO()
            try:
                CLI.main()
            except SystemExit:
                pass
            finally:
                sys.argv, sys.stderr = argv, err
            keys = sorted(seen)
            bodies.append("forallb (fun k => existsb (fun p => String.eqb (snd p) k) cli_passed) [%s]" % "; ".join('"%s"' % k for k in keys))
            meta.append({"kind": "cli option plumbing", "flags": fl, "keywords_received": {k: repr(v)[:60] for k, v in seen.items()}})
            # values: what the flag says must be what validate() gets
            want = {}
            if "--max-depth" in fl:
                want["max_validation_depth"] = int(fl[fl.index("--max-depth") + 1])
            if "-i" in fl:
                want["inference"] = fl[fl.index("-i") + 1]
            if "--abort" in fl:
                want["abort_on_first"] = True
            if "-w" in fl:
                want["allow_warnings"] = True
            if "--allow-info" in fl:
                want["allow_infos"] = True
            if "-a" in fl:
                want["advanced"] = True
            if "-it" in fl and "-a" in fl:
                want["iterate_rules"] = True
            if "-m" in fl:
                want["meta_shacl"] = True
            if "--focus" in fl:
                want["focus_nodes"] = ["http://ex.org/a", "ex:b"]
            if "-f" in fl and fl[fl.index("-f") + 1] not in ("human", "table"):
                want["serialize_report_graph"] = fl[fl.index("-f") + 1]
            for k, v in want.items():
                if seen.get(k) != v:
                    bad.append({"what": "the command line does not hand the option on to validate(): %s expected %r, got %r" % (k, v, seen.get(k)), "flags": fl})
    finally:
        CLI.validate = orig
        shutil.rmtree(d, ignore_errors=True)
    return bodies, meta, bad


def parse_human(text):
    m = re.search(r"Conforms: (True|False)", text)
    n = re.search(r"Results \((\d+)\)", text)
    return (m.group(1) == "True") if m else None, int(n.group(1)) if n else 0


def parse_table(text):
    m = re.search(r"\|\s*(True|False)\s*\|", text)
    rows = re.findall(r"^\|\s*(\d+)\s*\|", text, flags=re.M)
    return (m.group(1) == "True") if m else None, len(rows)


def main(tier, seed, replay=None):
    warnings.simplefilter("ignore")
    import pyshacl
    rep = F.Report(PROP, tier, seed)
    ob = F.coq_build(["Props/C18.v"], translators=["t3"])
    rng = F.rng_for(seed, PROP)
    big = tier == "thorough"
    known = {k.get("id") for k in F.load_known_findings(PROP)}
    bodies, meta, opt_bad = option_cases()
    failed, errors = F.coq_eval("c18", PREAMBLE, bodies, shard=60) if ob.ok else ([], ["coq build broken"])

    diffs, stats = [], {"api_roundtrips": 0, "cli_runs": 0, "reports_with_results": 0, "reports_with_bnode_values": 0, "reports_with_details": 0}
    n_api = 400 if big else 40
    n_cli = 60 if big else 6
    d = tempfile.mkdtemp(prefix="c18_", dir="/var/tmp")
    cli_jobs = []
    try:
        for j in range(n_api):
            if rng.random() < 0.5:
                c = LV.gen_case(rng)
                c["sg"] = S.shapes_to_rdf(c["shapes"])
            else:
                c = EC.base_case(rng)
            opts = rng.choice([{}, {}, {"abort_on_first": True}, {"allow_warnings": True}, {"allow_infos": True}, {"allow_infos": True, "allow_warnings": True}])
            if rng.random() < 0.2:
                # every shape of waivable severity: with allow_warnings the report conforms and still has results
                for sh_ in c["shapes"]:
                    sh_["sev"] = rng.choice([SH.Warning, SH.Info])
                c["sg"] = S.shapes_to_rdf(c["shapes"])
                opts = rng.choice([{"allow_warnings": True}, {"allow_warnings": True, "allow_infos": True}])
            base = S.run_validate(c["data"], c["sg"], **opts)
            if base[0] != "ok":
                continue
            g0 = base[4]
            stats["reports_with_results"] += 1 if base[2] else 0
            stats["reports_with_bnode_values"] += 1 if any(isinstance(r[1], BNode) or isinstance(r[0], BNode) for r in base[2]) else 0
            stats["reports_with_details"] += 1 if any(r[5] for r in base[2]) else 0
            for fmt in GRAPH_FORMATS:
                try:
                    conforms, data_bytes, text = pyshacl.validate(c["data"], shacl_graph=c["sg"], serialize_report_graph=fmt, **opts)
                except Exception as e:
                    diffs.append((c, "validate(serialize_report_graph=%r) raised %s: %s" % (fmt, type(e).__name__, str(e)[:150]), base, None, opts))
                    continue
                stats["api_roundtrips"] += 1
                if not isinstance(data_bytes, (bytes, str)):
                    diffs.append((c, "serialize_report_graph=%r did not return bytes" % fmt, base, None, opts))
                    continue
                try:
                    with plain_parse():
                        g1 = rdflib.Graph().parse(data=data_bytes, format=fmt)
                except Exception as e:
                    if fmt in ("turtle", "n3") and has_ill_typed_shorthand(g0) and KNOWN_SHORTHAND in known:
                        rep.known_finding(KNOWN_SHORTHAND, "rdflib's Turtle/N3 serialiser writes an ill-typed xsd:boolean/integer/decimal/double literal (e.g. \"maybe\"^^xsd:boolean) in bare shorthand form: the serialised report does not parse")
                        continue
                    diffs.append((c, "the %s bytes of the report do not parse: %s" % (fmt, str(e)[:150]), base, None, opts))
                    continue
                o1 = ("ok", conforms, S.parse_report(g1))
                same = conforms == base[1] and keys_iso(o1) == keys_iso(base)
                if same and fmt != "json-ld":
                    same = isomorphic(g0, g1) or isomorphic(order_free_messages(g0), order_free_messages(g1))
                if not same and fmt in ("turtle", "n3", "json-ld") and KNOWN_NATIVE in known:
                    if fmt != "json-ld" and KNOWN_LISTS in known and only_extra_list_cells(g0, g1):
                        rep.known_finding(KNOWN_LISTS, LISTS_WHAT)
                        continue
                    c0, c1 = canon_literals(g0), canon_literals(g1)
                    if keys_iso(("ok", None, S.parse_report(c0))) == keys_iso(("ok", None, S.parse_report(c1))) and (fmt == "json-ld" or isomorphic(c0, c1)):
                        rep.known_finding(KNOWN_NATIVE, NATIVE_WHAT)
                        continue
                    # both listed rdflib effects at once: literals re-spelled AND a shared list written twice
                    if fmt != "json-ld" and KNOWN_LISTS in known and keys_iso(("ok", None, S.parse_report(c0))) == keys_iso(("ok", None, S.parse_report(c1))) and only_extra_list_cells(c0, c1):
                        rep.known_finding(KNOWN_NATIVE, NATIVE_WHAT)
                        rep.known_finding(KNOWN_LISTS, LISTS_WHAT)
                        continue
                if not same:
                    from rdflib.compare import graph_diff, to_isomorphic
                    _, da, db = graph_diff(to_isomorphic(g0), to_isomorphic(g1))
                    o1 = o1 + ({"only_in_api_graph": sorted(" ".join(x.n3() for x in t) for t in da)[:400], "only_in_parsed": sorted(" ".join(x.n3() for x in t) for t in db)[:400]},)
                    diffs.append((c, "the report parsed back from %s differs from the report graph of the API" % fmt, base, o1, opts))
            stats["conforming_with_results"] = stats.get("conforming_with_results", 0) + (1 if base[1] and base[2] else 0)
            v_, n_ = parse_human(base[3])
            if v_ != base[1] or n_ != len(base[2]):
                diffs.append((c, "the report text states conforms=%s with %d results; the report graph has conforms=%s with %d results" % (v_, n_, base[1], len(base[2])), base, None, opts))
            has_details = any(r[5] for r in base[2])
            want_detail = has_details and stats.get("cli_cases_with_details", 0) < (12 if big else 3)
            if want_detail or (len(cli_jobs) < n_cli * 7 and (base[2] or rng.random() < 0.3)):
                stats["cli_cases_with_details"] = stats.get("cli_cases_with_details", 0) + (1 if has_details else 0)
                dp, sp = os.path.join(d, "d%d.nt" % j), os.path.join(d, "s%d.nt" % j)
                c["data"].serialize(destination=dp, format="nt")
                c["sg"].serialize(destination=sp, format="nt")
                ref = S.run_validate(dp, sp, **opts)   # the API on the same files
                if ref[0] != "ok":
                    continue
                flags = (["--abort"] if opts.get("abort_on_first") else []) + (["--allow-infos"] if opts.get("allow_infos") else []) + (["-w"] if opts.get("allow_warnings") else [])
                for fmt in GRAPH_FORMATS + ["human", "table"]:
                    cli_jobs.append((c, ref, fmt, ["-s", sp, "-f", fmt] + flags + [dp], opts))
        # ---- shapes documents that state a base IRI ('# baseURI:' header, @base, a file of their own) and reports that mention
        # IRIs under and next to that base: the serialised report must not be written relative to anything
        based_shapes = ("# baseURI: http://ex.org/shapes\n@prefix sh: <http://www.w3.org/ns/shacl#> . @prefix ex: <http://ex.org/> .\n"
                        "ex:BS a sh:NodeShape ; sh:targetClass ex:T ; sh:property [ sh:path <http://ex.org/shapes/p> ; sh:nodeKind sh:Literal ] ; sh:property [ sh:path ex:q ; sh:class ex:Nope ] .\n")
        based_data = rdflib.Graph().parse(data="@prefix ex: <http://ex.org/> . <http://ex.org/shapesExtra/bob> a ex:T ; <http://ex.org/shapes/p> <http://ex.org/shapes/x> , <http://ex.org/other> ; ex:q <http://ex.org/shapes> , <http://ex.org/shapesExtra/y> .", format="turtle")
        bs_path, bd_path = os.path.join(d, "based_shapes.ttl"), os.path.join(d, "based_data.nt")
        open(bs_path, "w").write(based_shapes)
        based_data.serialize(destination=bd_path, format="nt")
        for shapes_arg, kw_ in ((based_shapes, {"shacl_graph_format": "turtle"}), (bs_path, {}), (based_shapes.replace("# baseURI: http://ex.org/shapes\n", "@base <http://ex.org/shapes> .\n"), {"shacl_graph_format": "turtle"})):
            refb = S.run_validate(based_data, shapes_arg, **kw_)
            if refb[0] != "ok":
                diffs.append(({"sg": rdflib.Graph(), "data": based_data}, "validate() with a shapes document that states a base IRI failed: %r" % (refb[:3],), ("ok", True, [], "", rdflib.Graph()), None, kw_))
                continue
            for fmt in GRAPH_FORMATS:
                conforms, data_bytes, text = pyshacl.validate(based_data, shacl_graph=shapes_arg, serialize_report_graph=fmt, **kw_)
                stats["api_roundtrips"] += 1
                stats["based_shapes_roundtrips"] = stats.get("based_shapes_roundtrips", 0) + 1
                try:
                    with plain_parse():
                        g1 = rdflib.Graph().parse(data=data_bytes, format=fmt)
                    same = conforms == refb[1] and (keys_iso(("ok", conforms, S.parse_report(g1))) == keys_iso(refb)) and (fmt == "json-ld" or isomorphic(refb[4], g1) or isomorphic(order_free_messages(refb[4]), order_free_messages(g1)))
                except Exception as e:
                    same = False
                if not same:
                    diffs.append(({"sg": rdflib.Graph().parse(data=based_shapes, format="turtle"), "data": based_data}, "shapes document with a base IRI: the report parsed back from %s differs from the report graph of the API" % fmt, refb, None, kw_))
        # ---- literals with line breaks, blanks before line breaks and other line-separator characters in values and messages:
        # the command line prints the serialised report byte for byte
        ml_shapes = ("@prefix sh: <http://www.w3.org/ns/shacl#> . @prefix ex: <http://ex.org/> .\n"
                     "ex:ML a sh:NodeShape ; sh:targetClass ex:T ; sh:property [ sh:path ex:note ; sh:maxLength 3 ; sh:message \"\"\"too long: \nsecond line\t\n third \"\"\" ] .\n")
        ml_data = rdflib.Graph()
        for k_, txt in enumerate(["line one \nline two", "tab\t\nx  ", "sep\u2028arator", "nel\u0085x", "  lead and trail  \n", "cr\r\nlf"]):
            ml_data.add((EX["m%d" % k_], RDF.type, EX.T))
            ml_data.add((EX["m%d" % k_], EX.note, Literal(txt)))
        ms_path, md_path = os.path.join(d, "ml_shapes.ttl"), os.path.join(d, "ml_data.nt")
        open(ms_path, "w").write(ml_shapes)
        ml_data.serialize(destination=md_path, format="nt")
        ref_ml = S.run_validate(md_path, ms_path)
        if ref_ml[0] == "ok":
            for fmt in GRAPH_FORMATS + ["human", "table"]:
                cli_jobs.append(({"sg": rdflib.Graph().parse(data=ml_shapes, format="turtle"), "data": ml_data}, ref_ml, fmt, ["-s", ms_path, "-f", fmt, md_path], {}))
            stats["multi_line_literal_cli_cases"] = 1
        ref_files = S.run_validate(bd_path, bs_path)
        if ref_files[0] == "ok":
            for fmt in GRAPH_FORMATS + ["human", "table"]:
                cli_jobs.append(({"sg": rdflib.Graph().parse(data=based_shapes, format="turtle"), "data": based_data}, ref_files, fmt, ["-s", bs_path, "-f", fmt, bd_path], {}))
        # a DATA document that states its base in a '# baseURI:' header (or @base) and names its nodes by relative IRIs: the command line
        # (which opens the file itself) and the API (given the path) must read the same graph
        for hdr_i, hdr in enumerate(("# baseURI: http://ex.org/\n", "@base <http://ex.org/> .\n", "# baseURI: http://ex.org/\n# prefix: ex\n")):
            rd_text = hdr + "@prefix ex: <http://ex.org/> .\n<n0> a ex:T ; ex:p <n1> , \"lit\" .\n<n1> a ex:T .\n<sub/n2> a ex:T ; ex:p 5 .\n"
            rs_text = ("@prefix sh: <http://www.w3.org/ns/shacl#> . @prefix ex: <http://ex.org/> .\n"
                       "ex:RS a sh:NodeShape ; sh:targetNode ex:n0 , <http://ex.org/sub/n2> , ex:absent ; sh:class ex:T ; sh:property [ sh:path ex:p ; sh:nodeKind sh:IRI ; sh:minCount 1 ] .\n")
            rd_path, rs_path = os.path.join(d, "rel_data%d.ttl" % hdr_i), os.path.join(d, "rel_shapes%d.ttl" % hdr_i)
            open(rd_path, "w").write(rd_text)
            open(rs_path, "w").write(rs_text)
            ref_rel = S.run_validate(rd_path, rs_path)
            if ref_rel[0] == "ok":
                stats["based_data_cli_cases"] = stats.get("based_data_cli_cases", 0) + 1
                rel_case = {"sg": rdflib.Graph().parse(data=rs_text, format="turtle"), "data": rdflib.Graph().parse(data=rd_text, format="turtle", publicID="http://ex.org/")}
                for fmt in GRAPH_FORMATS + ["human", "table"]:
                    cli_jobs.append((rel_case, ref_rel, fmt, ["-s", rs_path, "-f", fmt, rd_path], {}))
        # a blank value node whose description nests blank nodes far deeper than the report copies: whatever is left out, nothing but
        # the report reaches the standard output of the command line
        deep = "\"leaf\""
        for _k in range(14):
            deep = "[ ex:q %s ; ex:r %d ]" % (deep, _k)
        dd_text = "@prefix ex: <http://ex.org/> .\nex:a a ex:T ; ex:p %s .\n" % deep
        ds_text = "@prefix sh: <http://www.w3.org/ns/shacl#> . @prefix ex: <http://ex.org/> .\nex:DS a sh:NodeShape ; sh:targetClass ex:T ; sh:property [ sh:path ex:p ; sh:nodeKind sh:IRI ] .\n"
        dd_path, dsp_path = os.path.join(d, "deep_data.ttl"), os.path.join(d, "deep_shapes.ttl")
        open(dd_path, "w").write(dd_text)
        open(dsp_path, "w").write(ds_text)
        ref_deep = S.run_validate(dd_path, dsp_path)
        if ref_deep[0] == "ok":
            stats["deep_blank_value_cli_cases"] = 1
            deep_case = {"sg": rdflib.Graph().parse(data=ds_text, format="turtle"), "data": rdflib.Graph().parse(data=dd_text, format="turtle")}
            for fmt in GRAPH_FORMATS + ["human", "table"]:
                cli_jobs.append((deep_case, ref_deep, fmt, ["-s", dsp_path, "-f", fmt, dd_path], {}))
        # non-ASCII text (Latin-1 letters, CJK, an astral character) in values and messages, printed to the standard output and written
        # with -o FILE: the file's bytes are the serialised report (UTF-8, as serialize_report_graph returns it)
        na_shapes = ("@prefix sh: <http://www.w3.org/ns/shacl#> . @prefix ex: <http://ex.org/> .\n"
                     "ex:NA a sh:NodeShape ; sh:targetClass ex:T ; sh:property [ sh:path ex:name ; sh:maxLength 3 ; sh:message \"Name zu lang, bitte k\u00fcrzen\"@de , \"\u957f\u3059\u304e\" ] .\n")
        na_data = rdflib.Graph()
        for k_, txt in enumerate(["J\u00fcrgen M\u00fcller", "\u65e5\u672c\u8a9e\u306e\u540d\u524d", "smile \U0001F600 face", "na\u00efve \u20ac", "plain"]):
            na_data.add((EX["u%d" % k_], RDF.type, EX.T))
            na_data.add((EX["u%d" % k_], EX.name, Literal(txt, lang="de") if k_ == 0 else Literal(txt)))
        ns_path, nd_path = os.path.join(d, "na_shapes.ttl"), os.path.join(d, "na_data.nt")
        open(ns_path, "w", encoding="utf-8").write(na_shapes)
        na_data.serialize(destination=nd_path, format="nt")
        ref_na = S.run_validate(nd_path, ns_path)
        if ref_na[0] == "ok":
            na_case = {"sg": rdflib.Graph().parse(data=na_shapes, format="turtle"), "data": na_data}
            for fmt in GRAPH_FORMATS + ["human", "table"]:
                cli_jobs.append((na_case, ref_na, fmt, ["-s", ns_path, "-f", fmt, nd_path], {}))
                cli_jobs.append((na_case, ref_na, fmt, ["-s", ns_path, "-f", fmt, "-o", os.path.join(d, "na_out_%s.txt" % fmt), nd_path], {}))
            stats["non_ascii_cli_cases"] = 2
        # the same for one of the ordinary cases: what -o FILE holds is what the standard output would have shown
        for job in [j_ for j_ in cli_jobs if "-o" not in j_[3]][:7]:
            cli_jobs.append(job[:3] + (job[3][:-1] + ["-o", os.path.join(d, "o_%d.txt" % len(cli_jobs)), job[3][-1]], job[4]))

        def run_job(job):
            code, out, err = c16.cli_run(job[3])
            if "-o" in job[3]:
                try:
                    out = open(job[3][job[3].index("-o") + 1], "rb").read().decode("utf-8")
                except Exception as e:
                    out = None
                    err = "the file written by -o FILE cannot be read as UTF-8: %s: %s" % (type(e).__name__, str(e)[:120])
            return code, out, err

        with ThreadPoolExecutor(max_workers=12) as ex:
            outs = list(ex.map(run_job, cli_jobs))
        for (c, ref, fmt, args, opts), (code, out, err) in zip(cli_jobs, outs):
            stats["cli_runs"] += 1
            want = 0 if ref[1] else 1
            if code != want:
                diffs.append((c, "`python -m pyshacl %s` exit status %s, the API verdict is conforms=%s: %s" % (" ".join(a_ for a_ in args if a_.startswith("-")), code, ref[1], err[-200:]), ref, None, opts))
                continue
            if out is None:
                diffs.append((c, "`python -m pyshacl -f %s -o FILE`: %s" % (fmt, err), ref, None, opts))
                continue
            stats["cli_runs_to_a_file"] = stats.get("cli_runs_to_a_file", 0) + (1 if "-o" in args else 0)
            if fmt == "human":
                v, nres = parse_human(out)
                if v != ref[1] or nres != len(ref[2]):
                    diffs.append((c, "the human format states conforms=%s with %d results; the API report has conforms=%s with %d results" % (v, nres, ref[1], len(ref[2])), ref, None, opts))
            elif fmt == "table":
                v, nres = parse_table(out)
                if v != ref[1] or (not ref[1] and nres != len(ref[2])):
                    diffs.append((c, "the table format states conforms=%s with %d rows; the API report has conforms=%s with %d results" % (v, nres, ref[1], len(ref[2])), ref, None, opts))
            else:
                try:
                    with plain_parse():
                        g1 = rdflib.Graph().parse(data=out, format=fmt)
                except Exception as e:
                    if fmt in ("turtle", "n3") and has_ill_typed_shorthand(ref[4]) and KNOWN_SHORTHAND in known:
                        rep.known_finding(KNOWN_SHORTHAND, "rdflib's Turtle/N3 serialiser writes an ill-typed xsd:boolean/integer/decimal/double literal (e.g. \"maybe\"^^xsd:boolean) in bare shorthand form: the serialised report does not parse")
                        continue
                    diffs.append((c, "the output of -f %s does not parse: %s" % (fmt, str(e)[:150]), ref, None, opts))
                    continue
                try:
                    o1 = ("ok", None, S.parse_report(g1))
                except Exception as e:
                    diffs.append((c, "what `-f %s%s` wrote is no validation report (%d triples, %d report nodes): %s" % (fmt, " -o FILE" if "-o" in args else "", len(g1), len(list(g1.subjects(RDF.type, SH.ValidationReport))), err[-300:]), ref, None, opts))
                    continue
                conf = [o for o in g1.objects(None, SH.conforms)]
                same = len(conf) == 1 and bool(conf[0].value) == ref[1] and keys_iso(o1) == keys_iso(ref)
                if same and fmt != "json-ld":
                    same = isomorphic(ref[4], g1) or isomorphic(label_free_messages(ref[4]), label_free_messages(g1))
                if not same and fmt in ("turtle", "n3", "json-ld") and KNOWN_NATIVE in known:
                    if fmt != "json-ld" and KNOWN_LISTS in known and only_extra_list_cells(ref[4], g1):
                        rep.known_finding(KNOWN_LISTS, LISTS_WHAT)
                        continue
                    c0, c1 = canon_literals(ref[4]), canon_literals(g1)
                    if keys_iso(("ok", None, S.parse_report(c0))) == keys_iso(("ok", None, S.parse_report(c1))) and (fmt == "json-ld" or isomorphic(c0, c1)):
                        rep.known_finding(KNOWN_NATIVE, NATIVE_WHAT)
                        continue
                    if fmt != "json-ld" and KNOWN_LISTS in known and keys_iso(("ok", None, S.parse_report(c0))) == keys_iso(("ok", None, S.parse_report(c1))) and only_extra_list_cells(c0, c1):
                        rep.known_finding(KNOWN_NATIVE, NATIVE_WHAT)
                        rep.known_finding(KNOWN_LISTS, LISTS_WHAT)
                        continue
                if not same:
                    diffs.append((c, "the report printed by -f %s differs from the report graph of the API for the same files" % fmt, ref, o1, opts))
    finally:
        shutil.rmtree(d, ignore_errors=True)

    for c, what, o1, o2, opts in diffs[:8]:
        dsc = S.describe_case(c["sg"], c["data"], opts, o1)
        dsc["what"] = what
        if o2 is not None:
            dsc["other_observed"] = S.describe_case(c["sg"], c["data"], opts, o2[:3])["observed"]
            if len(o2) > 3:
                dsc["graph_difference"] = o2[3]
        rep.violation(dsc)
    for b in opt_bad[:5]:
        rep.violation(b)
    for k in failed[:5]:
        dd = dict(meta[k])
        dd["what"] = "Tie A: cli.main() passed a keyword to validate() that the table generated from its source does not contain"
        rep.violation(dd)
    if (not ob.ok or errors) and not rep.violations:
        rep.violation({"obligation": ob.broken or errors, "detail": ob.log[-1500:]}, no_input=True)
    cov = F.proof_coverage(ob, [
        "translator/t3.py: argparse destinations, the validator_kwargs assignments of cli.main() and the keywords read by entrypoints.validate (fail-closed on the statement shapes it knows)",
        "rdflib's serialisers and parsers: the round trip of the report graph is observed, not proved",
    ])
    cov.update({
        "evaluations": len(bodies) + stats["api_roundtrips"] + stats["cli_runs"],
        "distinct_nontrivial": stats["api_roundtrips"] + stats["cli_runs"],
        "rule": "(1) Tie A: cli.main() in-process with validate() replaced by a recorder, 21 flag sets and every pair of 11 independent flags (both orders for a third of them): every keyword received is in the generated table, and the values of max-depth/inference/abort/allow/advanced/iterate/meta/focus/format arrive unchanged; "
                "(2) API: reports of random cases (all literal kinds and language tags, blank-node value nodes, complex paths, sh:detail nesting) x turtle/xml/json-ld/nt/n3: the returned bytes parse back to the same verdict and result keys, and (except JSON-LD) to a graph isomorphic to the report graph; "
                "(2b) shapes documents stating a base IRI ('# baseURI:' header, @base, own file) with report IRIs under and next to the base, all five formats; (2b') data documents with a '# baseURI:' header / @base and relative IRIs through the command line and the API; (2c) values and messages with line breaks, blanks before line breaks, U+2028 / U+0085 / CR LF through the command line; (3) CLI: `python -m pyshacl -f fmt` on the same files for the five graph formats + human + table: parsed output = API report (isomorphic / verdict and result count), exit status 0 iff conforms",
        "distribution": dict(stats, option_cases=len(bodies), differences=len(diffs), option_value_errors=len(opt_bad), table_disagreements=len(failed)),
        "samples": meta[:1],
        "exhaustive": False,
    })
    rep.coverage = cov
    rep.assumptions = ["JSON-LD may duplicate RDF lists shared between results: compared through verdict and result keys only"]
    return rep.finish()
