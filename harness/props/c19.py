"""C19 - always terminates; nesting exact below the depth limit, loud error above it."""
import signal

from rdflib import BNode, URIRef

from .. import enc, framework as F, shapes as S, evalcheck as EC
from ..enc import EX

PROP = "C19"
LINKS = ["node", "property", "not", "or", "qualified", "and", "xone"]


def chain_shapes(rng, n, nodes, lits):
    """S0 -> S1 -> ... -> Sn through mixed shape-expecting links; Sn carries a leaf constraint."""
    shapes = []
    kinds = [rng.choice(LINKS) for _ in range(n)]
    for i in range(n + 1):
        sid = EX["S%d" % i] if (i == 0 or rng.random() < 0.5) else BNode("s%d" % i)
        # a shape referenced through sh:property must be a property shape, through sh:node a node shape
        is_prop = (i > 0 and kinds[i - 1] == "property") or (i > 0 and kinds[i - 1] not in ("node", "property") and rng.random() < 0.4) or (i == 0 and rng.random() < 0.3)
        if i < n and kinds[i] == "qualified":
            is_prop = True if not (i > 0 and kinds[i - 1] == "node") else False
        shapes.append(S.new_shape(sid, ("pred", rng.choice(S.PREDS)) if is_prop else None))
    for i in range(n):
        k, ref = kinds[i], shapes[i + 1]["id"]
        if k == "node" and shapes[i + 1]["path"] is not None:
            k = "not"
        if k in ("and", "or", "xone"):
            shapes[i]["comps"].append((k, [[ref]]))
        elif k == "qualified":
            shapes[i]["comps"].append((k, [ref], 1, None, False))
        else:
            shapes[i]["comps"].append((k, [ref]))
    shapes[n]["comps"].append(S.gen_leaf(rng, shapes[n]["path"] is not None, nodes, lits))
    iri_nodes = [x for x in nodes if isinstance(x, URIRef)]
    shapes[0]["targets"]["nodes"] = rng.sample(iri_nodes, min(2, len(iri_nodes)))
    return shapes


def gen_cases(rng, tier):
    n_chain = 160 if tier == "quick" else 2500
    n_rec = 160 if tier == "quick" else 2500
    cases = []
    for _ in range(n_chain):
        data, nodes, lits = S.gen_typed_data(rng, n_iri=rng.randint(2, 4), n_bn=0, n_lit=1, n_triples=rng.randint(4, 10))
        m = rng.randint(1, 30)
        n = rng.choice([max(1, m - 2), max(1, m - 1), m, m + 1, min(2 * m, m + 8), rng.randint(1, 12)])
        shapes = chain_shapes(rng, n, nodes, lits)
        cases.append({"shapes": shapes, "sg": S.shapes_to_rdf(shapes), "data": data, "opts": {"max_validation_depth": m}, "kind": "chain"})
    for _ in range(n_chain // 2):
        # nesting that continues through a disjoint sibling of a qualified value shape
        data, nodes, lits = S.gen_typed_data(rng, n_iri=rng.randint(2, 4), n_bn=0, n_lit=1, n_triples=rng.randint(5, 10))
        deep = rng.randint(0, 6)
        shapes = S.tmpl_qualified(rng, nodes, lits, deep=deep, easy=True)
        m = rng.choice([max(1, deep), deep + 1, deep + 2, deep + 3, deep + 4, rng.randint(1, 8)])
        cases.append({"shapes": shapes, "sg": S.shapes_to_rdf(shapes), "data": data, "opts": {"max_validation_depth": m}, "kind": "sibling-chain"})
    for _ in range(n_chain // 2):
        # wide data: every node has several values for every predicate, so each link is evaluated for many sibling
        # value nodes; the depth of a chain must not depend on how many of them there are
        data, nodes, lits = S.gen_typed_data(rng, n_iri=rng.randint(3, 5), n_bn=0, n_lit=1, n_triples=2)
        for x in nodes:
            for p in S.PREDS:
                for o in rng.sample(nodes + lits, min(len(nodes + lits), rng.randint(2, 4))):
                    data.add((x, URIRef(p), o))
        m = rng.randint(2, 6)
        n = rng.choice([max(1, m - 2), max(1, m - 1), max(1, m - 1), m])
        shapes = chain_shapes(rng, n, nodes, lits)
        cases.append({"shapes": shapes, "sg": S.shapes_to_rdf(shapes), "data": data, "opts": {"max_validation_depth": m}, "kind": "wide-chain"})
    for _ in range(n_rec):
        data, nodes, lits = S.gen_typed_data(rng, n_iri=rng.randint(2, 3), n_bn=0, n_lit=1, n_triples=rng.randint(3, 8))
        shapes = S.gen_shapes(rng, nodes, lits, n_shapes=rng.randint(1, 4), recursive=True, p_deact=0.05, sev=False)
        cases.append({"shapes": shapes, "sg": S.shapes_to_rdf(shapes), "data": data, "opts": {"max_validation_depth": rng.randint(1, 6)}, "kind": "recursive"})
    return cases


class Timeout(Exception):
    pass


def main(tier, seed, replay=None):
    rng = F.rng_for(seed, PROP)
    cases = gen_cases(rng, tier)
    orig = S.run_validate

    def timed(data, sg, **opts):
        def handler(signum, frame):
            raise Timeout()
        old = signal.signal(signal.SIGALRM, handler)
        signal.alarm(30)
        try:
            return orig(data, sg, **opts)
        except Timeout:
            return ("err", "RAW:Timeout(30s)", "no verdict within the wall-clock limit")
        finally:
            signal.alarm(0)
            signal.signal(signal.SIGALRM, old)

    S.run_validate = timed
    import warnings
    warnings.simplefilter("ignore")
    try:
        return EC.standard_main(
            PROP, ["Props/C19.v"], tier, seed, cases,
            rule="case = (a) chain of n shapes through mixed node/property/not/or/and/xone/qualified links with max_validation_depth m in 1..30 and n around m and up to 2m; (a') the same chains with m in 2..6 over wide data (2-4 values per node and predicate); (b) random shapes graphs with arbitrary cyclic references (self-loops, mutual recursion) over cyclic data with m in 1..6; every run under a 30 s wall-clock limit; outcome (report or 'too deep' failure) compared with the model, which contains the depth test and recursion_triggers",
            what="outcome differs from the model of depth limiting / recursion back-out (Props.C19)",
        )
    finally:
        S.run_validate = orig
