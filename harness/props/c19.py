"""C19 - always terminates; nesting exact below the depth limit, loud error above it."""
import signal

from rdflib import BNode, URIRef

from .. import enc, framework as F, shapes as S, evalcheck as EC
from ..enc import EX

PROP = "C19"
LINKS = ["node", "property", "not", "or", "qualified", "and", "xone"]


def chain_shapes(rng, n, nodes, lits):
    """S0 -> S1 -> ... -> Sn through mixed shape-expecting links; Sn carries a leaf constraint."""
    shapes = []
    kinds = [rng.choice(LINKS) for _ in range(n)]
    for i in range(n + 1):
        sid = EX["S%d" % i] if (i == 0 or rng.random() < 0.5) else BNode("s%d" % i)
        # a shape referenced through sh:property must be a property shape, through sh:node a node shape
        is_prop = (i > 0 and kinds[i - 1] == "property") or (i > 0 and kinds[i - 1] not in ("node", "property") and rng.random() < 0.4) or (i == 0 and rng.random() < 0.3)
        if i < n and kinds[i] == "qualified":
            is_prop = True if not (i > 0 and kinds[i - 1] == "node") else False
        shapes.append(S.new_shape(sid, ("pred", rng.choice(S.PREDS)) if is_prop else None))
    for i in range(n):
        k, ref = kinds[i], shapes[i + 1]["id"]
        if k == "node" and shapes[i + 1]["path"] is not None:
            k = "not"
        if k in ("and", "or", "xone"):
            shapes[i]["comps"].append((k, [[ref]]))
        elif k == "qualified":
            shapes[i]["comps"].append((k, [ref], 1, None, False))
        else:
            shapes[i]["comps"].append((k, [ref]))
    shapes[n]["comps"].append(S.gen_leaf(rng, shapes[n]["path"] is not None, nodes, lits))
    iri_nodes = [x for x in nodes if isinstance(x, URIRef)]
    shapes[0]["targets"]["nodes"] = rng.sample(iri_nodes, min(2, len(iri_nodes)))
    return shapes


def gen_cases(rng, tier):
    n_chain = 160 if tier == "quick" else 2500
    n_rec = 160 if tier == "quick" else 2500
    cases = []
    for _ in range(n_chain):
        data, nodes, lits = S.gen_typed_data(rng, n_iri=rng.randint(2, 4), n_bn=0, n_lit=1, n_triples=rng.randint(4, 10))
        m = rng.randint(1, 30)
        n = rng.choice([max(1, m - 2), max(1, m - 1), m, m + 1, min(2 * m, m + 8), rng.randint(1, 12)])
        shapes = chain_shapes(rng, n, nodes, lits)
        cases.append({"shapes": shapes, "sg": S.shapes_to_rdf(shapes), "data": data, "opts": {"max_validation_depth": m}, "kind": "chain"})
    for _ in range(n_chain // 2):
        # nesting that continues through a disjoint sibling of a qualified value shape
        data, nodes, lits = S.gen_typed_data(rng, n_iri=rng.randint(2, 4), n_bn=0, n_lit=1, n_triples=rng.randint(5, 10))
        deep = rng.randint(0, 6)
        shapes = S.tmpl_qualified(rng, nodes, lits, deep=deep, easy=True)
        m = rng.choice([max(1, deep), deep + 1, deep + 2, deep + 3, deep + 4, rng.randint(1, 8)])
        cases.append({"shapes": shapes, "sg": S.shapes_to_rdf(shapes), "data": data, "opts": {"max_validation_depth": m}, "kind": "sibling-chain"})
    for _ in range(n_chain // 2):
        # wide data: every node has several values for every predicate, so each link is evaluated for many sibling
        # value nodes; the depth of a chain must not depend on how many of them there are
        data, nodes, lits = S.gen_typed_data(rng, n_iri=rng.randint(3, 5), n_bn=0, n_lit=1, n_triples=2)
        for x in nodes:
            for p in S.PREDS:
                for o in rng.sample(nodes + lits, min(len(nodes + lits), rng.randint(2, 4))):
                    data.add((x, URIRef(p), o))
        m = rng.randint(2, 6)
        n = rng.choice([max(1, m - 2), max(1, m - 1), max(1, m - 1), m])
        shapes = chain_shapes(rng, n, nodes, lits)
        cases.append({"shapes": shapes, "sg": S.shapes_to_rdf(shapes), "data": data, "opts": {"max_validation_depth": m}, "kind": "wide-chain"})
    for _ in range(n_rec):
        data, nodes, lits = S.gen_typed_data(rng, n_iri=rng.randint(2, 3), n_bn=0, n_lit=1, n_triples=rng.randint(3, 8))
        shapes = S.gen_shapes(rng, nodes, lits, n_shapes=rng.randint(1, 4), recursive=True, p_deact=0.05, sev=False)
        cases.append({"shapes": shapes, "sg": S.shapes_to_rdf(shapes), "data": data, "opts": {"max_validation_depth": rng.randint(1, 6)}, "kind": "recursive"})
    return cases


class Timeout(Exception):
    pass


CYCLIC_TTL = {
    "path: inverse of itself": "sh:property [ sh:path _:p ; sh:minCount 1 ] . _:p sh:inversePath _:p",
    "path: inverse ring of two": "sh:property [ sh:path _:p ; sh:minCount 1 ] . _:p sh:inversePath _:q . _:q sh:inversePath _:p",
    "path: inverse ring of three": "sh:property [ sh:path _:p ; sh:minCount 1 ] . _:p sh:inversePath _:q . _:q sh:inversePath _:r . _:r sh:inversePath _:p",
    "path: zeroOrMore of itself": "sh:property [ sh:path _:p ; sh:minCount 1 ] . _:p sh:zeroOrMorePath _:p",
    "path: oneOrMore / zeroOrOne ring": "sh:property [ sh:path _:p ; sh:minCount 1 ] . _:p sh:oneOrMorePath _:q . _:q sh:zeroOrOnePath _:p",
    "path: alternative containing itself": "sh:property [ sh:path _:p ; sh:minCount 1 ] . _:p sh:alternativePath ( ex:p _:p )",
    "path: sequence containing itself": "sh:property [ sh:path _:p ; sh:minCount 1 ] . _:p rdf:first ex:p ; rdf:rest ( _:p )",
    "path: inverse inside a sequence cycle": "sh:property [ sh:path _:p ; sh:minCount 1 ] . _:p rdf:first [ sh:inversePath _:p ] ; rdf:rest ( ex:p )",
    "path: legal nested inverses": "sh:property [ sh:path [ sh:inversePath [ sh:inversePath [ sh:inversePath ex:p ] ] ] ; sh:minCount 1 ]",
    "expression: filterShape over itself": "sh:expression _:e . _:e sh:filterShape [ sh:nodeKind sh:IRI ] ; sh:nodes _:e",
    "expression: union containing itself": "sh:expression _:e . _:e sh:union ( sh:this _:e )",
    "expression: intersection ring": "sh:expression _:e . _:e sh:intersection ( _:f ) . _:f sh:intersection ( _:e )",
    "expression: path expression over a cyclic path": "sh:expression [ sh:path _:p ] . _:p sh:inversePath _:p",
    "rule object: filterShape over itself": "sh:rule [ a sh:TripleRule ; sh:subject sh:this ; sh:predicate ex:q ; sh:object _:e ] . _:e sh:filterShape [ sh:nodeKind sh:IRI ] ; sh:nodes _:e",
}


def combine(a, b):
    stats = dict(a[0])
    stats.update(b[0])
    return stats, a[1] + b[1], a[2] + b[2]


def cyclic_structures(run):
    """path structures and node expressions that refer to themselves: validate() must end with a verdict or a documented
    failure (never RecursionError, never a hang), in every mode that walks them"""
    import rdflib
    import pyshacl
    pfx = "@prefix sh: <http://www.w3.org/ns/shacl#> . @prefix ex: <http://ex.org/> . @prefix rdf: <http://www.w3.org/1999/02/22-rdf-syntax-ns#> .\n"
    data = rdflib.Graph().parse(data=pfx + "ex:a a ex:T ; ex:p ex:b . ex:b ex:p ex:a , ex:c . ex:c ex:p ex:c .", format="turtle")
    stats, fails = {"cyclic_structure_cases": 0, "cyclic_structure_outcomes": {}}, []
    for name, body in CYCLIC_TTL.items():
        ttl = pfx + "ex:CS a sh:NodeShape ; sh:targetClass ex:T ; " + body + " ."
        try:
            sg = rdflib.Graph().parse(data=ttl, format="turtle")
        except Exception as e:
            fails.append({"what": "harness: cyclic structure case does not parse: %s" % e, "case": name})
            continue
        for opts in ({}, {"advanced": True}, {"advanced": True, "sparql_mode": True} if name.startswith("path") else {"advanced": True, "abort_on_first": True}):
            o = run(data, sg, **opts)
            stats["cyclic_structure_cases"] += 1
            k = o[1] if o[0] == "err" else "verdict"
            stats["cyclic_structure_outcomes"][k] = stats["cyclic_structure_outcomes"].get(k, 0) + 1
            if o[0] == "err" and o[1].startswith("RAW:"):
                fails.append({"what": "a self-referring %s ends in %s instead of a verdict or a documented failure" % (name.split(":")[0], o[1][4:]),
                              "case": name, "options": opts, "shapes_ttl": ttl, "detail": o[2][:300]})
    return stats, fails, []


def selected_runs(run, cases, rng, tier):
    """the same recursive / chained shapes graphs with a selection (use_shapes, focus_nodes): the selected shapes are loaded by
    a walk of their own over the shape references - it must end as well (a verdict or a documented failure)"""
    stats, fails = {"selected_run_cases": 0, "selected_run_outcomes": {}}, []
    pool = [c for c in cases if c["kind"] in ("recursive", "chain")]
    for c in rng.sample(pool, min(len(pool), 80 if tier == "quick" else 800)):
        named = [s_["id"] for s_ in c["shapes"] if isinstance(s_["id"], URIRef)]
        if not named:
            continue
        opts = dict(c["opts"], use_shapes=[str(x) for x in rng.sample(named, rng.randint(1, min(2, len(named))))])
        if rng.random() < 0.4:
            iris = sorted({x for x in c["data"].subjects() if isinstance(x, URIRef)})
            if iris:
                opts["focus_nodes"] = [str(rng.choice(iris))]
        o = run(c["data"], c["sg"], **opts)
        stats["selected_run_cases"] += 1
        k = o[1] if o[0] == "err" else "verdict"
        stats["selected_run_outcomes"][k] = stats["selected_run_outcomes"].get(k, 0) + 1
        if o[0] == "err" and o[1].startswith("RAW:"):
            d = S.describe_case(c["sg"], c["data"], opts, o)
            d["what"] = "validating selected shapes of a %s shapes graph ends in %s instead of a verdict or a documented failure" % (c["kind"], o[1][4:])
            fails.append(d)
        if c["kind"] == "chain":
            # the root of a chain is the only shape with targets, and they are explicit IRIs: selecting exactly it, with exactly them, is the
            # same validation - the same depth limit applies (a verdict below it, 'too deep' at or beyond it)
            root = c["shapes"][0]
            sel = dict(c["opts"], use_shapes=[str(root["id"])], focus_nodes=[str(x) for x in root["targets"]["nodes"]])
            plain_o = run(c["data"], c["sg"], **c["opts"])
            sel_o = run(c["data"], c["sg"], **sel)
            stats["selected_equals_plain_cases"] = stats.get("selected_equals_plain_cases", 0) + 1
            if sel_o[:2] != plain_o[:2] or (plain_o[0] == "ok" and EC.keys(sel_o) != EC.keys(plain_o)):
                d = S.describe_case(c["sg"], c["data"], sel, sel_o)
                d["what"] = "a chain validated through use_shapes=[root] and focus_nodes=[the root's targets] (max_validation_depth=%s) ends otherwise than the same chain validated through its target declarations: %r versus %r" % (c["opts"].get("max_validation_depth"), sel_o[:2], plain_o[:2])
                fails.append(d)
    return stats, fails, []


def main(tier, seed, replay=None):
    rng = F.rng_for(seed, PROP)
    cases = gen_cases(rng, tier)
    orig = S.run_validate

    def timed(data, sg, **opts):
        def handler(signum, frame):
            raise Timeout()
        old = signal.signal(signal.SIGALRM, handler)
        signal.alarm(30)
        try:
            return orig(data, sg, **opts)
        except Timeout:
            return ("err", "RAW:Timeout(30s)", "no verdict within the wall-clock limit")
        finally:
            signal.alarm(0)
            signal.signal(signal.SIGALRM, old)

    S.run_validate = timed
    import warnings
    warnings.simplefilter("ignore")
    try:
        return EC.standard_main(
            PROP, ["Props/C19.v"], tier, seed, cases,
            rule="case = (a) chain of n shapes through mixed node/property/not/or/and/xone/qualified links with max_validation_depth m in 1..30 and n around m and up to 2m; (a') the same chains with m in 2..6 over wide data (2-4 values per node and predicate); (b) random shapes graphs with arbitrary cyclic references (self-loops, mutual recursion) over cyclic data with m in 1..6; every run under a 30 s wall-clock limit; (c) self-referring path structures (inverse / star / alternative / sequence rings) and node expressions (filterShape, union, intersection over themselves) in default, advanced and sparql mode: a verdict or a documented failure, never RecursionError; (d) recursive and chained shapes graphs of (a)/(b) validated with use_shapes (and focus_nodes) selections: a verdict or a documented failure; outcome (report or 'too deep' failure) compared with the model, which contains the depth test and recursion_triggers",
            what="outcome differs from the model of depth limiting / recursion back-out (Props.C19)",
            extra_checks=lambda: combine(cyclic_structures(timed), selected_runs(timed, cases, F.rng_for(seed, PROP + "sel"), tier)),
        )
    finally:
        S.run_validate = orig
