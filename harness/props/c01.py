"""C01 - core constraint components flag exactly the value nodes the SHACL text names."""
import rdflib
from rdflib import BNode, Literal, URIRef
from rdflib.namespace import RDF, RDFS, XSD

from .. import enc, framework as F, shapes as S, evalcheck as EC, leaves as LV
from ..enc import EX, SH

PROP = "C01"


def make_case(rng):
    c = LV.gen_case(rng)
    c["sg"] = S.shapes_to_rdf(c["shapes"])
    c["opts"] = {}

    def render(I, c=c):
        W = LV.World(I)
        terms = set()
        for tr in c["data"]:
            terms.update(tr)
        for s in c["shapes"]:
            for x in s["targets"]["nodes"]:
                terms.add(x)
            for comp in s["comps"]:
                if comp[0] in ("hasvalue", "in"):
                    terms.update(comp[1])
        for t in sorted(terms, key=lambda t: (type(t).__name__, str(t), str(getattr(t, "datatype", "")), str(getattr(t, "language", "")))):
            W.add_term(t)
        env = S.env_to_coq(I, c["shapes"], W, sorted(terms, key=str))
        return W.to_coq(), env

    c["render"] = render
    return c


def known_finding_cases():
    """inputs of the findings listed in known_findings.jsonl: the check reports them as KNOWN-FINDING"""
    out = []
    # sh:closed ignores an explicit rdf:type rdfs:Resource triple
    sg = rdflib.Graph()
    sg.add((EX.K1, RDF.type, SH.NodeShape)); sg.add((EX.K1, SH.targetNode, EX.a)); sg.add((EX.K1, SH.closed, Literal(True)))
    dg = rdflib.Graph(); dg.add((EX.a, RDF.type, RDFS.Resource))
    out.append(("C01-closed-rdfs-resource", sg, dg, lambda conforms, results: conforms is True,
                "sh:closed does not report the triple (x rdf:type rdfs:Resource): ClosedConstraintComponent.ALWAYS_IGNORE (other_constraints.py:110)"))
    # sh:datatype rdfs:Literal / rdfs:Datatype accept literals of any datatype
    sg = rdflib.Graph()
    sg.add((EX.K2, RDF.type, SH.NodeShape)); sg.add((EX.K2, SH.targetNode, Literal(5))); sg.add((EX.K2, SH.datatype, RDFS.Literal))
    out.append(("C01-datatype-rdfs-literal", sg, rdflib.Graph(), lambda conforms, results: conforms is True,
                "sh:datatype rdfs:Literal (and rdfs:Datatype) accepts literals whose datatype is a different IRI (value_constraints.py DatatypeConstraintComponent.evaluate special cases)"))
    return out


def main(tier, seed, replay=None):
    rng = F.rng_for(seed, PROP)
    cases = [make_case(rng) for _ in range(500 if tier == "quick" else 8000)]
    known = F.load_known_findings(PROP)
    ids = {k.get("id") for k in known}
    extra = {"observed": []}

    def metamorphic(cs, obs):
        bad = []
        # the listed findings: re-observe them (KNOWN-FINDING) or notice that they are gone
        for fid, sg, dg, still, what in known_finding_cases():
            o = S.run_validate(dg, sg)
            if o[0] == "ok" and still(o[1], o[2]):
                if fid in ids:
                    extra["observed"].append((fid, what))
                else:
                    bad.append((0, "unlisted deviation: " + what))
        # verdict <-> no results on the real code
        for i, o in enumerate(obs):
            if o[0] == "ok" and o[1] != (len(o[2]) == 0):
                bad.append((i, "verdict %s with %d results" % (o[1], len(o[2]))))
            if o[0] == "ok":
                for r in o[2]:
                    if r[7] > 1 or r[8] > 1:
                        bad.append((i, "a result has more than one sh:value or sh:resultPath"))
        return bad

    import harness.framework as FW
    orig_finish = FW.Report.finish

    def finish(self, level="proof"):
        for fid, what in extra["observed"]:
            self.known_finding(fid, what)
        return orig_finish(self, level)

    FW.Report.finish = finish
    try:
        return EC.standard_main(
            PROP, ["Props/C01.v"], tier, seed, cases,
            rule="case = 1-3 node/property shapes, each with 1-3 of the 21 core leaf components (class, datatype, nodeKind, min/maxCount, four range components, min/maxLength, pattern(+flags), languageIn, uniqueLang, equals, disjoint, lessThan, lessThanOrEquals, hasValue, in, closed+ignoredProperties) with parameter values of every allowed kind, x data graphs whose value nodes are IRIs, blank nodes and literals of xsd:string, rdf:langString, integer/long/decimal/double/float, boolean, dateTime (with/without timezone), date, ill-typed lexical forms, a custom datatype; full report compared with the model (literal values, string lengths and regex matches supplied by the harness from rdflib/re)",
            what="results differ from the model of the core components (proved equal to the SPARQL-based specification: Props.C01)",
            metamorphic=metamorphic,
            extra_assumptions=["lexical-to-value mapping is rdflib's; regex matching is Python re (both enter the model as data)",
                               "left open by the property and not generated as deciding cases: NaN, two language-tagged strings or two IRIs under an order comparison, blank nodes under sh:minLength 0"],
        )
    finally:
        FW.Report.finish = orig_finish
